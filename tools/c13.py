"""C13 - the sequence library matches its executable specification (spec/SeqLib.tla).

(a) MC_SeqLib: TLC enumerates every input of length 0..3 (quick) / 0..4 (thorough) over a small
    alphabet x every input kind x every library function x numeric parameters {0, 1, 2, len, len+1} x
    predicate / key / combiner from the named family, checks the specification's own laws (sort:
    ordered + permutation + stable; unique idempotent; flatten . group n = id; windows; prefixes /
    suffixes; counts of permutations / subsequences / combinations) and prints for every case the
    acceptable results; each case is evaluated in the real interpreter and compared.
(b) Trace validation: seeded random inputs of length 0..8 with repeats and mixed element types;
    Trace_SeqLib.tla recomputes the acceptable results from the logged arguments.

Python renders source text and compares canonical values for equality (multisets where the
specification says the order is open); the meaning of every function is in SeqLib.tla.
"""
import json
import os
import random
import shutil

import nv

# ------------------------------------------------------------------ rendering
FN_SRC = {"even": "(\\x -> x % 2 == 0)", "lt2": "(<2)", "id": "id", "mod2": "(%2)", "isa": '(== "a")',
          "dup": "(\\x -> [x, x])", "const0": "(\\x -> 0)", "plus": "+", "max": "max", "sub": "-",
          "pair": "(\\a, b -> [a, b])", "lt": "<", "eq": "==", "cmp": "<=>", "rcmp": ">=<"}
ANYSEQ = {"power", "permutations", "combinations", "subsequences"}     # result kind (stream / list) not compared


def elem_src(e):
    if e["t"] == "i":
        return str(e["n"]) if e["n"] >= 0 else "(-%d)" % -e["n"]
    if e["t"] == "s":
        return json.dumps(e["s"])
    if e["t"] == "n":
        return "null"
    raise ValueError(e)


def input_src(kind, xs):
    els = [elem_src(e) for e in xs]
    if kind in ("list",):
        return "[" + ", ".join(els) + "]"
    if kind == "stream":
        return "stream([" + ", ".join(els) + "])"
    if kind in ("str", "text"):
        return json.dumps("".join(e["s"] for e in xs))
    if kind == "vec":
        return "V(" + ", ".join(els) + ")"
    if kind == "bytes":
        return "B[" + ", ".join(els) + "]"
    if kind == "dict":
        return "{" + ", ".join("%s: 0" % e for e in els) + "}"
    raise ValueError(kind)


def call_src(kind, xs, fn, par):
    a = input_src(kind, xs)
    f = FN_SRC.get(par["f"], "")
    # the numeric parameter, now and then held in big representation (its value is what counts)
    n = ("((2^70 + %d) - 2^70)" if par.get("nrep") == "B" else "%d") % par["n"]
    v = elem_src(par["v"]) if par["v"]["t"] != "n" else "null"
    o = "[" + ", ".join(elem_src(e) for e in par["o"]) + "]"
    infix = {"map": "map", "filter": "filter", "reject": "reject", "partition": "partition", "flat_map": "flat_map",
             "count_p": "count", "any_p": "any", "all_p": "all", "find": "find", "find?": "find?", "locate": "locate",
             "locate?": "locate?", "take": "take", "drop": "drop", "pairwise": "pairwise", "fold": "fold", "scan": "scan",
             "sort_cmp": "sort", "sort_on": "sort_on", "group_by": "group", "group_all": "group_all"}
    if fn in infix:
        return "(%s %s %s)" % (a, infix[fn], f)
    unary = {"flatten", "count", "any", "all", "enumerate", "sum", "product", "min", "max", "sort", "reverse", "unique",
             "group", "prefixes", "suffixes", "frequencies", "permutations", "subsequences", "words", "lines"}
    if fn in unary:
        return "%s(%s)" % (fn, a)
    if fn == "each":
        return "(acc = []; (%s each (\\x -> (acc +.= x))); acc)" % a
    if fn in ("count_v", "find_v", "find?_v", "locate_v", "locate?_v"):
        return "(%s %s %s)" % (a, fn[:-2], v)
    if fn == "zip":
        return "zip(%s, %s)" % (a, o)
    if fn == "zip_with":
        return "zip(%s, %s, %s)" % (a, o, f)
    if fn == "ziplongest":
        return "ziplongest(%s, %s)" % (a, o)
    if fn == "ziplongest_with":
        return "ziplongest(%s, %s, %s)" % (a, o, f)
    if fn == "ziplongest3_with":
        return "ziplongest(%s, %s, [100], %s)" % (a, o, f)
    if fn == "fold_from":
        return "(%s fold %s from %s)" % (a, f, v)
    if fn == "scan_from":
        return "(%s scan %s from %s)" % (a, f, v)
    if fn in ("group_n", "group'_n", "window", "combinations"):
        return "(%s %s %s)" % (a, {"group_n": "group", "group'_n": "group'"}.get(fn, fn), n)
    if fn == "concat":
        return "(%s ++ %s)" % (a, a)
    if fn == "prepend":
        return "(%s .+ %s)" % (v, a)
    if fn == "append":
        return "(%s +. %s)" % (a, v)
    if fn == "pair":
        return "(%s .. %s)" % (a, v)
    if fn == "replicate":
        return "(%s .* %s)" % (a, n)
    if fn == "replicate_r":
        return "(%s *. %s)" % (n, a)
    if fn == "product2":
        return "(%s ** %s)" % (a, o)
    if fn == "repeat":
        return "(%s ** %s)" % (a, n)
    if fn == "repeat_r":
        return "(%s ** %s)" % (n, a)
    if fn == "power":
        return "(%s ^^ %s)" % (a, n)
    if fn == "join":
        return "(%s join %s)" % (a, json.dumps(par["s"]))
    if fn == "split":
        return "(%s split %s)" % (a, json.dumps(par["s"]))
    if fn == "flatten_group":
        return "flatten(%s group %s)" % (a, n)
    if fn == "transpose_group":
        return "transpose(%s group %s)" % (a, n)
    raise ValueError(fn)


# ------------------------------------------------------------------ values
def rval(c, fn=None, top=True):
    """canonical harness value -> the tagged encoding of SeqLib.tla"""
    t = c["t"]
    if t == "int":
        n = int(c["v"])
        return {"t": "i", "n": n} if abs(n) < 2 ** 31 else {"t": "other", "k": "bigint"}
    if t == "str":
        return {"t": "s", "s": c["v"]}
    if t == "null":
        return {"t": "n"}
    if t == "list":
        return {"t": "l", "xs": [rval(x, fn, False) for x in c["v"]]}
    if t == "vec":
        return {"t": "v", "vs": [rval(x, fn, False) for x in c["v"]]}
    if t == "bytes":
        return {"t": "b", "bs": [{"t": "i", "n": int(x)} for x in c["v"]]}
    if t == "dict":
        return {"t": "d", "es": [[rval(k, fn, False), rval(v, fn, False)] for k, v in c["v"]],
                "df": [rval(c["def"], fn, False)] if "def" in c else []}
    if t == "stream" and top and fn in ANYSEQ and not c.get("more") and not c.get("err"):
        return {"t": "l", "xs": [rval(x, fn, False) for x in c["v"]]}
    return {"t": "other", "k": t}


def canon_key(v):
    return json.dumps(v, sort_keys=True)


def same(fn, e, o):
    if fn == "group_all":
        return o.get("t") == "l" and sorted(map(canon_key, e["xs"])) == sorted(map(canon_key, o["xs"]))
    if fn == "frequencies":
        return o.get("t") == "d" and sorted(map(canon_key, e["es"])) == sorted(map(canon_key, o["es"])) and e["df"] == o["df"]
    return e == o


def outcome(st):
    o = st.get("o")
    if o == "panic":
        return "panic:" + nv.norm_panic(st.get("e", ""))
    return o


def accepts(fn, alts, st):
    out = st.get("o")
    for a in alts:
        if a["out"] == "unspec":
            return True
        if a["out"] == "throw" and out == "throw":
            return True
        if a["out"] == "ok" and out == "ok" and same(fn, a["r"], rval(st["v"], fn)):
            return True
    return False


def kind_of_value(v):
    return {"l": "list", "s": "str", "v": "vec", "b": "bytes", "d": "dict", "i": "int", "n": "null"}.get(v.get("t"), v.get("t"))


def flat(v):
    """the atoms of a value in order, all containers dissolved (tells 'wrong kind' from 'wrong value')"""
    t = v.get("t")
    if t == "l":
        return [a for x in v["xs"] for a in flat(x)]
    if t == "v":
        return [a for x in v["vs"] for a in flat(x)]
    if t == "b":
        return [a for x in v["bs"] for a in flat(x)]
    if t == "s":
        return list(v["s"])
    if t == "i":
        return [v["n"]]
    return [canon_key(v)]


def finding_key(kind, xs, fn, par, alts, st):
    """fn : input kind : parameter class : symptom"""
    out = st.get("o")
    exp = alts[0]["out"]
    if out != "ok":
        sym = "%s-for-%s" % (outcome(st), exp)
    elif exp != "ok":
        sym = "ok-for-" + exp
    else:
        got = rval(st["v"], fn)
        sym = "wrong-kind" if any(flat(a["r"]) == flat(got) for a in alts if a["out"] == "ok") else "wrong-value"
    n, ln = par["n"], len(xs)
    if fn in ("group_n", "group'_n", "window", "replicate", "replicate_r", "repeat", "repeat_r", "power", "combinations", "flatten_group",
              "transpose_group"):
        pc = "n=0" if n == 0 else ("n>len" if n > ln else ("n=len" if n == ln else "0<n<len"))
    elif par["f"]:
        pc = par["f"]
    elif par["v"]["t"] != "n":
        pc = "value"
    else:
        pc = "-"
    if sym == "wrong-kind":
        pc = "-"        # a kind mismatch does not depend on the parameter
    lc = "len0" if ln == 0 else ("len1" if ln == 1 else "len2+")
    if not sym.startswith("panic"):
        lc = "-"
    return "%s:%s:%s:%s:%s" % (fn, "str" if kind == "text" else kind, pc, lc, sym)


class Limiter:
    def __init__(self, rep, cap=8):
        self.rep, self.cap, self.n, self.dropped = rep, cap, {}, 0

    def mismatch(self, key, what, replay):
        self.n[key] = self.n.get(key, 0) + 1
        if self.n[key] > self.cap:
            self.dropped += 1
            return
        self.rep.mismatch(key, what, replay)


def nontrivial(kind, xs, fn, par):
    """a case beyond what the test-suite touches: empty input, non-list kind, duplicates, mixed element
    types, a zero or over-length numeric parameter"""
    vals = [canon_key(e) for e in xs]
    return (len(xs) == 0 or kind != "list" or len(set(vals)) < len(vals) or len(set(e["t"] for e in xs)) > 1
            or (fn in ("group_n", "group'_n", "window", "replicate", "repeat", "power", "combinations") and (par["n"] == 0 or par["n"] > len(xs))))


def evaluate(cases, chunk=80):
    """cases: list of (kind, xs, fn, par).  Returns the harness step result per case (a crash of one case
    only costs that case: the rest of its batch is re-run)."""
    srcs = [call_src(*c) for c in cases]
    out = [None] * len(cases)
    todo = list(range(len(cases)))
    first = True
    while todo:
        batches = [todo[i:i + chunk] for i in range(0, len(todo), chunk)] if first else [[i] for i in todo]
        hc = [{"id": b, "steps": [{"src": "acc := []"}] + [{"src": srcs[i]} for i in idx]} for b, idx in enumerate(batches)]
        res = nv.run_cases(hc, timeout_ms=60000 if first else 10000)
        nxt = []
        for b, idx in enumerate(batches):
            sts = res[b][1:]
            for i, st in zip(idx, sts):
                if st.get("o") == "skipped" and first:
                    nxt.append(i)
                else:
                    out[i] = st
        todo, first = nxt, False
    return srcs, out


def mutant_cfg(cfg, wd):
    """`C13_MUTANT=<name>`: negative control of the binding - the cfg with one definition of the spec switched"""
    m = os.environ.get("C13_MUTANT")
    if not m:
        return cfg
    txt = open(os.path.join(nv.SPEC, cfg)).read().replace('SeqMutation = "none"', 'SeqMutation = "%s"' % m)
    path = os.path.join(wd, "mutant_" + cfg)
    open(path, "w").write(txt)
    return path


def validate(events, wd, chunk):
    """nv.validate_trace with a replaceable cfg"""
    from concurrent.futures import ThreadPoolExecutor
    cfg = mutant_cfg("Trace_SeqLib.cfg", wd)
    for i, e in enumerate(events):
        e["id"] = i
    chunks = [events[i:i + chunk] for i in range(0, len(events), chunk)]

    def one(ci):
        path = os.path.join(wd, "Trace_SeqLib-%d.ndjson" % ci)
        with open(path, "w") as f:
            for e in chunks[ci]:
                f.write(json.dumps(e) + "\n")
        r = nv.run_tlc("Trace_SeqLib", cfg, wd, workers=1, timeout=2400, env={"TRACE": path}, xmx="3g")
        end = r["tagged"].get("TRACE-END", [])
        return (bool(end) and int(end[0]) == len(chunks[ci]) and r["ok"]), ci, r

    mism = []
    with ThreadPoolExecutor(max_workers=max(1, nv.JOBS)) as ex:
        for ok, ci, r in ex.map(one, range(len(chunks))):
            if not ok:
                print("\n".join(r["lines"][-40:]))
                nv.tool_fail("trace validation of chunk %d of Trace_SeqLib did not complete: %s" % (ci, r["error"][:2000]))
            for m in r["tagged"].get("MISMATCH", []):
                j = json.loads(m)
                mism.append((j["id"], j.get("exp")))
    return mism, len(events)


def run_mc(rep, lim, tier, wd):
    cfg = mutant_cfg("MC_SeqLib_%s.cfg" % tier, wd)
    r = nv.run_tlc("MC_SeqLib", cfg, wd, workers=nv.JOBS, timeout=3000)
    if not r["ok"]:
        if "is violated" in r["error"]:
            rep.mismatch("spec:MC_SeqLib:law", "TLC found a violation of the specification's own laws", {"tlc": r["error"]})
        else:
            print(r["error"])
            nv.tool_fail("TLC failed on MC_SeqLib")
    trans = [json.loads(x) for x in r["tagged"].get("REPLAY", [])]
    cases = [(t["kind"], t["xs"], t["fn"], t["par"]) for t in trans]
    srcs, sts = evaluate(cases)
    nt = set()
    unspec = 0
    for t, src, st in zip(trans, srcs, sts):
        if any(a["out"] == "unspec" for a in t["alts"]):
            unspec += 1
        if not accepts(t["fn"], t["alts"], st):
            key = finding_key(t["kind"], t["xs"], t["fn"], t["par"], t["alts"], st)
            lim.mismatch(key, "%s: observed %s, specification expects %s" % (
                src, json.dumps(rval(st["v"], t["fn"]) if st.get("o") == "ok" else outcome(st))[:300],
                json.dumps(t["alts"][:2])[:400]), {"steps": ["acc := []", src], "expected": t["alts"][:6], "observed": st})
    for c in cases:
        if nontrivial(*c):
            nt.add(canon_key([c[0], c[1], c[2], c[3]]))
    for i in (0, len(trans) // 3, 2 * len(trans) // 3):
        if trans:
            rep.sample({"mc_case": srcs[i], "acceptable": trans[i]["alts"][:2]})
    return dict(distinct=r["distinct"], transitions=len(trans), replayed=len(trans), nontrivial=len(nt), unspec=unspec)


# ------------------------------------------------------------------ seeded driver
PRED = ["even", "lt2", "id", "isa"]
KEYF = ["id", "mod2", "isa", "const0"]
COMB = ["plus", "max", "sub"]
PAR0 = {"f": "", "n": 0, "v": {"t": "n"}, "o": [], "s": ""}


def rnd_input(rng):
    kind = rng.choice(["list", "list", "list", "stream", "str", "text", "vec", "bytes", "dict"])
    n = rng.randint(0, 8)
    if kind in ("list", "stream"):
        mode = rng.random()
        if mode < 0.35:
            pool = [{"t": "i", "n": k} for k in (1, 2, 3, 0)]
        elif mode < 0.5:
            pool = [{"t": "s", "s": c} for c in "ab"]
        else:
            pool = [{"t": "i", "n": k} for k in (1, 2, 3, 0)] + [{"t": "s", "s": c} for c in "ab"]
    elif kind == "str":
        pool = [{"t": "s", "s": c} for c in "ab"]
    elif kind == "text":
        pool = [{"t": "s", "s": c} for c in "aab \n"]
    elif kind == "dict":
        pool = [{"t": "i", "n": k} for k in (1, 2, 3, 0)] + [{"t": "s", "s": c} for c in "ab"]
        n = rng.randint(0, 3)
        return kind, rng.sample(pool, n)
    else:
        pool = [{"t": "i", "n": k} for k in (1, 2, 3, 0)]
    return kind, [rng.choice(pool) for _ in range(n)]


def rnd_case(rng):
    kind, xs = rnd_input(rng)
    ln = len(xs)
    k = "str" if kind == "text" else kind
    groups = [
        (["filter", "reject", "partition", "count_p", "any_p", "all_p", "find", "find?", "locate", "locate?", "take"]
         + ([] if k == "stream" else ["drop"]), lambda: dict(PAR0, f=rng.choice(PRED))),
        (["map", "sort_on", "group_all"], lambda: dict(PAR0, f=rng.choice(KEYF))),
        (["flat_map"], lambda: dict(PAR0, f=rng.choice(["dup", "id"]))),
        (["fold", "scan", "pairwise"], lambda: dict(PAR0, f=rng.choice(COMB))),
        (["fold_from", "scan_from"], lambda: dict(PAR0, f=rng.choice(COMB), v={"t": "i", "n": 10})),
        (["zip_with", "ziplongest_with", "ziplongest3_with"],
         lambda: dict(PAR0, f=rng.choice(COMB), o=[{"t": "i", "n": 10 * (j + 1)} for j in range(rng.randint(0, 5))])),
        (["group_by"], lambda: dict(PAR0, f=rng.choice(["lt", "eq"]))),
        (["sort_cmp"], lambda: dict(PAR0, f=rng.choice(["cmp", "rcmp"]))),
        (["flatten", "each", "count", "any", "all", "enumerate", "sum", "product", "min", "max", "sort", "reverse", "unique",
          "group", "prefixes", "suffixes", "frequencies"], lambda: dict(PAR0)),
        (["group_n", "group'_n", "window", "replicate", "replicate_r", "repeat", "repeat_r", "flatten_group", "transpose_group"],
         lambda: dict(PAR0, n=rng.choice([0, 1, 2, 3, ln, ln + 1, max(ln - 1, 0)]))),
        (["count_v", "find_v", "find?_v", "locate_v", "locate?_v", "append", "prepend", "pair"],
         lambda: dict(PAR0, v=rng.choice([{"t": "i", "n": 1}, {"t": "i", "n": 3}, {"t": "s", "s": "a"}]))),
        (["zip", "ziplongest", "product2"], lambda: dict(PAR0, o=[{"t": "i", "n": 10 * (j + 1)} for j in range(rng.randint(0, 4))])),
        (["concat"], lambda: dict(PAR0, o=xs)),
        (["join"], lambda: dict(PAR0, s=rng.choice(["", ",", "-"]))),
    ]
    if k == "str":
        groups.append((["split"], lambda: dict(PAR0, s=rng.choice(["a", "b", "ab", " ", "\n", "aa"]))))
        groups.append((["words", "lines"], lambda: dict(PAR0)))
    if ln <= 4:
        groups.append((["permutations"], lambda: dict(PAR0)))
    if ln <= 5:
        groups.append((["subsequences"], lambda: dict(PAR0)))
    if ln <= 6:
        groups.append((["combinations"], lambda: dict(PAR0, n=rng.randint(0, ln + 1))))
    groups.append((["power"], lambda: dict(PAR0, n=rng.choice([m for m in (0, 1, 2, 3) if ln ** m <= 40]))))
    fns, mk = rng.choice(groups)
    par = mk()
    if rng.random() < 0.2:
        par["nrep"] = "B"
    return kind, xs, rng.choice(fns), par


def run_driver(rep, lim, tier, seed, wd):
    rng = random.Random(seed)
    n = 15000 if tier == "quick" else 120000
    cases = [rnd_case(rng) for _ in range(n)]
    srcs, sts = evaluate(cases)
    events = []
    for (kind, xs, fn, par), st in zip(cases, sts):
        events.append({"kind": "str" if kind == "text" else kind, "xs": xs, "fn": fn, "par": par,
                       "out": st.get("o") if st.get("o") in ("ok", "throw") else outcome(st),
                       "r": rval(st["v"], fn) if st.get("o") == "ok" else {"t": "n"}})
    mism, nev = validate(events, wd, 600 if tier == "quick" else 2000)
    for idx, exp in mism:
        kind, xs, fn, par = cases[idx]
        st = sts[idx]
        alts = (exp or {}).get("alts") or [{"out": "?"}]
        lim.mismatch(finding_key(kind, xs, fn, par, alts, st),
                     "%s: observed %s, specification expects %s" % (
                         srcs[idx], json.dumps(events[idx]["r"] if st.get("o") == "ok" else outcome(st))[:300], json.dumps(alts[:2])[:400]),
                     {"steps": ["acc := []", srcs[idx]], "expected": alts, "observed": st})
    nt = set(canon_key([c[0], c[1], c[2], c[3]]) for c in cases if nontrivial(*c))
    for i in (0, 1, 2):
        rep.sample({"driver_case": srcs[i], "observed": events[i]["r"] if events[i]["out"] == "ok" else events[i]["out"]})
    return dict(events=nev, nontrivial=len(nt), mismatching=len(mism))


def run(tier):
    seed = nv.seed()
    rep = nv.Report("C13", tier, seed, "model_checking")
    wd = nv.work_dir("C13")
    nv.build_harness()
    lim = Limiter(rep)
    mc = run_mc(rep, lim, tier, wd)
    dr = run_driver(rep, lim, tier, seed, wd)
    shutil.rmtree(wd, ignore_errors=True)
    if os.environ.get("C13_MUTANT"):
        rep.assumptions.append("NEGATIVE CONTROL RUN: specification mutant " + os.environ["C13_MUTANT"])
    rep.assumptions += [
        "elements are integers 1..3 and the strings a, b (space and newline for the text functions): meaning of the "
        "named predicate / key / combiner family is fixed in SeqLib.tla (App1 / App2) and rendered by name",
        "the iteration order of a dictionary is unspecified: every key order's result is accepted",
        "left open (unspec): ++ / .+ / +. on kinds other than those the documentation names, split by the empty string, "
        "transpose of ragged input, Unicode-aware words/lines, negative counts",
        "drop with a predicate on a stream is not exercised (does not terminate in the implementation once the predicate "
        "fails: C14 finding); take/drop with a number belong to C10",
    ]
    return rep.finish({
        "states": mc["distinct"], "transitions": mc["transitions"],
        "traces_validated_against_impl": mc["replayed"] + dr["events"],
        "evaluations": mc["replayed"] + dr["events"],
        "distinct_nontrivial": mc["nontrivial"] + dr["nontrivial"],
        "rule": "one case per (input kind, elements, function, parameter); non-trivial = empty input, or a kind other "
                "than list, or repeated elements, or mixed element types, or a zero / over-length numeric parameter "
                "(what the test-suite never exercises); distinct by (kind, elements, function, parameter)",
        "exhaustive": False,
        "mc": mc, "driver": dr, "findings_per_key": dict(lim.n), "reports_beyond_cap": lim.dropped,
        "checker_cmd": "tlc MC_SeqLib.tla (bounded, all cases replayed, laws as invariants) + tlc Trace_SeqLib.tla",
        "trusted_base": ["TLC", "CommunityModules Json/IOUtils/SequencesExt/FiniteSetsExt/Functions",
                         "harness canonical projection (streams: first 48 elements)"],
    })
