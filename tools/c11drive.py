"""C11 (b): seeded driver.  Random stream pipelines (ranges of both step signs incl. around 2^63,
combinatorial streams, stream(list), lazy_map / lazy_filter / lazy_zip to depth 3, the infinite
constructors) are bound to a variable at a random drop position and observed ~30 times in random
order; the bind and every observation become trace events that spec/Trace_Streams.tla must explain
with ONE unchanged stream value."""
import json
import random

import nv
import c10lib as L
import c11lib as S

GROUP = 32            # events per stream: 1 "mk" + 31 "obs" (trace chunks are multiples of it)
OMIT = {"c": "omit"}


def ixn(n):
    return {"c": "int", "i": nv.tla_int(n)}


def ob(o, a1=OMIT, a2=OMIT, x=None):
    return {"o": o, "a1": a1, "a2": a2, "x": x if x is not None else {"t": "null"}}


def rand_range(rng, big_ok=True):
    r = rng.random()
    kind = rng.choice(["til", "to"])
    s = rng.choice([1, 1, 1, 2, 3, 5, -1, -1, -2, -3, -7])
    n = rng.choice([0, 1, 2, 3, 5, 8, 12])
    a = rng.randint(-20, 20)
    if big_ok and r < 0.12:
        a = rng.choice([2 ** 63, -2 ** 63, 2 ** 64, 2 ** 31]) + rng.randint(-3, 3)
    b = a + s * n + rng.choice([0, 0, 1, -1]) * rng.randint(0, abs(s) - 1 if abs(s) > 1 else 0)
    if r > 0.92:
        b = a - s * rng.randint(0, 3)           # bound behind the start: empty
    return {"c": kind, "a": nv.tla_int(a), "b": nv.tla_int(b), "s": nv.tla_int(s)}, abs(a) < 10 ** 4


def rand_ints(rng, n, lo=-9, hi=30):
    return [L.vint(rng.randint(lo, hi)) for _ in range(n)]


def rand_finite(rng, depth):
    """-> (ctor, elems are small ints?)"""
    r = rng.random()
    if depth > 0 and r < 0.55:
        r2 = rng.random()
        if r2 < 0.4:
            src, ints = rand_finite(rng, depth - 1)
            f = rng.choice(["inc", "dbl", "neg", "sq", "half"]) if ints else "id"
            if f == "sq" and depth < 2:
                f = "inc"
            return {"c": "map", "f": f, "src": src}, ints
        if r2 < 0.7:
            src, ints = rand_finite(rng, depth - 1)
            f = rng.choice(["even", "odd", "pos", "lt3"]) if ints else rng.choice(["true", "false"])
            return {"c": "filter", "f": f, "src": src}, ints
        k = rng.choice([2, 2, 3])
        parts = [rand_finite(rng, depth - 1) for _ in range(k)]
        srcs = [p[0] for p in parts]
        if rng.random() < 0.25:
            srcs[rng.randrange(k)] = rand_infinite(rng, 0)[0]
            parts = None
        if k == 2 and parts and all(p[1] for p in parts) and rng.random() < 0.5:
            return {"c": "zip", "f": "+", "srcs": srcs}, True
        return {"c": "zip", "f": "none", "srcs": srcs}, False
    if r < 0.70 or depth > 0:
        c, small = rand_range(rng, big_ok=(depth == 0))
        return c, small
    r3 = rng.random()
    if r3 < 0.2:
        return {"c": "permutations", "xs": rand_ints(rng, rng.randint(1, 5), 0, 9)}, False
    if r3 < 0.4:
        n = rng.randint(0, 5)
        return {"c": "combinations", "xs": rand_ints(rng, n, 0, 9), "k": rng.randint(0, n + 1)}, False
    if r3 < 0.55:
        return {"c": "subsequences", "xs": rand_ints(rng, rng.randint(0, 5), 0, 9)}, False
    if r3 < 0.7:
        n = rng.randint(0, 3)
        return {"c": "cpow", "xs": rand_ints(rng, n, 0, 9), "k": rng.randint(0, 3)}, False
    return {"c": "wrapped", "xs": rand_ints(rng, rng.randint(0, 8))}, True


def rand_infinite(rng, depth):
    r = rng.random()
    if depth > 0 and r < 0.4:
        src, ints = rand_infinite(rng, depth - 1)
        if ints and rng.random() < 0.6:
            return {"c": "map", "f": rng.choice(["inc", "neg", "half"]), "src": src}, True
        other = rand_infinite(rng, 0)[0] if rng.random() < 0.5 else rand_infinite(rng, 0)[0]
        return {"c": "zip", "f": "none", "srcs": [src, other]}, False
    r = rng.random()
    if r < 0.25:
        return {"c": "iota", "a": nv.tla_int(rng.choice([0, 1, -5, 40, 2 ** 63 - 2]))}, False
    if r < 0.45:
        return {"c": "repeat", "x": rng.choice([L.vint(rng.randint(0, 9)), {"t": "list", "l": rand_ints(rng, 2)}])}, False
    if r < 0.75:
        return {"c": "cycle", "xs": rand_ints(rng, rng.randint(1, 5))}, True
    if r < 0.9:
        return {"c": "iterate", "x": L.vint(rng.randint(-3, 3)), "f": rng.choice(["inc", "neg", "half"])}, True
    a = rng.randint(-5, 5)
    return {"c": "til", "a": nv.tla_int(a), "b": nv.tla_int(a + rng.randint(1, 5)), "s": nv.tla_int(0)}, True


def maybe_infinite(c):
    """structural only: used to keep observations that need the end of a stream away from streams
    that have none (a generator guard against hangs, not an oracle)"""
    k = c["c"]
    if k in ("iota", "repeat", "cycle", "iterate"):
        return True
    if k in ("til", "to"):
        return nv.from_tla_int(c["s"]) == 0
    if k in ("map", "filter"):
        return maybe_infinite(c["src"])
    if k == "zip":
        return all(maybe_infinite(x) for x in c["srcs"])
    return False


def rand_elem(rng, ints):
    if ints or rng.random() < 0.3:
        return L.vint(rng.randint(-9, 40))
    return {"t": "list", "l": rand_ints(rng, rng.randint(0, 3), 0, 9)}


def fin_obs(rng, ints):
    def ix(lo=-9, hi=9):
        return ixn(rng.randint(lo, hi))

    def bd():
        return OMIT if rng.random() < 0.25 else ix()
    r = rng.random()
    if r < 0.30:
        return ob(rng.choice(["len", "list", "reverse", "last", "first", "second", "truthy", "splat", "for", "tail",
                              "butlast", "uncons", "unsnoc", "only", "unpack2", "len", "list", "last"]))
    if r < 0.33:
        return ob("unpack")
    if r < 0.50:
        return ob("index", ix())
    if r < 0.75:
        return ob("slice", bd(), bd())
    if r < 0.88:
        return ob(rng.choice(["take", "drop"]), ix())
    return ob("in", x=rand_elem(rng, ints))


def inf_obs(rng, lazy, big_ix=False):
    r = rng.random()
    if r < 0.15 and not lazy:
        return ob(rng.choice(["len", "truthy"]))
    if r < 0.3:
        return ob(rng.choice(["first", "second"]))
    if r < 0.5:
        return ob("index", ixn(rng.randint(0, 12)))
    if r < 0.56 and big_ix:
        # repeat / cycle answer any index in O(1): machine-word extremes and their neighbours
        return ob("index", ixn(rng.choice([2 ** 63 - 1, 2 ** 63 - 2, 2 ** 62, 2 ** 62 + 1, 2 ** 32, 2 ** 31 - 1, 10 ** 18 + 7])))
    if r < 0.75:
        return ob("slice", OMIT if rng.random() < 0.3 else ixn(rng.randint(0, 8)), ixn(rng.randint(0, 12)))
    if r < 0.85:
        return ob("take", ixn(rng.randint(0, 9)))
    return ob("dropindex", ixn(rng.randint(0, 6)), ixn(rng.randint(0, 6)))


def drive(tier, seed):
    rng = random.Random(seed)
    n_streams = 170 if tier == "quick" else 1700
    walks, metas = [], []
    for _ in range(n_streams):
        if rng.random() < 0.82:
            ctor, ints = rand_finite(rng, rng.choice([0, 0, 1, 1, 2, 3]))
        else:
            ctor, ints = rand_infinite(rng, rng.choice([0, 0, 1, 2]))
        inf = maybe_infinite(ctor)
        k = rng.choice([0, 0, 0, 1, 2, 3, 5, 9])
        lazy = ctor["c"] in ("map", "zip")
        obs = [inf_obs(rng, lazy, ctor["c"] in ("repeat", "cycle")) if inf else fin_obs(rng, ints) for _ in range(GROUP - 1)]
        # in one walk out of six every integer argument of an observation is held in big representation
        how = "bigrep" if len(walks) % 6 == 5 else "lit"
        walks.append({"decl": S.decl_steps(ctor, k), "steps": [S.render_ob(o, how=how) for o in obs]})
        metas.append(dict(ctor=ctor, k=k, obs=obs, inf=inf))
    results, declres = S.run_walks(walks, timeout_ms=10000)
    events, info = [], []
    bad = []
    for wi, m in enumerate(metas):
        if declres[wi] is not None:
            bad.append((wi, declres[wi]))
            continue
        events.append({"ev": "mk", "ctor": m["ctor"], "k": m["k"]})
        info.append(dict(wi=wi, j=None))
        for j, o in enumerate(m["obs"]):
            res = results[wi][j]
            out = res.get("o")
            events.append({"ev": "obs", "ob": o, "out": out,
                           "r": L.to_val(res.get("v")) if out == "ok" else {"t": "none"}})
            info.append(dict(wi=wi, j=j))
    return walks, metas, results, events, info, bad


def run(rep, tier, seed, wd):
    walks, metas, results, events, info, bad = drive(tier, seed)
    for wi, dr in bad:
        m = metas[wi]
        rep.mismatch("decl:%s:%s:%s" % (S.ctor_class(m["ctor"]), "@0" if m["k"] == 0 else "@k", dr.get("o")),
                     "%s could not be constructed / dropped: %s" % (" ; ".join(walks[wi]["decl"])[:300],
                                                                    (dr.get("e") or "")[:160]),
                     {"steps": walks[wi]["decl"], "observed": dr})
    mism, n = nv.validate_trace("Trace_Streams", events, wd, chunk=GROUP * (10 if tier == "quick" else 20))
    for idx, exp in mism:
        i = info[idx]
        m = metas[i["wi"]]
        cc = S.ctor_class(m["ctor"])
        at = "@0" if m["k"] == 0 else "@k"
        if i["j"] is None:
            rep.mismatch("spec:Streams:incoherent:%s" % cc,
                         "the two definitions of the specification disagree on %s" % " ; ".join(walks[i["wi"]]["decl"])[:300],
                         {"steps": walks[i["wi"]]["decl"], "expected": exp})
            continue
        res = results[i["wi"]][i["j"]]
        o = m["obs"][i["j"]]
        out = res.get("o")
        what = "wrong-value" if out == "ok" else ("value-expected" if out == "throw" else out)
        if out == "ok" and exp.get("out") == "throw":
            what = "value-instead-of-throw"
        if out == "panic":
            what = "panic:" + nv.norm_panic(res.get("e", ""))
        key = "obs:%s:%s:%s:%s" % (cc, at, S.ob_class(o), what)
        steps = walks[i["wi"]]["decl"] + [walks[i["wi"]]["steps"][i["j"]]]
        rep.mismatch(key, "%s: observed %s%s, specification expects %s" % (
            " ; ".join(steps)[:300], out,
            (" " + json.dumps(res.get("v"))[:160]) if out == "ok" else (" (" + (res.get("e") or "")[:120] + ")"),
            json.dumps(exp)[:200]),
            {"steps": S.PRELUDE + steps, "expected": exp, "observed": {k: res.get(k) for k in ("o", "v", "e")}})
    nontriv = set()
    for i in info:
        if i["j"] is None:
            continue
        m = metas[i["wi"]]
        if m["k"] > 0 or m["ctor"]["c"] not in ("til", "to") or nv.from_tla_int(m["ctor"]["s"]) <= 0:
            nontriv.add((json.dumps(m["ctor"], sort_keys=True), m["k"], json.dumps(m["obs"][i["j"]], sort_keys=True)))
    for wi in (0, len(walks) // 2):
        rep.sample({"trace_stream": " ; ".join(walks[wi]["decl"])[:200], "observations": walks[wi]["steps"][:5]},
                   limit=5)
    return dict(events=n, streams=len(metas) - len(bad), nontrivial=len(nontriv))
