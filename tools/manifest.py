"""Regenerates MANIFEST.json from the table below (keeps it valid at all times)."""
import json
import os

ROOT = os.path.dirname(os.path.dirname(os.path.abspath(__file__)))
BUILT = {
    "C06": dict(
        cat="model_checking", design="DESIGN.md §4 C06",
        text="TLC exhaustively explores the integer representation machine (machine word / big integer; checked "
             "fast path with fallback, always-big, normalising and representation-blind operators) over the "
             "word-boundary operand pool with RepIndependent and RepSound as invariants (thorough: un-normalised "
             "results feed a second operation); every transition is "
             "replayed in the real interpreter with operands forced into the chosen representation. A seeded "
             "driver then evaluates every integer operator on boundary and random operands up to thousands of "
             "bits produced in seven different ways and Trace_Num.tla re-computes each result exactly "
             "(lib/BigNum) - an event the specification cannot explain is a violation.",
        note="Trusted: TLC, CommunityModules, lib/BigNum (self-checked by MC_BigNum against native arithmetic and "
             "algebraic laws), num-bigint decimal rendering, the harness projection. is_prime/factorize only for "
             "inputs whose prime factors are < 2^30; zero divisors of % are judged by C14.",
        technique="TLA+ spec (NumTower/BigNum) + TLC bounded model checking with transition replay + TLC trace "
                  "validation of recorded implementation runs"),
    "C07": dict(
        cat="model_checking", design="DESIGN.md §4 C07",
        text="TLC evaluates + - * / % // %% ^ on every pair of a pool of integers and rationals (negative, "
             "integral-valued, beyond 2^64) with the NumTower specification, checks the laws the property states "
             "(division identity, sign of %% and %, lowest terms, result level = higher operand level, x/0 falls back "
             "to float inf/NaN) as invariants, and every case is replayed in the real interpreter. Trace validation "
             "then covers all four levels: exact arithmetic and conversions on random operands, float(x) must be the "
             "correctly rounded double (a BigNum relation, incl. overflow/subnormal/tie cases), float+-*float must be "
             "the correctly rounded exact result, float / % %% // float (finite operands, exponents at most 160 apart, "
             "plus pairs built for exact quotients, negative remainders, neighbours of multiples, subnormal divisors) "
             "must satisfy NumTower!FDivFamilyOk (/ correctly rounded, % exact, %% and // as rem_euclid / div_euclid "
             "compose them; // and %% by a float zero raise), mixed-level operations must be bit-identical to the float operation "
             "on the converted operands, vector operations must equal the element-wise scalar operations with "
             "broadcasting and reject different lengths.",
        note="Transcendental functions and float ^ are not re-implemented; float / % %% // with exponents more than "
             "160 apart or non-finite operands are judged by the mixed-level law only. Complex arithmetic: level only. Trusted: TLC, lib/BigNum, f64::to_bits, "
             "num-bigint rendering, harness projection.",
        technique="TLA+ spec (NumTower) + TLC bounded model checking with case replay + TLC trace validation"),
    "C08": dict(
        cat="model_checking", design="DESIGN.md §4 C08",
        text="TLC evaluates every comparison operator (== != < <= > >= <=> >=< min max) on every pair of a 33-value "
             "pool mixing integers around 2^53/2^63 and beyond, fractions next to floats, +-0, +-inf, NaN and complex "
             "numbers, and chained comparisons on every triple of a sub-pool, using exact comparison by "
             "cross-multiplication in BigNum; trichotomy, == an equivalence, < transitive and compatible with ==, "
             "<=> antisymmetric and NaN-comparisons-are-errors are invariants; each case is replayed in the "
             "interpreter. Trace validation covers all pairs of a larger random pool (floats together with their "
             "exact rational value +- 1e-40), lexicographic list/vector comparison (also of one sequence object with itself or its alias), sort (the permutation produced "
             "must be the stable sorting permutation) and min/max of lists (first extremal element).",
        note="Strings/bytes ordering is covered only through C13's sort cases. Trusted: TLC, lib/BigNum, f64::to_bits, "
             "harness projection.",
        technique="TLA+ spec (NumTower exact order) + TLC bounded model checking with case replay + TLC trace validation"),
    "C01": dict(
        cat="model_checking", design="DESIGN.md §4 C01",
        text="The oracle is spec/Lang.tla, a reference interpreter over immutable values in which every mutation "
             "statement is a functional update of exactly one variable (set_index / modify_existing_index / the "
             "drop-LHS operator-assignment protocol are transcribed, incl. default materialisation and partial "
             "effects of failing statements). TLC explores every history of <=3 (quick) / 4 (thorough) statements "
             "over a 36-statement mutation vocabulary on top of an aliased prelude (nested lists, dict with default, "
             "vector), checks Frame (nothing outside the statement's write set changes, whatever the alias graph) "
             "and prints every transition; each is replayed in the real interpreter and all tracked variables are "
             "compared. Trace validation: random histories of 30-60 statements over 6 variables (aliasing through "
             "variables, elements, closures, arguments; index/op/every assignment, pop, remove, swap, consume, update "
             "expressions, loops) are re-executed by the specification statement by statement with a full snapshot "
             "comparison after each.",
        note="Struct instances and strings as mutation targets are not in the vocabulary; iteration over multi-entry "
             "dicts is excluded (unspecified order). The Rc/COW heap layer is judged through its observable effect "
             "(values) here and through allocation in C02. Trusted: TLC, the source printer, harness projection.",
        technique="TLA+ reference interpreter (Lang) + TLC bounded exploration of statement histories with replay of every "
                  "transition + TLC trace validation of random histories"),
    "C10": dict(
        cat="model_checking", design="DESIGN.md §4 C10",
        text="TLC exhaustively enumerates sequence kind (list, strings with 1-4 byte code points, vector, bytes, three "
             "stream constructors) x length 0..5 (thorough 0..7) x every index / slice bound in [-len-3, len+3] plus "
             "+-2^63, +-(2^63-1), +-2^64, +-10^30, non-integers, null and omitted x every read, accessor builtin and "
             "write statement x surface form, with the Python index/slice lemmas of spec/Index.tla (range iff, clamp "
             "order, slice concatenation, read/write and remove/read address agreement, UTF-8 validity) checked as "
             "ASSUMEs and per-case invariants. Every enumerated case (about 1.1e5 quick, 2.1e5 thorough) is replayed "
             "in the real interpreter and compared with the value, outcome class and post-state the specification "
             "computed, including that reads leave the variable unchanged. A seeded driver runs reads, slices, "
             "accessor builtins and indexed writes on random sequences up to length 40 and Trace_Index.tla recomputes "
             "every observation from the logged arguments.",
        note="Trusted: TLC, CommunityModules, lib/BigNum, harness projection, python UTF-8 codec for rendering. !? is "
             "non-wrapping and !%/slice bounds beyond a machine word may raise (named rules); !?/!% on streams, null "
             "slice bounds, string writes yielding invalid UTF-8 and x[a:b]=v without every (todo!) are outside the "
             "property. Known finding: uncons/unsnoc split strings by character, not byte.",
        technique="TLA+ spec (Index/BigNum) + TLC bounded exhaustive enumeration with lemma checking and replay of every "
                  "case + TLC trace validation of recorded interpreter runs"),
    "C11": dict(
        cat="model_checking", design="DESIGN.md §4 C11",
        text="spec/Streams.tla defines every stream type twice - a cursor state machine (one next) and a declarative "
             "denotation of what is still to come (arithmetic progressions of any step sign incl. beyond 2^63; "
             "lexicographic index vectors for permutations / combinations / cartesian powers; binary order for "
             "subsequences; pointwise map / filter / zip; recurrences for repeat, cycle, iterate, iota) - plus the "
             "closed-form lengths. TLC explores every constructor with all small parameters at every drop position and "
             "checks that machine, denotation and closed forms agree (DeclAgreesOp, LenAgrees, NextAgrees, InfAgrees). "
             "Every state is replayed in the real interpreter as a walk on ONE variable: about 60 observations (len, "
             "list, index, slice, reverse, last, first, in, truthiness, unpacking, for, take, drop) and every ordered "
             "pair of 12 of them adjacently, each compared with the result defined on the denoted list. A seeded "
             "driver observes random pipelines (depth <= 3) about 30 times in random order and Trace_Streams.tla must "
             "explain all observations with one unchanged stream value.",
        note="Trusted: TLC, CommunityModules, lib/BigNum, spec/Index.tla, harness projection (first 48 elements of a "
             "stream). Element functions from a small pure family; len/truthiness of lazy map/zip over infinite "
             "streams, end-dependent observations of infinite streams, permutations([]) / cycle([]) (C14) are outside.",
        technique="TLA+ cursor-state-machine + denotational spec (Streams/Index/BigNum) + TLC bounded model checking of "
                  "coherence invariants with replay of every state as an observation walk + TLC trace validation"),
    "C03": dict(
        cat="model_checking", design="DESIGN.md §4 C03",
        text="Bounded model checking of an explicit shunting-evaluator state machine against two independent "
             "definitions of operator-precedence grouping (recursive climbing, and the declarative loosest-operator "
             "rule on the transitive fragment), for every chain of up to 3 (quick) / 4 (thorough) operators over "
             "precedences {1,2,3,NaN}, both associativities and all chain-compatibility classes, in direct and "
             "underscore-section mode; TLC checks tree equality, exactly-once left-to-right evaluation of operand and "
             "operator expressions, and merge iff tighter-and-chains. Every finished model run whose operators exist "
             "in the language is instantiated with real operators whose precedence is assigned at runtime and executed "
             "four ways (direct, section, old section after reassignment, bare chain after swap/reassignment); results "
             "and evaluation logs must equal the specification's. Random 5-9 operator chains over the default global "
             "table (optionally after runtime precedence mutation) are trace-validated against Climb plus exact "
             "arithmetic.",
        note="Exhaustive only up to the stated bounds; right-associative chainable operators exist only in the model; "
             "builtin-operator results reveal grouping only through values; about a quarter of trace events fall "
             "outside the evaluated fragment and are accepted (counted in the evidence).",
        technique="TLA+/TLC bounded model checking (machine = precedence climbing = declarative rule) + replay of every "
                  "instantiable model run in the interpreter with runtime-assigned precedences + trace validation"),
    "C04": dict(
        cat="model_checking", design="DESIGN.md §4 C04",
        text="A TLA+ model of call dispatch (primitives with their three one-argument behaviours, PA1/PA2/PALast/Flip "
             "wrappers, call and chain sections, the call-or-partially-apply rule) on which TLC checks that every "
             "application form named by the property denotes the same primitive call (FormsAgree: 26 function values "
             "x arity 1-3 x data/function first argument x all forms incl. sections with splatted arguments); all cases are executed in the "
             "interpreter. The per-builtin obligation (vector, one-argument and two-argument entry points and "
             "partial-application shortcuts agree) is established by trace validation: every global name bound to a "
             "function (about 284 builtins and types after excluding I/O, clock, random, eval and reflection names, "
             "plus user-defined functions) x argument tuples from a pool of all value kinds x all forms, grouped by "
             "their denotation in the model; outcomes in a group must be the same canonical value or all fail, with "
             "the property's preconditions read from logged outcomes.",
        note="Argument tuples are pool-based (15 / 28 values), not exhaustive; equality is equality of the harness's "
             "canonical projection; hash-ordered results compare as multisets. Known findings: the f(b)(a) clause fails "
             "for the combinator builders &&&, ***, equals and for on-compositions.",
        technique="TLA+/TLC model checking of the dispatch model + replay of all model cases + trace validation of "
                  "grouped application-form events for every global function"),
    "C05": dict(
        cat="model_checking", design="DESIGN.md §4 C05",
        text="Oracle: spec/Lang.tla, a big-step reference interpreter of the documented rules (static lexical scoping "
             "with a fresh scope per call, per loop iteration and clause, per while iteration, per catch clause; := and "
             "= rules; break/continue/return/throw as control results that loops, calls and try absorb or decrement; "
             "yield, yield k: v, into with catamorphisms; short circuits; defaults and splats; switch with arm scopes and "
             "literal / literally / tuple patterns; catch clauses with patterns, a handler whose pattern does not match "
             "passing the original value on; eval in the scope of the call). TLC explores every history of 3 "
             "statements (thorough: also 4 over seeded sub-vocabularies) over a 50-statement vocabulary and "
             "every transition is replayed in the real interpreter (value, printed output, outcome class, all tracked "
             "globals). Trace validation: seeded random programs (nested multi-clause loops, guards, mid-loop "
             "declarations, index iteration, multi-level break/continue with values, return, try/catch, logging "
             "short-circuit leaves, closures escaping their scope or created per iteration, forward references, local "
             "recursion, switch, eval of a statement's own text, shadowing and redeclaration) run statement by statement "
             "and are re-executed by the specification.",
        note="import and the richer pattern forms (C12) are outside Lang; catch handlers in random "
             "programs do not inspect the caught value (error text is unspecified); integers stay below 2^30. Trusted: "
             "TLC, the source printer, harness projection.",
        technique="TLA+ reference interpreter (Lang) + TLC bounded exploration of statement histories with replay of every "
                  "transition + TLC trace validation of random programs"),
    "C09": dict(
        cat="model_checking", design="DESIGN.md §4 C09",
        text="TLC exhaustively explores all histories of <=3 (quick) / <=4 (thorough) dictionary operations, all short "
             "memoize call sequences and all short key lists through set/dict/unique/frequencies/count_distinct/"
             "group_all over a key pool with several members per == class, with OneEntryPerClass, LenIsCardinality and "
             "LookupTotalOnClass as invariants. Every transition is re-executed in the real interpreter and the "
             "post-state, len/keys/values/items and five read paths for every pool key are compared. A seeded driver "
             "runs 40-operation histories over the property's key space (levels, representations, nesting in "
             "lists/vectors/dict keys); Trace_Dict.tla keeps its own dictionary, re-executes each operation and "
             "compares after every step. Stored keys compare up to KeyEq, entries as multisets.",
        note="Stored values are integers/null. Which representative of a class is stored is unspecified. The structural "
             "number equality is checked against NumTower!NumEq on all pool pairs.",
        technique="TLA+ spec (Dict.tla) + TLC bounded model checking with per-transition replay + TLC trace validation "
                  "of recorded histories"),
    "C13": dict(
        cat="model_checking", design="DESIGN.md §4 C13",
        text="SeqLib.tla transcribes the one-line definitions of about 60 sequence functions (both forms of **: product and repetition) with a kind-preservation "
             "table. TLC checks the spec's own laws (sort ordered, permutation and stable; unique idempotent; "
             "flatten o group = id; window, prefix and suffix counts; combinatorial counts) and enumerates every input "
             "of length 0..3/4 over a small alphabet x 7 input kinds x every function x numeric parameters "
             "{0,1,2,len,len+1} x a named predicate/key/combiner family. Every case is evaluated in the real "
             "interpreter and compared with the acceptable results, taking all key orders for dictionaries. "
             "Trace_SeqLib validates seeded random cases of length 0..8 with repeats and mixed element types.",
        note="Elements are integers 1..3 and the strings a, b (plus space and newline for text functions). Behaviour the "
             "documentation does not determine is marked unspec and accepted. drop with a predicate on streams is "
             "excluded (hang, C14). Known finding: partition returns lists for string/vector/bytes input.",
        technique="TLA+ executable reference (SeqLib.tla) + TLC enumeration with replay + TLC trace validation"),
    "C02": dict(
        cat="model_checking", design="DESIGN.md §4 C02",
        text="Oracle: spec/Cow.tla, the reference-counted copy-on-write protocol as a cost model: strong counts are "
             "derived from variables, heap slots and evaluator temporaries, MakeMut copies iff the count exceeds 1, "
             "operator-assignment drops the left-hand side before the operator runs; `copied` is the specification's "
             "prediction of the element slots a statement copies. TLC explores every workload of <=5 (quick) / 6 "
             "(thorough) statements (flat and nested collections, aliasing, x[i]=v, m[i][j]=v, x op= v, pop) with "
             "InPlaceWhenUnique, CopyBounded, RepeatIsFree and RcSane as invariants (the model without the LHS drop "
             "violates them - kept as negative control); every mutation transition is replayed at N = 4000 and the "
             "bytes the interpreter requests from the allocator while the statement runs must stay below "
             "4 * element_bytes * copied + slack (growing statements are repeated 50 times and judged on the total). "
             "Each protocol step is rendered in every surface form the property names (x[i] = v, x[i] op= v, every "
             "x[a:b] = v, swap, consume, append= / ++= / +.= / |.= / ||= / -.=, pop, remove x[-1], m[i] op= v ...). "
             "Trace validation: random workloads of 40-200 statements at sizes 2000..80000 over lists, dicts, "
             "vectors, bytes, nested rows, dict-held rows and struct fields, and stack workloads (bulk append, bulk "
             "pop down to a length next to a power of two, single appends / pops around it) are checked per statement "
             "and against a per-workload amortised budget.",
        note="Allocation in bytes requested, never time; one-sided. Element sizes per kind (list 48, dict 128, vector "
             "32, bytes 1) are constants of the build's data layout logged with each event. A bulk statement (a loop around "
             "one step) is judged on its own with 1.5 kB of interpreter overhead allowed per iteration. Trusted: TLC, "
             "the counting allocator of the harness.",
        technique="TLA+ refcount/COW protocol model (Cow) + TLC bounded model checking with replay under a counting "
                  "allocator + TLC trace validation of random workloads"),
    "C17": dict(
        cat="translation_validation", design="DESIGN.md §4 C17",
        text="spec/Lang.tla defines freeze as a source-to-source translation (Frz): every identifier that the evaluator's "
             "own scoping rules do not bind inside the expression is resolved once and replaced by its value; it fails "
             "when a free identifier is unbound or the expression writes to a variable it does not declare. Each "
             "generated closed lambda L is validated three ways against it in the real interpreter: L(args), "
             "(freeze L)(args), and (freeze L)(args) again after every outer variable and function was reassigned "
             "(plus L(args) afterwards) - value, printed output, outcome class and globals must equal the "
             "specification's prediction, and freeze must fail exactly when the specification says so. In addition "
             "TLC explores every history of 3 statements (thorough: 4 over seeded sub-vocabularies) over a "
             "50-statement freeze vocabulary (free variables and functions, later reassignment, unbound names, writes "
             "to outer variables, local shadowing incl. names that are loop- / arm-local, try-body locals seen by the "
             "handler, multi-clause for headers, switch with literally-patterns, operator chains whose precedences "
             "are reassigned later, a locally rebound prefix minus, loops / while / nested lambdas / defaults) and "
             "every transition is replayed.",
        note="Bodies come from the C05 program generator restricted to declare-before-use (names declared in one branch "
             "of an if are not used outside it: their boundness is path dependent). Operators inside frozen code keep "
             "are builtin operators (a rebound `-` and reassigned precedences of + and * are covered by templates). Forward "
             "references are not generated in frozen code (free at freeze time by construction). Known findings: a "
             "local declaration whose initialiser reads the outer variable it shadows; a `literally e` inside a switch "
             "pattern that names a variable the same pattern binds.",
        technique="TLA+ definition of freeze as a translation on Lang ASTs + three-way translation validation of generated "
                  "lambdas by TLC trace validation + TLC bounded exploration of freeze statement histories with replay"),
    "C12": dict(
        cat="model_checking", design="DESIGN.md §4 C12",
        text="Pattern.tla defines Match(pattern, value, declared type) for names, _, literals/literally (by ==), sequence "
             "patterns with one splat and trailing defaults, or (in order), and, annotations of every builtin/struct/"
             "satisfying type, struct patterns, operator patterns (.+, +., n+k, k+n, -x, a/b, a*k, k*a) and comparison "
             "chains, Switch as first matching arm, and the annotated-variable machine (Assign, OpAssign, IndexAssign, "
             "EveryAssign, EveryOp, Swap, Destructure; invariant Typed); Types.tla defines IsType, TypeOf and the "
             "conversion kinds. TLC enumerates every pattern of the depth<=2 / width<=3 shape family against a 17 "
             "(thorough 31) value pool, two-arm (thorough three-arm) switches, the value x type table and all "
             "annotated-variable histories of <=3 (thorough 4) actions, checks MatchTyped, Typed and the Types theorems "
             "(v is type(v), v is anything, conversion results). Every line is replayed in the interpreter - a pair as "
             "declaration, switch arm, lambda parameter(s), for clause and catch clause - comparing outcome class, "
             "bindings, the arm that ran and `x is T` for every annotated name; a seeded driver adds deeper random "
             "patterns and 25-30 step assignment histories that Trace_Pattern re-computes.",
        note="Unspecified and not judged: multi-entry dict iteration order, numeric operator patterns on non-integers, "
             "comparison chains on non-reals, negative multipliers, duplicate names in one pattern, what a failing indexed "
             "update leaves of a stream-valued variable. Known findings: an `or` pattern whose first alternative fails "
             "after declaring a name leaves it declared (seen as a raise or as a stray binding).",
        technique="TLA+ spec (Pattern/Types) + TLC bounded enumeration with replay of every (pattern, value) pair / switch / "
                  "annotated-variable transition + TLC trace validation of random patterns and assignment histories"),
    "C14": dict(
        cat="exploration", design="DESIGN.md §4 C14",
        text="TLC explores the session protocol automaton Outcome.tla (an evaluation ends Returned, Thrown, Ctl or "
             "ParseError and in no other way - there is no action for panic, abort or time-out) for all sessions of 3 "
             "(thorough 4) statements over an abstract statement alphabet and checks OneOutcome, Containment, NoEscape, "
             "OnlyThrowIsCaught, Transparent, Frame and Usable; every complete session is replayed. The sweep applies "
             "every global function of the interpreter's own vars() table (minus an exclusion list that is also in the "
             "specification) to every tuple of 0..2 (thorough 0..3) arguments from a 32-value boundary pool, prefix and "
             "infix, each as the mini-session sentinel; call; the same call under try/catch; 1 + 1; sentinel re-read, "
             "forces lazy results, and treats 89 fault-injected statement templates the same way (incl. a same-named "
             "struct with fewer fields reached through the outer struct's accessor); finite streams with more elements "
             "than a machine word counts (permutations of 21, subsequences of 64, [1,2,3] ^^ 100) are handed to len "
             "and to the callees that need not consume their argument. Trace_Outcome accepts "
             "a recorded mini-session only if some statement of the automaton explains it and its final check rejects a "
             "sweep that skipped a global function, an arity or an argument-kind signature. Exploration bound to a "
             "protocol specification: exhaustive over builtin x pool, not over all values.",
        note="Excluded (Outcome!Excluded): files, process, network, clock, sleep, randomness; infinite streams only for "
             "NonConsuming callees; stack exhaustion by unbounded recursion not covered. Hangs are confirmed alone with a "
             "3 s limit; a 3 GB address-space limit per interpreter turns runaway allocation into an abort. Known "
             "findings: eleven repetition/shift/power/window builtins exhaust resources for counts >= 2^63; the closed-form "
             "length of permutations / subsequences / cartesian powers overflows a machine word (panic).",
        technique="TLA+ protocol automaton (Outcome) + TLC model checking with session replay + exhaustive builtin x "
                  "boundary-argument sweep and fault-injected statements validated by TLC trace validation"),
    "C15": dict(
        cat="model_checking", design="DESIGN.md §4 C15",
        text="The lexer is specified as a deterministic automaton over character classes with exact BigNum denotations "
             "for every number, string, bytes, raw and format literal, including a correctly rounded float function "
             "cross-checked against NumTower. TLC explores every string up to the stated bounds over "
             "one-representative-per-class alphabets (full alphabet to length 3, numeric and string-literal "
             "sub-alphabets deeper), checks totality, progress and well-formedness, and every string is replayed in "
             "the interpreter: lex tokens and payloads equal, parse outcome as predicted, one-literal programs evaluate "
             "to the denoted value. A seeded driver adds re-concretised class members, mutated corpus programs, token "
             "soups, unbalanced delimiters, runaway comments and strings, every literal syntax and 10^4-digit literals, "
             "validated by the specification's own lexer. Every input must end in ok / parse_error / empty; panics, "
             "aborts and time-outs are not behaviours of the specification.",
        note="Grammar acceptance (which token lists parse) is not specified. Unicode classification is transcribed for "
             "ASCII and listed ranges; other code points are held to the protocol only. Nesting explored to 3e3 (quick) / "
             "1e4 (thorough). Decimal literals above about 2e3 digits are judged by outcome only.",
        technique="TLA+ lexer automaton + TLC exhaustive bounded enumeration with full replay of every string (lex/parse/eval) "
                  "+ TLC trace validation of seeded fuzz, mutation and literal-rendering traces"),
    "C16": dict(
        cat="model_checking", design="DESIGN.md §4 C16",
        text="Positional notation, decimal / scientific / fraction parsing, hex, RFC 4648 base64, strict UTF-8, chr/ord, "
             "JSON text, Noulith literal syntax (through the C15 lexer) and integer rendering in base 2/8/10/16 are "
             "specified as exact functions on code points, bytes and BigNum values. TLC checks every Dec o Enc = id law "
             "over exhaustive small domains and emits the expected encoding of every case. Each case is replayed with "
             "integers in small and big representation, comparing the implementation's actual text or bytes with the "
             "specification's, not only the round trip. A seeded driver covers integers of any size and sign in both "
             "representations in every base, signed decimal/fraction strings, random byte and Unicode strings and nested "
             "JSON-shaped values. Gzip is an opaque inverse-pair law over logged pairs; bulk payloads of 5 kB to 200 kB "
             "(pseudo-random and repetitive, built inside the interpreter) are judged by the inverse-pair law of hex, "
             "base64 and gzip on [equal to the payload, length].",
        note="Float text is never compared: JSON and repr floats are re-parsed exactly and must round to the original "
             "double. Left open: the empty int_radix string, _ separators, sign-then-point decimals, exponents beyond "
             "+-9999, non-canonical base64, number() on non-integer text.",
        technique="TLA+ codec specification with TLC-checked inverse-pair theorems + replay of every model case as an "
                  "independent encoding oracle + TLC trace validation of seeded conversion traces"),
}
PENDING = "check not built yet in this round (planned, see DESIGN.md section 4 and 9)"
ALL = ["C%02d" % i for i in range(1, 18)]


def main():
    checks = []
    for pid in ALL:
        if pid in BUILT:
            b = BUILT[pid]
            checks.append({
                "property_id": pid,
                "quick_cmd": "./check %s quick" % pid,
                "thorough_cmd": "./check %s thorough" % pid,
                "evidence_file": "/verif/evidence/%s.json" % pid,
                "replay_cmd_template": "./check replay {path}",
                "engine": "tlc+nvh",
                "level_claimed": {"category": b["cat"], "text": b["text"], "design_ref": b["design"]},
                "level_note": b["note"],
                "technique": b["technique"],
            })
    m = {
        "version": 1,
        "setup_cmd": "sh /verif/setup.sh",
        "hooks": {
            "guard": "noulith_verif",
            "enable": "no source hooks are used: the harness observes the interpreter through its public API "
                      "(rustflags --cfg noulith_verif is set in harness/.cargo/config.toml and is a no-op)",
            "baseline_off_cmd": "cd /repo && cargo nextest run --workspace --no-fail-fast --test-threads 8 --offline "
                                "|| cargo test --workspace --no-fail-fast --offline",
            "source_commits": [],
            "add_only": True,
        },
        "engines": [
            {"name": "tlc+nvh", "path": "/verif/check", "serves_properties": sorted(BUILT),
             "kind_free_text": "explicit TLA+ specification (spec/*.tla) checked by TLC; bound to the implementation "
                               "by replaying TLC-enumerated transitions in the real interpreter and by validating "
                               "traces recorded from the real interpreter against the specification"}],
        "checks": checks,
        "not_applicable": [{"property_id": p, "reason": PENDING} for p in ALL if p not in BUILT],
        "notes": "See DESIGN.md. known_findings.jsonl lists recorded findings and fixed defects.",
    }
    with open(os.path.join(ROOT, "MANIFEST.json"), "w") as f:
        json.dump(m, f, indent=1)


main()
