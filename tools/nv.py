"""Shared orchestration for the noulith verification checks (python3 stdlib only).

 * builds the Rust harness against the current /repo working tree
 * runs cases through it (worker processes, watchdog; panic/abort/timeout are data)
 * runs TLC (bounded model checking and trace validation) with the spec library on its path
 * converts values between the harness's canonical JSON and the TLA+ encodings
 * known-findings lookup, replay files, evidence files, VIOLATION / KNOWN-FINDING lines
"""
import hashlib
import json
import os
import re
import shutil
import subprocess
import sys
import time

ROOT = os.path.dirname(os.path.dirname(os.path.abspath(__file__)))
SPEC = os.path.join(ROOT, "spec")
HARNESS = os.path.join(ROOT, "harness")
NVH = os.environ.get("NVH_BIN") or os.path.join(HARNESS, "target", "debug", "nvh")
REPLAYS = os.path.join(ROOT, "replays")
EVIDENCE = os.path.join(ROOT, "evidence")
KNOWN = os.path.join(ROOT, "known_findings.jsonl")
JOBS = int(os.environ.get("VERIF_JOBS", "12"))


class ToolError(Exception):
    pass


def tool_fail(msg):
    print("TOOL-ERROR: " + msg, flush=True)
    sys.exit(2)


def work_dir(tag):
    d = os.path.join(ROOT, ".work", "%s-%d" % (tag, os.getpid()))
    shutil.rmtree(d, ignore_errors=True)
    os.makedirs(d)
    return d


def build_harness():
    if os.environ.get("NVH_BIN"):
        # development only: a harness built elsewhere against a scratch copy of the repository
        return 0.0
    env = dict(os.environ)
    env["CARGO_NET_OFFLINE"] = "true"
    t0 = time.time()
    p = subprocess.run(["cargo", "build", "--offline", "-q"], cwd=HARNESS, env=env,
                       stdout=subprocess.PIPE, stderr=subprocess.STDOUT, text=True)
    if p.returncode != 0 or not os.path.exists(NVH):
        print(p.stdout[-4000:])
        tool_fail("harness build failed")
    return time.time() - t0


def run_cases(cases, timeout_ms=5000, jobs=None):
    """cases: list of dicts with integer 'id'.  Returns {id: [step results]}

    The watchdog is wall-clock, so on a loaded machine a cheap case can be cut off.  A case that timed
    out is therefore run again, few at a time, with six times the budget; only a timeout that
    survives that is reported as one (a real hang still is)."""
    out = _run_cases(cases, timeout_ms, jobs)
    slow = [c for c in cases if any(s.get("o") == "timeout" for s in out[c["id"]])]
    if slow and len(slow) <= 64:
        out.update(_run_cases(slow, timeout_ms * 6, 4))
    return out


def _run_cases(cases, timeout_ms, jobs):
    jobs = jobs or JOBS
    inp = "\n".join(json.dumps(c) for c in cases) + "\n"
    p = subprocess.run([NVH, "run", "-j", str(jobs), "-t", str(timeout_ms)], input=inp,
                       stdout=subprocess.PIPE, stderr=subprocess.PIPE, text=True)
    if p.returncode != 0:
        tool_fail("harness run failed: " + p.stderr[-2000:])
    out = {}
    # split on LF only: str.splitlines() would also split on U+0085 / U+2028 inside JSON strings
    for line in p.stdout.split("\n"):
        if not line.strip():
            continue
        r = json.loads(line)
        out[r["id"]] = r["steps"]
    if len(out) != len(cases):
        tool_fail("harness returned %d results for %d cases" % (len(out), len(cases)))
    return out


# ------------------------------------------------------------------ TLC
def _tlc_env(extra=None, xss="256m", deque=False):
    env = dict(os.environ)
    opts = "-Xss%s -DTLA-Library=%s" % (xss, os.path.join(SPEC, "lib"))
    if deque:
        opts += " -Dtlc2.tool.queue.IStateQueue=StateDeque"
    env["JAVA_TOOL_OPTIONS"] = opts
    if extra:
        env.update(extra)
    return env


_STATS = re.compile(r"(\d+) states generated, (\d+) distinct states found, (\d+) states left on queue")


def unquote_tla(s):
    """A line printed by PrintT of a TLA+ string -> python str"""
    s = s.strip()
    if len(s) >= 2 and s[0] == '"' and s[-1] == '"':
        body = s[1:-1]
        out = []
        i = 0
        while i < len(body):
            c = body[i]
            if c == "\\" and i + 1 < len(body):
                n = body[i + 1]
                out.append({"n": "\n", "t": "\t", "r": "\r", "f": "\f"}.get(n, n))
                i += 2
            else:
                out.append(c)
                i += 1
        return "".join(out)
    return None


def run_tlc(module, cfg, workdir, workers=8, timeout=1800, env=None, extra_args=(), xmx=None,
            simulate=None, deque=False, on_line=None):
    """Runs TLC on spec/<module>.tla with spec/<cfg>.  Returns dict(lines, tagged, generated,
    distinct, ok, error).  `tagged` maps TAG -> list of payload strings for every printed
    TLA+ string of the form "TAG payload"."""
    meta = os.path.join(workdir, "tlc-" + module + "-" + str(time.time_ns()))
    jar = "/opt/veriftools/tla/tla2tools.jar:/opt/veriftools/tla/CommunityModules-deps.jar"
    cmd = ["timeout", str(timeout), "java", "-XX:+UseParallelGC"]
    if xmx:
        cmd.append("-Xmx" + xmx)
    cmd += ["-cp", jar, "tlc2.TLC", "-workers", str(workers), "-metadir", meta, "-cleanup",
            "-noGenerateSpecTE", "-config", cfg]
    if simulate:
        cmd += ["-simulate", simulate]
    cmd += list(extra_args) + [module + ".tla"]
    p = subprocess.Popen(cmd, cwd=SPEC, env=_tlc_env(env, deque=deque), stdout=subprocess.PIPE,
                         stderr=subprocess.STDOUT, text=True, errors="replace")
    lines = []
    tagged = {}
    generated = distinct = 0
    err = []
    in_err = False
    for line in p.stdout:
        line = line.rstrip("\n")
        if line.startswith('"'):
            s = unquote_tla(line)
            if s is not None:
                tag, _, payload = s.partition(" ")
                if on_line is not None and on_line(tag, payload):
                    continue
                tagged.setdefault(tag, []).append(payload)
                continue
        m = _STATS.search(line)
        if m:
            generated, distinct = int(m.group(1)), int(m.group(2))
        if line.startswith("Error:") or "is violated" in line or "Parsing or semantic analysis failed" in line:
            in_err = True
        if in_err and len(err) < 60:
            err.append(line)
        if len(lines) < 2000:
            lines.append(line)
    rc = p.wait()
    shutil.rmtree(meta, ignore_errors=True)
    ok = (rc == 0 and not err)
    if rc == 124:
        err.append("TLC timed out after %ds" % timeout)
    return dict(lines=lines, tagged=tagged, generated=generated, distinct=distinct, ok=ok,
                error="\n".join(err), rc=rc)


# ------------------------------------------------------------------ numbers <-> TLA+ encodings
BASE = 1024


def nat_limbs(n):
    assert n >= 0
    out = []
    while n:
        out.append(n % BASE)
        n //= BASE
    return out


def tla_int(n):
    n = int(n)
    return {"s": (n > 0) - (n < 0), "m": nat_limbs(abs(n))}


def from_tla_int(r):
    v = 0
    for limb in reversed(r["m"]):
        v = v * BASE + limb
    return v * r["s"]


def float_parts(bits):
    """IEEE-754 double bit pattern -> (cls, sign, mantissa int, exponent int): value = (-1)^s m 2^e"""
    bits = int(bits)
    s = bits >> 63
    e = (bits >> 52) & 0x7FF
    f = bits & ((1 << 52) - 1)
    if e == 0x7FF:
        return ("nan", 0, 0, 0) if f else ("inf", s, 0, 0)
    if e == 0:
        if f == 0:
            return ("zero", s, 0, 0)
        m, ex = f, -1074
    else:
        m, ex = f | (1 << 52), e - 1075
    while m % 2 == 0:
        m //= 2
        ex += 1
    return ("fin", s, m, ex)


def tla_float(bits):
    c, s, m, e = float_parts(bits)
    return {"c": c, "sg": s, "m": nat_limbs(m), "e": e}


def tla_num(c):
    """canonical number JSON -> TLA+ numeric record (lib/NumTower encoding)"""
    t = c["t"]
    if t == "int":
        return {"k": "int", "i": tla_int(c["v"]), "big": bool(c.get("big", False))}
    if t == "rat":
        # the denominator of the encoding is a natural number; an observed rational whose denominator
        # is not positive is not a fraction in canonical form: it is passed on with the empty (zero)
        # denominator, which NumTower!RatOk - evaluated on every observed rational - rejects
        d = int(c["d"])
        return {"k": "rat", "n": tla_int(c["n"]), "d": nat_limbs(d) if d > 0 else []}
    if t == "float":
        return {"k": "float", "f": tla_float(c["bits"])}
    if t == "complex":
        return {"k": "complex", "re": tla_float(c["re"]), "im": tla_float(c["im"])}
    raise ValueError(t)


# ------------------------------------------------------------------ findings / evidence
def load_known():
    out = []
    if os.path.exists(KNOWN):
        for line in open(KNOWN):
            line = line.strip()
            if line and not line.startswith("#"):
                out.append(json.loads(line))
    return out


def norm_panic(msg):
    """strip registry paths / line numbers from a panic message so that keys survive edits"""
    msg = re.sub(r"/[^ ]*/([^/ ]+\.rs):\d+", r"\1", msg or "")
    msg = re.sub(r"src/([a-z_]+\.rs):\d+", r"\1", msg)
    msg = re.sub(r"\d{3,}", "N", msg)
    return msg[:160]


class Report:
    def __init__(self, pid, tier, seed, level):
        self.pid, self.tier, self.seed, self.level = pid, tier, seed, level
        self.t0 = time.time()
        self.known = [k for k in load_known() if k["property"] == pid and k.get("status") == "known"]
        self.violations = []      # (key, what, path)
        self.known_hits = {}      # key -> (what, count)
        self.known_keys = {}      # registered key -> concrete keys that matched it
        self.cov = {}
        self.assumptions = []
        self.samples = []
        os.makedirs(REPLAYS, exist_ok=True)
        os.makedirs(EVIDENCE, exist_ok=True)

    def mismatch(self, key, what, replay):
        """key: location-independent identification of the failing case class."""
        for k in self.known:
            if k["key"] == key or (k.get("key_re") and re.fullmatch(k["key_re"], key)):
                w, n = self.known_hits.get(k["key"], (k["what"], 0))
                self.known_hits[k["key"]] = (w, n + 1)
                self.known_keys.setdefault(k["key"], set()).add(key)
                return False
        h = hashlib.sha1((key + json.dumps(replay, sort_keys=True, default=str)).encode()).hexdigest()[:12]
        path = os.path.join(REPLAYS, "%s-%s.json" % (self.pid, h))
        if len(self.violations) < 200:
            with open(path, "w") as f:
                json.dump({"property": self.pid, "key": key, "what": what, "replay": replay}, f, indent=1,
                          default=str)
        self.violations.append((key, what, path))
        return True

    def sample(self, x, limit=5):
        if len(self.samples) < limit:
            self.samples.append(x)

    def finish(self, coverage):
        cov = dict(coverage)
        cov.setdefault("samples", self.samples[:8] or ["(none)"])
        ev = {
            "property_id": self.pid, "tier": self.tier, "seed": self.seed, "level": self.level,
            "coverage": cov, "assumptions": self.assumptions,
            "wall_s": round(time.time() - self.t0, 1), "violations": len(self.violations),
            "known_findings_hit": {k: v[1] for k, v in self.known_hits.items()},
            "known_findings_keys": {k: sorted(v)[:60] for k, v in self.known_keys.items()},
        }
        with open(os.path.join(EVIDENCE, self.pid + ".json"), "w") as f:
            json.dump(ev, f, indent=1, default=str)
        for k, (w, n) in sorted(self.known_hits.items()):
            print("KNOWN-FINDING: property=%s %s [key=%s, %d case(s)]" % (self.pid, w, k, n))
        seen = set()
        for key, what, path in self.violations:
            if key in seen:
                continue
            seen.add(key)
            if len(seen) > 25 and not os.environ.get("VERIF_ALLKEYS"):
                break
            print("VIOLATION property=%s replay=%s  # %s: %s" % (self.pid, path, key, what[:300]))
        print("%s %s: %s; %d violation(s) in %d class(es), %d known finding class(es); %.0fs" % (
            self.pid, self.tier, "FAIL" if self.violations else "ok", len(self.violations), len(seen),
            len(self.known_hits), time.time() - self.t0), flush=True)
        return 1 if self.violations else 0


def seed():
    try:
        return int(os.environ.get("VERIF_SEED", "1"))
    except ValueError:
        return 1


# ------------------------------------------------------------------ trace validation
def validate_trace(module, events, workdir, chunk=400, timeout=1500, par=None, xmx="3g"):
    """Writes `events` (list of dicts, each gets an 'id' = its index) as ndjson chunks, runs
    TLC on spec/<module>.tla (cfg <module>.cfg) once per chunk in parallel, and returns
    (mismatches, n_validated) where mismatches = list of (event index, exp-json).  A chunk
    whose TLC run does not reach TRACE-END is a tool failure (exit 2), never a verdict."""
    from concurrent.futures import ThreadPoolExecutor
    par = par or max(1, JOBS)
    for i, e in enumerate(events):
        e["id"] = i
    # a chunk never splits a session: new chunks start only at a "reset" event (if there are any)
    if any(e.get("ev") == "reset" for e in events):
        chunks, cur = [], []
        for e in events:
            if e.get("ev") == "reset" and len(cur) >= chunk:
                chunks.append(cur)
                cur = []
            cur.append(e)
        if cur:
            chunks.append(cur)
    else:
        chunks = [events[i:i + chunk] for i in range(0, len(events), chunk)]

    def one(ci):
        path = os.path.join(workdir, "%s-%d.ndjson" % (module, ci))
        with open(path, "w") as f:
            for e in chunks[ci]:
                f.write(json.dumps(e) + "\n")
        r = run_tlc(module, module + ".cfg", workdir, workers=1, timeout=timeout,
                    env={"TRACE": path}, xmx=xmx)
        end = r["tagged"].get("TRACE-END", [])
        if not end or int(end[0]) != len(chunks[ci]) or not r["ok"]:
            return ("fail", ci, r)
        return ("ok", ci, r)

    mism = []
    with ThreadPoolExecutor(max_workers=par) as ex:
        for status, ci, r in ex.map(one, range(len(chunks))):
            if status != "ok":
                print("\n".join(r["lines"][-40:]))
                tool_fail("trace validation of chunk %d of %s did not complete: %s" % (ci, module, r["error"][:2000]))
            for m in r["tagged"].get("MISMATCH", []):
                j = json.loads(m)
                mism.append((j["id"], j.get("exp")))
    return mism, len(events)
