"""MC_Lang driver: TLC explores every history over a statement vocabulary; every transition is
replayed in the real interpreter (C01, C05, C17)."""
import json
import os

import langgen as lg
import nv


SUB = 26        # statements (beyond the prelude) of one depth-4 sub-vocabulary


def run(rep, pid, tier, wd, vocab, track, depth_cfg=None, keyfn=None, tag="mc", prelude=0):
    """Quick: every history of depth 3 over the whole vocabulary.  Thorough: the same, and every history
    of depth 4 over three seeded sub-vocabularies of SUB statements (depth 4 over the whole vocabulary
    is several million transitions: neither TLC's output nor the replay fits the machine)."""
    if tier != "thorough" or depth_cfg:
        return run1(rep, pid, tier, wd, vocab, track, depth_cfg, keyfn, tag, prelude)
    import random
    tot = run1(rep, pid, tier, wd, vocab, track, "MC_Lang_quick.cfg", keyfn, tag, prelude)
    rng = random.Random(nv.seed() * 7919 + len(vocab))
    rest = list(range(prelude, len(vocab)))
    for k in range(3):
        pick = sorted(rng.sample(rest, min(SUB, len(rest))))
        sub = vocab[:prelude] + [vocab[i] for i in pick]
        r = run1(rep, pid, tier, wd, sub, track, "MC_Lang_thorough.cfg", keyfn, "%s-d4-%d" % (tag, k), prelude, samples=False)
        for f in ("distinct", "transitions", "nontrivial"):
            tot[f] += r[f]
    return tot


def run1(rep, pid, tier, wd, vocab, track, depth_cfg=None, keyfn=None, tag="mc", prelude=0, samples=True):
    """vocab: list of dict(ast=..., w=[names], name=short label)."""
    sp = os.path.join(wd, "stmts-%s.ndjson" % tag)
    with open(sp, "w") as f:
        for s in vocab:
            f.write(json.dumps({"ast": s["ast"], "w": s["w"]}) + "\n")
    tp = os.path.join(wd, "track-%s.ndjson" % tag)
    with open(tp, "w") as f:
        f.write(json.dumps({"names": track, "prelude": prelude}) + "\n")
    cfg = depth_cfg or ("MC_Lang_%s.cfg" % tier)
    r = nv.run_tlc("MC_Lang", cfg, wd, workers=nv.JOBS, timeout=3400, env={"STMTS": sp, "TRACK": tp})
    if not r["ok"]:
        if "is violated" in r["error"]:
            rep.mismatch("spec:MC_Lang:invariant:" + tag, "TLC found an invariant (Frame / Sane) violated by the specification",
                         {"tlc": r["error"][:3000]})
        else:
            print(r["error"])
            nv.tool_fail("TLC failed on MC_Lang (%s)" % tag)
    trans = [json.loads(x) for x in r["tagged"].get("REPLAY", [])]
    srcs = [lg.pp(s["ast"]) for s in vocab]
    cases = []
    for n, t in enumerate(trans):
        seq = list(t["hist"]) + [t["pick"]]
        cases.append({"id": n, "steps": [{"src": srcs[i - 1], "obs": []} for i in seq[:-1]] +
                      [{"src": srcs[seq[-1] - 1], "obs": track}]})
    res = nv.run_cases(cases, timeout_ms=5000)
    nontrivial = set()
    for n, t in enumerate(trans):
        last = res[n][-1]
        exp = t["exp"]
        seq = list(t["hist"]) + [t["pick"]]
        o = last.get("o")
        ok = o == exp["out"]
        if ok and o == "ok":
            ok = lg.from_canon(last["v"]) == exp["v"]
        printed = "".join(" ".join(line) + "\n" for line in exp["printed"])
        if ok:
            ok = last.get("out", "") == printed
        if ok and "obs" in last:
            ok = [lg.from_canon(c) for c in last["obs"]] == exp["snap"]
        elif ok:
            ok = False
        if len(seq) > 1:
            nontrivial.add(tuple(seq))
        if not ok:
            what = "wrong-value" if o == exp["out"] else "%s-instead-of-%s" % (o, exp["out"])
            if o == "panic":
                what = "panic:" + nv.norm_panic(last.get("e", ""))
            label = vocab[seq[-1] - 1].get("name", srcs[seq[-1] - 1])
            key = (keyfn(vocab, seq, what) if keyfn else "%s:%s:%s" % (tag.split("-d4-")[0], label, what))
            rep.mismatch(key, "after %s: %s  observed %s / vars %s, specification expects %s" % (
                "; ".join(srcs[i - 1] for i in seq[:-1]) or "(empty session)", srcs[seq[-1] - 1],
                json.dumps(last.get("v", last.get("e")))[:150],
                json.dumps([lg.from_canon(c) for c in last.get("obs", [])])[:300], json.dumps(exp)[:400]),
                {"steps": [srcs[i - 1] for i in seq], "expected": exp, "observed": last, "track": track})
    for n in (0, len(cases) // 3, (2 * len(cases)) // 3):
        if samples and n < len(cases):
            rep.sample({"history": [s["src"] for s in cases[n]["steps"]], "expected": trans[n]["exp"]})
    return dict(distinct=r["distinct"], transitions=len(trans), nontrivial=len(nontrivial))
