"""Random well-formed programs over the control-flow / scoping / closure vocabulary (C05, C17).

Programs terminate by construction (loops iterate over finite literals / ranges or count down) and
keep integers small.  The generator tracks an approximate static kind for every name so that most
programs run without a name or type error; the specification handles the rest (a throw is a
legitimate, compared outcome)."""
import langgen as g

I, L = g.ident, g.lit


class Gen:
    def __init__(self, rng, max_nodes=60):
        self.rng = rng
        self.budget = max_nodes
        self.counter = 0
        self.scopes = [{}]          # name -> kind: "int" | "list" | "fn<arity>" | "any"
        self.loop_depth = 0
        self.in_lambda = 0
        self.top = []               # names declared at top level (tracked globals)
        # C17: whether a name declared in one branch of an `if` is bound afterwards depends on the path
        # taken; a static freezer cannot know, so such programs are not generated there
        self.branch_scoped = False
        self.use_eval = True
        self.fwd_refs = True       # closures that mention a name declared AFTER them in the same scope

    # ---------------------------------------------------------------- scopes
    def fresh(self, prefix="v"):
        self.counter += 1
        return "%s%d" % (prefix, self.counter)

    def declare(self, name, kind):
        self.scopes[-1][name] = kind
        if len(self.scopes) == 1:
            self.top.append(name)

    def visible(self, kind=None):
        out = []
        for sc in self.scopes:
            for n, k in sc.items():
                if kind is None or k == kind or (kind == "fn" and k.startswith("fn")):
                    out.append(n)
        return out

    def kind_of(self, name):
        for sc in reversed(self.scopes):
            if name in sc:
                return sc[name]
        return "any"

    def push(self):
        self.scopes.append({})

    def pop(self):
        self.scopes.pop()

    def spend(self, n=1):
        self.budget -= n
        return self.budget > 0

    # ---------------------------------------------------------------- expressions
    def int_expr(self, depth=0):
        r = self.rng.random()
        ints = self.visible("int")
        if not self.spend() or depth > 2 or r < 0.30:
            return L(self.rng.randint(0, 9))
        if r < 0.55 and ints:
            return I(self.rng.choice(ints))
        if r < 0.75:
            op = self.rng.choice(["+", "+", "-", "max", "min"])
            return g.binop(op, self.int_expr(depth + 1), self.int_expr(depth + 1))
        if r < 0.82:
            lists = self.visible("list")
            if lists:
                return g.call(I("len"), [I(self.rng.choice(lists))])
        if r < 0.90:
            return g.if_(self.cond(depth + 1), self.int_expr(depth + 1), self.int_expr(depth + 1))
        if r < 0.95:
            fns = [n for n in self.visible("fn") if self.kind_of(n) in ("fn0", "fn1", "fn2")]
            if fns:
                f = self.rng.choice(fns)
                ar = int(self.kind_of(f)[2:])
                return g.call(I(f), [self.int_expr(depth + 1) for _ in range(ar)])
        # short-circuit operators with logging leaves
        return self.rng.choice([g.and_, g.or_, g.coal])(self.logged(depth + 1), self.logged(depth + 1))

    def logged(self, depth):
        v = self.rng.choice([L(0), L(1), L(2), L(None), self.int_expr(depth)])
        if self.rng.random() < 0.6:
            self.counter += 1
            return g.seq([g.call(I("print"), [L("L%d" % self.counter)]), v])
        return v

    def cond(self, depth=0):
        r = self.rng.random()
        if r < 0.7:
            return g.binop(self.rng.choice(["<", "<=", "==", "!=", ">"]), self.int_expr(depth + 1), self.int_expr(depth + 1))
        if r < 0.85:
            return self.rng.choice([g.and_, g.or_])(self.cond(depth + 1), self.cond(depth + 1))
        return self.int_expr(depth + 1)

    def list_expr(self, depth=0):
        r = self.rng.random()
        lists = self.visible("list")
        if not self.spend() or r < 0.4 or depth > 1:
            return g.lst([L(self.rng.randint(0, 9)) for _ in range(self.rng.randint(0, 4))])
        if r < 0.6 and lists:
            return I(self.rng.choice(lists))
        if r < 0.75:
            # a range is a lazy stream: materialise it when it is used as a list value
            a = self.rng.randint(0, 3)
            return g.call(I("list"), [g.binop(self.rng.choice(["til", "to"]), L(a), L(a + self.rng.randint(0, 3)))])
        if r < 0.9:
            return self.for_yield(depth + 1)
        return g.binop("++", self.list_expr(depth + 1), self.list_expr(depth + 1))

    def iterable(self):
        return self.list_expr(1)

    # ---------------------------------------------------------------- loops
    def clauses(self):
        cl = []
        names = []
        n = self.rng.choice([1, 1, 1, 2])
        for _ in range(n):
            x = self.fresh("i")
            if self.rng.random() < 0.2:
                y = self.fresh("j")
                cl.append(g.cl_item(g.lv_tuple([g.lv_id(x), g.lv_id(y)]), self.iterable()))
                names += [(x, "int"), (y, "int")]
            else:
                cl.append(g.cl_it(g.lv_id(x), self.iterable()))
                names.append((x, "int"))
            # later clauses may use the earlier loop variables
            self.declare(x, "int")
            if self.rng.random() < 0.25:
                z = self.fresh("d")
                cl.append(g.cl_decl(g.lv_id(z), self.int_expr(1)))
                self.declare(z, "int")
            if self.rng.random() < 0.3:
                cl.append(g.cl_guard(self.cond(1)))
        return cl

    def for_yield(self, depth=0):
        self.push()
        cl = self.clauses()
        self.loop_depth += 1
        body = self.yield_body(depth + 1, 0.15)
        self.loop_depth -= 1
        self.pop()
        return g.for_yield(cl, body)

    def yield_body(self, depth, p):
        """the yielded expression, now and then preceded by a conditional exit of this or an outer loop
        (with and without a value): a yield loop left that way hands on what the exit says"""
        body = self.int_expr(depth)
        if self.rng.random() < p:
            lv = 0 if self.rng.random() < 0.5 else self.rng.randint(0, self.loop_depth - 1)
            body = g.seq([g.if_(self.cond(1), self.rng.choice([g.brk(lv), g.cont(lv), g.brk(lv, self.list_expr(2))])), body])
        return body

    def for_stmt(self):
        self.push()
        cl = self.clauses()
        self.loop_depth += 1
        kind = self.rng.random()
        if kind < 0.6:
            node = g.for_do(cl, self.block(3))
        elif kind < 0.85:
            node = g.for_yield(cl, self.yield_body(1, 0.3), self.rng.choice(["", "", "sum", "max", "min", "count", "first", "last", "len"]))
        else:
            ints = self.visible("int")
            key = g.binop("+", I(self.rng.choice(ints)), L(self.rng.randint(0, 2))) if ints else L(1)
            node = g.for_yieldkv(cl, key, self.int_expr(1))
        self.loop_depth -= 1
        self.pop()
        return node

    def while_stmt(self):
        # c := k; while (c > 0) (c = c - 1; body): the decrement comes first, so `continue` is safe
        c = self.fresh("c")
        self.declare(c, "ctr")      # never assigned by generated statements: the loop must terminate
        init = g.decl(c, L(self.rng.randint(1, 3)))
        self.push()
        self.loop_depth += 1
        body = g.seq([g.asg(g.target(c), g.binop("-", I(c), L(1))), self.block(3)])
        self.loop_depth -= 1
        self.pop()
        return [init, g.while_(g.binop(">", I(c), L(0)), body)]

    def pattern(self, names, depth=0):
        """a switch pattern; names collects (name, kind) it binds.  `literally e` is generated before the
        pattern's own names are declared: e runs before the pattern binds anything"""
        r = self.rng.random()
        if depth == 0 and r < 0.35:
            return g.lv_tuple([self.pattern(names, 1) for _ in range(self.rng.choice([1, 2, 2, 3]))])
        if r < 0.55:
            return g.lv_lit(self.rng.randint(0, 3))
        if r < 0.8:
            x = self.fresh("m")
            names.append((x, "int" if depth else "any"))
            return g.lv_id(x)
        if r < 0.9:
            return g.LV_IGNORE
        return g.lv_lity(self.int_expr(2))

    def switch_stmt(self):
        if self.rng.random() < 0.5:
            scrut = self.int_expr(1)
        else:
            scrut = g.lst([self.int_expr(2) for _ in range(self.rng.choice([1, 2, 2, 3]))])
        arms = []
        for _ in range(self.rng.randint(1, 3)):
            names = []
            pat = self.pattern(names)
            self.push()
            for x, k in names:
                self.declare(x, k)
            arms.append((pat, self.block(2)))
            self.pop()
        if self.rng.random() < 0.6:
            self.push()
            arms.append((g.LV_IGNORE, self.block(1)))
            self.pop()
        return g.switch(scrut, arms)

    # ---------------------------------------------------------------- statements
    def block(self, n):
        stmts = []
        for _ in range(self.rng.randint(1, n)):
            stmts += self.stmt()
            if self.budget <= 0:
                break
        return g.seq(stmts) if len(stmts) > 1 else stmts[0]

    def scoped_block(self, n):
        if not self.branch_scoped:
            return self.block(n)
        self.push()
        b = self.block(n)
        self.pop()
        return b

    def lam(self):
        arity = self.rng.choice([0, 1, 1, 2])
        ps = []
        self.push()
        self.in_lambda += 1
        saved_loop = self.loop_depth
        self.loop_depth = 0
        # a default is evaluated before any parameter is bound: it may only mention outer names
        default = self.int_expr(2) if arity > 0 and self.rng.random() < 0.25 else None
        for k in range(arity):
            p = self.fresh("p")
            ps.append(g.param(p, default if k == arity - 1 else None))
            self.declare(p, "int")
        splat = False
        if arity == 1 and self.rng.random() < 0.15 and ps[0]["d"]["n"] == "none":
            ps = [g.param(ps[0]["x"], None, True)]
            self.scopes[-1][ps[0]["x"]] = "list"
            splat = True
        body = self.block(3)
        # every generated function ends in an integer (printable) result
        tail = self.int_expr(1)
        body = g.seq([body, g.ret(tail) if self.rng.random() < 0.3 else tail])
        self.loop_depth = saved_loop
        self.in_lambda -= 1
        self.pop()
        return g.lam(ps, body), ("fn%d" % arity if not splat else "fnv")

    def stmt(self):
        out = self.stmt0()
        # now and then a statement goes through eval of its own source text (same scope, same exits)
        if self.use_eval and self.rng.random() < 0.06:
            out = [g.evl(s) for s in out]
        return out

    def stmt0(self):
        if not self.spend():
            return [g.call(I("print"), [L(0)])]
        r = self.rng.random()
        ints = self.visible("int")
        if r < 0.16:
            x = self.fresh()
            e = self.int_expr()
            self.declare(x, "int")
            return [g.decl(x, e)]
        if r < 0.22:
            x = self.fresh("xs")
            e = self.list_expr()
            self.declare(x, "list")
            return [g.decl(x, e)]
        if r < 0.36 and ints:
            x = self.rng.choice(ints)
            if self.rng.random() < 0.5:
                return [g.asg(g.target(x), g.binop("+", I(x), L(self.rng.randint(1, 3))))]
            return [g.asg(g.target(x), self.int_expr(1))]
        if r < 0.46:
            return [g.call(I("print"), [self.int_expr(1)] + ([self.int_expr(2)] if self.rng.random() < 0.3 else []))]
        if r < 0.54:
            c = self.cond()
            a = self.scoped_block(2)
            b = self.scoped_block(2) if self.rng.random() < 0.6 else None
            return [g.if_(c, a, b)]
        if r < 0.64:
            return [self.for_stmt()]
        if r < 0.69:
            return self.while_stmt()
        if r < 0.77:
            f = self.fresh("f")
            node, kind = self.lam()
            self.declare(f, kind)
            return [g.decl(f, node)]
        if r < 0.85:
            fns = [n for n in self.visible("fn") if self.kind_of(n) in ("fn0", "fn1", "fn2", "fnv")]
            if fns:
                f = self.rng.choice(fns)
                k = self.kind_of(f)
                ar = self.rng.randint(0, 3) if k == "fnv" else int(k[2:])
                if self.rng.random() < 0.1:
                    ar = max(0, ar + self.rng.choice([-1, 1]))      # wrong arity: a compared throw
                call = g.call(I(f), [self.int_expr(1) for _ in range(ar)])
                return [g.call(I("print"), [call]) if self.rng.random() < 0.5 and k != "fnv" else call]
        if r < 0.90:
            # a try body opens no scope: what it declares is visible in the catch handler and afterwards
            x = self.fresh("e")
            body = g.seq([self.block(2), g.if_(self.cond(1), g.throw(self.int_expr(1)))])
            self.push()
            self.declare(x, "any")
            handler = self.block(2)
            self.pop()
            if self.rng.random() < 0.35:
                # catch patterns (literals only: the text of an internal error is unspecified, it just never
                # equals a number): the first handler whose literal equals the thrown value runs, a
                # handler that does not match passes the ORIGINAL value on
                k0, k1, k2 = (self.rng.randint(1, 3) for _ in range(3))
                inner = g.tryp(g.seq([body, g.throw(L(k0))]), g.lv_lit(k1), g.call(I("print"), [L("h1")]))
                return [g.try_(g.tryp(inner, g.lv_lit(k2), g.call(I("print"), [L("h2")])), x, handler)]
            return [g.try_(body, x, handler)]
        if r < 0.925:
            return [self.switch_stmt()]
        if r < 0.94:
            # a local recursive function: its body mentions the name being declared
            f, q = self.fresh("f"), self.fresh("p")
            self.declare(f, "fn1")
            body = g.if_(g.binop("<=", I(q), L(0)), L(self.rng.randint(0, 3)),
                         g.binop("+", I(q), g.call(I(f), [g.binop("-", I(q), L(1))])))
            return [g.decl(f, g.lam([g.param(q)], body)), g.call(I("print"), [g.call(I(f), [L(self.rng.randint(0, 3))])])]
        if r < 0.95 and self.fwd_refs:
            # a closure created BEFORE the variable it reads is declared in the same scope (variables, not
            # values, are captured: the scope it closed over gains the name later)
            f, x = self.fresh("f"), self.fresh()
            shadow = self.rng.choice(ints) if ints and self.rng.random() < 0.4 else None
            x = shadow or x
            out = [g.decl(f, g.lam([], I(x))), g.decl(x, self.int_expr(1))]
            self.declare(f, "fn0")
            self.declare(x, "int")
            return out + [g.call(I("print"), [g.call(I(f), [])])]
        if r < 0.95 and self.loop_depth > 0:
            lv = self.rng.randint(0, self.loop_depth - 1) if self.rng.random() < 0.8 else self.loop_depth
            return [g.if_(self.cond(1), self.rng.choice([g.brk(lv), g.cont(lv), g.brk(lv, self.int_expr(2))]))]
        if r < 0.97 and self.in_lambda:
            return [g.if_(self.cond(1), g.ret(self.int_expr(1)))]
        if r < 0.985 and ints:
            # shadowing / redeclaration of a visible name in the current scope
            return [g.decl(self.rng.choice(ints), self.int_expr(1))]
        # closures created per iteration, called after the loop
        fs = self.fresh("fs")
        i = self.fresh("i")
        self.declare(fs, "any")
        node = g.for_yield([g.cl_it(g.lv_id(i), g.binop("til", L(0), L(3)))],
                           g.lam([], g.binop("+", I(i), L(self.rng.randint(0, 2)))))
        k = self.rng.randint(0, 2)
        return [g.decl(fs, node), g.call(I("print"), [g.call(g.idx(I(fs), L(k)), [])])]


def program(rng, n_stmts=8, max_nodes=70):
    gen = Gen(rng, max_nodes)
    stmts = []
    for _ in range(n_stmts):
        stmts += gen.stmt()
        if gen.budget <= 0:
            break
    return dict(stmts=stmts, track=list(dict.fromkeys(gen.top))[:10], tag="prog")
