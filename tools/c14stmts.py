"""C14: fault-injected statements (wrong types, out-of-range indices, zero divisors, short / long
unpack targets, splats, slices, op-assignments, destructuring, lambda parameter binding, loops,
switch, structs, control flow at top level).

A template is (id, text, holes, names_b).  `$a` / `$b` are the session variables holding the two
pool values, `$n` is a suffix that makes names declared by the statement fresh.  holes says which
of the two pool values the template uses; names_b is true when the statement names (may change)
`$b` as well -- otherwise `$b` is a bystander that the frame condition fixes."""

TEMPLATES = [
    # reading through indices and slices
    ("ix", "$a[$b]", "ab", False),
    ("ix2", "$a[$b][$b]", "ab", False),
    ("sl_lo", "$a[$b:]", "ab", False),
    ("sl_hi", "$a[:$b]", "ab", False),
    ("sl_both", "$a[$b:$b]", "ab", False),
    ("sl_neg", "$a[(-1):$b]", "ab", False),
    # assignment through indices and slices
    ("ixset", "$a[$b] = 9", "ab", False),
    ("ixset2", "$a[0][$b] = 9", "ab", False),
    ("slset", "$a[0:1] = $b", "ab", False),
    ("slset_b", "$a[$b:] = 9", "ab", False),
    ("slset_every", "every $a[0:$b] = 9", "ab", False),
    ("ixop", "$a[$b] += 1", "ab", False),
    ("ixop_div", "$a[0] //= $b", "ab", False),
    ("upd", "$a{$b = 1}", "ab", False),
    # operator assignment (the slot is null while the operator runs)
    ("opadd", "$a += $b", "ab", False),
    ("opdiv", "$a //= $b", "ab", False),
    ("opmod", "$a %= $b", "ab", False),
    ("opapply", "$a .= $b", "ab", False),
    ("opfn", "$a max= $b", "ab", False),
    ("opcat", "$a ++= $b", "ab", False),
    ("every2", "every $a, $b = 5", "ab", True),
    ("swap", "swap $a, $b", "ab", True),
    ("swap_ix", "swap $a[0], $b", "ab", True),
    ("pop", "pop $a", "a", False),
    ("pop_ix", "pop $a[0]", "a", False),
    ("remove", "remove $a[$b]", "ab", False),
    ("remove_sl", "remove $a[$b:]", "ab", False),
    ("consume", "consume $a[$b]", "ab", False),
    # destructuring declarations: short / long targets, splats, nesting, annotations
    ("des2", "pn$n, qn$n := $a", "a", False),
    ("des1", "pn$n, := $a", "a", False),
    ("des_splat_r", "pn$n, ...qn$n := $a", "a", False),
    ("des_splat_l", "...pn$n, qn$n := $a", "a", False),
    ("des_splat_m", "pn$n, ...qn$n, rn$n := $a", "a", False),
    ("des_splat_only", "...pn$n, := $a", "a", False),
    ("des_nested", "pn$n, (qn$n, rn$n) := $a", "a", False),
    ("des_ann", "pn$n: int = $a", "a", False),
    ("des_ann2", "pn$n, qn$n: str = $a", "a", False),
    ("des_lit", "1, pn$n := $a", "a", False),
    ("des_assign", "$b, $a = $a", "ab", True),
    # lambda parameter binding
    ("lam_splat0", "(\\...pr -> pr)()", "", False),
    ("lam_splat_mid1", "(\\pa, ...pr, pz -> [pa, pr, pz])($a)", "a", False),
    ("lam_splat_mid2", "(\\pa, ...pr, pz -> [pa, pr, pz])($a, $b)", "ab", False),
    ("lam_default", "(\\pa, pb = 2, ...pr -> [pa, pb, pr])($a)", "a", False),
    ("lam_default0", "(\\pa, pb = 2 -> [pa, pb])()", "", False),
    ("lam_few", "(\\pa, pb -> 0)($a)", "a", False),
    ("lam_many", "(\\pa -> 0)($a, $b)", "ab", False),
    ("lam_pat", "(\\(pa, pb) -> 0)($a)", "a", False),
    ("lam_splat_call", "(\\pa, pb -> [pa, pb])(...$a)", "a", False),
    ("lam_ann", "(\\pa: int -> pa)($a)", "a", False),
    # loops and comprehensions
    ("for1", "for (pe <- $a) pe", "a", False),
    ("for_yield", "for (pe <- $a) yield pe // $b", "ab", False),
    ("for_pair", "for (pi, pe <<- $a) yield pi", "a", False),
    ("for_des", "for (pe, pf <- $a) yield pe", "a", False),
    ("for_two", "for (pe <- $a; pf <- $b) yield [pe, pf]", "ab", False),
    ("while_brk", "while ($a) break", "a", False),
    # switch
    ("switch_nomatch", "switch ($a) case 0 -> 1", "a", False),
    ("switch_pat", "switch ($a) case pe, pf -> pe case _ -> 2", "a", False),
    ("switch_ann", "switch ($a) case _: int -> 1 case _: str -> 2", "a", False),
    ("switch_cmp", "switch ($a) case 1 < _ < 9 -> 1", "a", False),
    # expressions
    ("if", "if ($a) $b else 0", "ab", False),
    ("chain3", "$a < $b < $a", "ab", False),
    ("chain_mixed", "$a + $b * $a - $b", "ab", False),
    ("and_or", "$a and $b or $a", "ab", False),
    ("coalesce", "$a coalesce $b", "ab", False),
    ("call_val", "$a($b)", "ab", False),
    ("call_val0", "$a()", "a", False),
    ("apply", "$a . $b", "ab", False),
    ("fmt", "F\"{$a} {$a #x} {$a #08b} {$a #>12} {$a #.3}\"", "a", False),
    ("lit_list", "[$a, ...$b]", "ab", False),
    ("lit_dict", "{$a: $b}", "ab", False),
    ("lit_dict_def", "{:$a, $b: 1}", "ab", False),
    ("range_by", "1 to $a by $b", "ab", False),
    ("freeze", "(freeze \\pe -> pe + $b)($a)", "ab", False),
    # structs
    ("struct_new", "Pt($a, $b)", "ab", False),
    ("struct_new1", "Pt($a)", "a", False),
    ("struct_field", "px($a)", "a", False),
    ("struct_ix", "Pt(1, 2)[$a]", "a", False),
    ("struct_set", "(ps$n := Pt(1, 2); ps$n[$a] = $b; ps$n)", "ab", False),
    # a struct of the same name but fewer fields declared in an inner scope, reached through the OUTER
    # struct's field accessor (index 1 of a one-field instance must be refused, not indexed)
    ("struct_shadow_get", "(\\pa -> (struct Pt (pz); py(Pt(pa))))($a)", "a", False),
    ("struct_shadow_ix", "(\\pa -> (struct Pt (pz); Pt(pa)[py]))($a)", "a", False),
    ("struct_shadow_set", "(\\pa -> (struct Pt (pz); pq := Pt(pa); pq[py] = $b; pq))($a)", "ab", False),
    ("struct_shadow_op", "(\\pa -> (struct Pt (pz); pq := Pt(pa); pq[py] += 1; pq))($a)", "a", False),
    # explicit failures and control flow at top level
    ("throw", "throw $a", "a", False),
    ("break", "break", "", False),
    ("continue", "continue", "", False),
    ("return", "return $a", "a", False),
    ("break_in_fn", "(\\pa -> (break; pa))($a)", "a", False),
]

PRELUDE = ["struct Pt (px, py)"]


def render(tmpl, a, b, n):
    return tmpl.replace("$a", a).replace("$b", b).replace("$n", n)
