"""C07 - rationals are exact and the numeric tower coerces upward only as needed.

(a) MC_Tower (Mode = arith): TLC evaluates + - * / % // %% ^ on every pair of a pool of integers and
    rationals (incl. integral-valued and negative fractions), checks the laws the property states
    (division identity, sign of %% and %, lowest terms, result level) as invariants of the
    specification, and prints every case; each is replayed in the real interpreter.
(b) Trace validation (Trace_Num): seeded driver over all four levels - exact arithmetic on random
    integers / fractions, conversions (floor ceil round int numerator denominator rational float,
    float(x) must be the correctly rounded double), float (+ - *) float must be the correctly
    rounded exact result, mixed-level operations must be bit-identical to the float operation on
    the converted operands, vector operations must be the element-wise scalar operations with
    broadcasting and must reject different lengths.
"""
import json
import random
import shutil

import nv
import numgen
import towergen as tg
import towermc

EXACT_OPS = ["+", "-", "*", "/", "%", "//", "%%"]
UN_EXACT = ["floor", "ceil", "round", "int", "numerator", "denominator", "rational", "neg", "abs", "signum"]
UN_SRC = {"neg": "(-aa)"}
UN_FLOAT = ["floor", "ceil", "round", "int", "rational", "float"]
MIXED_OPS = ["+", "-", "*", "%", "//", "%%"]


def numrec(st):
    v = towermc.num_of_step(st)
    return nv.tla_num(v) if v is not None else {"k": "none"}


def operand_ok(rep, want, st, src):
    got = st.get("obs", [None])[0] if st.get("o") == "ok" else None
    if not tg.same(want, got):
        rep.mismatch("operand:%s:%s" % (want["t"], st.get("o")), "operand source did not evaluate to the intended number",
                     {"steps": [src], "want": want, "observed": st})
        return False
    return True


def near_floats(x, y):
    import math
    if x != x or y != y or x in (float("inf"), float("-inf")) or y in (float("inf"), float("-inf")):
        return False
    if x == 0 or y == 0:
        return True
    # (exact arithmetic on 1000-bit numerators is slow in TLC: the random pairs stay within 2^+-300; the
    # subnormal and huge families come from near_pair)
    if abs(math.frexp(x)[1]) > 300 or abs(math.frexp(y)[1]) > 300:
        return False
    return abs(math.frexp(x)[1] - math.frexp(y)[1]) <= 160


def near_pair(rng):
    import math
    r = rng.random()
    sg = lambda: -1.0 if rng.random() < 0.5 else 1.0
    if r < 0.25:
        return sg() * rng.randint(0, 40) / 2.0, sg() * rng.randint(1, 12) / 2.0
    if r < 0.45:
        y = sg() * rng.uniform(0.001, 50.0)
        k = rng.randint(-30, 30)
        x = k * y
        for _ in range(rng.randint(0, 2)):
            x = math.nextafter(x, sg() * float("inf"))
        return x, y
    if r < 0.6:
        y = sg() * rng.uniform(1e-3, 1e3)
        return sg() * rng.uniform(0, 1e3) * 2.0 ** rng.randint(0, 120), y
    if r < 0.7:
        y = sg() * rng.randint(1, 1 << 20) * 5e-324
        return sg() * rng.randint(0, 1 << 40) * 5e-324 * rng.choice([1, 1 << 10, 1 << 52]), y
    if r < 0.8:
        return sg() * rng.uniform(0, 1e300), sg() * rng.uniform(1e280, 1e308)
    if r < 0.9:
        return rng.choice([0.0, -0.0, 1.0, -1.0, 0.1, -0.1, 7.5, -7.5]), rng.choice([0.0, -0.0, 3.0, -3.0, 0.3, -0.3])
    x = rng.uniform(-1000, 1000)
    return x, sg() * rng.uniform(0.01, 1000)


def special_exacts():
    out = [tg.c_int(2 ** 53 + 1), tg.c_int(2 ** 53 + 3), tg.c_int(2 ** 1024), tg.c_int(2 ** 1024 - 2 ** 970),
           tg.c_int(2 ** 1024 - 2 ** 970 - 1), tg.c_int(-(2 ** 1024)), tg.c_int(10 ** 400), tg.c_int(2 ** 1023),
           tg.c_rat(1, 3), tg.c_rat(2 ** 53 + 1, 2 ** 60), tg.c_rat(1, 2 ** 1080), tg.c_rat(3, 2 ** 1075),
           tg.c_rat(1, 2 ** 1075), tg.c_rat(-1, 10), tg.c_rat(10 ** 30 + 1, 10 ** 30), tg.c_rat(2 ** 1100, 3),
           tg.c_int(0), tg.c_rat(7, 2), tg.c_rat(-7, 2), tg.c_rat(5, 2), tg.c_rat(-5, 2)]
    return out


def drive(rep, tier, seed):
    rng = random.Random(seed + 7)
    scale = 1 if tier == "quick" else 10
    cases, plans = [], []

    def add(steps, plan):
        cases.append({"id": len(cases), "steps": steps})
        plans.append(plan)

    # exact level: binary operators and conversions
    for _ in range(150 * scale):
        a, b = tg.random_exact(rng, tier), tg.random_exact(rng, tier)
        if rng.random() < 0.25:
            b = rng.choice([tg.c_int(0), tg.c_rat(1, 2), tg.c_int(-1), a])
        steps = [{"src": "aa := " + tg.src_of(a), "obs": ["aa"]}, {"src": "bb := " + tg.src_of(b), "obs": ["bb"]}]
        plan = [("operand", a), ("operand", b)]
        bzero = b.get("v") == "0" or b.get("n") == "0"
        for op in EXACT_OPS:
            steps.append({"src": "aa %s bb" % op})
            plan.append(("bin", op, a, b))
        k = rng.choice([-3, -2, -1, 0, 1, 2, 3, 5])
        bits = max(len(a.get("v", a.get("n", ""))), len(a.get("d", "")))
        if bits * abs(k) < 600:
            steps.append({"src": "aa ^ %s" % numgen.lit(k)})
            plan.append(("bin", "^", a, tg.c_int(k)))
        for op in UN_EXACT:
            steps.append({"src": UN_SRC.get(op, "%s(aa)" % op)})
            plan.append(("un", op, a))
        steps.append({"src": "float(aa)"})
        plan.append(("tofloat", a))
        add(steps, plan)
    for a in special_exacts():
        steps = [{"src": "aa := " + tg.src_of(a), "obs": ["aa"]}, {"src": "float(aa)"}]
        plan = [("operand", a), ("tofloat", a)]
        for op in ("floor", "ceil", "round", "int"):
            steps.append({"src": "%s(aa)" % op})
            plan.append(("un", op, a))
        add(steps, plan)
    # float level
    for _ in range(100 * scale):
        x, y = tg.random_float(rng), tg.random_float(rng)
        a, b = tg.c_float(x), tg.c_float(y)
        steps = [{"src": "aa := " + tg.src_of(a), "obs": ["aa"]}, {"src": "bb := " + tg.src_of(b), "obs": ["bb"]}]
        plan = [("operand", a), ("operand", b)]
        for op in ("+", "-", "*"):
            steps.append({"src": "aa %s bb" % op})
            plan.append(("fbin", op, a, b))
        # the division family is exact arithmetic on a quotient of up to |ea - eb| bits: only for
        # operands whose exponents are at most ~160 apart (the wide pairs get the near pairs below)
        if near_floats(x, y):
            for op in ("/", "%", "%%", "//"):
                steps.append({"src": "aa %s bb" % op})
                plan.append(("fbin", op, a, b))
        for op in UN_FLOAT:
            steps.append({"src": "%s(aa)" % op})
            plan.append(("un", op, a))
        add(steps, plan)
    # float division family  / % %% //  on pairs built to hit its cases: small integral and half-integral
    # values of both signs (exact quotients, negative remainders), neighbours of a multiple of the divisor,
    # subnormal divisors, quotients beyond 2^53
    for _ in range(50 if tier == "quick" else 100 * scale):
        x, y = near_pair(rng)
        a, b = tg.c_float(x), tg.c_float(y)
        steps = [{"src": "aa := " + tg.src_of(a), "obs": ["aa"]}, {"src": "bb := " + tg.src_of(b), "obs": ["bb"]}]
        plan = [("operand", a), ("operand", b)]
        for op in ("/", "%", "%%", "//"):
            steps.append({"src": "aa %s bb" % op})
            plan.append(("fbin", op, a, b))
        add(steps, plan)
    # mixed level: one operand exact, the other a float (both orders); aux = the float operation on
    # the converted operands, evaluated in the same session
    for _ in range(100 * scale):
        e = tg.random_exact(rng, tier)
        f = tg.c_float(tg.random_float(rng, finite=False))
        a, b = (e, f) if rng.random() < 0.5 else (f, e)
        steps = [{"src": "aa := " + tg.src_of(a), "obs": ["aa"]}, {"src": "bb := " + tg.src_of(b), "obs": ["bb"]}]
        plan = [("operand", a), ("operand", b)]
        for op in MIXED_OPS:
            steps.append({"src": "aa %s bb" % op})
            plan.append(("mixed", op, a, b))
            steps.append({"src": "float(aa) %s float(bb)" % op})
            plan.append(("aux",))
        add(steps, plan)
    # vectors
    for _ in range(80 * scale):
        def elem():
            r = rng.random()
            if r < 0.5:
                return tg.c_int(rng.randint(-9, 9))
            if r < 0.8:
                return tg.c_rat(rng.randint(-9, 9), rng.choice([2, 3, 4]))
            return tg.c_float(rng.choice([0.5, 1.5, -2.0, 0.0, 1e10]))
        la = rng.choice([0, 1, 2, 3, 4])
        shape = rng.choice(["vv", "vv", "vs", "sv", "mismatch"])
        u = [elem() for _ in range(la)]
        if shape == "vv":
            v, lb = [elem() for _ in range(la)], la
        elif shape == "mismatch":
            lb = la + rng.choice([1, 2])
            v = [elem() for _ in range(lb)]
        else:
            v, lb = elem(), -1
        op = rng.choice(EXACT_OPS)

        def vsrc(x):
            return "V(%s)" % ", ".join(tg.src_of(e) for e in x) if isinstance(x, list) else tg.src_of(x)
        if shape == "sv":
            left, right, l1, l2 = v, u, -1, la
        else:
            left, right, l1, l2 = u, v, la, lb
        steps = [{"src": "(%s) %s (%s)" % (vsrc(left), op, vsrc(right))}]
        plan = [("vec", op, l1, l2)]
        n_items = 0
        if shape != "mismatch":
            for i in range(la):
                x = left[i] if isinstance(left, list) else left
                y = right[i] if isinstance(right, list) else right
                steps.append({"src": "(%s) %s (%s)" % (tg.src_of(x), op, tg.src_of(y))})
                plan.append(("item",))
                n_items += 1
        add(steps, plan)

    res = nv.run_cases(cases, timeout_ms=10000)
    events, info = [], []
    for c, plan in zip(cases, plans):
        st = res[c["id"]]
        ok = True
        for idx, p in enumerate(plan):
            if p[0] == "operand" and idx < len(st):
                ok = operand_ok(rep, p[1], st[idx], c["steps"][idx]["src"]) and ok
        if not ok:
            continue
        idx = 0
        while idx < len(plan) and idx < len(st):
            p = plan[idx]
            s = st[idx]
            if s.get("o") == "skipped":
                break
            src = c["steps"][idx]["src"]
            setup = [x["src"] for x in c["steps"][:2]]
            if p[0] == "bin":
                events.append({"ev": "bin", "op": p[1], "a": nv.tla_num(p[2]), "b": nv.tla_num(p[3]),
                               "out": s.get("o"), "r": numrec(s)})
                info.append(dict(kind="bin", op=p[1], kinds=p[2]["t"][0] + p[3]["t"][0], src=src, setup=setup, observed=s))
            elif p[0] == "un":
                events.append({"ev": "un", "op": p[1], "a": nv.tla_num(p[2]), "out": s.get("o"), "r": numrec(s)})
                info.append(dict(kind="un", op=p[1], kinds=p[2]["t"][0], src=src, setup=setup, observed=s))
            elif p[0] == "tofloat":
                events.append({"ev": "tofloat", "op": "float", "a": nv.tla_num(p[1]), "out": s.get("o"), "r": numrec(s)})
                info.append(dict(kind="tofloat", op="float", kinds=p[1]["t"][0], src=src, setup=setup, observed=s))
            elif p[0] == "fbin":
                fa, fb = nv.tla_num(p[2]), nv.tla_num(p[3])
                if fa["f"]["c"] in ("fin", "zero") and fb["f"]["c"] in ("fin", "zero"):
                    events.append({"ev": "fbin", "op": p[1], "a": fa, "b": fb, "out": s.get("o"), "r": numrec(s)})
                    info.append(dict(kind="fbin", op=p[1], kinds="ff", src=src, setup=setup, observed=s))
            elif p[0] == "mixed":
                aux = st[idx + 1] if idx + 1 < len(st) else {"o": "missing"}
                events.append({"ev": "mixed", "op": p[1], "a": nv.tla_num(p[2]), "b": nv.tla_num(p[3]),
                               "out": s.get("o"), "r": numrec(s), "auxout": aux.get("o"), "aux": numrec(aux)})
                info.append(dict(kind="mixed", op=p[1], kinds=p[2]["t"][0] + p[3]["t"][0], src=src, setup=setup,
                                 observed=s, aux=aux))
                idx += 1
            elif p[0] == "vec":
                items = []
                j = idx + 1
                while j < len(plan) and plan[j][0] == "item":
                    it = st[j] if j < len(st) else {"o": "missing"}
                    items.append({"out": it.get("o"), "r": numrec(it)})
                    j += 1
                r = []
                out = s.get("o")
                if out == "ok":
                    if s["v"].get("t") == "vec":
                        r = [nv.tla_num(x) for x in s["v"]["v"]]
                    elif p[2] >= 0 or p[3] >= 0:
                        out = "not-a-vector"
                events.append({"ev": "vec", "op": p[1], "la": p[2], "lb": p[3], "out": out, "r": r, "items": items})
                info.append(dict(kind="vec", op=p[1], kinds="la%d,lb%d" % (min(p[2], 0), min(p[3], 0)) +
                                 (",mismatch" if p[2] >= 0 and p[3] >= 0 and p[2] != p[3] else ""),
                                 src=src, setup=[], observed=s))
                idx = j - 1
            idx += 1
    return events, info


def run(tier):
    seed = nv.seed()
    rep = nv.Report("C07", tier, seed, "model_checking")
    wd = nv.work_dir("C07")
    nv.build_harness()
    mc = towermc.run(rep, "C07", "arith", tier, wd, tg.ARITH_POOL)
    events, info = drive(rep, tier, seed)
    mism, n = nv.validate_trace("Trace_Num", events, wd, chunk=200 if tier == "quick" else 500)
    for idx, exp in mism:
        i = info[idx]
        o = i["observed"].get("o")
        what = "wrong-value" if o == "ok" else ("panic:" + nv.norm_panic(i["observed"].get("e", "")) if o == "panic" else o)
        key = "%s:%s:%s:%s" % (i["kind"], i["op"], i["kinds"], what)
        rep.mismatch(key, "%s  (%s): observed %s, specification expects %s" % (
            i["src"], "; ".join(i["setup"]), json.dumps(i["observed"].get("v", i["observed"].get("e")))[:200],
            json.dumps(exp)[:300]),
            {"steps": i["setup"] + [i["src"]], "expected": exp, "observed": i["observed"]})
    nontrivial = set()
    for e, i in zip(events, info):
        if i["kind"] in ("mixed", "tofloat", "fbin", "vec") or "r" in i["kinds"]:
            nontrivial.add((i["kind"], i["op"], i["src"], tuple(i["setup"])))
    for i in info[:2] + info[len(info) // 2: len(info) // 2 + 2] + info[-2:]:
        rep.sample({"setup": i["setup"], "expr": i["src"], "observed": i["observed"].get("v", i["observed"].get("o"))})
    shutil.rmtree(wd, ignore_errors=True)
    return rep.finish({
        "states": mc["distinct"], "transitions": mc["transitions"],
        "traces_validated_against_impl": mc["transitions"] + n, "evaluations": mc["transitions"] + n,
        "distinct_nontrivial": len(nontrivial) + mc["nontrivial"],
        "rule": "MC: one case per (operator, operand pair) of the exact-level pool, non-trivial = a rational is "
                "involved or levels differ; trace: one event per evaluated expression, non-trivial = a rational "
                "operand, a mixed-level operation, a float conversion, a float/float operation or a vector operation",
        "trace_events": n, "mc_invariants": ["ArithLaws"],
        "checker_cmd": "tlc MC_Tower.tla (Mode=arith, all cases replayed) + tlc Trace_Num.tla (trace validation)",
        "trusted_base": ["TLC", "CommunityModules Json/IOUtils/Bitwise", "lib/BigNum (self-checked)",
                         "num-bigint decimal rendering", "f64::to_bits", "harness canonical projection"],
    })
