"""ASTs of the language core (spec/Lang.tla), their rendering to noulith source, and conversion of
observed canonical values into Lang values.  The printer is deliberately dumb and fully
parenthesising (DESIGN 2.5)."""


# ---------------------------------------------------------------- values
def vnull():
    return {"t": "null"}


def vint(i):
    return {"t": "int", "i": int(i)}


def vstr(s):
    return {"t": "str", "s": s}


def vlist(xs):
    return {"t": "list", "l": list(xs)}


def from_canon(c):
    """harness canonical value -> Lang value (functions projected to a bare tag)"""
    t = c.get("t")
    if t == "null":
        return vnull()
    if t == "int":
        v = int(c["v"])
        if abs(v) < 2 ** 30:
            return vint(v)
        return {"t": "other", "w": "bigint"}
    if t == "str":
        return vstr(c["v"])
    if t == "list":
        return vlist([from_canon(x) for x in c["v"]])
    if t == "dict":
        ents = []
        for k, v in c["v"]:
            if k.get("t") != "int":
                return {"t": "other", "w": "dictkey"}
            ents.append({"k": int(k["v"]), "v": from_canon(v)})
        ents.sort(key=lambda e: e["k"])
        hd = "def" in c
        return {"t": "dict", "d": ents, "hd": hd, "df": from_canon(c["def"]) if hd else vnull()}
    if t in ("vec", "bytes"):
        out = []
        for x in c["v"]:
            if isinstance(x, dict):
                if x.get("t") != "int":
                    return {"t": "other", "w": "vec-elem"}
                out.append(vint(x["v"]))
            else:
                out.append(vint(x))
        return {"t": t, "l": out}
    if t == "func":
        return {"t": "fn"}
    if t == "inst":
        return {"t": "inst", "nm": c["name"], "l": [from_canon(x) for x in c["v"]]}
    if t == "undef":
        return {"t": "undef"}
    return {"t": "other", "w": str(t)}


# ---------------------------------------------------------------- AST builders
NONE = {"n": "none"}


def lit(v):
    if isinstance(v, bool):
        v = int(v)
    if isinstance(v, int):
        return {"n": "lit", "v": vint(v)}
    if isinstance(v, str):
        return {"n": "lit", "v": vstr(v)}
    if v is None:
        return {"n": "lit", "v": vnull()}
    raise ValueError(v)


def ident(x):
    return {"n": "id", "x": x}


def lst(es):
    return {"n": "list", "es": list(es)}


def vec(es, kind="vec"):
    return {"n": "vec", "kind": kind, "es": list(es)}


def dct(kvs, default=None):
    flat = []
    for k, v in kvs:
        flat += [k, v]
    return {"n": "dict", "kvs": flat, "def": default if default is not None else NONE}


def idx(e, i):
    return {"n": "idx", "e": e, "i": i}


def slc(e, lo=None, hi=None):
    return {"n": "slice", "e": e, "lo": lo if lo is not None else NONE, "hi": hi if hi is not None else NONE}


def call(f, args):
    return {"n": "call", "f": f, "as": list(args)}


def binop(op, a, b):
    return {"n": "bin", "op": op, "a": a, "b": b}


def and_(a, b):
    return {"n": "and", "a": a, "b": b}


def or_(a, b):
    return {"n": "or", "a": a, "b": b}


def coal(a, b):
    return {"n": "coal", "a": a, "b": b}


def seq(es, semi=False):
    return {"n": "seq", "es": list(es), "semi": semi}


def if_(c, a, b=None):
    return {"n": "if", "c": c, "a": a, "b": b if b is not None else NONE}


def while_(c, b):
    return {"n": "while", "c": c, "b": b}


def lv_id(x):
    return {"k": "id", "x": x}


def lv_tuple(xs):
    return {"k": "tuple", "xs": list(xs)}


def lv_lit(v):
    """literal pattern (int or string value)"""
    return {"k": "lit", "v": v if isinstance(v, dict) else lit(v)["v"]}


def lv_lity(e):
    """`literally e`: the pattern that matches the value of e"""
    return {"k": "lity", "e": e}


LV_IGNORE = {"k": "ignore"}


def switch(e, arms):
    """arms: list of (pattern, body)"""
    return {"n": "switch", "e": e, "arms": [{"p": p, "b": b} for p, b in arms]}


def cl_it(x, e):
    return {"k": "it", "x": x, "e": e}


def cl_item(x, e):
    return {"k": "item", "x": x, "e": e}


def cl_decl(x, e):
    return {"k": "decl", "x": x, "e": e}


def cl_guard(e):
    return {"k": "guard", "e": e}


CATAS = ["sum", "product", "count", "first", "last", "max", "min"]
POSTS = ["len", "reverse"]


def for_do(cl, e):
    return {"n": "for", "cl": list(cl), "body": {"k": "do", "e": e}}


def for_yield(cl, e, into=""):
    return {"n": "for", "cl": list(cl), "body": {"k": "yield", "e": e, "cata": into if into in CATAS else "",
                                                 "post": into if into in POSTS else ""}}


def for_yieldkv(cl, ke, ve):
    return {"n": "for", "cl": list(cl), "body": {"k": "yieldkv", "ke": ke, "ve": ve}}


def brk(level=0, e=None):
    return {"n": "break", "lv": level, "e": e if e is not None else NONE}


def cont(level=0):
    return {"n": "cont", "lv": level}


def ret(e):
    return {"n": "ret", "e": e}


def throw(e):
    return {"n": "throw", "e": e}


def try_(b, x, h):
    return {"n": "try", "b": b, "x": x, "h": h}


def tryp(b, p, h):
    """try b catch <pattern p> -> h"""
    return {"n": "tryp", "b": b, "p": p, "h": h}


def param(x, default=None, splat=False):
    return {"x": x, "d": default if default is not None else NONE, "sp": splat}


def lam(ps, b):
    return {"n": "lam", "ps": list(ps), "b": b}


def decl(x, e):
    return {"n": "decl", "x": lv_id(x) if isinstance(x, str) else x, "e": e}


def target(x, ixs=()):
    return {"k": "id", "x": x, "ix": list(ixs)}


def ix_slice(lo=None, hi=None):
    return {"n": "slice", "lo": lo if lo is not None else NONE, "hi": hi if hi is not None else NONE}


def asg(tgt, e, every=False):
    return {"n": "asg", "x": tgt, "e": e, "every": every}


def opasg(tgt, op, e, every=False):
    return {"n": "opasg", "x": tgt, "op": op, "e": e, "every": every}


def pop(tgt):
    return {"n": "pop", "x": tgt}


def remove(tgt):
    return {"n": "remove", "x": tgt}


def consume(tgt):
    return {"n": "consume", "x": tgt}


def swap(a, b):
    return {"n": "swap", "a": a, "b": b}


def upd(e, k, v):
    return {"n": "upd", "e": e, "k": k, "v": v}


def freeze(e):
    return {"n": "freeze", "e": e}


def chain(a, o1, b, o2, c):
    """a o1 b o2 c written WITHOUT parentheses: grouped by the operators' precedences"""
    return {"n": "chain", "a": a, "o1": o1, "b": b, "o2": o2, "c": c}


def setprec(op, e):
    return {"n": "setprec", "op": op, "e": e}


def evl(e):
    """eval of the source text of e"""
    return {"n": "eval", "e": e}


def struct(name, fields):
    return {"n": "struct", "nm": name, "fs": list(fields)}


# ---------------------------------------------------------------- printer
def p_val(v):
    t = v["t"]
    if t == "null":
        return "null"
    if t == "int":
        return str(v["i"]) if v["i"] >= 0 else "(-%d)" % (-v["i"])
    if t == "str":
        return '"%s"' % v["s"]
    raise ValueError(v)


def p_lv(lv):
    if lv["k"] == "id":
        return lv["x"]
    if lv["k"] == "ignore":
        return "_"
    if lv["k"] == "lit":
        return p_val(lv["v"])
    if lv["k"] == "lity":
        return "literally (%s)" % pp(lv["e"])
    inner = ", ".join(p_lv(x) if x["k"] != "tuple" else "(%s)" % p_lv(x) for x in lv["xs"])
    return inner + "," if len(lv["xs"]) == 1 else inner      # a one-item pattern is `x,`


def p_ix(ix):
    if ix["n"] == "slice":
        return "[%s:%s]" % ("" if ix["lo"]["n"] == "none" else pp(ix["lo"]),
                            "" if ix["hi"]["n"] == "none" else pp(ix["hi"]))
    return "[%s]" % pp(ix)


def p_target(t):
    return t["x"] + "".join(p_ix(i) for i in t["ix"])


def p_clause(c):
    if c["k"] == "it":
        return "%s <- %s" % (p_lv(c["x"]), pp(c["e"]))
    if c["k"] == "item":
        return "%s <<- %s" % (p_lv(c["x"]), pp(c["e"]))
    if c["k"] == "decl":
        return "%s := %s" % (p_lv(c["x"]), pp(c["e"]))
    return "if %s" % pp(c["e"])


def pp(e):
    n = e["n"]
    if n == "lit":
        return p_val(e["v"])
    if n == "id":
        return e["x"]
    if n == "list":
        return "[%s]" % ", ".join(pp(x) for x in e["es"])
    if n == "vec":
        body = ", ".join(pp(x) for x in e["es"])
        return "V(%s)" % body if e["kind"] == "vec" else "bytes([%s])" % body
    if n == "dict":
        parts = []
        if e["def"]["n"] != "none":
            parts.append(":%s" % pp(e["def"]))
        kv = e["kvs"]
        for i in range(0, len(kv), 2):
            parts.append("%s: %s" % (pp(kv[i]), pp(kv[i + 1])))
        return "{%s}" % ", ".join(parts)
    if n == "idx":
        return "(%s)[%s]" % (pp(e["e"]), pp(e["i"]))
    if n == "slice":
        return "(%s)[%s:%s]" % (pp(e["e"]), "" if e["lo"]["n"] == "none" else pp(e["lo"]),
                                "" if e["hi"]["n"] == "none" else pp(e["hi"]))
    if n == "call":
        f = pp(e["f"])
        if e["f"]["n"] != "id":
            f = "(%s)" % f
        return "%s(%s)" % (f, ", ".join(pp(a) for a in e["as"]))
    if n == "bin":
        return "((%s) %s (%s))" % (pp(e["a"]), e["op"], pp(e["b"]))
    if n in ("and", "or"):
        return "((%s) %s (%s))" % (pp(e["a"]), n, pp(e["b"]))
    if n == "coal":
        return "((%s) coalesce (%s))" % (pp(e["a"]), pp(e["b"]))
    if n == "seq":
        return "(%s%s)" % ("; ".join(pp(x) for x in e["es"]), ";" if e["semi"] else "")
    if n == "if":
        if e["b"]["n"] == "none":
            return "(if (%s) %s)" % (pp(e["c"]), pp(e["a"]))
        return "(if (%s) %s else %s)" % (pp(e["c"]), pp(e["a"]), pp(e["b"]))
    if n == "while":
        return "(while (%s) %s)" % (pp(e["c"]), pp(e["b"]))
    if n == "for":
        head = "for (%s)" % "; ".join(p_clause(c) for c in e["cl"])
        b = e["body"]
        if b["k"] == "do":
            return "(%s %s)" % (head, pp(b["e"]))
        if b["k"] == "yield":
            into = b["cata"] or b["post"]
            return "(%s yield %s%s)" % (head, pp(b["e"]), " into %s" % into if into else "")
        return "(%s yield %s: %s)" % (head, pp(b["ke"]), pp(b["ve"]))
    if n == "break":
        s = " ".join(["break"] * (e["lv"] + 1))
        return "(%s%s)" % (s, "" if e["e"]["n"] == "none" else " " + pp(e["e"]))
    if n == "cont":
        # continuing the k-th enclosing loop is written  break ... break continue
        return "(%s)" % " ".join(["break"] * e["lv"] + ["continue"])
    if n == "ret":
        return "(return %s)" % pp(e["e"])
    if n == "throw":
        return "(throw %s)" % pp(e["e"])
    if n == "chain":
        return "(%s %s %s %s %s)" % (pp(e["a"]), e["o1"], pp(e["b"]), e["o2"], pp(e["c"]))
    if n == "setprec":
        return "(%s::precedence = %s)" % (e["op"], pp(e["e"]))
    if n == "switch":
        return "(switch (%s) %s)" % (pp(e["e"]), " ".join("case %s -> %s" % (p_lv(a["p"]), pp(a["b"])) for a in e["arms"]))
    if n == "try":
        return "(try %s catch %s -> %s)" % (pp(e["b"]), e["x"], pp(e["h"]))
    if n == "tryp":
        return "(try %s catch %s -> %s)" % (pp(e["b"]), p_lv(e["p"]), pp(e["h"]))
    if n == "lam":
        ps = []
        for p in e["ps"]:
            s = ("..." if p["sp"] else "") + p["x"]
            if p["d"]["n"] != "none":
                s += " = %s" % pp(p["d"])
            ps.append(s)
        return "(\\%s -> %s)" % (", ".join(ps), pp(e["b"]))
    if n == "decl":
        return "(%s := %s)" % (p_lv(e["x"]), pp(e["e"]))
    if n == "asg":
        return "(%s%s = %s)" % ("every " if e["every"] else "", p_target(e["x"]), pp(e["e"]))
    if n == "opasg":
        return "(%s%s %s= %s)" % ("every " if e["every"] else "", p_target(e["x"]), e["op"], pp(e["e"]))
    if n == "pop":
        return "(pop %s)" % p_target(e["x"])
    if n == "remove":
        return "(remove %s)" % p_target(e["x"])
    if n == "consume":
        return "(consume %s)" % p_target(e["x"])
    if n == "swap":
        return "(swap %s, %s)" % (p_target(e["a"]), p_target(e["b"]))
    if n == "upd":
        return "(%s){%s = %s}" % (pp(e["e"]), pp(e["k"]), pp(e["v"]))
    if n == "freeze":
        return "(freeze %s)" % pp(e["e"])
    if n == "struct":
        return "struct %s (%s)" % (e["nm"], ", ".join(e["fs"]))
    if n == "eval":
        return 'eval("%s")' % pp(e["e"]).replace("\\", "\\\\").replace('"', '\\"')
    raise ValueError(n)
