"""C09 helpers: canonical harness values <-> the TLA+ encoding of spec/Dict.tla, kinds for finding keys.

Nothing here knows what a dictionary operation should do: it converts and compares for equality only.
"""
import json

import nv


def tla_num(c):
    n = nv.tla_num(c)
    n.pop("big", None)      # the representation of an integer is never part of a value
    return n


def tla_val(c):
    """canonical JSON of the harness -> Dict.tla value (dictionary entries as a list of pairs)"""
    t = c["t"]
    if t == "null":
        return {"t": "null"}
    if t in ("int", "rat", "float", "complex"):
        return {"t": "num", "n": tla_num(c)}
    if t == "str":
        return {"t": "str", "str": c["v"]}
    if t == "list":
        return {"t": "list", "xs": [tla_val(x) for x in c["v"]]}
    if t == "vec":
        return {"t": "vec", "ns": [tla_num(x) for x in c["v"]]}
    if t == "bytes":
        return {"t": "bytes", "bs": list(c["v"])}
    if t == "dict":
        return {"t": "dict", "es": [[tla_val(k), tla_val(v)] for k, v in c["v"]],
                "df": [tla_val(c["def"])] if "def" in c else []}
    # streams, functions, instances ... are not values of the model
    return {"t": "other", "str": t}


def strip_big(c):
    """canonical JSON without the small/big representation flag (recursively)"""
    if isinstance(c, dict):
        return {k: strip_big(v) for k, v in c.items() if k != "big"}
    if isinstance(c, list):
        return [strip_big(x) for x in c]
    return c


def cj(c):
    """text key of a canonical value, representation-blind"""
    return json.dumps(strip_big(c), sort_keys=True)


def kind(c):
    """kind signature of a canonical value, used in finding keys (stable, location independent)"""
    t = c.get("t")
    if t == "int":
        return "bigint" if c.get("big") else "int"
    if t == "float":
        cls = nv.float_parts(c["bits"])[0]
        return {"nan": "nan", "inf": "inf"}.get(cls, "float")
    if t in ("rat", "complex", "str", "null", "bytes"):
        return t
    if t == "list":
        return "list[" + ",".join(sorted(set(kind(x) for x in c["v"]))) + "]"
    if t == "vec":
        return "vec[" + ",".join(sorted(set(kind(x) for x in c["v"]))) + "]"
    if t == "dict":
        return "dict{" + ",".join(sorted(set(kind(k) + ":" + kind(v) for k, v in c["v"]))) + "}"
    return str(t)


def cv(c):
    """compact value of MC_Dict's REPLAY lines: native int, "n" for null, else the TLA+ encoding"""
    if c["t"] == "null":
        return "n"
    if c["t"] == "int" and abs(int(c["v"])) < 2 ** 30:
        return int(c["v"])
    return tla_val(c)


def int_src(n):
    return str(n) if n >= 0 else "(-%d)" % (-n)


def cv_src(v):
    """source text of a compact value"""
    if v == "n":
        return "null"
    if isinstance(v, int):
        return int_src(v)
    raise ValueError(v)


def outcome(step):
    """outcome class of a harness step"""
    o = step.get("o")
    if o == "panic":
        return "panic:" + nv.norm_panic(step.get("e", ""))
    return o
