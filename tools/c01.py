"""C01 - collections have value semantics: mutation never leaks through an alias.

The oracle is spec/Lang.tla, a reference interpreter over IMMUTABLE values in which a mutation
statement is a functional update of one variable.
(a) MC_Lang over the mutation vocabulary: TLC explores every history of <= 3 (quick) / 4 (thorough)
    statements on top of a prelude that sets up aliased nested lists, a dict with default and a
    vector, checks Frame (nothing outside the statement's write set changes) as an invariant, and
    prints every transition; each is replayed in the real interpreter and EVERY tracked variable is
    compared after it.
(b) Trace validation: seeded random histories of 30-60 statements over 6 variables (nested lists,
    dicts with/without default, vectors, bytes; aliasing through variables, container elements,
    closures and function arguments; index / op / every assignment, pop, remove, swap, consume,
    update expressions, loops over aliased lists, calls of read-only builtins) - Trace_Lang
    re-executes each statement on the specification's state and compares the full snapshot.
"""
import json
import random
import shutil

import langgen as g
import langmc
import langtrace
import nv

I, L = g.ident, g.lit
TRACK = ["xx", "yy", "zz", "dd", "vv", "rr", "ff", "gg", "si", "sj", "st", "su", "mm", "kk"]


def T(x, *ix):
    return g.target(x, list(ix))


def vocabulary():
    nested = g.lst([g.lst([L(0), L(1)]), g.lst([L(0), L(1)])])
    V = []

    def add(name, ast, w):
        V.append(dict(name=name, ast=ast, w=w))
    # prelude (4 statements)
    add("decl-nested", g.decl("xx", nested), ["xx"])
    add("alias", g.decl("yy", I("xx")), ["yy"])
    add("decl-dict", g.decl("dd", g.dct([(L(1), g.lst([L(0)]))], default=g.lst([]))), ["dd"])
    add("decl-vec", g.decl("vv", g.vec([L(1), L(2)])), ["vv"])
    add("decl-struct", g.struct("Foo", ["fa", "fb"]), [])
    add("decl-inst", g.decl("si", g.call(I("Foo"), [L(1), g.lst([L(0), L(1)])])), ["si"])
    add("decl-str", g.decl("st", L("abc")), ["st"])
    # explored
    add("inst-alias", g.decl("sj", I("si")), ["sj"])
    add("inst-field-assign", g.asg(T("si", I("fa")), L(5)), ["si"])
    add("inst-field-op", g.opasg(T("si", I("fb")), "append", L(3)), ["si"])
    add("inst-field-inner", g.asg(T("si", I("fb"), L(0)), L(9)), ["si"])
    add("inst-field-pop", g.pop(T("si", I("fb"))), ["si"])
    add("inst-swap-fields", g.swap(T("si", I("fa")), T("si", I("fb"))), ["si"])
    add("inst-consume-field", g.consume(T("si", I("fa"))), ["si"])
    add("inst-into-list", g.asg(T("xx", L(0)), I("si")), ["xx"])
    add("inst-update-expr", g.asg(T("yy"), g.upd(I("si"), I("fa"), L(3))), ["yy"])
    add("inst-wrong-index", g.asg(T("si", L(0)), L(1)), ["si"])
    add("str-alias", g.decl("su", I("st")), ["su"])
    add("str-byte-assign", g.asg(T("st", L(0)), L("x")), ["st"])
    add("str-byte-assign-neg", g.asg(T("st", L(-1)), L("z")), ["st"])
    add("str-byte-op", g.try_(g.opasg(T("st", L(1)), "append", L("y")), "ee", L(0)), ["st"])
    add("str-bad-assign", g.asg(T("st", L(7)), L("y")), ["st"])
    add("str-two-bytes", g.asg(T("st", L(0)), L("xy")), ["st"])
    add("str-into-inst", g.asg(T("si", I("fa")), I("st")), ["si"])
    add("nest-alias", g.decl("zz", g.lst([I("yy"), I("yy")])), ["zz"])
    add("elem-alias", g.asg(T("yy"), g.idx(I("xx"), L(0))), ["yy"])
    add("reassign", g.asg(T("xx"), I("yy")), ["xx"])
    add("idx2-assign", g.asg(T("xx", L(0), L(1)), L(5)), ["xx"])
    add("idx-assign-var", g.asg(T("xx", L(1)), I("yy")), ["xx"])
    add("idx-opassign", g.opasg(T("xx", L(0)), "append", L(7)), ["xx"])
    add("opassign-var", g.opasg(T("xx"), "append", I("yy")), ["xx"])
    add("opassign-self", g.opasg(T("xx"), "++", I("xx")), ["xx"])
    add("idx-opassign-reads-self", g.opasg(T("xx", L(0)), "append", I("xx")), ["xx"])
    add("idx-opassign-reads-slot", g.opasg(T("xx", L(0)), "++", g.idx(I("xx"), L(0))), ["xx"])
    add("idx-opassign-rhs-throws", g.try_(g.opasg(T("xx", L(0)), "append", g.seq([g.throw(L(1)), L(2)])), "ee", L(0)), ["xx"])
    add("opassign-rhs-throws", g.try_(g.opasg(T("xx"), "append", g.seq([g.throw(L(1)), L(2)])), "ee", L(0)), ["xx"])
    add("idx-opassign-op-fails", g.try_(g.opasg(T("xx", L(0)), "+", L(1)), "ee", L(0)), ["xx"])
    add("pop-inner", g.pop(T("xx", L(0))), ["xx"])
    add("pop", g.pop(T("yy")), ["yy"])
    add("remove", g.remove(T("xx", L(0))), ["xx"])
    add("remove-slice", g.remove(T("yy", g.ix_slice(L(0), L(1)))), ["yy"])
    add("swap", g.swap(T("xx"), T("yy")), ["xx", "yy"])
    add("swap-elems", g.swap(T("xx", L(0)), T("xx", L(-1))), ["xx"])
    add("swap-cross", g.swap(T("xx", L(0)), T("yy", L(1))), ["xx", "yy"])
    add("consume-elem", g.consume(T("xx", L(0))), ["xx"])
    add("update-expr", g.asg(T("yy"), g.upd(I("xx"), L(0), L(9))), ["yy"])
    add("every", g.asg(T("xx", g.ix_slice(L(0), L(1))), L(3), every=True), ["xx"])
    add("every-inner", g.asg(T("xx", L(1), g.ix_slice(None, None)), L(4), every=True), ["xx"])
    # every x[..] op= v works on a copy that is stored back only on success
    add("decl-mixed", g.decl("mm", g.lst([L(1), L(2), L("a"), L(4)])), ["mm"])
    add("every-op-ok", g.opasg(T("mm", g.ix_slice(L(0), L(2))), "+", L(1), every=True), ["mm"])
    add("every-op-fails", g.try_(g.opasg(T("mm", g.ix_slice(None, None)), "+", L(1), every=True), "ee", L(0)), ["mm"])
    add("every-op-inner", g.opasg(T("xx", L(0), g.ix_slice(None, None)), "+", L(1), every=True), ["xx"])
    add("def-reading-op", g.decl("kk", g.lam([g.param("aa"), g.param("bb")], g.binop("+", g.binop("+", I("aa"), I("bb")), g.call(I("len"), [I("mm")])))), ["kk"])
    add("every-op-closure", g.opasg(T("mm", g.ix_slice(L(0), L(2))), "kk", L(1), every=True), ["mm"])
    add("def-mutator", g.decl("ff", g.lam([g.param("aa")], g.seq([g.asg(T("aa", L(0)), L(8)),
                                                                   g.opasg(T("aa"), "append", L(6)), I("aa")]))), ["ff"])
    add("call-mutator", g.decl("rr", g.call(I("ff"), [I("xx")])), ["rr"])
    add("def-capture", g.decl("gg", g.lam([], g.seq([g.opasg(T("xx", L(0)), "append", L(2)), I("xx")]))), ["gg"])
    add("call-capture", g.asg(T("yy"), g.call(I("gg"), [])), ["yy", "xx"])
    add("loop-mutate-copy", g.for_do([g.cl_it(g.lv_id("ee"), I("xx"))], g.opasg(T("ee"), "append", L(1))), [])
    add("dict-default-op", g.opasg(T("dd", L(2)), "append", L(1)), ["dd"])
    add("dict-alias", g.asg(T("yy"), I("dd")), ["yy"])
    add("dict-inner", g.asg(T("dd", L(1), L(0)), L(4)), ["dd"])
    add("dict-remove", g.remove(T("dd", L(1))), ["dd"])
    add("nested-assign", g.asg(T("zz", L(0), L(0)), L(6)), ["zz"])
    add("nested-op", g.opasg(T("zz", L(1)), "append", L(2)), ["zz"])
    add("vec-alias", g.asg(T("yy"), I("vv")), ["yy"])
    add("vec-assign", g.asg(T("vv", L(0)), L(9)), ["vv"])
    add("yy-idx-assign", g.asg(T("yy", L(0)), L(7)), ["yy"])
    add("call-len", g.call(I("len"), [I("xx")]), [])
    add("call-concat", g.binop("++", I("xx"), I("yy")), [])
    add("call-append", g.binop("append", I("xx"), I("yy")), [])
    return V, 7


# ------------------------------------------------------------------ random histories
NAMES = ["va", "vb", "vc", "vd", "ve", "vf"]


def rand_value(rng, depth=0):
    r = rng.random()
    if depth >= 2 or r < 0.25:
        return L(rng.randint(0, 9))
    if r < 0.31:
        return L(rng.choice(["abc", "q", "hello"]))
    if r < 0.40:
        return g.call(I("Foo"), [rand_value(rng, depth + 1), rand_value(rng, depth + 1)])
    if r < 0.7:
        return g.lst([rand_value(rng, depth + 1) for _ in range(rng.randint(1, 3))])
    if r < 0.85:
        kvs = [(L(k), rand_value(rng, depth + 1)) for k in rng.sample(range(0, 4), rng.randint(1, 3))]
        return g.dct(kvs, default=(g.lst([]) if rng.random() < 0.5 else None))
    if r < 0.95:
        return g.vec([L(rng.randint(0, 9)) for _ in range(rng.randint(1, 4))])
    return g.vec([L(rng.randint(0, 200)) for _ in range(rng.randint(1, 4))], kind="bytes")


def rand_ix(rng):
    if rng.random() < 0.12:
        return I(rng.choice(["fa", "fb"]))
    return L(rng.choice([0, 0, 1, 1, 2, -1]))


def rand_path(rng, maxlen=2):
    return [rand_ix(rng) for _ in range(rng.randint(1, maxlen))]


def rand_history(rng, n):
    declared = []
    stmts = [g.struct("Foo", ["fa", "fb"])]
    funcs = []

    def var():
        return rng.choice(declared)
    while len(stmts) < n:
        r = rng.random()
        if len(declared) < 2 or (r < 0.10 and len(declared) < len(NAMES)):
            x = [v for v in NAMES if v not in declared][0]
            kind = rng.random()
            if kind < 0.5 or not declared:
                stmts.append(g.decl(x, rand_value(rng)))
            elif kind < 0.75:
                stmts.append(g.decl(x, I(var())))
            elif kind < 0.9:
                stmts.append(g.decl(x, g.lst([I(var()), I(var())])))
            else:
                stmts.append(g.decl(x, g.idx(I(var()), rand_ix(rng))))
            declared.append(x)
            continue
        x = var()
        if r < 0.18:
            stmts.append(g.asg(T(x), rng.choice([I(var()), rand_value(rng), g.lst([I(var()), L(1)]),
                                                 g.idx(I(var()), rand_ix(rng))])))
        elif r < 0.36:
            stmts.append(g.asg(T(x, *rand_path(rng)), rng.choice([L(rng.randint(0, 9)), I(var()), rand_value(rng, 1), L("z")])))
        elif r < 0.50:
            op = rng.choice(["append", "append", "++", "+", ".+"])
            rhs = {"append": rng.choice([L(rng.randint(0, 9)), I(var())]), "++": rng.choice([I(var()), g.lst([L(1)])]),
                   "+": L(rng.randint(1, 3)), ".+": I(var())}[op]
            if op == ".+":
                # prepend: the variable is the RIGHT operand of .+ in `x .+= y`?  no: x op= y is op(x, y)
                op, rhs = "append", L(5)
            if op in ("append", "++") and rng.random() < 0.25:
                rhs = rng.choice([I(x), g.idx(I(x), rand_ix(rng)), g.lst([I(x)])])
            st = g.opasg(T(x, *rand_path(rng, 2)) if rng.random() < 0.6 else T(x), op, rhs)
            if rng.random() < 0.08:
                st = g.try_(g.opasg(st["x"], op, g.seq([g.throw(L(1)), rhs])), "ce", L(0))
            stmts.append(st)
        elif r < 0.56:
            stmts.append(g.pop(T(x, *rand_path(rng, 1)) if rng.random() < 0.5 else T(x)))
        elif r < 0.62:
            p = rand_path(rng, 2)
            if rng.random() < 0.3:
                p[-1] = g.ix_slice(rng.choice([None, L(0), L(1)]), rng.choice([None, L(1), L(2)]))
            stmts.append(g.remove(T(x, *p)))
        elif r < 0.68:
            y = var()
            a = T(x, *rand_path(rng, 1)) if rng.random() < 0.5 else T(x)
            b = T(y, *rand_path(rng, 1)) if rng.random() < 0.5 else T(y)
            stmts.append(g.swap(a, b))
        elif r < 0.71:
            stmts.append(g.consume(T(x, *rand_path(rng, 1))))
        elif r < 0.76:
            stmts.append(g.asg(T(var()), g.upd(I(x), rand_ix(rng), rng.choice([L(7), I(var())]))))
        elif r < 0.81:
            p = rand_path(rng, 1) if rng.random() < 0.4 else []
            stmts.append(g.asg(T(x, *(p + [g.ix_slice(rng.choice([None, L(0), L(1)]), rng.choice([None, L(1), L(2), L(-1)]))])),
                               rng.choice([L(3), I(var())]), every=True))
        elif r < 0.83:
            # every x[..][a:b] op= v: all addressed slots or none
            p = rand_path(rng, 1) if rng.random() < 0.4 else []
            st = g.opasg(T(x, *(p + [g.ix_slice(rng.choice([None, L(0), L(1)]), rng.choice([None, L(1), L(2), L(-1)]))])),
                         rng.choice(["+", "append", "++"]), rng.choice([L(1), g.lst([L(5)]), I(var())]), every=True)
            stmts.append(g.try_(st, "ce", L(0)) if rng.random() < 0.5 else st)
        elif r < 0.86:
            if not funcs or rng.random() < 0.3:
                f = "fn%d" % len(funcs)
                body = [g.asg(T("pa", rand_ix(rng)), L(8))] if rng.random() < 0.6 else [g.opasg(T("pa"), "append", L(6))]
                if rng.random() < 0.5:
                    body.append(g.opasg(T("pa"), "append", I("pa")))
                stmts.append(g.decl(f, g.lam([g.param("pa")], g.seq(body + [I("pa")]))))
                funcs.append(f)
            else:
                stmts.append(g.asg(T(var()), g.call(I(rng.choice(funcs)), [I(x)])))
        elif r < 0.90:
            # a closure capturing a variable, mutating it when called
            f = "cl%d" % len(funcs)
            stmts.append(g.decl(f, g.lam([], g.seq([g.opasg(T(x), "append", L(2)), I(x)]))))
            stmts.append(g.asg(T(var()), g.call(I(f), [])))
            funcs.append("fn_dummy") if False else None
        elif r < 0.94:
            y = var()
            # (the iterated value is sliced: only sequences iterate, dict iteration order is unspecified)
            stmts.append(g.for_do([g.cl_it(g.lv_id("it"), g.slc(I(x)))],
                                  rng.choice([g.opasg(T(y), "append", I("it")), g.opasg(T("it"), "append", L(1)),
                                              g.asg(T(x, L(0)), I("it"))])))
        else:
            stmts.append(rng.choice([g.call(I("len"), [I(x)]), g.binop("++", I(x), I(var())),
                                     g.binop("==", I(x), I(var())), g.binop("append", I(x), I(var()))]))
    return dict(stmts=stmts, track=list(NAMES), tag="hist")


def stmt_form(ast):
    n = ast["n"]
    if n in ("asg", "opasg"):
        return "%s%s/%d" % ("every-" if ast.get("every") else "", n, len(ast["x"]["ix"]))
    if n in ("pop", "remove", "consume"):
        return "%s/%d" % (n, len(ast["x"]["ix"]))
    return n


def run(tier):
    seed = nv.seed()
    rep = nv.Report("C01", tier, seed, "model_checking")
    wd = nv.work_dir("C01")
    nv.build_harness()
    vocab, prelude = vocabulary()
    mc = langmc.run(rep, "C01", tier, wd, vocab, TRACK, tag="c01", prelude=prelude)
    rng = random.Random(seed + 1)
    nh = 150 if tier == "quick" else 2500
    hists = [rand_history(rng, rng.randint(30, 60)) for _ in range(nh)]
    events, info = langtrace.run_histories(hists)
    mism, n = nv.validate_trace("Trace_Lang", events, wd, chunk=700, timeout=2400)
    # after the first disagreement the specification continues from ITS state, so later mismatches
    # of the same history are usually consequences: report the first one per history, count all
    first = {}
    for idx, exp in sorted(mism):
        first.setdefault(info[idx]["hist"], (idx, exp))
    all_mismatches = len(mism)
    for idx, exp in sorted(first.values()):
        i = info[idx]
        o = i["observed"].get("o")
        what = "wrong-state" if o == exp["out"] else "%s-instead-of-%s" % (o, exp["out"])
        if o == "panic":
            what = "panic:" + nv.norm_panic(i["observed"].get("e", ""))
        ast = hists[i["hist"]]["stmts"][i["step"]]
        key = "hist:%s:%s" % (stmt_form(ast), what)
        rep.mismatch(key, "%s (statement %d of a history): observed %s %s, specification expects %s" % (
            i["src"], i["step"], o, json.dumps([g.from_canon(c) for c in i["observed"].get("obs", [])])[:300],
            json.dumps(exp)[:400]),
            {"steps": i["prefix"] + [i["src"]], "expected": exp, "observed": i["observed"], "track": NAMES})
    nontrivial = len({(i["hist"], i["step"]) for i in info if i and i["step"] >= 3})
    for h in hists[:2]:
        rep.sample({"history": [g.pp(s) for s in h["stmts"][:12]] + ["..."]})
    shutil.rmtree(wd, ignore_errors=True)
    return rep.finish({
        "states": mc["distinct"], "transitions": mc["transitions"],
        "traces_validated_against_impl": mc["transitions"] + n, "evaluations": mc["transitions"] + n,
        "distinct_nontrivial": mc["nontrivial"] + nontrivial,
        "rule": "MC: one case per (history, next statement) over the %d-statement mutation vocabulary on an aliased "
                "prelude, non-trivial = the history has at least one earlier statement (aliases exist when the "
                "mutation runs); trace: one event per statement of %d random histories, non-trivial = at least three "
                "statements precede it; after every statement all tracked variables are compared" % (len(vocab), nh),
        "trace_events": n, "trace_mismatching_events": all_mismatches, "mc_invariants": ["Frame", "Sane"],
        "checker_cmd": "tlc MC_Lang.tla (all histories over the vocabulary, every transition replayed) + tlc Trace_Lang.tla",
        "trusted_base": ["TLC", "CommunityModules Json/IOUtils", "source printer tools/langgen.py",
                         "harness canonical projection"],
    })
