"""C02 - mutating an unshared collection is in place: no hidden copies.

Oracle: spec/Cow.tla, the reference-counted copy-on-write protocol as a cost model (strong counts
derived from variables / heap slots / evaluator temporaries; MakeMut copies iff the count is > 1;
operator-assignment drops the LHS before the operator runs).  `copied` is the specification's
prediction of the number of element slots a statement copies.
(a) MC_Cow: every workload of <= 5 (quick) / 6 (thorough) statements over two variables (flat and
    nested collections, aliasing, x[i] = v, m[i][j] = v, x op= v, pop) is explored; InPlaceWhenUnique,
    CopyBounded, RepeatIsFree and RcSane are invariants; every transition is replayed at size
    N = 4000 in the real interpreter for several collection kinds and the bytes requested from the
    allocator while the last statement runs must stay below 4 * elem_bytes * copied + slack
    (growing statements are repeated 50 times and judged on the total).
(b) Trace validation: seeded random workloads (sizes 2000..8000; lists, dicts, vectors, bytes,
    nested rows; 60-200 mutation statements each) - Trace_Cow advances the heap model per statement
    and checks the per-statement bound and the per-workload amortised budget.
Time is never measured; the bound is one-sided (allocating less is never an alarm).
"""
import json
import random
import re
import shutil

import nv

KINDS = {
    # kind: (element bytes, init(var, n), set, opassign, pop)
    "list": (48, lambda v, n: "%s := [0] ** %d" % (v, n), "%s[1] = 7", "%s append= 7", "pop %s"),
    "dict": (128, lambda v, n: "%s := (for (ii <- 0 til %d) yield ii: ii)" % (v, n), "%s[1] = 7", "%s |.= 1", None),
    "vec": (32, lambda v, n: "%s := vector([0] ** %d)" % (v, n), "%s[1] = 7", "%s append= 7", None),
    "bytes": (1, lambda v, n: "%s := bytes([0] ** %d)" % (v, n), "%s[1] = 7", "%s append= 7", None),
}
SLACK = 4096
REPEAT = 50

# Surface forms of one protocol step.  The specification (Cow.tla) has ONE action per step kind
# (set / opassign / pop / set2 / opassign2); every in-place-eligible statement form the property names
# is a rendering of one of them, chosen by the statement's "var" field (default 0).  {v} is the
# variable, {r} the row / field designator of a nested collection.
VARIANTS = {
    ("list", "set"): ["{v}[1] = 7", "{v}[-1] = 7", "{v}[1] += 1", "{v}[1] max= 3", "every {v}[1:3] = 7",
                      "swap {v}[0], {v}[1]", "consume {v}[0]"],
    ("list", "opassign"): ["{v} append= 7", "{v} ++= [7]", "{v} +.= 7", "{v} ++= [7, 8, 9]"],
    ("list", "pop"): ["pop {v}", "remove {v}[-1]"],
    ("dict", "set"): ["{v}[1] = 7", "{v}[1] += 1", "{v}[1] max= 3"],
    ("dict", "opassign"): ["{v} |.= 1", "{v} ||= {{1: 2}}", "{v} -.= 99999", "{v} |.= 100001"],
    ("vec", "set"): ["{v}[1] = 7", "{v}[1] += 1", "{v}[-1] = 7"],
    ("vec", "opassign"): ["{v} append= 7", "{v} ++= V(7)"],
    ("bytes", "set"): ["{v}[1] = 7", "{v}[1] += 1", "{v}[-1] = 7"],
    ("bytes", "opassign"): ["{v} append= 7", "{v} ++= B[7]"],
    # {R}: the row designator - [i] for a row / dict entry, [fa] or ::fa for a struct field
    ("*", "set2"): ["{v}{R}[2] = 7", "{v}{R}[2] += 1", "{v}{R}[-1] = 7", "remove {v}{R}[-1]", "pop {v}{R}"],
    ("*", "opassign2"): ["{v}{R} append= 7", "{v}{R} ++= [7]", "{v}{R} +.= 7"],
}


def variants(kind, op):
    return VARIANTS.get((kind, op)) or VARIANTS.get(("*", op)) or [None]


def nvariants(kind, op):
    return len(variants(kind, op))


TYPE_OF = {"list": "list", "dict": "dict", "vec": "vector", "bytes": "bytes"}


def render(stmt, kind, n, rows=3):
    src = render0(stmt, kind, n, rows)
    if stmt.get("typed") and stmt["op"] in ("flat", "nested", "nestedd") and " := " in src:
        # the variable is DECLARED WITH A TYPE: every later indexed mutation is followed by a type re-check,
        # which must not cost a copy either
        ty = TYPE_OF[kind] if stmt["op"] == "flat" or kind == "dict" else "list"
        name, rhs = src.split(" := ", 1)
        src = "%s: %s = %s" % (name, ty, rhs)
    return src


def render0(stmt, kind, n, rows=3):
    eb, init, setf, opf, popf = KINDS[kind]
    op, v = stmt["op"], stmt["v"] + stmt["v"]          # variable names xx / yy
    if op == "flat":
        return init(v, n)
    if op == "nested":
        return "%s := [[0] ** %d] ** %d" % (v, n, rows)
    if op == "nestedd":
        # separate row payloads; as a dict of lists for kind "dict" (the `{: []}` grouping idiom)
        if kind == "dict":
            return "%s := {%s}" % (v, ", ".join("%d: [0] ** %d" % (j, n) for j in range(rows)))
        return "%s := [%s]" % (v, ", ".join("[0] ** %d" % n for _ in range(rows)))
    if op == "field":
        # a struct instance whose first field holds the collection (the declaration is part of the statement)
        return "%s := (struct Foo (fa, fb); Foo([0] ** %d, 0))" % (v, n)
    if op == "alias":
        return "%s := %s" % (v, stmt["w"] + stmt["w"])
    if stmt.get("times", 1) > 1:
        body = {"opassign": "%s append= ii", "pop": "pop %s", "set": "%s[1] = ii"}[op] % v
        return "for (ii <- 1 to %d) (%s)" % (stmt["times"], body)
    if op in ("set", "opassign", "pop", "set2", "opassign2"):
        forms = variants(kind, op)
        if stmt.get("nested") and op == "set":
            # the elements are rows: a swap would move a shared row to another slot, which the model's
            # `set` step (it only makes the outer payload unique) does not follow
            forms = [f for f in forms if not f.startswith("swap")]
        var = stmt.get("var", 0)
        if stmt.get("field"):
            R = "::fa" if (var // len(forms)) % 2 else "[fa]"       # both ways of addressing a field
        else:
            R = "[%d]" % (stmt.get("i", 1) - 1)
        return forms[var % len(forms)].format(v=v, R=R)
    raise ValueError(op)


def redeclare_safe(stmts_src):
    """`x := ..` twice in one session is a redeclaration error: later ones become plain assignments"""
    seen = set()
    out = []
    for s in stmts_src:
        m = re.match(r"^(\w+)(: \w+ = | := )", s)
        if m:
            v = m.group(1)
            if v in seen:
                s = v + " = " + s[m.end():]
            seen.add(v)
        out.append(s)
    return out


def mc(rep, tier, wd):
    cfg = "MC_Cow_%s.cfg" % tier
    r = nv.run_tlc("MC_Cow", cfg, wd, workers=nv.JOBS, timeout=3000)
    if not r["ok"]:
        if "is violated" in r["error"]:
            rep.mismatch("spec:MC_Cow:invariant", "TLC found a protocol invariant violated by the specification",
                         {"tlc": r["error"][:3000]})
        else:
            print(r["error"])
            nv.tool_fail("TLC failed on MC_Cow")
    trans = [json.loads(x) for x in r["tagged"].get("REPLAY", [])]
    kinds = ["list"] if tier == "quick" else ["list", "dict", "vec", "bytes"]
    cases, meta = [], []
    for t in trans:
        seq = list(t["hist"]) + [t["stmt"]]
        if t["stmt"]["op"] not in ("set", "set2", "opassign", "opassign2", "pop"):
            continue
        nested_only = any(s["op"] in ("nested", "nestedd", "set2", "opassign2") for s in seq)
        has_dictrows = any(s["op"] == "nestedd" for s in seq) and not any(s["op"] in ("nested", "flat") for s in seq)
        for kind in (kinds if not has_dictrows else list(dict.fromkeys(kinds + ["dict"]))):
            if nested_only and kind != "list" and not (kind == "dict" and has_dictrows):
                continue
            if kind != "list" and any(s["op"] == "pop" for s in seq):
                continue
            n = 4000 if kind != "bytes" else 40000
            # every surface form of the step gets its share of the replayed workloads
            salt = len(cases)
            seq = [dict(s, nested=nested_only, typed=(salt % 3 == 1), var=(salt // 3 + 7 * q) if q < len(seq) - 1 else salt) for q, s in enumerate(seq)]
            srcs = redeclare_safe([render(s, kind, n) for s in seq])
            growth = t["stmt"]["op"] in ("opassign", "opassign2")
            steps = [{"src": s} for s in srcs]
            if growth:
                steps += [{"src": srcs[-1]} for _ in range(REPEAT - 1)]
            cases.append({"id": len(cases), "steps": steps})
            meta.append(dict(t=t, kind=kind, n=n, growth=growth, nlast=len(srcs) - 1))
    res = nv.run_cases(cases, timeout_ms=20000)
    nontrivial = 0
    for c, m in zip(cases, meta):
        st = res[c["id"]]
        eb = KINDS[m["kind"]][0]
        # model sizes are abstract (N = 4 per flat collection / row, 3 rows): scale the prediction
        copied_model = m["t"]["copied"]
        copied = (copied_model // 4) * m["n"] + (copied_model % 4)
        if len(st) != len(c["steps"]) or any(s.get("o") not in ("ok",) for s in st[m["nlast"]:]):
            # the statement itself failed (e.g. pop of an empty list is impossible here): report as data
            bad = [s for s in st if s.get("o") != "ok"]
            if bad and bad[0].get("o") in ("panic", "timeout", "abort"):
                rep.mismatch("mc:%s:%s" % (m["t"]["stmt"]["op"], bad[0].get("o")), "statement crashed", {"steps": [x["src"] for x in c["steps"]][:8], "observed": bad[0]})
            continue
        used = sum(s.get("alloc", 0) for s in st[m["nlast"]:])
        if m["growth"]:
            bound = 4 * eb * (copied + 2 * m["n"]) + REPEAT * SLACK
        else:
            bound = 4 * eb * copied + SLACK
        if copied_model > 0 or len(m["t"]["hist"]) >= 2:
            nontrivial += 1
        if used > bound:
            key = "mc:%s:%s:%s" % (m["t"]["stmt"]["op"], m["kind"], "copies-when-unshared" if copied == 0 else "copies-too-much")
            rep.mismatch(key, "%s allocated %d bytes, the protocol predicts %d copied slots (bound %d bytes)" % (
                "; ".join(x["src"] for x in c["steps"][:m["nlast"] + 1]), used, copied, bound),
                {"steps": [x["src"] for x in c["steps"]][:m["nlast"] + 1], "expected": {"copied": copied, "bound": bound},
                 "observed": {"bytes": used}})
    if cases:
        k = len(cases) // 2
        rep.sample({"mc_workload": [x["src"] for x in cases[k]["steps"]][:meta[k]["nlast"] + 1],
                    "predicted_copied_slots": meta[k]["t"]["copied"]})
    return dict(distinct=r["distinct"], transitions=len(trans), replayed=len(cases), nontrivial=nontrivial)


def drive(rep, tier, seed):
    rng = random.Random(seed + 2)
    nw = 48 if tier == "quick" else 400
    kinds_rr = ["list", "dictrows", "dict", "rows", "vec", "field", "bytes", "nested", "list"]
    cases, plans = [], []
    for _ in range(nw):
        # every kind gets its share whatever the seed (round robin over the non-stack workloads)
        kind = kinds_rr[sum(1 for q in plans if q["kind"] != "stack") % len(kinds_rr)]
        base = "dict" if kind == "dictrows" else ("list" if kind in ("nested", "rows", "field") else kind)
        n = rng.choice([2000, 4000, 8000]) * (10 if kind == "bytes" else 1)
        eb = KINDS[base][0]
        nstack = sum(1 for q in plans if q["kind"] == "stack")
        if nstack < 4 or rng.random() < 0.08:
            # a list used as a stack: grown in bulk, popped in bulk down to a length next to a power of two
            # (where capacity policies have their boundaries), then single appends / pops around it
            top = rng.randint(1500, 9000)
            pw = 2 ** rng.randint(8, top.bit_length() - 1)
            # (the first four land one below the power of two: the classic boundary of a halving policy)
            land = max(4, pw + (-1 if nstack < 4 else rng.choice([-2, -1, -1, 0, 1])))
            stmts = [{"op": "flat", "v": "x"}, {"op": "opassign", "v": "x", "times": top, "var": 0},
                     {"op": "pop", "v": "x", "times": top - land, "var": 0}]
            amp = 2 + nstack % 2 if nstack < 4 else rng.choice([1, 2, 2, 3])
            for _ in range(rng.randint(25, 45) if tier == "quick" else rng.randint(40, 80)):
                stmts += [{"op": "opassign", "v": "x", "var": 0}] * amp + [{"op": "pop", "v": "x", "var": 0}] * amp
            srcs = redeclare_safe([render(s, "list", 0) for s in stmts])
            cases.append({"id": len(cases), "steps": [{"src": s} for s in srcs]})
            plans.append(dict(stmts=stmts, n=0, eb=48, kind="stack"))
            continue
        stmts = [{"op": {"nested": "nested", "rows": "nestedd", "dictrows": "nestedd", "field": "field"}.get(kind, "flat"), "v": "x",
                  "typed": len(plans) % 2 == 1}]
        k = rng.randint(60, 200) if tier == "thorough" else rng.randint(40, 90)
        aliased_at = set(rng.sample(range(1, k), rng.choice([0, 1, 1, 2])))
        for j in range(1, k):
            if j in aliased_at:
                stmts.append({"op": "alias", "v": "y", "w": "x"})
                continue
            if kind in ("rows", "dictrows", "field"):
                forms = ["opassign2", "opassign2", "set2"]
            else:
                forms = ["set", "opassign"] + (["pop"] if base == "list" else []) + (["set2", "set2", "opassign2"] if kind == "nested" else [])
            f = rng.choice(forms)
            s = {"op": f, "v": rng.choice(["x", "x", "x", "y"]) if any(t["op"] == "alias" for t in stmts) else "x"}
            if f in ("set2", "opassign2"):
                s["i"] = 1 if kind == "field" else rng.randint(1, 3)
                s["field"] = kind == "field"
            s["var"] = rng.randrange(2 * nvariants(base, f))      # (the upper half selects ::field addressing)
            s["nested"] = kind in ("nested", "rows")
            stmts.append(s)
        srcs = redeclare_safe([render(s, base, n) for s in stmts])
        cases.append({"id": len(cases), "steps": [{"src": s} for s in srcs]})
        plans.append(dict(stmts=stmts, n=n, eb=eb, kind=kind))
    res = nv.run_cases(cases, timeout_ms=30000)
    events, info = [], []
    for c, p in zip(cases, plans):
        st = res[c["id"]]
        events.append({"ev": "reset"})
        info.append(None)
        cur = high = p["n"]
        for j, s in enumerate(p["stmts"]):
            # the length of the collection so far (bulk statements change it a lot): the amortised
            # allowance of the workload is one doubling of the LARGEST buffer
            t = s.get("times", 1)
            cur += t if s["op"] == "opassign" else (-t if s["op"] == "pop" else 0)
            high = max(high, cur)
            if j >= len(st) or st[j].get("o") != "ok":
                # a failing statement (pop of an emptied list ...) ends the workload: no allocation claim is made for it
                break
            ev_s = dict(op="nestedd" if s["op"] == "field" else s["op"], v=s["v"], w=s.get("w", ""), i=s.get("i", 1))
            events.append({"ev": "stmt", "s": ev_s, "n": high, "times": t, "r": 1 if p["kind"] == "field" else 3,
                           "eb": 48 if p["kind"] == "dictrows" else p["eb"], "bytes": st[j].get("alloc", 0),
                           "growth": s["op"] in ("opassign", "opassign2")})
            info.append(dict(src=c["steps"][j]["src"], kind=p["kind"], n=p["n"], case=c["id"], step=j, op=s["op"]))
        events.append({"ev": "end", "eb": 48 if p["kind"] == "dictrows" else p["eb"]})
        info.append(dict(src="(end of workload)", kind=p["kind"], n=p["n"], case=c["id"], step=len(st), op="workload"))
    return events, info, cases


def run(tier):
    seed = nv.seed()
    rep = nv.Report("C02", tier, seed, "model_checking")
    wd = nv.work_dir("C02")
    nv.build_harness()
    m = mc(rep, tier, wd)
    events, info, cases = drive(rep, tier, seed)
    mism, n = nv.validate_trace("Trace_Cow", events, wd, chunk=1500)
    seen_case = set()
    for idx, exp in sorted(mism):
        i = info[idx]
        if i["case"] in seen_case:
            continue
        seen_case.add(i["case"])
        key = "trace:%s:%s:%s" % (i["op"], i["kind"], exp.get("kind"))
        rep.mismatch(key, "%s (statement %d of a %s workload, n = %d): %s" % (i["src"], i["step"], i["kind"], i["n"], json.dumps(exp)),
                     {"steps": [s["src"] for s in cases[i["case"]]["steps"]][:i["step"] + 1], "expected": exp})
    rep.sample({"workload": [s["src"] for s in cases[0]["steps"]][:10] + ["..."]})
    shutil.rmtree(wd, ignore_errors=True)
    nstmts = sum(1 for e in events if e["ev"] == "stmt")
    return rep.finish({
        "states": m["distinct"], "transitions": m["transitions"],
        "traces_validated_against_impl": m["replayed"] + nstmts, "evaluations": m["replayed"] + nstmts,
        "distinct_nontrivial": m["nontrivial"] + len({(i["case"], i["step"]) for i in info if i and i["step"] > 1}),
        "rule": "MC: one replayed case per (workload prefix, mutation statement, collection kind); non-trivial = the "
                "specification predicts a copy or at least two statements precede the mutation; trace: one event per "
                "statement of a random workload, non-trivial = not the first two statements",
        "mc_invariants": ["InPlaceWhenUnique", "CopyBounded", "RepeatIsFree", "RcSane"], "trace_events": n,
        "checker_cmd": "tlc MC_Cow.tla (all workloads, mutation transitions replayed with the counting allocator) + tlc Trace_Cow.tla",
        "trusted_base": ["TLC", "counting global allocator in the harness", "element sizes per collection kind (list 48, dict 128, vector 32, bytes 1)"],
    })
