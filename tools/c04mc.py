"""C04 (a): TLC checks FormsAgree on the dispatch model (Apply.tla) and prints every case; each is
executed in the real interpreter with real functions standing for the model's primitives and the
result compared with the denotation the specification computed (an explicit call of the primitive
with the argument vector, an error, or a partially applied function value)."""
import json

import nv

PRIM = {"kv": "=>", "zz": "zip", "gg": "gg", "hh": "hh"}
SETUP = ['gg := \\...a -> ["gg", a]', 'hh := \\...a -> ["hh", a]', "d1 := [1]", "d2 := [2]", "d3 := [3]",
         "d8 := [8]", "d9 := [9]"]


class Renderer:
    """model value -> noulith source; function values are bound to variables w1, w2, .. first"""

    def __init__(self):
        self.stmts = []
        self.memo = {}

    def val(self, v):
        k = v["k"]
        if k == "data":
            return "d%d" % v["id"]
        if k == "hole":
            return "_"
        key = json.dumps(v, sort_keys=True)
        if key in self.memo:
            return self.memo[key]
        if k == "prim":
            src = PRIM[v["n"]]
        elif k == "pa1":
            if v["x"]["k"] == "data":
                src = "(%s %s)" % (self.val(v["x"]), self.val(v["f"]))      # (x f): juxtaposition partially applies
            else:
                src = "flip(%s)(%s)" % (self.val(v["f"]), self.val(v["x"]))  # x is a function: (x f) would call x
        elif k in ("pa2", "palast"):
            src = "%s(%s)" % (self.val(v["f"]), self.val(v["x"]))          # the primitive's own one-argument call
        elif k == "flip":
            src = "flip(%s)" % self.val(v["f"])
        elif k == "callsec":
            src = "%s(%s)" % (self.val(v["callee"]), ", ".join(self.val(x) for x in v["slots"]))
        elif k == "chainsec":
            src = "(%s %s %s)" % (self.val(v["l"]), self.val(v["f"]), self.val(v["r"]))
        else:
            raise ValueError(k)
        if k == "prim":
            name = src
        else:
            name = "w%d" % (len(self.stmts) + 1)
            self.stmts.append("%s := %s" % (name, src))
        self.memo[key] = name
        return name

    def result(self, v):
        """source of an expression whose value is the denotation v (None for err / unknown)"""
        if v["k"] == "call":
            return "%s(%s)" % (PRIM[v["n"]], ", ".join(self.val(x) for x in v["args"]))
        if v["k"] in ("err", "unknown"):
            return None
        return self.val(v)


FORM_SRC = {
    (2, "infix"): "aa ff d2", (2, "call"): "ff(aa, d2)", (2, "bang"): "ff ! aa, d2", (2, "backtick"): "aa `ff` d2",
    (2, "sec1"): "ff(_, d2)(aa)", (2, "sec2"): "ff(aa, _)(d2)", (2, "chsec1"): "(_ ff d2)(aa)",
    (2, "chsec2"): "(aa ff _)(d2)", (2, "apply"): "[aa, d2] apply ff", (2, "of"): "ff of [aa, d2]",
    (2, "juxta"): "(aa ff)(d2)", (2, "rsec"): "ff(d2)(aa)", (2, "opassign"): "xx = aa; xx ff= d2; xx", (2, "opself"): "xx = aa; xx ff= xx; xx",
    (2, "splat"): "ff(...[aa, d2])", (2, "secsp1"): "ff(_, ...[d2])(aa)", (2, "secsp2"): "ff(...[aa], _)(d2)",
    (1, "call"): "ff(aa)", (1, "bang"): "ff ! aa", (1, "splat"): "ff(...[aa])", (1, "dot"): "aa . ff",
    (1, "then"): "aa then ff", (1, "sec"): "ff(_)(aa)",
    (3, "call"): "ff(aa, d2, d3)", (3, "bang"): "ff ! aa, d2, d3", (3, "splat"): "ff(...[aa, d2, d3])",
    (3, "sec1"): "ff(_, d2, d3)(aa)", (3, "sec2"): "ff(aa, _, d3)(d2)", (3, "sec3"): "ff(aa, d2, _)(d3)",
    (3, "secall"): "ff(_, _, _)(aa, d2, d3)", (3, "secsp1"): "ff(_, ...[d2, d3])(aa)",
    (3, "secsp3"): "ff(...[aa, d2], _)(d3)", (3, "secspmid"): "ff(aa, _, ...[d3])(d2)",
}


def kind_of(v):
    if v["k"] in ("pa1", "pa2", "palast", "flip"):
        return "%s(%s)" % (v["k"], kind_of(v["f"]))
    if v["k"] == "callsec":
        return "callsec(%s;%d)" % (kind_of(v["callee"]) if v["callee"]["k"] != "hole" else "_", len(v["slots"]))
    if v["k"] == "chainsec":
        return "chainsec(%s)" % kind_of(v["f"])
    if v["k"] == "prim":
        return v["n"]
    return v["k"]


def run(rep, tier, wd):
    r = nv.run_tlc("MC_Apply", "MC_Apply.cfg", wd, workers=4, timeout=1200)
    if not r["ok"]:
        if "is violated" in r["error"]:
            rep.mismatch("spec:MC_Apply:invariant", "TLC: FormsAgree does not hold on the dispatch model", {"tlc": r["error"]})
            return dict(distinct=max(1, r["distinct"]), generated=max(1, r["generated"]), replayed=0, nontrivial=0)
        print(r["error"])
        nv.tool_fail("TLC failed on MC_Apply")
    lines = [json.loads(x) for x in r["tagged"].get("REPLAY", [])]
    groups = {}
    for t in lines:
        groups.setdefault((t["fi"], json.dumps(t["a"], sort_keys=True), t["ar"]), []).append(t)
    cases, meta = [], {}
    for cid, (gk, ts) in enumerate(sorted(groups.items())):
        rd = Renderer()
        ff = rd.val(ts[0]["f"])
        aa = rd.val(ts[0]["a"])
        steps, info = [], []
        pre = ["xx := null"]
        exprs = []
        for t in sorted(ts, key=lambda t: t["form"]):
            exp_src = rd.result(t["den"])
            exprs.append((t, exp_src))
        steps.append({"src": "; ".join(SETUP + rd.stmts + ["ff := " + ff, "aa := " + aa] + pre)})
        for t, exp_src in exprs:
            steps.append({"src": FORM_SRC[(t["ar"], t["form"])]})
            info.append(("form", t))
            if exp_src is not None:
                steps.append({"src": exp_src})
                info.append(("exp", t))
        cases.append({"id": cid, "steps": steps})
        meta[cid] = info
    res = nv.run_cases(cases, timeout_ms=10000)
    replayed = 0
    nontrivial = set()
    for c in cases:
        sts = res[c["id"]]
        srcs = [s["src"] for s in c["steps"]]
        if not sts or sts[0].get("o") != "ok" or len(sts) != len(srcs):
            rep.mismatch("mc:setup", "rendered setup of a model function value failed: %s" % json.dumps(sts[:1])[:300],
                         {"steps": srcs, "observed": sts})
            continue
        info = meta[c["id"]]
        i = 0
        while i < len(info):
            role, t = info[i]
            st = sts[i + 1]
            src = srcs[i + 1]
            den = t["den"]
            replayed += 1
            key = "mc:%s:ar%d:%s:a=%s" % (kind_of(t["f"]), t["ar"], t["form"], t["a"]["k"])
            if i + 1 < len(info) and info[i + 1][0] == "exp":
                ex = sts[i + 2]
                ok = (st.get("o") == "ok" and ex.get("o") == "ok" and st["v"] == ex["v"]) or \
                     (st.get("o") == "throw" and ex.get("o") == "throw")
                if not ok:
                    rep.mismatch(key + ":" + ("value" if st.get("o") == "ok" else str(st.get("o"))),
                                 "%s evaluates to %s; its denotation %s (%s) to %s" % (
                                     src, json.dumps(st.get("v", st.get("e")))[:200], json.dumps(den)[:200], srcs[i + 2],
                                     json.dumps(ex.get("v", ex.get("e")))[:200]),
                                 {"steps": [srcs[0], src, srcs[i + 2]], "observed": [st, ex], "judged": t["judged"]})
                if st.get("o") == "ok" and t["judged"]:
                    nontrivial.add(key)
                i += 2
            else:
                if den["k"] == "err" and st.get("o") != "throw":
                    rep.mismatch(key + ":should-fail", "%s evaluates to %s; the dispatch model says it is an error" % (
                        src, json.dumps(st.get("v", st.get("o")))[:200]), {"steps": [srcs[0], src], "observed": [st]})
                i += 1
    if cases:
        c = cases[len(cases) // 3]
        rep.sample({"mc_apply_case": [s["src"] for s in c["steps"]][:6]})
    return dict(distinct=r["distinct"], generated=r["generated"], replayed=replayed, nontrivial=len(nontrivial))
