"""C06 - integer arithmetic is exact at every magnitude and representation.

(a) MC_IntRep: TLC explores the representation state machine (machine word / big integer, the
    checked-fast-path-with-fallback design of every operator) over the word-boundary operand
    pool, checks RepIndependent + exactness as invariants, and prints every transition; each
    one is replayed in the real interpreter (operands forced into the small / big representation
    the model chose) and the result compared with the value the specification computed.
(b) Trace validation: a seeded driver evaluates every integer operator on random and boundary
    operands of up to thousands of bits, produced in several ways; Trace_Num re-computes every
    result with exact arithmetic (lib/BigNum) and rejects any event it cannot explain.
"""
import json
import random

import nv
import numgen

BIN_OPS = ["+", "-", "*", "//", "%", "%%", "/!", "gcd", "lcm", "&", "|", "~", "xor", "==", "!=", "<", "<=",
           ">", ">=", "<=>", ">=<", "min", "max", "subtract"]
UN_OPS = ["neg", "~", "abs", "signum", "even", "odd"]
UN_SRC = {"neg": "(-a)", "~": "(~a)", "abs": "abs(a)", "signum": "signum(a)", "even": "even(a)", "odd": "odd(a)"}
SMALL_PRIMES = [2, 3, 5, 7, 11, 13, 101, 257, 65537, 1000003]


def rep_class(c):
    return "B" if c.get("big") else "S"


def outcome(step):
    o = step.get("o")
    return o


def num_or_none(step):
    if step.get("o") == "ok" and step["v"]["t"] in ("int", "rat", "float", "complex"):
        return nv.tla_num(step["v"])
    return {"k": "none"}


def drive(rep, tier, seed):
    rng = random.Random(seed)
    n_pairs = 260 if tier == "quick" else 3000
    pool = numgen.boundary_ints()
    cases = []
    meta = {}
    cid = 0
    for i in range(n_pairs):
        if i < len(pool) * 2:
            a = pool[i % len(pool)]
            b = rng.choice(pool)
        elif rng.random() < 0.5:
            a = numgen.random_int(rng, tier)
            b = rng.choice(pool) if rng.random() < 0.3 else numgen.random_int(rng, tier)
        else:
            # related operands: exact multiples, near-equal values
            b = numgen.random_int(rng, tier)
            a = rng.choice([b * rng.randint(-9, 9), b + rng.randint(-2, 2), -b, b * b + rng.randint(-1, 1)])
        how_a = rng.choice(numgen.HOWS)
        how_b = rng.choice(numgen.HOWS)
        steps = [{"src": "a := " + numgen.render_int(a, how_a, rng), "obs": ["a"]},
                 {"src": "b := " + numgen.render_int(b, how_b, rng), "obs": ["b"]}]
        evs = [None, None]
        ops = BIN_OPS if tier == "thorough" or i < 120 else rng.sample(BIN_OPS, 12)
        for op in ops:
            steps.append({"src": "a %s b" % op})
            evs.append({"ev": "bin", "op": op, "a": a, "b": b})
        for op in UN_OPS:
            steps.append({"src": UN_SRC[op]})
            evs.append({"ev": "un", "op": op, "a": a})
        # exponents and shift counts are small literals
        for k in rng.sample([0, 1, 2, 3, 5, 17, -1, -2, -3], 3):
            if abs(a).bit_length() * abs(k) <= 3000 and not (a == 0 and k < 0):
                steps.append({"src": "a ^ %s" % numgen.lit(k)})
                evs.append({"ev": "bin", "op": "^", "a": a, "b": k})
        for k in rng.sample([0, 1, 9, 10, 11, 31, 32, 63, 64, 65, 200], 3):
            for op in ("<<", ">>"):
                steps.append({"src": "a %s %d" % (op, k)})
                evs.append({"ev": "bin", "op": op, "a": a, "b": k})
        cases.append({"id": cid, "steps": steps})
        meta[cid] = dict(a=a, b=b, how_a=how_a, how_b=how_b, evs=evs)
        cid += 1
    # primality / factorisation
    n_small = 150 if tier == "quick" else 1500
    for i in range(n_small):
        r = rng.random()
        if r < 0.3:
            n = rng.randint(-5, 200)
        elif r < 0.6:
            n = rng.randint(2, 2 ** 22)
        elif r < 0.8:
            p = rng.choice([5, 7, 11, 13, 101, 1009, 2039, 4093])
            n = p * rng.choice([p, p + 2, p + 6, 1])
        else:
            n = 1
            for _ in range(rng.randint(1, 12)):
                n *= rng.choice(SMALL_PRIMES)
            if rng.random() < 0.3:
                n = -n
        how = rng.choice(numgen.HOWS)
        steps = [{"src": "a := " + numgen.render_int(n, how, rng), "obs": ["a"]}]
        evs = [None]
        if abs(n) < 2 ** 23:
            steps.append({"src": "is_prime(a)"})
            evs.append({"ev": "un", "op": "is_prime", "a": n})
        steps.append({"src": "factorize(a)"})
        evs.append({"ev": "fact", "a": n})
        cases.append({"id": cid, "steps": steps})
        meta[cid] = dict(a=n, b=0, how_a=how, how_b="lit", evs=evs)
        cid += 1

    res = nv.run_cases(cases, timeout_ms=10000)
    events = []
    einfo = []
    for c in cases:
        m = meta[c["id"]]
        steps = res[c["id"]]
        reps = {}
        bad_operand = False
        for idx, name in ((0, "a"), (1, "b")):
            if idx >= len(steps) or m["evs"][idx] is not None:
                continue
            st = steps[idx]
            want = m[name]
            got = st.get("obs", [None])[0] if st.get("o") == "ok" else None
            if not got or got.get("t") != "int" or int(got["v"]) != want:
                bad_operand = True
                rep.mismatch("operand:%s:%s" % (m["how_" + name], st.get("o")),
                             "operand expression did not produce the intended integer",
                             {"src": c["steps"][idx]["src"], "want": str(want), "observed": st})
            else:
                reps[name] = rep_class(got)
        if bad_operand:
            continue
        for idx, ev in enumerate(m["evs"]):
            if ev is None or idx >= len(steps):
                continue
            st = steps[idx]
            e = {"ev": ev["ev"], "op": ev.get("op", ""), "out": st.get("o"),
                 "a": {"k": "int", "i": nv.tla_int(ev["a"])}}
            if "b" in ev:
                e["b"] = {"k": "int", "i": nv.tla_int(ev["b"])}
            if ev["ev"] == "fact":
                fs = []
                if st.get("o") == "ok" and st["v"]["t"] == "list":
                    try:
                        fs = [[nv.tla_int(p["v"][0]["v"]), nv.tla_int(p["v"][1]["v"])] for p in st["v"]["v"]]
                    except Exception:
                        e["out"] = "malformed"
                e["fs"] = fs
            else:
                e["r"] = num_or_none(st)
            events.append(e)
            einfo.append(dict(src=c["steps"][idx]["src"], setup=[s["src"] for s in c["steps"][:2]], ev=ev,
                              observed=st,
                              reps=reps.get("a", "?") + (reps.get("b", "-") if "b" in ev and len(c["steps"][idx]["src"]) == len("a %s b" % ev.get("op", "")) else "-"),
                              how=(m["how_a"], m["how_b"])))
    return events, einfo


def classify(info, st):
    ev = info["ev"]
    o = st.get("o")
    what = "wrong-value" if o == "ok" else o
    if o == "panic":
        what = "panic:" + nv.norm_panic(st.get("e", ""))
    return "%s:%s:%s:%s" % (ev["ev"], ev.get("op", "factorize"), info["reps"], what)


def run(tier):
    seed = nv.seed()
    rep = nv.Report("C06", tier, seed, "model_checking")
    wd = nv.work_dir("C06")
    nv.build_harness()
    import c06mc
    mc = c06mc.run(rep, tier, wd)
    events, einfo = drive(rep, tier, seed)
    mism, n = nv.validate_trace("Trace_Num", events, wd, chunk=250 if tier == "quick" else 600)
    for idx, exp in mism:
        info = einfo[idx]
        key = classify(info, info["observed"])
        rep.mismatch(key, "%s with a=%s (%s) b=%s: observed %s, specification expects %s" % (
            info["src"], info["ev"]["a"], "/".join(info["how"]), info["ev"].get("b"),
            json.dumps(info["observed"].get("v", info["observed"].get("e")))[:200], json.dumps(exp)[:300]),
            {"setup": info["setup"], "src": info["src"], "expected": exp, "observed": info["observed"]})
    nontrivial = set()
    for info in einfo:
        ev = info["ev"]
        if "B" in info["reps"] or abs(ev["a"]) >= 2 ** 62 or abs(ev.get("b", 0)) >= 2 ** 62:
            nontrivial.add((ev["ev"], ev.get("op"), str(ev["a"]), str(ev.get("b"))))
    for info in einfo[:3] + einfo[len(einfo) // 2: len(einfo) // 2 + 2]:
        rep.sample({"setup": info["setup"], "expr": info["src"], "observed": info["observed"].get("v")})
    import shutil
    shutil.rmtree(wd, ignore_errors=True)
    return rep.finish({
        "states": mc["distinct"], "transitions": mc["transitions"],
        "traces_validated_against_impl": mc["replayed"] + n,
        "evaluations": mc["replayed"] + n,
        "distinct_nontrivial": len(nontrivial) + mc["nontrivial"],
        "rule": "trace events: one per evaluated integer expression; non-trivial = an operand is held in big "
                "representation or has magnitude >= 2^62 (word boundary or beyond); MC transitions: one per "
                "(operator, operand values, operand representations) over the word-boundary pool, non-trivial = "
                "an operand or the exact result does not fit a machine word or an operand is a small value in "
                "big representation",
        "mc_invariants": mc["invariants"], "mc_replayed": mc["replayed"], "trace_events": n,
        "checker_cmd": "tlc MC_IntRep.tla (bounded, all transitions replayed) + tlc Trace_Num.tla (trace validation)",
        "trusted_base": ["TLC", "CommunityModules Json/IOUtils/Bitwise", "num-bigint decimal rendering",
                         "harness canonical projection"],
    })
