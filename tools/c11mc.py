"""C11 (a): TLC enumerates MC_Streams (constructor x parameters x drop position); for every state it
prints the expected result of every observation and the ordered pairs of observations to exercise
on one variable.  Each state becomes one walk in the real interpreter: all observations once, then
a walk in which every ordered pair of the pair-observations occurs adjacently - every result is
compared with what the specification computed for that (unchanged) stream value."""
import json

import nv
import c10lib as L
import c11lib as S


def run(rep, tier, wd):
    cfg = "MC_Streams_%s.cfg" % tier
    r = nv.run_tlc("MC_Streams", cfg, wd, workers=nv.JOBS, timeout=3000, xmx="6g")
    if not r["ok"]:
        if "is violated" in r["error"] or "Assumption" in r["error"]:
            rep.mismatch("spec:MC_Streams:invariant",
                         "TLC found an invariant of the stream specification violated", {"tlc": r["error"]})
        else:
            print(r["error"] or "\n".join(r["lines"][-30:]))
            nv.tool_fail("TLC failed on MC_Streams")
    states = [json.loads(x) for x in r["tagged"].get("REPLAY", [])]
    if not states and r["ok"]:
        nv.tool_fail("MC_Streams printed no states")
    walks, plans = [], []
    for st in states:
        obs = st["obs"]
        order = [j for j in range(len(obs)) if obs[j]["exp"]["out"] != "unspec"]
        pairs = [[p - 1, q - 1] for p, q in st["pairs"]
                 if obs[p - 1]["exp"]["out"] != "unspec" and obs[q - 1]["exp"]["out"] != "unspec"]
        walk = S.euler_walk(pairs)
        plan = [(j, "single") for j in order] + [(j, "pair") for j in walk]
        # single observations as written; in the pair walk of every other state the integer arguments are
        # held in big representation and membership probes are equal numbers of another level
        alt = "bigrep" if len(walks) % 2 == 1 else "lit"
        walks.append({"decl": S.decl_steps(st["ctor"], st["k"]),
                      "steps": [S.render_ob(obs[j]["ob"], how=("lit" if kind == "single" else alt)) for j, kind in plan]})
        plans.append(plan)
    results, declres = S.run_walks(walks, timeout_ms=10000)
    n_eval = 0
    n_pairs = 0
    nontriv = set()
    for si, st in enumerate(states):
        cc = S.ctor_class(st["ctor"])
        at = "@0" if st["k"] == 0 else "@k"
        if declres[si] is not None:
            rep.mismatch("decl:%s:%s:%s" % (cc, at, declres[si].get("o")),
                         "%s could not be constructed / dropped: %s" % (" ; ".join(walks[si]["decl"]),
                                                                        (declres[si].get("e") or "")[:160]),
                         {"steps": walks[si]["decl"], "observed": declres[si]})
            continue
        plan = plans[si]
        single_ok = {}
        prev = None
        for pi, (j, phase) in enumerate(plan):
            res = results[si][pi]
            ob, exp = st["obs"][j]["ob"], st["obs"][j]["exp"]
            n_eval += 1
            if phase == "pair" and prev is not None:
                n_pairs += 1
            out = res.get("o")
            robs = L.to_val(res.get("v")) if out == "ok" else {"t": "none"}
            eo = exp["out"]
            ok = (eo == "throw" and out == "throw") or \
                 (eo in ("ok", "either") and out == "ok" and L.same_val(exp["r"], robs)) or \
                 (eo == "either" and out == "throw")
            if phase == "single":
                single_ok[j] = ok
            if st["k"] > 0 or not st["fin"] or st["n"] == 0 or ob["o"] not in ("list", "first"):
                nontriv.add((json.dumps(st["ctor"], sort_keys=True), st["k"], json.dumps(ob, sort_keys=True)))
            if not ok:
                what = "wrong-value" if out == "ok" else ("value-expected" if out == "throw" else out)
                if out == "ok" and eo == "throw":
                    what = "value-instead-of-throw"
                if out == "panic":
                    what = "panic:" + nv.norm_panic(res.get("e", ""))
                key = "obs:%s:%s:%s:%s" % (cc, at, S.ob_class(ob), what)
                if phase == "pair" and single_ok.get(j) and prev is not None:
                    # correct when observed first, wrong after another observation of the same variable
                    key = "order:%s:%s:%s-after-%s:%s" % (cc, at, S.ob_class(ob),
                                                          S.ob_class(st["obs"][prev]["ob"]), what)
                steps = walks[si]["decl"] + ([walks[si]["steps"][pi - 1]] if phase == "pair" and pi > 0 else []) + \
                    [walks[si]["steps"][pi]]
                rep.mismatch(key, "%s: observed %s%s, specification expects %s" % (
                    " ; ".join(steps)[:300], out,
                    (" " + json.dumps(res.get("v"))[:160]) if out == "ok" else (" (" + (res.get("e") or "")[:120] + ")"),
                    json.dumps(exp)[:200]),
                    {"steps": S.PRELUDE + steps, "expected": exp,
                     "observed": {k: res.get(k) for k in ("o", "v", "e")}})
            prev = j
    for si in (0, len(states) // 3, (2 * len(states)) // 3):
        if states:
            st = states[si]
            rep.sample({"mc_state": " ; ".join(walks[si]["decl"]), "observations": walks[si]["steps"][:6],
                        "expected_first": st["obs"][plans[si][0][0]]["exp"] if plans[si] else None}, limit=3)
    return dict(distinct=r["distinct"], generated=r["generated"], states=len(states), evaluations=n_eval,
                pairs=n_pairs, nontrivial=len(nontriv),
                invariants=["Coherent (DeclAgreesOp, LenAgrees, NextAgrees, InfAgrees)", "ObsDefined"])
