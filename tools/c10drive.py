"""C10 (b): seeded driver.  Random longer sequences of every kind (up to 40 elements / bytes,
multi-byte strings, lists of lists, several finite stream constructors) are read, sliced and
written through every form; every executed statement becomes one trace event that
spec/Trace_Index.tla must explain."""
import json
import random

import nv
import c10lib as L

ASCII = [c for c in range(32, 127) if chr(c) not in '"\\']
CP2 = [0xE9, 0xF1, 0xFC, 0xDF, 0x3BB, 0x416, 0x7FF, 0x80]
CP3 = [0x20AC, 0x4E2D, 0x3042, 0x2030, 0x800, 0xFFFD, 0xD7FF, 0xE000]
CP4 = [0x1F600, 0x1D11E, 0x1F680, 0x10000, 0x10FFFF]

UN_OPS = ["first", "second", "third", "last", "tail", "butlast", "uncons", "unsnoc", "only"]
EXTREMES = [2 ** 63, -2 ** 63, 2 ** 63 - 1, -(2 ** 63 - 1), 2 ** 64, -2 ** 64, 10 ** 30, -10 ** 30,
            2 ** 63 - 2, -2 ** 63 + 2, 2 ** 62, 2 ** 31, -2 ** 31 - 1, 2 ** 32, 2 ** 200 + 1]
NONINT = ["float", "rat", "str", "null"]


def ix_int(n):
    return {"c": "int", "i": nv.tla_int(n)}


OMIT = {"c": "omit"}


def rand_ix(rng, n, allow_omit=False):
    r = rng.random()
    if allow_omit and r < 0.15:
        return OMIT
    r = rng.random()
    if r < 0.62:
        return ix_int(rng.randint(-n - 3, n + 3))
    if r < 0.80:
        return ix_int(rng.choice([0, -1, n - 1, n, -n, -n - 1, n + 1, 1, -2]))
    if r < 0.93:
        return ix_int(rng.choice(EXTREMES))
    return {"c": rng.choice(NONINT)}


def rand_string(rng, maxbytes):
    out = []
    total = 0
    style = rng.choice(["ascii", "mixed", "mixed", "wide"])
    while True:
        r = rng.random()
        if style == "ascii" or (style == "mixed" and r < 0.5):
            cp = rng.choice(ASCII)
        elif r < 0.7:
            cp = rng.choice(CP2)
        elif r < 0.9:
            cp = rng.choice(CP3)
        else:
            cp = rng.choice(CP4)
        b = chr(cp).encode("utf-8")
        if total + len(b) > maxbytes:
            break
        out.extend(b)
        total += len(b)
    return out


def rand_seq(rng, tier):
    """-> (tag, kind, raw content, nested?)"""
    n = rng.choice([0, 1, 2, 3, 5, 8, 13, 21, 34, 40]) if rng.random() < 0.5 else rng.randint(0, 40)
    r = rng.random()
    if r < 0.22:
        return "list", "list", [L.vint(rng.randint(-20, 60)) for _ in range(n)], False
    if r < 0.30:
        m = min(n, 8)
        return "list", "list", [{"t": "list", "l": [L.vint(rng.randint(0, 9)) for _ in range(rng.randint(0, 4))]}
                                for _ in range(m)], True
    if r < 0.52:
        return "str", "str", rand_string(rng, n), False
    if r < 0.62:
        return "vec", "vec", [rng.randint(-20, 60) for _ in range(n)], False
    if r < 0.72:
        return "bytes", "bytes", [rng.randint(0, 255) for _ in range(n)], False
    if r < 0.84:
        step = rng.choice([1, 1, 2, 3, -1, -2])
        start = rng.randint(-10, 30)
        return rng.choice(["range", "lmap"]), "stream", [L.vint(start + step * j) for j in range(n)], False
    if r < 0.92:
        return "lsel", "stream", [L.vint(rng.randint(-20, 60)) for _ in range(n)], False
    return rng.choice(["wstream", "wadv"]), "stream", [L.vint(rng.randint(-20, 60)) for _ in range(min(n, 6))], False


def rand_read(rng, tag, k, xs):
    n = len(xs)
    r = rng.random()
    c = {"cls": "read", "tag": tag, "k": k, "xs": xs, "a1": OMIT, "a2": OMIT, "w": 0}
    if r < 0.30:
        c.update(op="index", form=rng.choice(["expr", "expr", "section", "bang", "fn"]), a1=rand_ix(rng, n))
    elif r < 0.62:
        c.update(op="slice", form=rng.choice(["expr", "expr", "section"]),
                 a1=rand_ix(rng, n, True), a2=rand_ix(rng, n, True))
    elif r < 0.80:
        c.update(op=rng.choice(UN_OPS), form=rng.choice(["call", "juxt"]))
    else:
        c.update(op=rng.choice(["!?", "!%", "take", "drop", "take", "drop"]), form=rng.choice(["infix", "call"]),
                 a1=rand_ix(rng, n))
    return c


def rand_write(rng, tag, k, xs, nested):
    n = len(xs)
    c = {"cls": "write", "tag": tag, "k": k, "xs": xs, "a1": OMIT, "a2": OMIT, "w": 0, "form": "stmt"}
    if nested:
        op = rng.choice(["set2", "pop1", "pop1", "set2", "remove", "pop"])
    elif k == "list":
        op = rng.choice(["set", "opadd", "pop", "remove", "removeslice", "removeslice", "upsert", "upsert=",
                         "everyset", "everyadd"])
    elif k == "stream":
        op = rng.choice(["set", "opadd", "everyset", "everyadd"])
    else:
        op = "set"
    c["op"] = op
    if op in ("set", "opadd", "remove", "upsert", "upsert=", "set2", "pop1"):
        c["a1"] = rand_ix(rng, n)
    if op in ("removeslice", "everyset", "everyadd"):
        c["a1"], c["a2"] = rand_ix(rng, n, True), rand_ix(rng, n, True)
    if op == "set2":
        c["a2"] = rand_ix(rng, 3)
    if op in ("opadd", "everyadd"):
        c["w"] = rng.randint(-9, 9)
    elif op in ("set", "upsert", "upsert=", "everyset", "set2"):
        c["w"] = {"list": lambda: L.vint(rng.randint(70, 99)), "stream": lambda: L.vint(rng.randint(70, 99)),
                  "vec": lambda: rng.randint(70, 99), "bytes": lambda: rng.randint(0, 255),
                  "str": lambda: rng.choice(ASCII)}[k]()
    return c


def drive(tier, seed):
    rng = random.Random(seed)
    n_seqs = 260 if tier == "quick" else 2600
    groups = []
    metas = []
    for _ in range(n_seqs):
        tag, k, xs, nested = rand_seq(rng, tier)
        decl = L.render_seq(tag, xs)
        items, cs = [], []
        n_reads = 8 if nested else 22
        for _ in range(n_reads):
            c = rand_read(rng, tag, k, xs)
            how = "bigrep" if rng.random() < 0.12 else "lit"
            items.append({"src": L.render_op(c, how=how), "reset": False})
            cs.append(c)
        for _ in range(9):
            c = rand_write(rng, tag, k, xs, nested)
            how = "bigrep" if rng.random() < 0.12 else "lit"
            items.append({"src": L.render_op(c, how=how), "reset": True})
            cs.append(c)
        groups.append((decl, items))
        metas.append(cs)
    results = L.run_batched(groups, timeout_ms=10000, batch=40)
    events, info = [], []
    bad_decls = []
    for gi, (decl, items) in enumerate(groups):
        for ii, it in enumerate(items):
            c = metas[gi][ii]
            st = results[(gi, ii)]
            want = L.seq_val(c["k"], c["xs"])
            if st.get("decl_obs") is None or not L.same_val(want, L.to_val(st["decl_obs"])):
                if ii == 0:
                    bad_decls.append((decl, c, st))
                continue
            out = st.get("o")
            ev = {"ev": c["cls"], "s": {"k": c["k"], "xs": c["xs"]}, "op": c["op"], "a1": c["a1"], "a2": c["a2"],
                  "w": c["w"], "out": out,
                  "r": L.to_val(st.get("v")) if out == "ok" else {"t": "none"},
                  "post": L.to_val(st["obs"][0]) if st.get("obs") else {"t": "none"}}
            events.append(ev)
            info.append(dict(c=c, decl=decl, src=it["src"], st=st))
    return events, info, bad_decls


def run(rep, tier, seed, wd):
    events, info, bad_decls = drive(tier, seed)
    for decl, c, st in bad_decls:
        rep.mismatch("decl:%s" % L.tag_class(c["tag"], c["k"], c["xs"]),
                     "the sequence expression %s did not produce the intended sequence" % decl[:200],
                     {"steps": ["xx := " + decl, "xx"], "observed": st.get("decl_obs")})
    mism, n = nv.validate_trace("Trace_Index", events, wd, chunk=700 if tier == "quick" else 1500)
    for idx, exp in mism:
        i = info[idx]
        c, st, ev = i["c"], i["st"], events[idx]
        if c["cls"] == "read":
            ok, what = L.read_agrees(exp, c["k"], c["xs"], ev["out"], ev["r"], ev["post"])
        else:
            ok, what = L.write_agrees(exp, c["op"], ev["out"], ev["r"], ev["post"])
        if ok:
            what = "rejected-by-spec"
        key = L.case_key("tr", c, what, st)
        steps = ["xx := " + i["decl"], i["src"]] + (["xx"] if c["cls"] == "write" else [])
        rep.mismatch(key, "%s on xx = %s: observed %s%s, specification expects %s" % (
            i["src"], i["decl"][:120], ev["out"],
            (" " + json.dumps(st.get("v"))[:160]) if ev["out"] == "ok" else (" (" + (st.get("e") or "")[:120] + ")"),
            json.dumps(exp)[:240]),
            {"steps": steps, "expected": exp, "observed": {k: st.get(k) for k in ("o", "v", "e", "obs")}})
    nontriv = set()
    for i in info:
        c = i["c"]
        n_ = len(c["xs"])
        cl = [L.arg_class(c["a1"], n_), L.arg_class(c["a2"], n_)]
        if any(x not in ("in", "omit") for x in cl) or c["cls"] == "write" or c["k"] in ("str", "stream"):
            nontriv.add(i["decl"] + "|" + i["src"])
    for i in info[:1] + info[len(info) // 2: len(info) // 2 + 1]:
        rep.sample({"trace_event": "xx := %s; %s" % (i["decl"][:160], i["src"]),
                    "observed": {"o": i["st"].get("o"), "v": i["st"].get("v")}}, limit=5)
    return dict(events=n, nontrivial=len(nontriv), longest=max([len(i["c"]["xs"]) for i in info] + [0]))
