"""C10 (a): TLC enumerates MC_Index; every printed case is replayed in the real interpreter and the
observation compared with the result the specification computed."""
import json

import nv
import c10lib as L


def nontrivial(c):
    """an index / bound that is not plainly inside the sequence, or a sequence kind with its own
    extraction rule"""
    n = len(c["xs"])
    classes = [L.arg_class(c["a1"], n), L.arg_class(c["a2"], n)]
    return any(x not in ("in", "omit") for x in classes) or n == 0 or c["k"] in ("str", "stream") \
        or c["cls"] == "write"


def run(rep, tier, wd):
    cfg = "MC_Index_%s.cfg" % tier
    r = nv.run_tlc("MC_Index", cfg, wd, workers=nv.JOBS, timeout=3000, xmx="6g")
    if not r["ok"]:
        if "is violated" in r["error"] or "Assumption" in r["error"]:
            rep.mismatch("spec:MC_Index:lemma", "TLC found a lemma of the specification violated (invariant or ASSUME)",
                         {"tlc": r["error"]})
        else:
            print(r["error"] or "\n".join(r["lines"][-30:]))
            nv.tool_fail("TLC failed on MC_Index")
    cases = [json.loads(x) for x in r["tagged"].get("REPLAY", [])]
    if not cases and r["ok"]:
        nv.tool_fail("MC_Index printed no cases")
    # group by sequence
    groups = {}
    for ci, c in enumerate(cases):
        decl = L.render_seq(c["tag"], c["xs"])
        groups.setdefault(decl, []).append(ci)
    glist = []
    for decl, cis in groups.items():
        items = [{"src": L.render_op(cases[ci]), "reset": cases[ci]["cls"] == "write"} for ci in cis]
        glist.append((decl, items))
    results = L.run_batched(glist, timeout_ms=10000, batch=120)
    nontriv = set()
    n_checked = 0
    bad_decl = set()
    for gi, (decl, cis) in enumerate(groups.items()):
        for ii, ci in enumerate(cis):
            c = cases[ci]
            st = results[(gi, ii)]
            src = glist[gi][1][ii]["src"]
            want_decl = L.seq_val(c["k"], c["xs"])
            if st.get("decl_obs") is None or not L.same_val(want_decl, L.to_val(st["decl_obs"])):
                if decl not in bad_decl:
                    bad_decl.add(decl)
                    rep.mismatch("decl:%s" % L.tag_class(c["tag"], c["k"], c["xs"]),
                                 "the sequence expression %s did not produce the intended sequence" % decl,
                                 {"steps": ["xx := " + decl, "xx"], "observed": st.get("decl_obs")})
                continue
            n_checked += 1
            if nontrivial(c):
                nontriv.add((c["tag"], len(c["xs"]), c["op"], json.dumps(c["a1"]), json.dumps(c["a2"])))
            out = st.get("o")
            robs = L.to_val(st.get("v")) if out == "ok" else {"t": "none"}
            post = L.to_val(st["obs"][0]) if st.get("obs") else {"t": "none"}
            if c["cls"] == "read":
                ok, what = L.read_agrees(c["exp"], c["k"], c["xs"], out, robs, post)
            else:
                ok, what = L.write_agrees(c["exp"], c["op"], out, robs, post)
            if ok:
                continue
            key = L.case_key("mc", c, what, st)
            steps = ["xx := " + decl, src] + (["xx"] if c["cls"] == "write" else [])
            rep.mismatch(key, "%s on xx = %s: observed %s%s, specification expects %s" % (
                src, decl, out, (" " + json.dumps(st.get("v"))[:160]) if out == "ok" else
                (" (" + (st.get("e") or "")[:120] + ")"), json.dumps(c["exp"])[:240]),
                {"steps": steps, "form": c["form"], "expected": c["exp"],
                 "observed": {k: st.get(k) for k in ("o", "v", "e", "obs")}})
    for ci in (0, len(cases) // 3, (2 * len(cases)) // 3):
        if cases:
            c = cases[ci]
            rep.sample({"mc_case": "xx := %s; %s" % (L.render_seq(c["tag"], c["xs"]), L.render_op(c)),
                        "expected": c["exp"]}, limit=3)
    return dict(distinct=r["distinct"], generated=r["generated"], transitions=len(cases), replayed=n_checked,
                nontrivial=len(nontriv), invariants=["CaseLemmas", "ASSUME: IndexLemma, IndexLemmaBig, SliceLemma, "
                                                     "SliceDeclLemma, ConcatLemma, ReadWriteLemma, RemoveLemma, Utf8"])
