"""C10 helpers: rendering of cases into noulith source, projection of the harness's canonical
values onto the value encoding of spec/Index.tla, equality of an observation with the result the
specification computed, execution of batched cases.  No semantics of indexing lives here."""
import nv

WORD_MAX = 2 ** 63 - 1
WORD_MIN = -2 ** 63


# ------------------------------------------------------------------ value encodings
def vint(n):
    return {"t": "int", "n": n}


def to_val(c):
    """harness canonical value -> Index.tla value (JSON form); anything outside the universe -> other"""
    if c is None:
        return {"t": "none"}
    t = c.get("t")
    if t == "int":
        n = int(c["v"])
        # integers too large for a native TLC element travel exactly (Streams!VBig)
        return vint(n) if abs(n) < 2 ** 20 else {"t": "bigint", "bi": nv.tla_int(n)}
    if t == "null":
        return {"t": "null"}
    if t == "str":
        return {"t": "str", "sb": list(c["v"].encode("utf-8", "surrogatepass"))}
    if t == "bytes":
        return {"t": "bytes", "bb": list(c["v"])}
    if t == "list":
        return {"t": "list", "l": [to_val(x) for x in c["v"]]}
    if t == "stream":
        if c.get("err"):
            return {"t": "other", "d": "stream:error"}
        if c.get("more"):
            # the harness projects only the first elements of a long (or infinite) stream
            return {"t": "streamcut", "l": [to_val(x) for x in c["v"]]}
        return {"t": "stream", "l": [to_val(x) for x in c["v"]]}
    if t == "float" and c.get("bits") == "9218868437227405312":
        return {"t": "inf"}
    if t == "vec":
        out = []
        for x in c["v"]:
            if x.get("t") != "int" or abs(int(x["v"])) >= 2 ** 20:
                return {"t": "other", "d": "vec:non-int"}
            out.append(int(x["v"]))
        return {"t": "vec", "vv": out}
    return {"t": "other", "d": str(t)}


def same_val(e, o):
    """Index!SameVal"""
    t = e["t"]
    if t == "seq":
        if o["t"] == "streamcut":
            return len(e["l"]) > len(o["l"]) and all(same_val(a, b) for a, b in zip(e["l"], o["l"]))
        return o["t"] in ("list", "stream") and len(e["l"]) == len(o["l"]) and all(
            same_val(a, b) for a, b in zip(e["l"], o["l"]))
    if t == "list":
        return o["t"] == "list" and len(e["l"]) == len(o["l"]) and all(
            same_val(a, b) for a, b in zip(e["l"], o["l"]))
    if t == "int":
        return o["t"] == "int" and e["n"] == o["n"]
    if t == "null":
        return o["t"] == "null"
    if t == "str":
        return o["t"] == "str" and e["sb"] == o["sb"]
    if t == "bytes":
        return o["t"] == "bytes" and e["bb"] == o["bb"]
    if t == "vec":
        return o["t"] == "vec" and e["vv"] == o["vv"]
    if t == "bigint":
        return o["t"] == "bigint" and e["bi"] == o["bi"]
    if t == "inf":
        return o["t"] == "inf"
    return False


def seq_val(k, xs):
    """Index!ToVal"""
    return {"list": lambda: {"t": "list", "l": xs}, "stream": lambda: {"t": "seq", "l": xs},
            "vec": lambda: {"t": "vec", "vv": xs}, "bytes": lambda: {"t": "bytes", "bb": xs},
            "str": lambda: {"t": "str", "sb": xs}}[k]()


HAS_VALUE = {"pop", "remove", "removeslice", "upsert", "pop1"}


def read_agrees(exp, k, xs, out, r, post):
    """Index!ReadAgrees -> (ok, what)"""
    eo = exp["out"]
    if eo == "unspec":
        return True, ""
    if out in ("ok", "throw") and not same_val(seq_val(k, xs), post):
        return False, "var-changed"
    if eo == "throw":
        return out == "throw", ("value-instead-of-throw" if out == "ok" else out)
    if out == "ok":
        return same_val(exp["r"], r), "wrong-value"
    if out == "throw":
        return eo == "either", "throw-instead-of-value"
    return False, out


def write_agrees(exp, op, out, r, post):
    """Index!WriteAgrees -> (ok, what)"""
    eo = exp["out"]
    if eo == "unspec":
        return True, ""
    if out == "throw":
        if eo == "ok":
            return False, "throw-instead-of-effect"
        pre = exp["pre"] if eo == "either" else exp["post"]
        return same_val(pre, post), "var-changed-by-failed-write"
    if out == "ok":
        if eo == "throw":
            return False, "effect-instead-of-throw"
        if not same_val(exp["post"], post):
            return False, "wrong-post-state"
        if op in HAS_VALUE and not same_val(exp["r"], r):
            return False, "wrong-value"
        return True, ""
    return False, out


# ------------------------------------------------------------------ rendering
def lit(n):
    return str(n) if n >= 0 else "(-%d)" % (-n)


def render_val(v):
    t = v["t"]
    if t == "int":
        return lit(v["n"])
    if t == "list":
        return "[" + ", ".join(render_val(x) for x in v["l"]) + "]"
    if t == "null":
        return "null"
    raise ValueError(t)


def render_str(bs):
    s = bytes(bs).decode("utf-8")
    out = []
    for ch in s:
        if ch in '"\\':
            out.append("\\" + ch)
        elif ch == "\n":
            out.append("\\n")
        else:
            out.append(ch)
    return '"' + "".join(out) + '"'


def render_seq(tag, xs):
    """source text of the sequence described by (tag, raw content)"""
    if tag == "list":
        return "[" + ", ".join(render_val(x) for x in xs) + "]"
    if tag in ("s1", "s2", "s3", "s4", "str"):
        return render_str(xs)
    if tag == "vec":
        return "V(" + ", ".join(lit(x) for x in xs) + ")"
    if tag == "bytes":
        return "B[" + ", ".join(str(x) for x in xs) + "]"
    ns = [x["n"] for x in xs]
    if tag == "wstream":
        return "stream([" + ", ".join(lit(n) for n in ns) + "])"
    if tag == "wadv":
        # the same elements seen through a wrapped stream whose cursor has been ADVANCED past two others
        return "(stream([" + ", ".join(lit(n) for n in [77, 78] + ns) + "])[2:])"
    if tag in ("range", "lmap"):
        # an arithmetic progression (the content decides start and step)
        if not ns:
            start, stop, step = 11, 11, 1
        elif len(ns) == 1:
            start, stop, step = ns[0], ns[0] + 1, 1
        else:
            step = ns[1] - ns[0]
            assert step != 0 and all(b - a == step for a, b in zip(ns, ns[1:]))
            start, stop = ns[0], ns[-1] + (1 if step > 0 else -1)
        r = "(%s til %s)" % (lit(start), lit(stop)) if step == 1 else \
            "(%s til %s by %s)" % (lit(start), lit(stop), lit(step))
        return r if tag == "range" else "(%s lazy_map (\\qq -> qq))" % r
    if tag == "lsel":
        # an arbitrary finite stream: a range of positions mapped lazily through a list
        return "((0 til %d) lazy_map (\\qq -> [%s][qq]))" % (len(ns), ", ".join(lit(n) for n in ns))
    raise ValueError(tag)


def render_ix(a, how="lit"):
    c = a["c"]
    if c == "int":
        n = nv.from_tla_int(a["i"])
        if how == "bigrep":
            # the same integer held in big representation
            return "((2^80 + %s) - 2^80)" % lit(n)
        return lit(n)
    return {"float": "1.0", "rat": "(1/2)", "str": '"a"', "null": "null", "omit": ""}[c]


def render_w(k, w):
    if k in ("list", "stream"):
        return render_val(w)
    if k == "str":
        return render_str([w])
    return lit(w)


def render_op(c, var="xx", how="lit"):
    """c: a case record (op, form, a1, a2, w, k) -> one noulith statement on variable `var`"""
    op, form = c["op"], c.get("form", "")
    a1 = render_ix(c["a1"], how)
    a2 = render_ix(c["a2"], how)
    x = var
    if c["cls"] == "read":
        if op == "index":
            return {"expr": "%s[%s]" % (x, a1), "section": "(_[%s])(%s)" % (a1, x),
                    "bang": "(%s !! %s)" % (x, a1), "fn": "index(%s, %s)" % (x, a1)}[form]
        if op == "slice":
            return {"expr": "%s[%s:%s]" % (x, a1, a2), "section": "(_[%s:%s])(%s)" % (a1, a2, x)}[form]
        if c["a1"]["c"] == "omit":
            return {"call": "%s(%s)" % (op, x), "juxt": "(%s %s)" % (op, x)}[form]
        if form == "infix":
            return "(%s %s %s)" % (x, op, a1)
        return ("(%s)(%s, %s)" if not op[0].isalpha() else "%s(%s, %s)") % (op, x, a1)
    def wsrc():
        return render_w(c["k"], c["w"]) if op not in ("opadd", "everyadd") else lit(c["w"])
    return {
        "set": lambda: "%s[%s] = %s" % (x, a1, wsrc()),
        "opadd": lambda: "%s[%s] += %s" % (x, a1, wsrc()),
        "pop": lambda: "pop %s" % x,
        "remove": lambda: "remove %s[%s]" % (x, a1),
        "removeslice": lambda: "remove %s[%s:%s]" % (x, a1, a2),
        "upsert": lambda: "(%s |.. [%s, %s])" % (x, a1, wsrc()),
        "upsert=": lambda: "%s |..= [%s, %s]" % (x, a1, wsrc()),
        "everyset": lambda: "every %s[%s:%s] = %s" % (x, a1, a2, wsrc()),
        "everyadd": lambda: "every %s[%s:%s] += %s" % (x, a1, a2, wsrc()),
        "set2": lambda: "%s[%s][%s] = %s" % (x, a1, a2, wsrc()),
        "pop1": lambda: "pop %s[%s]" % (x, a1),
    }[op]()


# ------------------------------------------------------------------ key classes
def arg_class(a, n):
    c = a["c"]
    if c != "int":
        return c
    v = nv.from_tla_int(a["i"])
    if v > WORD_MAX:
        return "above-word"
    if v < WORD_MIN:
        return "below-word"
    if v > WORD_MAX - 2 ** 16:
        return "word-edge+"
    if v < WORD_MIN + 2 ** 16:
        return "word-edge-"
    if 0 <= v < n:
        return "in"
    if -n <= v < 0:
        return "neg"
    return "past-end" if v >= n else "before-start"


def tag_class(tag, k, xs):
    if k == "str":
        return "str-mb" if any(b >= 128 for b in xs) else "str"
    if k == "stream":
        return "stream-" + tag
    return k


COARSE = {"in": "small", "neg": "small", "past-end": "small", "before-start": "small",
          "word-edge+": "word-edge", "word-edge-": "word-edge",
          "above-word": "beyond-word", "below-word": "beyond-word"}


def case_key(prefix, c, what, st=None):
    """location independent key: operation, sequence kind, class of the index / bounds, outcome class
    (two-bound operations use coarser bound classes so that one root cause is a handful of keys)"""
    n = len(c["xs"])
    args = arg_class(c["a1"], n)
    if c["a2"]["c"] != "omit" or c["op"] in ("slice", "removeslice", "everyset", "everyadd"):
        a, b = arg_class(c["a1"], n), arg_class(c["a2"], n)
        if c["op"] == "set2":
            args = a + "," + b
        else:
            args = COARSE.get(a, a) + "," + COARSE.get(b, b)
    if what == "panic" and st is not None:
        what = "panic:" + nv.norm_panic(st.get("e", ""))
    return "%s:%s:%s:%s" % (c["op"], tag_class(c["tag"], c["k"], c["xs"]), args, what)


# ------------------------------------------------------------------ batched execution
def run_batched(groups, timeout_ms=8000, batch=60):
    """groups: list of (decl_src, [item]) where item = dict(src=..., reset=bool); all items of a
    group act on variable xx declared by decl_src (`xx := <seq>`).  A write item is preceded by
    `xx = <seq>` (reset).  Returns for every item its step result (with obs of xx).  Steps that
    could not run because an earlier step of the same interpreter panicked / timed out, or ran
    after a READ had changed xx, are re-run in a fresh interpreter."""
    pending = []                      # (decl, [(gi, ii)])
    for gi, (decl, items) in enumerate(groups):
        # reads first: a read never has to run on a variable that an earlier write changed
        idxs = sorted(((gi, ii) for ii in range(len(items))), key=lambda t: bool(items[t[1]].get("reset")))
        for i in range(0, len(idxs), batch):
            pending.append((decl, idxs[i:i + batch]))
    results = {}
    rounds = 0
    while pending:
        rounds += 1
        cases = []
        maps = []
        for cid, (decl, idxs) in enumerate(pending):
            steps = [{"src": "xx := " + decl, "obs": ["xx"]}]
            m = []
            for gi, ii in idxs:
                it = groups[gi][1][ii]
                if it.get("reset"):
                    steps.append({"src": "xx = " + decl})
                m.append(len(steps))
                steps.append({"src": it["src"], "obs": ["xx"]})
            cases.append({"id": cid, "steps": steps})
            maps.append(m)
        res = nv.run_cases(cases, timeout_ms=timeout_ms)
        nxt = []
        for cid, (decl, idxs) in enumerate(pending):
            st = res[cid]
            first_obs = st[0].get("obs", [None])[0] if st and st[0].get("o") == "ok" else None
            stop = None
            for pos, (gi, ii) in enumerate(idxs):
                si = maps[cid][pos]
                r = st[si] if si < len(st) else {"o": "skipped"}
                it = groups[gi][1][ii]
                if r.get("o") == "skipped" and st[0].get("o") == "ok" and pos > 0:
                    stop = pos
                    break
                if it.get("reset") and si - 1 < len(st) and st[si - 1].get("o") != "ok" and pos > 0:
                    # the reset itself did not run (earlier crash)
                    stop = pos
                    break
                results[(gi, ii)] = dict(r, decl_obs=first_obs)
                if r.get("o") in ("panic", "abort", "timeout"):
                    stop = pos + 1
                    break
                if not it.get("reset") and r.get("o") in ("ok", "throw") and first_obs is not None \
                        and r.get("obs", [None])[0] != first_obs:
                    # a read changed the variable: later reads of this interpreter are not trusted
                    stop = pos + 1
                    break
            if stop is not None and stop < len(idxs):
                nxt.append((decl, idxs[stop:]))
        pending = nxt
        if rounds > 400:
            nv.tool_fail("c10: batched execution does not converge")
    return results
