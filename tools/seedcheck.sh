#!/bin/sh
# tools/seedcheck.sh <patch.diff> <ID> [<ID> ...]
# Applies a seeded change to /repo, runs the quick check of each listed property, undoes the change.
# Development aid for DESIGN.md's "which checks catch which changes" table; never part of a verdict.
patch="$1"; shift
cd /verif || exit 2
git -C /repo diff --quiet || { echo "refusing: /repo has uncommitted changes"; exit 2; }
git -C /repo apply "$patch" || { echo "patch does not apply"; exit 2; }
trap 'git -C /repo checkout -- . ; git -C /repo status --short | head -3' EXIT
for id in "$@"; do
  out=$(./check "$id" quick 2>&1)
  rc=$?
  echo "== $id rc=$rc: $(echo "$out" | grep -c '^VIOLATION') violation line(s)"
  echo "$out" | grep '^VIOLATION' | head -3 | cut -c1-260
  echo "$out" | tail -1 | cut -c1-200
done
