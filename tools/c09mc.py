"""C09 (a): TLC enumerates MC_Dict (all short histories of dictionary operations over a key pool
with several members per `==` class, memoize call sequences, list functions); every transition is
re-executed in the real interpreter and compared with the post-state / results the specification
printed.  Python only renders source text and compares canonical values for equality; which keys
belong to one class comes from the specification's POOL line.

Reports: a problem is attributed to the class of the key concerned; once a class has a reported problem
in a history, later symptoms in that class along the same history are consequences and not reported again
("taint"), so a defect is reported at its minimal history.  Note that a hash/equality disagreement in the
implementation is not deterministic: Rust's HashMap draws a random hash seed per map, and a key whose
hash disagrees with an equal stored key is still found when 7 bits of the two hashes happen to collide
(about 1 case in 128) - which transitions of a broken class are reported can differ slightly from run to
run, the finding keys (named after the pair of key kinds that met) do not."""
import json
import os

import nv
import c09val as cvl

OPSYM = {"union": "||", "inter": "&&", "diff": "--", "unionplus": "||+"}
GROUP_FN = {"group_all:id": "id", "group_all:lst": "(\\x -> [x])", "group_all:const": "(\\x -> 0)"}
CHUNK = 40


class Pool:
    def __init__(self, j):
        self.src = [p["src"] for p in j["pool"]]
        self.val = [p["val"] for p in j["pool"]]
        self.cls = j["cls"]
        self.canon = None       # canonical value of every key as the implementation evaluates it
        self.by_cj = {}

    def bind(self, rep):
        res = nv.run_cases([{"id": 0, "steps": [{"src": s} for s in self.src]}])[0]
        self.canon = []
        for i, st in enumerate(res):
            if st.get("o") != "ok" or cvl.tla_val(st["v"]) != self.val[i]:
                rep.mismatch("binding:pool:" + self.src[i], "pool key does not evaluate to the value the "
                             "specification assumes", {"steps": [self.src[i]], "expected": self.val[i], "observed": st})
                self.canon.append({"t": "undef"})
                continue
            self.canon.append(st["v"])
            self.by_cj.setdefault(cvl.cj(st["v"]), i + 1)

    def cls_of(self, c):
        """class index of an observed key, None if it is not a pool key"""
        i = self.by_cj.get(cvl.cj(c))
        return None if i is None else self.cls[i - 1]

    def kind(self, i):
        return cvl.kind(self.canon[i - 1])


def lit_src(pool, bk, bv, bdf):
    parts = [":" + cvl.cv_src(bdf[0])] if bdf else []
    parts += ["%s: %s" % (pool.src[k - 1], cvl.cv_src(v)) for k, v in zip(bk, bv)]
    return "{" + ", ".join(parts) + "}"


def op_src(pool, o):
    op, ki, v, f, v0, bk, bv, bdf = o
    k = pool.src[ki - 1] if ki else None
    if op == "lit":
        return "dd = " + lit_src(pool, bk, bv, bdf)
    if op == "set":
        return "dd[%s] = %s" % (k, cvl.cv_src(v))
    if op == "opassign":
        return "dd[%s] %s= %s" % (k, f, cvl.cv_src(v))
    if op == "opassign_dflt":
        return "(dd[%s] = %s) %s= %s" % (k, cvl.cv_src(v0), f, cvl.cv_src(v))
    if op == "remove":
        return "remove dd[%s]" % k
    if op == "addkey":
        return "dd = (dd |. %s)" % k
    if op == "discard":
        return "dd = (dd -. %s)" % k
    if op == "insert":
        return "dd = (dd insert [%s, %s])" % (k, cvl.cv_src(v))
    if op in OPSYM:
        return "dd = (dd %s %s)" % (OPSYM[op], lit_src(pool, bk, bv, bdf))
    if op == "eq":
        return "dd == " + lit_src(pool, bk, bv, bdf)
    raise ValueError(op)


def obs_exprs(pool):
    ex = ["dd", "len(dd)", "keys(dd)", "values(dd)", "items(dd)"]
    for s in pool.src:
        ex += ["dd[%s]" % s, "dd !? %s" % s, "%s in dd" % s, "(_[%s])(dd)" % s, "dd !! %s" % s]
    return ex


PATHS = ["get", "safe", "in", "section", "index"]


def dict_view(pool, c):
    """observed dictionary -> (sorted [[class, value]], df, list of stored keys per class) or None"""
    if not isinstance(c, dict) or c.get("t") != "dict":
        return None
    ents, stored = [], {}
    for k, v in c["v"]:
        cl = pool.cls_of(k)
        ents.append([cl if cl is not None else -1, cvl.cv(v)])
        stored.setdefault(cl, []).append(k)
    ents.sort(key=lambda e: json.dumps(e))
    return ents, ([cvl.cv(c["def"])] if "def" in c else []), stored


def sorted_json(xs):
    return sorted(xs, key=lambda e: json.dumps(e, sort_keys=True))


def stored_kinds(pool, stored, cl):
    ks = sorted(set(cvl.kind(k) for k in stored.get(cl, [])))
    return "+".join(ks) if ks else "-"


def name_key(group, detail, own, other):
    """Finding key.  own: kinds of the key(s) the operation used (in the class concerned), other: kinds
    of the keys of that class that are / were stored (or were used earlier).  When two different kinds
    meet in one class (1 and 2/2 ...) the finding is named after that pair: every symptom of "two equal
    keys of different kinds are not identified" then shares a few keys (cross:<kinds>:<group>) instead
    of one key per operator, read path and symptom; otherwise the key names group, kind and symptom."""
    own, other = sorted(set(own)), sorted(set(other))
    kinds = sorted(set(own) | set(other))
    if len(kinds) < 2:
        return "%s:%s:%s" % (group, "+".join(own) or "-", detail)
    pair = kinds
    return "cross:%s:%s" % ("~".join(pair), group)


class Limiter:
    """at most `cap` reports per key (the rest is counted): one defect must not produce 10^5 replay files"""
    def __init__(self, rep, cap=12):
        self.rep, self.cap, self.n, self.dropped = rep, cap, {}, 0

    def mismatch(self, key, what, replay):
        self.n[key] = self.n.get(key, 0) + 1
        if self.n[key] > self.cap:
            self.dropped += 1
            return
        self.rep.mismatch(key, what, replay)


def check_transition(lim, pool, t, steps_src, st, pre, taint):
    """t: REPLAY record, st: harness result of the operation step, pre: observed dictionary before the
    operation, taint: classes already reported as broken earlier in this history (their symptoms are
    not reported again).  Returns the set of classes with a problem in this transition."""
    op = t["op"]
    name = op[0]
    problems = []       # (class or None, group, detail, own kind, other kinds, text)
    out = cvl.outcome(st)
    pv = dict_view(pool, pre)
    pre_stored = pv[2] if pv else {}
    arg_keys = [op[1]] if op[1] else list(op[5])
    arg_cls = sorted(set(pool.cls[k - 1] for k in arg_keys))
    arg_kind = [pool.kind(k) for k in arg_keys]

    def own_in(classes):
        return [pool.kind(k) for k in arg_keys if pool.cls[k - 1] in classes]

    def arg_others(stored_now, classes=None):
        ks = []
        for c in (arg_cls if classes is None else classes):
            ks += [cvl.kind(k) for k in pre_stored.get(c, [])] + [cvl.kind(k) for k in stored_now.get(c, [])]
        return ks

    if out != t["out"]:
        problems.append((arg_cls, "update", "%s:outcome:%s-for-%s" % (name, out, t["out"]), arg_kind, arg_others({}),
                         "outcome %s, specification expects %s" % (out, t["out"])))
    elif out == "ok" and name in ("remove", "eq"):
        got = cvl.cv(st["v"])
        if got != t["r"]:
            problems.append((arg_cls, "update", name + ":result", arg_kind, arg_others({}),
                             "evaluates to %s, specification expects %s" % (json.dumps(got), json.dumps(t["r"]))))
    obs = st.get("obs")
    if obs is None or len(obs) != 5 + 5 * len(pool.src):
        if not out.startswith("panic") and out not in ("timeout", "abort", "skipped"):
            problems.append((None, "update", name + ":no-observation", [], [], "state could not be observed: %s" % json.dumps(st)[:200]))
    else:
        dv = dict_view(pool, obs[0])
        post = t["post"]
        if dv is None:
            problems.append((None, "update", name + ":post:not-a-dict", [], [], "dd is %s" % json.dumps(obs[0])[:200]))
        else:
            ents, df, stored = dv
            want = sorted_json([list(e) for e in post["ents"]])
            state_ok = True
            # entries, class by class
            for cl in sorted(set(e[0] for e in ents) | set(e[0] for e in want)):
                got_c = [e for e in ents if e[0] == cl]
                want_c = [e for e in want if e[0] == cl]
                if got_c != want_c:
                    state_ok = False
                    own = own_in([cl])
                    others = arg_others(stored, [cl])
                    detail = "two-entries-in-one-class" if len(got_c) > 1 else "entries"
                    problems.append(([cl], "update", "%s:%s" % (name, detail), own, others,
                                     "entries (class, value) of class %s: %s, specification expects %s" % (cl, json.dumps(got_c), json.dumps(want_c))))
            if df != post["df"]:
                state_ok = False
                problems.append((None, "update", name + ":default", [], [], "default %s, specification expects %s" % (json.dumps(df), json.dumps(post["df"]))))
            if state_ok:
                # len / keys / values / items agree with the model (as multisets)
                if cvl.cv(obs[1]) != post["len"]:
                    problems.append((None, "len", "wrong-value", [], [], "len(dd) = %s, specification expects %s" % (json.dumps(cvl.cv(obs[1])), post["len"])))
                if obs[2].get("t") != "list" or sorted(pool.cls_of(k) or -1 for k in obs[2]["v"]) != sorted(e[0] for e in want):
                    problems.append((None, "keys", "wrong-value", [], [], "keys(dd) = %s" % json.dumps(obs[2])[:200]))
                if obs[3].get("t") != "list" or sorted_json([cvl.cv(v) for v in obs[3]["v"]]) != sorted_json([e[1] for e in want]):
                    problems.append((None, "values", "wrong-value", [], [], "values(dd) = %s" % json.dumps(obs[3])[:200]))
                items_ok = obs[4].get("t") == "list" and all(p.get("t") == "list" and len(p["v"]) == 2 for p in obs[4]["v"])
                if not items_ok or sorted_json([[pool.cls_of(p["v"][0]) or -1, cvl.cv(p["v"][1])] for p in obs[4]["v"]]) != want:
                    problems.append((None, "items", "wrong-value", [], [], "items(dd) = %s" % json.dumps(obs[4])[:200]))
            # every read path for every pool key
            exprs = obs_exprs(pool)
            for i in range(len(pool.src)):
                g, s, m = t["look"][i]
                o5 = obs[5 + 5 * i: 10 + 5 * i]
                exp = {"get": g, "safe": s, "in": m, "section": g, "index": g}
                cl = pool.cls[i]
                for path, o in zip(PATHS, o5):
                    got = "T" if o.get("t") == "undef" else ("panic" if o.get("t") == "panic" else cvl.cv(o))
                    if got != exp[path]:
                        if got == "panic":
                            what = "panic"
                        elif path == "in":
                            what = "miss" if exp[path] == 1 else "phantom"
                        elif exp[path] == "T":
                            what = "phantom"
                        elif got == "T" or cl not in stored:
                            what = "miss"
                        else:
                            what = "wrong-value"
                        # (kinds that met in this class: the probe, what is / was stored, the operation's keys)
                        problems.append(([cl], "lookup", "%s:%s" % (path, what), [pool.kind(i + 1)],
                                         [cvl.kind(k) for k in stored.get(cl, []) + pre_stored.get(cl, [])] + own_in([cl]),
                                         "%s gives %s, specification expects %s" % (exprs[5 + 5 * i + PATHS.index(path)], json.dumps(got), json.dumps(exp[path]))))
    bad = set()
    for classes, group, detail, own, others, text in problems:
        if classes is not None and classes and all(c in taint for c in classes):
            continue
        bad.update(classes or [])
        lim.mismatch(name_key(group, detail, own, others), "after %s: %s" % (" ; ".join(steps_src), text),
                     {"steps": steps_src, "expected": {k: t[k] for k in ("out", "r", "post", "look")}, "observed": st})
    return bad


def run(rep, tier, wd, mutant=None):
    cfg = "MC_Dict_%s.cfg" % tier
    if mutant:
        txt = open(os.path.join(nv.SPEC, cfg)).read().replace('Mutation = "none"', 'Mutation = "%s"' % mutant)
        cfg = os.path.join(wd, "MC_Dict_mutant.cfg")
        open(cfg, "w").write(txt)
    r = nv.run_tlc("MC_Dict", cfg, wd, workers=nv.JOBS, timeout=3000)
    if not r["ok"]:
        if "is violated" in r["error"]:
            rep.mismatch("spec:MC_Dict:invariant", "TLC found an invariant violation in the specification itself",
                         {"tlc": r["error"]})
        else:
            print(r["error"])
            nv.tool_fail("TLC failed on MC_Dict")
    if not r["tagged"].get("POOL"):
        nv.tool_fail("MC_Dict printed no POOL line")
    pool = Pool(json.loads(r["tagged"]["POOL"][0]))
    pool.bind(rep)
    trans = [json.loads(x) for x in r["tagged"].get("REPLAY", [])]
    obs = obs_exprs(pool)

    cases, meta = [], {}
    groups = {}
    for t in trans:
        if t["ph"] == "dict":
            groups.setdefault(json.dumps(t["hist"]), []).append(t)
    for hk, ts in groups.items():
        hist = json.loads(hk)
        pre = ["dd := {}"] + [op_src(pool, o) for o in hist]
        for c0 in range(0, len(ts), CHUNK):
            chunk = ts[c0:c0 + CHUNK]
            steps = [{"src": s} for s in pre] + [{"src": "d0 := dd", "obs": ["dd"]}]
            for t in chunk:
                steps.append({"src": "dd = d0"})
                steps.append({"src": op_src(pool, t["op"]), "obs": obs})
            cid = len(cases)
            cases.append({"id": cid, "steps": steps})
            meta[cid] = ("dict", pre, chunk)
    memo = [t for t in trans if t["ph"] == "memo"]
    for t in memo:
        steps = [{"src": "cnt := 0"}, {"src": "mf := memoize(\\x -> (cnt += 1; [x, cnt]))"}]
        steps += [{"src": "mf(%s)" % pool.src[k - 1]} for k in t["hist"]]
        steps.append({"src": "mf(%s)" % pool.src[t["ki"] - 1], "obs": ["cnt"]})
        cid = len(cases)
        cases.append({"id": cid, "steps": steps})
        meta[cid] = ("memo", None, [t])
    lst = [t for t in trans if t["ph"] == "list"]
    for c0 in range(0, len(lst), CHUNK):
        chunk = lst[c0:c0 + CHUNK]
        steps = []
        for t in chunk:
            xs = "[" + ", ".join(pool.src[k - 1] for k in t["xs"]) + "]"
            fn = t["fn"]
            if fn == "dict":
                src = "dict([" + ", ".join("[%s, %d]" % (pool.src[k - 1], j + 1) for j, k in enumerate(t["xs"])) + "])"
            elif fn in GROUP_FN:
                src = "(%s group_all %s)" % (xs, GROUP_FN[fn])
            else:
                src = "%s(%s)" % (fn, xs)
            steps.append({"src": src})
        cid = len(cases)
        cases.append({"id": cid, "steps": steps})
        meta[cid] = ("list", None, chunk)

    res = nv.run_cases(cases, timeout_ms=120000)
    lim = Limiter(rep)
    nontrivial = set()
    replayed = 0
    inherited = 0
    reran = 0
    taint = {}          # json(history) -> classes reported as broken along that history

    def judge(pre, t, st, pre_obs):
        nonlocal inherited
        tset = taint.get(json.dumps(t["hist"]), set())
        bad = check_transition(lim, pool, t, pre + [op_src(pool, t["op"])], st, pre_obs, tset)
        inherited += 1 if tset else 0
        taint[json.dumps(t["hist"] + [t["op"]])] = tset | bad
        op = t["op"]
        used = [k for o in t["hist"] + [op] for k in ([o[1]] if o[1] else []) + list(o[5])]
        if len(set(pool.kind(k) for k in used)) > len(set(pool.cls[k - 1] for k in used)):
            nontrivial.add(json.dumps([t["hist"], op]))

    # dictionary histories, shortest first (the taint of a history comes from its prefixes); transitions
    # whose batch was cut short by a crash / time-out of an earlier step are re-run one per case
    dict_cases = [c for c in cases if meta[c["id"]][0] == "dict"]
    for level in sorted(set(len(meta[c["id"]][1]) for c in dict_cases)):
        redo = []
        for c in dict_cases:
            ph, pre, chunk = meta[c["id"]]
            if len(pre) != level:
                continue
            sts = res[c["id"]]
            base = len(pre) + 1
            pre_obs = sts[base - 1].get("obs", [None])[0] if sts[base - 1].get("o") == "ok" else None
            for j, t in enumerate(chunk):
                st = sts[base + 2 * j + 1]
                if pre_obs is None or st.get("o") in ("skipped", "timeout", "abort") or sts[base + 2 * j].get("o") != "ok":
                    redo.append((pre, t))
                    continue
                replayed += 1
                judge(pre, t, st, pre_obs)
        if redo:
            cases2 = [{"id": i, "steps": [{"src": x} for x in pre] + [{"src": "d0 := dd", "obs": ["dd"]},
                                                                      {"src": op_src(pool, t["op"]), "obs": obs}]}
                      for i, (pre, t) in enumerate(redo)]
            res2 = nv.run_cases(cases2, timeout_ms=60000)
            for i, (pre, t) in enumerate(redo):
                replayed += 1
                reran += 1
                pre_obs = (res2[i][-2].get("obs") or [None])[0] if res2[i][-2].get("o") == "ok" else None
                if pre_obs is None:
                    lim.mismatch("history:" + cvl.outcome(res2[i][-2]), "history could not be re-executed: " + " ; ".join(pre),
                                 {"steps": pre, "observed": res2[i][:-1]})
                    continue
                judge(pre, t, res2[i][-1], pre_obs)

    memo_bad = set()    # memoize call sequences with a reported problem (their extensions are not re-reported)
    for c in sorted(cases, key=lambda c: len(c["steps"]) if meta[c["id"]][0] == "memo" else 0):
        ph, pre, chunk = meta[c["id"]]
        sts = res[c["id"]]
        if ph == "memo":
            t = chunk[0]
            st = sts[-1]
            replayed += 1
            src = [x["src"] for x in c["steps"]]
            ok = st.get("o") == "ok" and st["v"].get("t") == "list" and len(st["v"]["v"]) == 2
            if ok:
                x, n = st["v"]["v"]
                ok = cvl.cj(x) == cvl.cj(pool.canon[t["r"][0] - 1]) and cvl.cv(n) == t["r"][1] \
                    and cvl.cv(st["obs"][0]) == t["calls"]
            hk = json.dumps(t["hist"])
            if not ok or hk in memo_bad:
                memo_bad.add(json.dumps(t["hist"] + [t["ki"]]))
            if not ok and hk not in memo_bad:
                seen = [pool.kind(k) for k in t["hist"] if pool.cls[k - 1] == pool.cls[t["ki"] - 1]]
                lim.mismatch(name_key("memoize", "result-or-run-count" if st.get("o") == "ok" else cvl.outcome(st),
                                      [pool.kind(t["ki"])], seen),
                             "%s: observed %s, specification expects result [key %d, %d] and %d runs" % (
                                 " ; ".join(src), json.dumps(st)[:300], t["r"][0], t["r"][1], t["calls"]),
                             {"steps": src, "expected": t, "observed": st})
            if len(set(t["hist"] + [t["ki"]])) > len(set(pool.cls[k - 1] for k in t["hist"] + [t["ki"]])):
                nontrivial.add(json.dumps(["memo", t["hist"], t["ki"]]))
        elif ph == "list":
            for j, t in enumerate(chunk):
                st = sts[j]
                if st.get("o") == "skipped":
                    continue
                replayed += 1
                src = c["steps"][j]["src"]
                fn, want = t["fn"], t["r"]
                ok = st.get("o") == "ok"
                got = None
                if ok and fn in ("set", "dict", "frequencies"):
                    dv = dict_view(pool, st["v"])
                    got = None if dv is None else {"ents": dv[0], "df": dv[1], "len": len(dv[0])}
                    ok = got is not None and got == {"ents": sorted_json([list(e) for e in want["ents"]]), "df": want["df"], "len": want["len"]}
                elif ok and fn == "count_distinct":
                    got = cvl.cv(st["v"])
                    ok = got == want
                elif ok and fn == "unique":
                    ok = st["v"].get("t") == "list"
                    got = [cvl.cj(x) for x in st["v"].get("v", [])] if ok else None
                    ok = ok and got == [cvl.cj(pool.canon[t["xs"][p - 1] - 1]) for p in want]
                elif ok:
                    ok = st["v"].get("t") == "list" and all(g.get("t") == "list" for g in st["v"]["v"])
                    got = sorted([[cvl.cj(x) for x in g["v"]] for g in st["v"]["v"]]) if ok else None
                    ok = ok and got == sorted([[cvl.cj(pool.canon[t["xs"][p - 1] - 1]) for p in g] for g in want])
                if not ok:
                    # name the finding after the kinds of the elements that share a class with an element of
                    # another kind (all such classes: which one is mistreated cannot be told from the result)
                    own, others = [pool.kind(k) for k in t["xs"]][:1], []
                    mixed = set()
                    for k1 in t["xs"]:
                        ks = set(pool.kind(k2) for k2 in t["xs"] if pool.cls[k2 - 1] == pool.cls[k1 - 1])
                        if len(ks) > 1:
                            mixed |= ks
                    if mixed:
                        own, others = sorted(mixed)[:1], sorted(mixed)[1:]
                    lim.mismatch(name_key(fn, "wrong-value" if st.get("o") == "ok" else cvl.outcome(st), own, others),
                                 "%s: observed %s, specification expects %s" % (src, json.dumps(got if got is not None else st)[:300], json.dumps(want)[:300]),
                                 {"steps": [src], "expected": want, "observed": st})
                if len(set(t["xs"])) > len(set(pool.cls[k - 1] for k in t["xs"])):
                    nontrivial.add(json.dumps([fn, t["xs"]]))
    if trans:
        for t in (trans[0], trans[len(trans) // 3], trans[2 * len(trans) // 3]):
            if t["ph"] == "dict":
                rep.sample({"mc_history": ["dd := {}"] + [op_src(pool, o) for o in t["hist"]] + [op_src(pool, t["op"])],
                            "expected_post": t["post"], "expected_lookups": t["look"]})
            else:
                rep.sample({"mc_transition": t})
    return dict(distinct=r["distinct"], generated=r["generated"], transitions=len(trans), replayed=replayed,
                nontrivial=len(nontrivial), pool=pool.src, judged_with_tainted_class=inherited,
                reports_beyond_cap=lim.dropped, rerun_individually=reran, reports_per_key=dict(lim.n),
                invariants=["RepInv (OneEntryPerClass)", "LenInv (LenIsCardinality)", "LookupInv (LookupTotalOnClass)",
                            "ListInv", "ASSUME NumEqAgrees"])
