"""C11 helpers: rendering of stream constructors and observations into noulith source, execution of
observation walks on one stream variable.  Values / equality come from c10lib (the encodings of
spec/Index.tla, which spec/Streams.tla extends).  No stream semantics lives here."""
import nv
import c10lib as L

FN_SRC = {"inc": "(\\qq -> qq + 1)", "dbl": "(\\qq -> qq * 2)", "neg": "(\\qq -> 0 - qq)",
          "sq": "(\\qq -> qq * qq)", "half": "(\\qq -> qq // 2)", "id": "(\\qq -> qq)",
          "even": "(\\qq -> (qq %% 2) == 0)", "odd": "(\\qq -> (qq %% 2) == 1)", "pos": "(\\qq -> qq > 0)",
          "lt3": "(\\qq -> qq < 3)", "true": "(\\qq -> 1)", "false": "(\\qq -> 0)"}


def big(n):
    return nv.from_tla_int(n)


def render_val(v):
    t = v["t"]
    if t == "int":
        return L.lit(v["n"])
    if t == "bigint":
        return L.lit(big(v["bi"]))
    if t == "list":
        return "[" + ", ".join(render_val(x) for x in v["l"]) + "]"
    if t == "null":
        return "null"
    raise ValueError(t)


def render_list(xs):
    return "[" + ", ".join(render_val(x) for x in xs) + "]"


def render_ctor(c):
    k = c["c"]
    if k in ("til", "to"):
        a, b, s = big(c["a"]), big(c["b"]), big(c["s"])
        if s == 1 and not c.get("by1"):
            return "(%s %s %s)" % (L.lit(a), k, L.lit(b))
        return "(%s %s %s by %s)" % (L.lit(a), k, L.lit(b), L.lit(s))
    if k == "iota":
        return "iota(%s)" % L.lit(big(c["a"]))
    if k == "permutations":
        return "permutations(%s)" % render_list(c["xs"])
    if k == "combinations":
        return "combinations(%s, %d)" % (render_list(c["xs"]), c["k"])
    if k == "subsequences":
        return "subsequences(%s)" % render_list(c["xs"])
    if k == "cpow":
        return "(%s ^^ %d)" % (render_list(c["xs"]), c["k"])
    if k == "wrapped":
        return "stream(%s)" % render_list(c["xs"])
    if k == "map":
        return "(%s lazy_map %s)" % (render_ctor(c["src"]), FN_SRC[c["f"]])
    if k == "filter":
        return "(%s lazy_filter %s)" % (render_ctor(c["src"]), FN_SRC[c["f"]])
    if k == "zip":
        args = [render_ctor(x) for x in c["srcs"]]
        if c["f"] != "none":
            args.append(c["f"])
        return "lazy_zip(%s)" % ", ".join(args)
    if k == "repeat":
        return "repeat(%s)" % render_val(c["x"])
    if k == "cycle":
        return "cycle(%s)" % render_list(c["xs"])
    if k == "iterate":
        return "iterate(%s, %s)" % (render_val(c["x"]), FN_SRC[c["f"]])
    raise ValueError(k)


def ctor_class(c):
    """location independent class of a constructor for mismatch keys"""
    k = c["c"]
    if k in ("til", "to"):
        a, b, s = big(c["a"]), big(c["b"]), big(c["s"])
        size = "big" if max(abs(a), abs(b)) >= 2 ** 62 else "small"
        return "%s:step%s:%s" % (k, "-" if s < 0 else "0" if s == 0 else "+", size)
    if k in ("map", "filter"):
        return "%s(%s)" % (k, c["src"]["c"])
    if k == "zip":
        return "zip(%s)" % ",".join(x["c"] for x in c["srcs"])
    return k


def ob_class(ob):
    o = ob["o"]
    if o in ("index", "take", "drop"):
        n = big(ob["a1"]["i"])
        return "%s:%s" % (o, "neg" if n < 0 else "nonneg")

    def bc(a):
        if a["c"] == "omit":
            return "omit"
        return "neg" if big(a["i"]) < 0 else "nonneg"
    if o == "slice":
        return "slice:%s,%s" % (bc(ob["a1"]), bc(ob["a2"]))
    return o


def render_ob(ob, var="tt", how="lit"):
    """how = "bigrep": integer arguments are written in big representation (same value)"""
    o = ob["o"]
    a1 = L.render_ix(ob["a1"], how)
    a2 = L.render_ix(ob["a2"], how)
    t = var
    simple = {"len": "len(%s)", "list": "list(%s)", "splat": "[...%s]", "for": "(for (ee <- %s) yield ee)",
              "reverse": "reverse(%s)", "first": "first(%s)", "second": "second(%s)", "last": "last(%s)",
              "tail": "tail(%s)", "butlast": "butlast(%s)", "uncons": "uncons(%s)", "unsnoc": "unsnoc(%s)",
              "only": "only(%s)", "truthy": "(if (%s) 1 else 0)",
              "unpack": "(uh, ...ut = %s; [uh, ut])", "unpack2": "(ua, ub = %s; [ua, ub])"}
    if o in simple:
        return simple[o] % t
    if o == "index":
        return "%s[%s]" % (t, a1)
    if o == "slice":
        return "%s[%s:%s]" % (t, a1, a2)
    if o in ("take", "drop"):
        return "(%s %s %s)" % (t, o, a1)
    if o == "in":
        x = ob["x"]
        if how == "bigrep" and x["t"] == "int" and abs(x["n"]) < 2 ** 53:
            # the same NUMBER at another level / in another representation is the same element (`==`):
            # a float or an integral rational probe, or the integer held in big representation
            n = x["n"]
            alt = ["(%d.0)" % n if n >= 0 else "(-%d.0)" % -n, "rational(%s)" % L.lit(n),
                   "(2^70 - 2^70 + %s)" % L.lit(n)][n % 3]
            return "(%s in %s)" % (alt, t)
        return "(%s in %s)" % (render_val(x), t)
    if o == "dropindex":
        return "%s[%s:][%s]" % (t, a1, a2)
    raise ValueError(o)


PRELUDE = ["uh := null", "ut := null", "ua := null", "ub := null"]


def decl_steps(ctor, k):
    src = render_ctor(ctor)
    if k == 0:
        return ["tt := " + src]
    return ["ss := " + src, "tt := ss[%d:]" % k]


def euler_walk(pairs):
    """pairs: list of [p, q] ordered pairs over observation indices (a complete digraph with loops).
    Returns a sequence of observation indices in which every ordered pair occurs adjacently."""
    adj = {}
    for p, q in pairs:
        adj.setdefault(p, []).append(q)
    if not adj:
        return []
    for p in adj:
        adj[p].sort(reverse=True)
    start = min(adj)
    stack, out = [start], []
    while stack:
        v = stack[-1]
        if adj.get(v):
            stack.append(adj[v].pop())
        else:
            out.append(stack.pop())
    return out[::-1]


def run_walks(walks, timeout_ms=10000):
    """walks: list of dict(decl=[stmts], steps=[src]).  Every walk runs in one interpreter; when a step
    panics / times out the remaining steps continue in a fresh interpreter (the stream is rebuilt).
    Returns per walk the list of step results (decl failures reported as result['decl'])."""
    results = [[None] * len(w["steps"]) for w in walks]
    declres = [None] * len(walks)
    pending = [(wi, 0) for wi in range(len(walks))]
    rounds = 0
    while pending:
        rounds += 1
        cases = []
        for cid, (wi, start) in enumerate(pending):
            w = walks[wi]
            steps = [{"src": s} for s in PRELUDE + w["decl"]] + [{"src": s} for s in w["steps"][start:]]
            cases.append({"id": cid, "steps": steps})
        res = nv.run_cases(cases, timeout_ms=timeout_ms)
        nxt = []
        for cid, (wi, start) in enumerate(pending):
            w = walks[wi]
            st = res[cid]
            nd = len(PRELUDE) + len(w["decl"])
            bad = [r for r in st[:nd] if r.get("o") != "ok"]
            if bad:
                declres[wi] = bad[0]
                for j in range(start, len(w["steps"])):
                    results[wi][j] = {"o": "skipped"}
                continue
            for j in range(start, len(w["steps"])):
                r = st[nd + j - start] if nd + j - start < len(st) else {"o": "skipped"}
                if r.get("o") == "skipped":
                    nxt.append((wi, j))
                    break
                results[wi][j] = r
                if r.get("o") in ("panic", "abort", "timeout"):
                    if j + 1 < len(w["steps"]):
                        nxt.append((wi, j + 1))
                    break
        pending = nxt
        if rounds > 300:
            nv.tool_fail("c11: walk execution does not converge")
    return results, declres
