"""C12 - patterns, destructuring, switch and runtime type annotations.

(a) MC_Pattern: TLC enumerates (pattern, value) pairs over the shape family of spec/MC_Pattern.tla
    (depth <= 2, width <= 3), switches, the type predicate over the pool and the annotated-variable
    machine (histories of <= Depth actions), checks MatchTyped / Typed / the Types theorems and
    prints what spec/Pattern.tla computes for each; every line is replayed in the real interpreter:
    a pair as declaration, switch arm, lambda parameter(s), for clause and catch clause, comparing
    outcome class, bindings, the arm that ran and `x is T` for every annotated name.
(b) Trace validation: a seeded driver generates deeper random patterns / values and 20-30 step
    assignment histories on annotated variables, records what the interpreter did, and
    Trace_Pattern re-computes every event with Pattern!Match / Pattern!Apply.
"""
import copy
import json
import os
import random
import shutil
import time

import nv
import c14sweep as S
import c12render as R

ARM = "arm"


# ------------------------------------------------------------------ helpers
def rename(p, sfx):
    p = copy.deepcopy(p)

    def go(q):
        if q["k"] == "var":
            q["n"] = q["n"] + sfx
        for f in ("p", "a", "b"):
            if f in q and isinstance(q[f], dict):
                go(q[f])
        for x in q.get("items", []):
            go(x)
    go(p)
    return p


def names_of(p):
    k = p["k"]
    if k == "var":
        return [p["n"]]
    if k in ("seq", "struct", "op", "cmp"):
        return [n for x in p["items"] for n in names_of(x)]
    if k in ("splat", "dflt", "ann"):
        return names_of(p["p"])
    if k == "or":
        return names_of(p["a"])
    if k == "and":
        return names_of(p["a"]) + names_of(p["b"])
    return []


def arm_body(tag, names):
    return "[" + ", ".join(["\"%s\"" % tag] + names) + "]"


def spec_eq(a, b):
    return a is not None and b is not None and json.dumps(a, sort_keys=True) == json.dumps(b, sort_keys=True)


def out_class(st):
    o = st.get("o", "missing")
    if o == "panic":
        return "panic:" + nv.norm_panic(st.get("e", ""))
    return o


def match_items(p0, v, r, uid):
    """replay items of one (pattern, value) pair: [(context, item)].  The names observed are the
    ones the specification binds (an arm body that names an unbound variable would raise)."""
    sfx = "q%d" % uid
    p = rename(p0, sfx)
    binds = [dict(b, n=b["n"] + sfx) for b in r["b"]]
    names = [b["n"] for b in binds]
    out = []
    for ctx, src in R.contexts(p, v):
        src = src.replace("[\"arm\", NAMES]", arm_body(ARM, names))
        if ctx == "decl":
            obs = list(names) + ["(%s is %s)" % (b["n"], R.type_src(b["ty"])) for b in binds]
            steps = [{"src": src, "obs": obs}]
        else:
            steps = [{"src": src}]
        out.append((ctx, {"steps": steps, "group": 0, "names": names, "binds": binds}))
    return out


def judge_match(ctx, it, res, r):
    """None if the observation agrees with the specification's result r, else (class, text)"""
    st = res[1] if len(res) > 1 else {"o": "missing"}
    o = st.get("o")
    want = [b["v"] for b in it["binds"]]
    if ctx == "decl":
        if not r["ok"]:
            return None if o == "throw" else ("exp-fail:obs-" + out_class(st), "expected to raise")
        if o != "ok":
            return ("exp-ok:obs-" + out_class(st), "expected to bind")
        obs = st.get("obs") or []
        # bindings in the specification's order are the values of the names in the same order
        got = {n: R.canon_to_spec(c) for n, c in zip(it["names"], obs)}
        for b in it["binds"]:
            if not spec_eq(got.get(b["n"]), b["v"]):
                return ("exp-ok:obs-wrong-binding", "name %s bound to %s, specification binds %s" % (
                    b["n"], json.dumps(got.get(b["n"])), json.dumps(b["v"])))
        for b, c in zip(it["binds"], obs[len(it["names"]):]):
            if not (c.get("t") == "int" and c.get("v") == "1"):
                return ("exp-ok:obs-not-of-declared-type:" + R.type_key(b["ty"]),
                        "after the declaration `%s is %s` is not true" % (b["n"], R.type_src(b["ty"])))
        return None
    if ctx == "switch":
        if o != "ok":
            return (("exp-ok" if r["ok"] else "exp-fail") + ":obs-" + out_class(st), "the switch itself did not return")
        val = st.get("v", {})
        nomatch = val.get("t") == "str" and val.get("v") == "nomatch"
        if not r["ok"]:
            return None if nomatch else ("exp-fail:obs-arm-ran", "the arm ran although the pattern must not match")
        if nomatch:
            return ("exp-ok:obs-nomatch", "the arm did not run")
    else:
        if not r["ok"]:
            return None if o == "throw" else ("exp-fail:obs-" + out_class(st), "expected the construct to raise")
        if o != "ok":
            return ("exp-ok:obs-" + out_class(st), "expected the pattern to bind")
        val = st.get("v", {})
        if ctx == "for":                 # a comprehension over [v]: one element
            xs = val.get("v") if val.get("t") == "list" else None
            val = xs[0] if xs and len(xs) == 1 else {}
    got = [R.canon_to_spec(c) for c in (val.get("v") or [])[1:]] if val.get("t") == "list" else None
    if got is None or len(got) != len(want) or any(not spec_eq(g, w) for g, w in zip(got, want)):
        return ("exp-ok:obs-wrong-binding", "bindings %s, specification binds %s" % (json.dumps(got), json.dumps(want)))
    return None


# ------------------------------------------------------------------ (a) replay of the model's lines
def replay_mc(rep, tier, wd):
    cfg = "MC_Pattern_quick.cfg" if tier == "quick" else "MC_Pattern_thorough.cfg"
    r = nv.run_tlc("MC_Pattern", cfg, wd, workers=nv.JOBS, timeout=3400)
    if not r["ok"]:
        if "is violated" in r["error"]:
            rep.mismatch("spec:MC_Pattern:invariant", "TLC found an invariant violation in the specification itself",
                         {"tlc": r["error"]})
        else:
            print(r["error"])
            nv.tool_fail("TLC failed on MC_Pattern")
    lines = [json.loads(x) for x in r["tagged"].get("REPLAY", [])]
    by = {}
    for ln in lines:
        by.setdefault(ln["kind"], []).append(ln)
    stats = {}
    n_replayed = 0
    nontrivial = set()

    # ---- (pattern, value) pairs, three ways
    items, meta = [], []
    for i, ln in enumerate(by.get("match", [])):
        if ln["r"]["u"]:
            continue
        for ctx, it in match_items(ln["p"], ln["v"], ln["r"], i):
            items.append(it)
            meta.append((ctx, ln))
    res = S.run_items(items, batch_steps=150, t_batch=2000, t_alone=3000, stats=stats, prelude=R.PRELUDE)
    n_replayed += len(items)
    for it, (ctx, ln), rs in zip(items, meta, res):
        bad = judge_match(ctx, it, rs, ln["r"])
        sk = R.skeleton(ln["p"])
        if ln["r"]["ok"] or ln["p"]["k"] not in ("var", "wild"):
            nontrivial.add((sk, R.val_kind(ln["v"]), ctx))
        if bad:
            key = "match:%s:%s:%s:%s" % (ctx, sk, R.val_kind(ln["v"]), bad[0])
            rep.mismatch(key, "`%s`: %s (specification: %s)" % (
                it["steps"][0]["src"], bad[1], "binds " + json.dumps([[b["n"], b["v"]] for b in it["binds"]])
                if ln["r"]["ok"] else "no match"),
                {"steps": R.PRELUDE + [it["steps"][0]["src"]], "expected": ln["r"], "observed": rs[1:2]})
    if items:
        for k in (len(items) // 3, 2 * len(items) // 3):
            rep.sample({"replayed": items[k]["steps"][0]["src"], "context": meta[k][0], "expected": meta[k][1]["r"]})

    # ---- switches: which arm runs
    items, meta = [], []
    for ln in by.get("switch", []):
        if ln["arm"] == -1:
            continue
        arms = ln["arms"]
        src = "switch (%s) " % R.val_src(ln["v"]) + " ".join(
            "case %s -> %s" % (R.pat_src(a, True), arm_body("arm%d" % (j + 1), names_of(a))) for j, a in enumerate(arms))
        # the same switch with arm bodies that raise: a matched arm whose body raises ends the switch
        src2 = "switch (%s) " % R.val_src(ln["v"], big=True) + " ".join(
            "case %s -> throw \"arm%d\"" % (R.pat_src(a, True), j + 1) for j, a in enumerate(arms))
        items.append({"steps": [{"src": src}, {"src": src2}], "group": 0})
        meta.append(ln)
    res = S.run_items(items, batch_steps=150, t_batch=2000, t_alone=3000, stats=stats, prelude=R.PRELUDE)
    n_replayed += len(items)
    for it, ln, rs in zip(items, meta, res):
        st = rs[1] if len(rs) > 1 else {"o": "missing"}
        st2 = rs[2] if len(rs) > 2 else {"o": "missing"}
        o = st.get("o")
        bad = None
        if ln["arm"] == 0:
            if o != "throw":
                bad = ("exp-raise:obs-" + ("arm-ran" if o == "ok" else out_class(st)), "no arm matches: the switch must raise")
        elif o != "ok":
            bad = ("exp-arm%d:obs-%s" % (ln["arm"], out_class(st)), "arm %d must run" % ln["arm"])
        else:
            val = st.get("v", {})
            xs = val.get("v") if val.get("t") == "list" else None
            tag = xs[0].get("v") if xs and xs[0].get("t") == "str" else None
            want = [b["v"] for b in ln["r"]["b"]]
            if tag != "arm%d" % ln["arm"]:
                bad = ("exp-arm%d:obs-%s" % (ln["arm"], tag), "arm %d must run, %s ran" % (ln["arm"], tag))
            elif [R.canon_to_spec(c) for c in xs[1:]] != want:
                bad = ("exp-arm%d:obs-wrong-binding" % ln["arm"], "bindings differ")
        if bad is None and ln["arm"] >= 1 and not (
                st2.get("o") == "throw" and (st2.get("ev") or {}).get("v") == "arm%d" % ln["arm"]):
            rep.mismatch("switch-body-raises:%s:%s:arm%d:obs-%s" % (
                "|".join(R.skeleton(a) for a in ln["arms"]), R.val_kind(ln["v"]), ln["arm"], out_class(st2)),
                "`%s`: the body of arm %d raises, the switch must raise that error" % (it["steps"][1]["src"], ln["arm"]),
                {"steps": R.PRELUDE + [it["steps"][1]["src"]], "observed": st2})
        nontrivial.add(("switch",) + tuple(R.skeleton(a) for a in ln["arms"]) + (R.val_kind(ln["v"]),))
        if bad:
            key = "switch:%s:%s:%s" % ("|".join(R.skeleton(a) for a in ln["arms"]), R.val_kind(ln["v"]), bad[0])
            rep.mismatch(key, "`%s`: %s" % (it["steps"][0]["src"], bad[1]),
                         {"steps": R.PRELUDE + [it["steps"][0]["src"]], "expected_arm": ln["arm"], "observed": st})

    # ---- the type predicate, type(v), conversions
    items, meta = [], []
    for i, ln in enumerate(by.get("types", [])):
        name = "tv%d" % i
        tys = sorted(ln["is"], key=lambda t: t["name"])
        convs = sorted(ln["conv"], key=lambda c: c["name"])
        obs = ["(%s is %s)" % (name, R.type_src(t["ty"])) for t in tys]
        obs.append("(%s is type(%s))" % (name, name))
        obs.append("(%s is anything)" % name)
        for c in convs:
            obs.append("%s(%s)" % (c["name"], name))
            obs.append("(%s(%s) is %s)" % (c["name"], name, c["name"]))
        items.append({"steps": [{"src": "%s := %s" % (name, R.val_src(ln["v"])), "obs": obs}], "group": 0})
        meta.append((ln, tys, convs))
    res = S.run_items(items, batch_steps=40, t_batch=2000, t_alone=3000, stats=stats, prelude=R.PRELUDE)
    n_replayed += len(items)

    def truth(c):
        return 1 if (c.get("t") == "int" and c.get("v") == "1") else 0
    for it, (ln, tys, convs), rs in zip(items, meta, res):
        st = rs[1] if len(rs) > 1 else {"o": "missing"}
        obs = st.get("obs") or []
        vk = R.val_kind(ln["v"])
        src = it["steps"][0]["src"]
        if st.get("o") != "ok" or len(obs) != len(tys) + 2 + 2 * len(convs):
            rep.mismatch("types:value:%s:%s" % (vk, out_class(st)), "`%s` did not evaluate" % src, {"steps": [src]})
            continue
        for t, c in zip(tys, obs):
            nontrivial.add(("is", vk, t["name"]))
            if truth(c) != (1 if t["is"] else 0):
                rep.mismatch("types:is:%s:%s:exp-%d" % (vk, t["name"], 1 if t["is"] else 0),
                             "`%s is %s` is %d, specification says %s" % (R.val_src(ln["v"]), R.type_src(t["ty"]), truth(c),
                                                                        t["is"]),
                             {"steps": R.PRELUDE + ["(%s) is %s" % (R.val_src(ln["v"]), R.type_src(t["ty"]))]})
        if truth(obs[len(tys)]) != 1:
            rep.mismatch("types:is-typeof:%s" % vk, "`v is type(v)` is false for v = %s (type(v) = %s)" % (
                R.val_src(ln["v"]), ln["typeof"]["name"]),
                {"steps": R.PRELUDE + ["(%s) is type(%s)" % (R.val_src(ln["v"]), R.val_src(ln["v"]))]})
        if truth(obs[len(tys) + 1]) != 1:
            rep.mismatch("types:is-anything:%s" % vk, "`v is anything` is false", {"steps": [src]})
        for j, c in enumerate(convs):
            cv, ci = obs[len(tys) + 2 + 2 * j], obs[len(tys) + 3 + 2 * j]
            if cv.get("t") == "undef":
                continue                                   # the conversion does not accept this value
            sv = R.canon_to_spec(cv)
            kind = sv["t"] if sv else cv.get("t")
            nontrivial.add(("conv", vk, c["name"]))
            if kind not in c["kinds"]:
                rep.mismatch("types:conv-kind:%s:%s" % (c["name"], vk), "`%s(%s)` returned a %s" % (
                    c["name"], R.val_src(ln["v"]), kind), {"steps": R.PRELUDE + ["%s(%s)" % (c["name"], R.val_src(ln["v"]))]})
            elif truth(ci) != 1:
                rep.mismatch("types:conv-is:%s:%s" % (c["name"], vk), "`%s(%s) is %s` is false" % (
                    c["name"], R.val_src(ln["v"]), c["name"]),
                    {"steps": R.PRELUDE + ["%s(%s) is %s" % (c["name"], R.val_src(ln["v"]), c["name"])]})

    # ---- annotated variables: every transition, reached by the path the model recorded
    n_vars = replay_vars(rep, by.get("vars", []), stats, nontrivial)
    n_replayed += n_vars
    return dict(distinct=r["distinct"], generated=r["generated"], lines=len(lines), replayed=n_replayed,
                nontrivial=len(nontrivial), stats=stats,
                by_kind={k: len(v) for k, v in by.items()},
                invariants=["MatchTyped", "Typed", "TypeTheorems"])


def act_src(a):
    k = a["k"]
    w = R.val_src(a["w"]) if a.get("w") else ""
    if k == "assign":
        return "%s = %s" % (a["x"], w)
    if k == "every":
        return "every %s = %s" % (a["x"], w)
    if k == "opassign":
        return "%s %s= %s" % (a["x"], a["o"], w)
    if k == "everyop":
        return "every %s %s= %s" % (a["x"], a["o"], w)
    if k == "index":
        return "%s[%s] = %s" % (a["x"], R.val_src({"t": "int", "i": a["i"]}), w)
    if k == "swap":
        return "swap %s, %s" % (a["x"], a["y"])
    if k == "destructure":
        return "%s, %s = %s, %s" % (a["x"], a["y"], w, R.val_src(a["w2"]))
    raise ValueError(k)


INIT_VAL = {"int": {"t": "int", "i": 3}, "number": {"t": "float", "n": 3, "d": 2},
            "list": {"t": "list", "v": [{"t": "int", "i": 1}, {"t": "int", "i": 2}]},
            "str": {"t": "str", "v": ["a"]}, "anything": {"t": "null"}, "sat-small": {"t": "int", "i": 1},
            "stream": {"t": "stream", "v": [{"t": "int", "i": 1}, {"t": "int", "i": 2}]}}


def var_steps(types, acts, sfx):
    """declarations and actions on xa / xb (renamed per item), observing values and `x is T`"""
    def rn(s):
        return s.replace("xa", "xa" + sfx).replace("xb", "xb" + sfx)
    obs = [rn("xa"), rn("xb"), "(%s is %s)" % (rn("xa"), R.type_src(types["xa"])),
           "(%s is %s)" % (rn("xb"), R.type_src(types["xb"]))]
    steps = []
    for x in ("xa", "xb"):
        steps.append({"src": "%s: %s = %s" % (rn(x), R.type_src(types[x]), R.val_src(INIT_VAL[R.type_key(types[x])]))})
    steps[-1]["obs"] = obs
    for a in acts:
        steps.append({"src": rn(act_src(a)), "obs": obs})
    return steps


def observed_vars(st):
    obs = st.get("obs") or []
    if len(obs) < 4:
        return None

    def truth(c):
        return c.get("t") == "int" and c.get("v") == "1"
    return {"xa": R.canon_to_spec(obs[0]), "xb": R.canon_to_spec(obs[1]), "isa": truth(obs[2]), "isb": truth(obs[3])}


def replay_vars(rep, lines, stats, nontrivial):
    items, meta = [], []
    for i, ln in enumerate(lines):
        if ln["out"] == "unspec":
            continue
        types = {x: ln["init"][x]["ty"] for x in ("xa", "xb")}
        steps = var_steps(types, ln["path"] + [ln["a"]], "r%d" % i)
        items.append({"steps": steps, "group": 0})
        meta.append((ln, types))
    res = S.run_items(items, batch_steps=160, t_batch=2000, t_alone=3000, stats=stats, prelude=R.PRELUDE)
    for it, (ln, types), rs in zip(items, meta, res):
        n = len(ln["path"])
        before = observed_vars(rs[2 + n]) if len(rs) > 2 + n else None
        st = rs[3 + n] if len(rs) > 3 + n else {"o": "missing"}
        a = ln["a"]
        x = a["x"]
        key0 = "vars:%s%s:%s:%s%s" % (a["k"], ("(" + a["o"] + ")") if a["o"] else "", R.type_key(types[x]),
                                     R.val_kind(ln["init"][x]["val"]),
                                     (":" + R.val_kind(a["w"])) if a["k"] not in ("swap",) else
                                     (":" + R.type_key(types[a["y"]]) + ":" + R.val_kind(ln["init"][a["y"]]["val"])))
        nontrivial.add(key0 + ln["out"])
        if before is None or not (spec_eq(before["xa"], ln["init"]["xa"]["val"]) and spec_eq(before["xb"], ln["init"]["xb"]["val"])):
            continue            # the source state already differs: reported at the transition that led to it
        want_out = "ok" if ln["out"] == "ok" else "throw"
        after = observed_vars(st)
        bad = None
        if st.get("o") != want_out:
            bad = ("exp-%s:obs-%s" % (ln["out"], out_class(st)), "the statement must %s" % (
                "complete" if want_out == "ok" else "raise"))
        elif after is None:
            bad = ("exp-%s:obs-unobservable" % ln["out"], "variables unobservable")
        else:
            for v, isk in (("xa", "isa"), ("xb", "isb")):
                if not spec_eq(after[v], ln["after"][v]["val"]):
                    bad = ("exp-%s:obs-wrong-value:%s" % (ln["out"], v), "%s is %s afterwards, specification says %s" % (
                        v, json.dumps(after[v]), json.dumps(ln["after"][v]["val"])))
                    break
                if after[isk] != ln["isty"][v]:
                    bad = ("exp-%s:obs-is-type-%s:%s" % (ln["out"], str(after[isk]).lower(), v),
                           "`%s is %s` is %s afterwards, specification says %s" % (v, R.type_src(types[v]), after[isk],
                                                                                   ln["isty"][v]))
                    break
        if bad:
            rep.mismatch(key0 + ":" + bad[0], "`%s` after %s: %s" % (
                it["steps"][-1]["src"], " ; ".join(s["src"] for s in it["steps"][:-1]), bad[1]),
                {"steps": R.PRELUDE + [s["src"] for s in it["steps"]], "expected": {"out": ln["out"], "after": ln["after"]},
                 "observed": st})
    if items:
        rep.sample({"annotated_variable_history": [s["src"] for s in items[len(items) // 2]["steps"]],
                    "expected": meta[len(items) // 2][0]["out"]})
    return len(items)


def run(tier):
    seed = nv.seed()
    rep = nv.Report("C12", tier, seed, "model_checking")
    wd = nv.work_dir("C12")
    nv.build_harness()
    t0 = time.time()
    mc = replay_mc(rep, tier, wd)
    t_mc = time.time() - t0
    t0 = time.time()
    import c12trace
    tr = c12trace.run(rep, tier, seed, wd)
    t_tr = time.time() - t0
    shutil.rmtree(wd, ignore_errors=True)
    classes = {}
    for key, what, _path in rep.violations:
        c = classes.setdefault(key, [0, what])
        c[0] += 1
    for key, (w, n) in rep.known_hits.items():
        classes.setdefault(key, [n, w + " (known)"])
    if os.environ.get("C12_CLASSES"):
        for key in sorted(classes):
            print("C12-CLASS %d\t%s\t%s" % (classes[key][0], key, classes[key][1][:260]))
    return rep.finish({
        "finding_classes": len(classes),
        "states": mc["distinct"], "transitions": mc["lines"],
        "traces_validated_against_impl": mc["replayed"] + tr["events"],
        "evaluations": mc["replayed"] + tr["evaluations"],
        "distinct_nontrivial": mc["nontrivial"] + tr["nontrivial"],
        "rule": "MC: one REPLAY line per (pattern, value) pair / switch / value x type table / annotated-variable "
                "transition enumerated by TLC; a pair is replayed in up to six contexts (declaration, switch arm, "
                "single lambda parameter, parameter list, for clause, catch clause); non-trivial = distinct (pattern skeleton, value kind, context) "
                "where the pattern is not a bare name or _, distinct (switch arms, value kind), distinct (value kind, type) "
                "and distinct (action, declared type, value kinds, expected outcome) classes; trace: distinct random "
                "(pattern skeleton, value kind) pairs and history steps",
        "mc_lines_by_kind": mc["by_kind"], "mc_replayed_items": mc["replayed"], "mc_invariants": mc["invariants"],
        "trace_events": tr["events"], "trace_histories": tr["histories"], "trace_patterns": tr["patterns"],
        "interpreter_sessions": mc["stats"].get("sessions", 0) + tr.get("sessions", 0),
        "seconds": {"mc_and_replay": round(t_mc, 1), "trace": round(t_tr, 1)},
        "checker_cmd": "tlc MC_Pattern.tla (bounded; every line replayed) + tlc Trace_Pattern.tla (trace validation)",
        "trusted_base": ["TLC", "CommunityModules Json/IOUtils", "harness canonical projection",
                         "c12render (syntax of patterns / values only)"],
    })
