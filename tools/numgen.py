"""Operand pools and source rendering for the numeric properties (C06, C07, C08)."""
import random

BOUNDARY_K = [31, 32, 62, 63, 64]


def boundary_ints():
    out = {0, 1, -1, 2, -2, 3, -3, 7, -7, 10, -10}
    for k in BOUNDARY_K:
        for d in (-2, -1, 0, 1, 2):
            out.add(2 ** k + d)
            out.add(-(2 ** k + d))
    return sorted(out)


def random_int(rng, tier):
    r = rng.random()
    if r < 0.35:
        bits = rng.choice([3, 8, 16, 30, 33, 40, 61, 62, 63])
    elif r < 0.75:
        bits = rng.choice([64, 65, 66, 70, 96, 128, 130])
    elif r < 0.97:
        bits = rng.choice([200, 256, 300, 500])
    else:
        bits = rng.choice([1000, 2000, 3000] if tier == "thorough" else [700, 1000])
    v = rng.getrandbits(bits) | (1 << (bits - 1))
    if rng.random() < 0.3:
        # near a power of two
        v = (1 << bits) + rng.randint(-3, 3)
    return -v if rng.random() < 0.45 else v


def lit(v):
    return str(v) if v >= 0 else "(-%d)" % (-v)


HOWS = ["lit", "hex", "pow", "diff", "str", "prod", "neg"]


def render_int(v, how, rng):
    """noulith source text that evaluates to the integer v, produced in a particular way.
    'diff' yields a big-represented value even when v fits a machine word."""
    if how == "lit":
        return lit(v)
    if how == "hex":
        return "0x%x" % v if v >= 0 else "(-0x%x)" % (-v)
    if how == "pow":
        if v == 0:
            return "(2^1 - 2)"
        a = abs(v)
        k = max(a.bit_length() - 1, 0)
        c = a - 2 ** k
        s = "(2^%d + %d)" % (k, c)
        return s if v >= 0 else "(0 - %s)" % s
    if how == "diff":
        k = max(abs(v).bit_length() + 7, 70)
        return "((2^%d + %s) - 2^%d)" % (k, lit(v), k)
    if how == "str":
        return 'int("%d")' % v
    if how == "prod":
        d = rng.choice([3, 7, 1000003, 2 ** 32 + 15, 2 ** 65 + 1])
        q, r = divmod(v, d)
        return "(%s * %s + %s)" % (lit(q), lit(d), lit(r))
    if how == "neg":
        return "(-%s)" % lit(-v)
    raise ValueError(how)
