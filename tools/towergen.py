"""Numbers of every tower level: intended value + noulith source, for C07 / C08.

A number is carried as the harness's canonical JSON ({"t":"int","v":..} / rat / float bits /
complex) so that (a) nv.tla_num turns it into the TLA+ record and (b) the value the implementation
actually produced for the source text can be compared with the intended one (binding sanity)."""
import random
import struct
from fractions import Fraction

import numgen


def fbits(x):
    return struct.unpack("<Q", struct.pack("<d", x))[0]


def bits_float(b):
    return struct.unpack("<d", struct.pack("<Q", int(b)))[0]


def c_int(v):
    return {"t": "int", "v": str(v)}


def c_rat(n, d):
    f = Fraction(n, d)
    return {"t": "rat", "n": str(f.numerator), "d": str(f.denominator)}


def c_float(x):
    return {"t": "float", "bits": str(fbits(x))}


def c_complex(re, im):
    return {"t": "complex", "re": str(fbits(re)), "im": str(fbits(im))}


def float_src(x):
    if x != x:
        return 'float("nan")'
    if x in (float("inf"), float("-inf")):
        return 'float("%s")' % ("inf" if x > 0 else "-inf")
    return 'float("%s")' % repr(x)


def src_of(c):
    t = c["t"]
    if t == "int":
        return numgen.lit(int(c["v"]))
    if t == "rat":
        n, d = int(c["n"]), int(c["d"])
        if d == 1:
            return "rational(%s)" % numgen.lit(n)
        return "(%s/%d)" % (numgen.lit(n), d)
    if t == "float":
        return float_src(bits_float(c["bits"]))
    if t == "complex":
        return "(%s + %s * 1i)" % (float_src(bits_float(c["re"])), float_src(bits_float(c["im"])))
    raise ValueError(t)


def same(intended, observed):
    """does the canonical value the implementation produced equal the intended one?"""
    if observed is None or intended["t"] != observed.get("t"):
        return False
    t = intended["t"]
    if t == "int":
        return int(intended["v"]) == int(observed["v"])
    if t == "rat":
        return (int(intended["n"]), int(intended["d"])) == (int(observed["n"]), int(observed["d"]))
    if t == "float":
        a, b = bits_float(intended["bits"]), bits_float(observed["bits"])
        return (a != a and b != b) or int(intended["bits"]) == int(observed["bits"])
    if t == "complex":
        return all((bits_float(intended[k]) != bits_float(intended[k]) and bits_float(observed[k]) != bits_float(observed[k]))
                   or int(intended[k]) == int(observed[k]) for k in ("re", "im"))
    return False


ARITH_POOL = ([c_int(v) for v in (-7, -2, -1, 0, 1, 2, 3, 7, 2 ** 64, -(2 ** 63))] +
              [c_rat(1, 2), c_rat(-1, 2), c_rat(3, 2), c_rat(-7, 2), c_rat(35, 28), c_rat(2, 1), c_rat(-3, 1),
               c_rat(1, 3), c_rat(2 ** 64, 3)])

ORDER_POOL = ([c_int(v) for v in (0, 1, -1, 2, 2 ** 53 - 1, 2 ** 53, 2 ** 53 + 1, 2 ** 63 - 1, 2 ** 63, 2 ** 63 + 1,
                                 -(2 ** 63), -(2 ** 63) - 1, 2 ** 64 - 1, 2 ** 64, 10 ** 30, -(10 ** 30))] +
              [c_rat(1, 3), c_rat(1, 2), c_rat(2, 1), c_rat(-1, 2), c_rat(2 ** 53 + 1, 2), c_rat(10 ** 30, 3),
               c_rat(0, 1), c_rat(-(2 ** 63), 1)] +          # zero and a word boundary AT the rational level
              
              [c_float(x) for x in (0.0, -0.0, 0.5, 0.3333333333333333, 1.0, 2.0, -0.5, 2.0 ** 53, 2.0 ** 63, -(2.0 ** 63),
                                    2.0 ** 64, 1e30, float("inf"), float("-inf"), float("nan"))] +
              [c_complex(1.0, 0.0), c_complex(1.0, 2.0), c_complex(0.0, 1.0)])


def random_exact(rng, tier):
    r = rng.random()
    if r < 0.45:
        return c_int(numgen.random_int(rng, "quick") if rng.random() < 0.5 else rng.randint(-20, 20))
    if r < 0.6:
        # numerator / denominator just beyond the 53 bits a float holds (converting them separately and
        # dividing is then visibly not the correctly rounded quotient), or both beyond the float range
        # while the quotient is moderate
        k = rng.random()
        if k < 0.4:
            return c_rat((2 ** 53 + rng.getrandbits(rng.choice([1, 2, 3, 4, 20]))) * rng.choice([1, -1]) | 1, rng.choice([3, 7, 11, 1000003]))
        if k < 0.7:
            return c_rat(rng.choice([1, 3, -7, rng.getrandbits(40) | 1]), (2 ** 53 + rng.getrandbits(rng.choice([1, 2, 3, 20]))) | 1)
        if k < 0.95:
            return c_rat((2 ** 54 + rng.getrandbits(54)) | 1, (2 ** 53 + rng.getrandbits(53)) | 1)
        e = 310        # (beyond the float range; exact arithmetic on 1000-bit numbers is slow in TLC, so rarely)
        return c_rat(10 ** e * rng.choice([1, -1]), 10 ** (e - 1) + rng.choice([1, 3, 7]))
    d = rng.choice([2, 3, 4, 7, 10, 28, 2 ** 31, 2 ** 64 + 1, rng.getrandbits(70) | 1])
    n = rng.choice([rng.randint(-50, 50), numgen.random_int(rng, "quick"), d * rng.randint(-5, 5)])
    return c_rat(n, d)


SPECIAL_FLOATS = [0.0, -0.0, 0.5, -0.5, 0.1, 1.0, -1.0, 1.5, 2.5, -2.5, 3.5, 1e300, -1e300, 5e-324, 2.2250738585072014e-308,
                  2.0 ** 53, 2.0 ** 53 + 2, 2.0 ** 63, 2.0 ** 64, 1e22, 1e23, 0.3333333333333333, 1.7976931348623157e308]


def random_float(rng, finite=True):
    r = rng.random()
    if r < 0.4:
        return rng.choice(SPECIAL_FLOATS)
    if r < 0.5 and not finite:
        return rng.choice([float("inf"), float("-inf"), float("nan")])
    if r < 0.8:
        return rng.uniform(-1000, 1000)
    e = rng.randint(-1070, 1020)
    m = rng.getrandbits(53)
    x = float(m) * 2.0 ** (e - 52) if -1000 < e < 1000 else bits_float(rng.getrandbits(62))
    return -x if rng.random() < 0.5 else x
