"""C10 - indexing and slicing follow Python semantics on every sequence kind.

(a) MC_Index: TLC enumerates kind x length x index / slice bounds (small grid plus the extremes
    around and beyond the machine word, non-integers, omitted) x operation (index, slice, accessor
    builtins, write statements) x surface form, checks the lemmas of spec/Index.tla on every case
    and on the bounded domain, and prints the result the specification computes; every case is
    replayed in the real interpreter.
(b) Trace validation: a seeded driver runs reads, slices, accessor builtins and indexed writes
    on random sequences of up to 40 elements (multi-byte strings, lists of lists, several stream
    constructors); Trace_Index recomputes every observation from the logged arguments.
"""
import shutil

import nv


def run(tier):
    seed = nv.seed()
    rep = nv.Report("C10", tier, seed, "model_checking")
    wd = nv.work_dir("C10")
    nv.build_harness()
    import c10mc
    import c10drive
    mc = c10mc.run(rep, tier, wd)
    tr = c10drive.run(rep, tier, seed, wd)
    shutil.rmtree(wd, ignore_errors=True)
    rep.assumptions += [
        "s !? i is non-wrapping (null for negative i) and s !% i may raise for i beyond a machine word "
        "(named rules SafeIndexNonWrapping / CyclicIndex); !? and !% on streams and non-integer !? indices are "
        "outside the property",
        "a slice of a stream is compared by its elements (list or stream result accepted)",
        "a failing op-assignment (x |..= [i, v]) leaves x null (documented LHS-drop rule)",
        "x[a:b] = v without `every` is unimplemented (todo!) and not generated; string element assignment "
        "whose result is not valid UTF-8 is unspecified",
    ]
    return rep.finish({
        "states": mc["distinct"], "transitions": mc["transitions"],
        "traces_validated_against_impl": mc["replayed"] + tr["events"],
        "evaluations": mc["replayed"] + tr["events"],
        "distinct_nontrivial": mc["nontrivial"] + tr["nontrivial"],
        "exhaustive": True,
        "rule": "MC cases: one per (sequence kind/constructor, length 0..MaxLen, operation, index or bound pair "
                "from [-len-Margin, len+Margin] + {+-2^63, +-(2^63-1), +-2^64, +-10^30, 1.0, 1/2, \"a\", null, "
                "omitted}, surface form), all replayed; trace events: one per statement executed on a random "
                "sequence (length <= 40); non-trivial = some index/bound is negative, out of range, extreme, "
                "non-integer or omitted, or the sequence is empty, a string or a stream, or the statement is a "
                "write; distinct by (sequence, statement)",
        "mc_lemmas": mc["invariants"], "mc_replayed": mc["replayed"], "trace_events": tr["events"],
        "trace_longest_sequence": tr["longest"],
        "checker_cmd": "tlc MC_Index.tla -config MC_Index_%s.cfg (all cases replayed) + tlc Trace_Index.tla "
                       "(trace validation)" % tier,
        "trusted_base": ["TLC", "CommunityModules Json/IOUtils", "lib/BigNum (self-checked by MC_BigNum)",
                         "harness canonical projection", "python UTF-8 codec for rendering string literals"],
    })
