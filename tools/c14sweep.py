"""C14 sweep: every global builtin x every tuple of boundary arguments, each call observed through
the session protocol of spec/Outcome.tla (plain call; the same call under try/catch; `1 + 1`;
re-read of a sentinel variable), lazy results forced.  This module only *generates* source text,
runs the harness and packs observations into trace events; the judgement is Trace_Outcome's."""
import json
import os
import resource
import subprocess
import time

import nv

# ---------------------------------------------------------------------------------- the value pool
# (label, source text, kind).  The kind alphabet is the argument-kind signature alphabet of the
# trace (Outcome!Kinds).  Every sub-expression is parenthesised.
POOL = [
    ("zero", "0", "i0"),
    ("one", "1", "i"),
    ("neg1", "(-1)", "i"),
    ("p70", "(2^70)", "ibig"),
    ("n70", "(-(2^70))", "ibig"),
    ("p63", "(2^63)", "ibig"),
    ("imax", "9223372036854775807", "ibig"),
    ("imin", "((-9223372036854775807) - 1)", "ibig"),      # the most negative machine word, held as one
    ("half", "(1/2)", "q"),
    ("n3h", "((-3)/2)", "q"),
    ("f0", "0.0", "f"),
    ("fn0", "(-0.0)", "f"),
    ("f15", "1.5", "f"),
    ("nan", "(0.0/0.0)", "fx"),
    ("inf", "(1.0/0.0)", "fx"),
    ("cx", "(1+2i)", "c"),
    ("s0", "\"\"", "s0"),
    ("sabc", "\"abc\"", "s"),
    ("suni", "\"héλ✓\"", "s"),
    ("sa", "\"a\"", "s"),
    ("sd7ff", "\"\\u{d7ff}\"", "s"),      # single characters either side of the surrogate gap
    ("se000", "\"\\u{e000}\"", "s"),
    ("l0", "[]", "l0"),
    ("l123", "[1,2,3]", "l"),
    ("lnest", "[[1,2],[3,[4]]]", "l"),
    ("d0", "{}", "d0"),
    ("d12", "{1:2}", "d"),
    ("ddef", "{:5, 1:2}", "d"),
    ("v0", "V()", "v0"),
    ("v12", "V(1,2)", "v"),
    ("b0", "B\"\"", "b0"),
    ("bbad", "B[255,254,65]", "b"),
    ("null", "null", "n"),
    ("st13", "(1 to 3)", "st"),
    # streams whose cursor has been advanced (a builtin handed a fresh value never sees one)
    ("stw", "(stream([10,20,30,40])[2:])", "st"),
    ("stadv", "((1 to 5)[3:])", "st"),
    ("lam", "(\\xx -> xx < 2)", "fn"),
    ("bif", "max", "fn"),
]
KINDS = sorted({k for _, _, k in POOL})
# 3-argument tuples (thorough): one representative of the important kinds
POOL3_LABELS = ["zero", "neg1", "p70", "half", "nan", "sabc", "l0", "l123", "ddef", "bbad", "null", "lam"]
# infinite streams: only handed to callees that do not have to consume their argument
# (the same list is Outcome!NonConsuming)
INF_POOL = [("rep1", "repeat(1)", "sti"), ("iota0", "iota(0)", "sti")]
# finite streams with more elements than a machine word counts (never iterated to the end by anyone):
# handed to the non-consuming callees and to `len`, whose closed forms must not overflow
HUGE_POOL = [("perm21", "permutations(1 to 21)", "sth"), ("subs64", "subsequences(1 to 64)", "sth"),
             ("cart100", "([1,2,3] ^^ 100)", "sth")]
NON_CONSUMING = ["take", "first", "second", "third", "tail", "lazy_map", "lazy_filter", "lazy_zip", "type", "is",
                 "id", "const", "not", "!!", "!?", "uncons", "uncons?", "zip", "then", "=>"]

# excluded builtins: I/O, clock, sleep, process, network, randomness, file system
# (the same list is Outcome!Excluded; Trace_Outcome rejects a trace whose exclusions differ)
EXCLUDED = ["input", "read", "read_bytes", "read_compressed", "read_file", "read_file?", "read_file_bytes",
            "read_file_bytes?", "interact", "interact_lines", "write_file", "append_file", "list_files",
            "path_join", "path_parent", "run_process", "sleep", "now", "time", "random", "random_bytes",
            "random_range", "shuffle", "choose", "request", "exit", "import"]

SENTINEL = 12345
MEM_LIMIT = int(os.environ.get("C14_MEM_GB", "3")) << 30


def run_cases(cases, timeout_ms=2000, jobs=None, chunk=3000):
    """nv.run_cases with an address-space limit on the interpreter processes: a runaway
    allocation ends as an `abort` outcome of that case instead of exhausting the machine.
    (The limit is inherited by the supervisor too, hence the chunking: it holds its input.)"""
    jobs = jobs or nv.JOBS

    def limit():
        resource.setrlimit(resource.RLIMIT_AS, (MEM_LIMIT, MEM_LIMIT))

    out = {}
    t0 = time.time()
    for lo in range(0, len(cases), chunk):
        part = cases[lo:lo + chunk]
        inp = "\n".join(json.dumps(c) for c in part) + "\n"
        p = subprocess.run([nv.NVH, "run", "-j", str(jobs), "-t", str(timeout_ms)], input=inp,
                           stdout=subprocess.PIPE, stderr=subprocess.PIPE, text=True, preexec_fn=limit)
        if p.returncode != 0:
            nv.tool_fail("harness run failed: " + p.stderr[-2000:])
        for line in p.stdout.split("\n"):
            if line.strip():
                r = json.loads(line)
                out[r["id"]] = r["steps"]
    if os.environ.get("C14_TRACE"):
        print("  run_cases: %d cases, %d steps, timeout %d ms: %.1fs" % (
            len(cases), sum(len(c["steps"]) for c in cases), timeout_ms, time.time() - t0), flush=True)
    if len(out) != len(cases):
        nv.tool_fail("harness returned %d results for %d cases" % (len(out), len(cases)))
    return out


def global_table():
    """the interpreter's own table of globals: [(name, is_function)]"""
    res = nv.run_cases([{"id": 0, "steps": [{"src": "sort(keys(vars()))"}]}])
    st = res[0][0]
    if st.get("o") != "ok" or st["v"]["t"] != "list":
        nv.tool_fail("cannot enumerate globals: %s" % json.dumps(st)[:300])
    names = [x["v"] for x in st["v"]["v"]]
    cases = [{"id": i, "steps": [{"src": "(%s)" % n}]} for i, n in enumerate(names)]
    res = nv.run_cases(cases)
    out = []
    for i, n in enumerate(names):
        st = res[i][0]
        out.append((n, st.get("o") == "ok" and st["v"]["t"] == "func"))
    return out


def call_src(name, args, infix=False):
    if infix:
        return "(%s) %s (%s)" % (args[0], name, args[1])
    return "(%s)(%s)" % (name, ", ".join(args))


def protocol_steps(src):
    return [{"src": "zq := %d" % SENTINEL, "obs": ["zq"]},
            {"src": src},
            {"src": "try %s catch ee -> \"caught\"" % src, "obs": ["zq"]},
            {"src": "1 + 1", "obs": ["zq"]}]


def int_of(c):
    if isinstance(c, dict) and c.get("t") == "int":
        v = int(c["v"])
        if -2 ** 31 < v < 2 ** 31:
            return v
    return -1


def observe(steps):
    """pack what the harness saw of one protocol case into the fields Trace_Outcome judges"""
    def o(i):
        return steps[i].get("o", "missing") if i < len(steps) else "missing"

    def z(i):
        if i < len(steps) and steps[i].get("obs"):
            return int_of(steps[i]["obs"][0])
        return -1
    caught = False
    if o(2) == "ok":
        v = steps[2].get("v", {})
        caught = v.get("t") == "str" and v.get("v") == "caught"
    return {"z0": z(0), "plain": o(1), "tried": o(2), "caught": caught,
            "after": o(3), "two": int_of(steps[3].get("v")) if o(3) == "ok" else -1, "z3": z(3)}


def abnormal_class(steps):
    """panic message normalised | timeout | abort of the first abnormal step, else None"""
    for st in steps:
        o = st.get("o")
        if o == "panic":
            return "panic:" + nv.norm_panic(st.get("e", ""))
        if o in ("timeout", "abort"):
            return o
        for ob in st.get("obs", []) or []:
            if isinstance(ob, dict) and ob.get("t") == "panic":
                return "panic:" + nv.norm_panic(ob.get("e", ""))
    return None


def lazy_kind(step):
    if step.get("o") != "ok":
        return None
    v = step.get("v", {})
    if v.get("t") == "stream":
        return "stream-inf" if v.get("more") else "stream"
    if v.get("t") == "func":
        return "func"
    return None


FORCE = {
    "stream": [("len", "len(%s)"), ("list", "list(%s)"), ("ix0", "(%s)[0]"), ("ixm1", "(%s)[-1]"),
               ("take", "list((%s) take 20)"), ("slice", "list((%s)[1:3])")],
    "stream-inf": [("take", "list((%s) take 20)"), ("ix0", "(%s)[0]"), ("ix5", "(%s)[5]"),
                   ("slice", "list((%s)[1:3])")],
    "func": [("call0", "(%s)()"), ("call1i", "(%s)(0)"), ("call1l", "(%s)([1,2,3])"), ("call1s", "(%s)(\"abc\")"),
             ("call2", "(%s)(1, [1,2,3])"), ("call1f", "(%s)(\\xx -> xx < 3)")],
}


# ------------------------------------------------------------------------------ batched execution
ABNORMAL = ("panic", "timeout", "abort", "skipped", "missing")
DECL = {"src": "zq := %d" % SENTINEL, "obs": ["zq"]}


def _dirty(steps, n):
    if len(steps) < n:
        return True
    for st in steps[:n]:
        if st.get("o") in ABNORMAL or st.get("o") is None:
            return True
        for ob in st.get("obs", []) or []:
            if isinstance(ob, dict) and ob.get("t") == "panic":
                return True
    return False


def _has_panic(steps):
    for st in steps:
        if st.get("o") == "panic":
            return True
        for ob in st.get("obs", []) or []:
            if isinstance(ob, dict) and ob.get("t") == "panic":
                return True
    return False


def run_items(items, batch_steps=120, t_batch=400, t_alone=3000, stats=None, prelude=(), cls_of=None,
              rounds=6):
    """items: list of dicts with "steps" (the statements of one mini-session WITHOUT the sentinel
    declaration) and "group" (consecutive items of equal group may share an interpreter session).
    Returns, per item, [declaration step result] + its step results.

    Many items share one session (creating an interpreter dominates the cost of a case).  An
    abnormal step poisons the rest of its session, therefore:
      * only the FIRST item of a session that is not clean is taken from that session; the items
        after it are run again in a new session (a few rounds, then each alone);
      * a panic of that first item is attributable as it stands (every item before it conformed);
      * a time-out / abort of that first item is only provisional (the shared step time-out is
        short and the machine may be loaded): one representative per class `cls_of(item)` is run
        again ALONE in a fresh interpreter with the full time-out; if it hangs again the class is
        confirmed, otherwise every member of the class is run again alone."""
    cls_of = cls_of or (lambda it: id(it))
    out = [None] * len(items)
    pre = [DECL] + [{"src": p} for p in prelude]
    batches = []
    cur, cur_n, cur_g = [], 0, None
    for i, it in enumerate(items):
        n = len(it["steps"])
        if cur and (it.get("group") != cur_g or cur_n + n > batch_steps):
            batches.append(cur)
            cur, cur_n = [], 0
        cur.append(i)
        cur_n += n
        cur_g = it.get("group")
    if cur:
        batches.append(cur)
    n_sessions = 0
    suspects = {}          # item index -> provisional result
    alone = []
    for rnd in range(rounds):
        if not batches:
            break
        cases = []
        for bi, b in enumerate(batches):
            steps = list(pre)
            for i in b:
                steps += items[i]["steps"]
            cases.append({"id": bi, "steps": steps})
        n_sessions += len(cases)
        res = run_cases(cases, timeout_ms=t_batch)
        nxt = []
        for bi, b in enumerate(batches):
            st = res[bi]
            pos = len(pre)
            if _dirty(st, len(pre)):
                alone += b
                continue
            for k, i in enumerate(b):
                n = len(items[i]["steps"])
                mine = st[pos:pos + n]
                pos += n
                if not _dirty(mine, n):
                    out[i] = [st[0]] + mine
                    continue
                if _has_panic(mine):
                    out[i] = [st[0]] + mine
                else:
                    suspects[i] = [st[0]] + mine
                rest = b[k + 1:]
                if rest:
                    if rnd + 1 < rounds:
                        nxt.append(rest)
                    else:
                        alone += rest
                break
        batches = nxt

    def run_alone(idx, tmo):
        cases = [{"id": k, "steps": pre + items[i]["steps"]} for k, i in enumerate(idx)]
        r = run_cases(cases, timeout_ms=tmo) if cases else {}
        return {i: r[k][:1] + r[k][len(pre):] for k, i in enumerate(idx)}

    # left-overs of the rounds: alone, still with the short time-out; hangs join the suspects
    got = run_alone(alone, t_batch)
    for i in alone:
        n = len(items[i]["steps"])
        if _dirty(got[i][1:], n) and not _has_panic(got[i]):
            suspects[i] = got[i]
        else:
            out[i] = got[i]
    # one representative per suspect class, alone, full time-out
    classes = {}
    for i in sorted(suspects):
        classes.setdefault(cls_of(items[i]), []).append(i)
    reps = [m[0] for m in classes.values()]
    got = run_alone(reps, t_alone)
    again = []
    for c, members in classes.items():
        r = got[members[0]]
        out[members[0]] = r
        hung = [st for st in r if st.get("o") in ("timeout", "abort")]
        if hung:
            for i in members[1:]:
                prov = [st for st in suspects[i] if st.get("o") not in ("timeout", "abort")]
                out[i] = prov + [hung[0]]
        else:
            again += members[1:]
    got = run_alone(again, t_alone)
    for i in again:
        out[i] = got[i]
    if stats is not None:
        stats["sessions"] = stats.get("sessions", 0) + n_sessions
        stats["isolated"] = stats.get("isolated", 0) + len(reps) + len(alone) + len(again)
        stats["provisional_hangs"] = stats.get("provisional_hangs", 0) + len(suspects)
    return out
