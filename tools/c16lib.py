"""C16 helpers: rendering of values as Noulith source, conversion of the harness's canonical
values into the shapes Codec.tla / Trace_Codec.tla use.  No codec is implemented here: the
expected encodings come from the specification (TLC), python only moves values around."""
import json
import math
import struct
import sys

import nv
import numgen

if hasattr(sys, "set_int_max_str_digits"):
    sys.set_int_max_str_digits(0)


def cps(s):
    return [ord(c) for c in s]


def text_of(cp_list):
    return "".join(chr(c) for c in cp_list)


# ----------------------------------------------------------------------------- source rendering
def str_lit(s):
    """a Noulith string literal denoting exactly s (C15 checks the escapes used here)"""
    out = ['"']
    for ch in s:
        c = ord(ch)
        if ch in ('"', "\\"):
            out.append("\\" + ch)
        elif 32 <= c < 127:
            out.append(ch)
        else:
            out.append("\\u{%x}" % c)
    out.append('"')
    return "".join(out)


def bytes_lit(b):
    return "B[" + ",".join(str(x) for x in b) + "]"


def int_src(n, rep):
    """small representation: a literal; big representation: ((2^k + n) - 2^k)"""
    if rep == "B":
        return numgen.render_int(n, "diff", None)
    return numgen.lit(n)


def float_src(x):
    """shortest round-trip decimal text in the lexer's float syntax (no '+' in the exponent)"""
    neg = math.copysign(1.0, x) < 0
    t = repr(abs(x))
    if "e" in t:
        m, e = t.split("e")
        if "." not in m:
            m += ".0"
        t = m + "e" + ("-" if e.startswith("-") else "") + e.lstrip("+-").lstrip("0").rjust(1, "0")
    elif "." not in t:
        t += ".0"
    return "(-%s)" % t if neg else t


def float_bits(x):
    return struct.unpack("<Q", struct.pack("<d", x))[0]


def value_src(v, big=None):
    """python model of a JSON-shaped value -> Noulith literal source.
    model: None | int | float | str | list | dict (str keys, insertion ordered).
    big: optional predicate - the integers it selects are written in BIG representation (the value of an
    integer, never the way it happens to be stored, decides what a codec produces)"""
    if v is None:
        return "null"
    if isinstance(v, bool):
        raise ValueError("no booleans")
    if isinstance(v, int):
        return int_src(v, "B") if big and big(v) else numgen.lit(v)
    if isinstance(v, float):
        return float_src(v)
    if isinstance(v, str):
        return str_lit(v)
    if isinstance(v, list):
        return "[" + ", ".join(value_src(x, big) for x in v) + "]"
    if isinstance(v, dict):
        return "{" + ", ".join("%s: %s" % (str_lit(k), value_src(x, big)) for k, x in v.items()) + "}"
    raise ValueError(type(v))


def value_spec(v):
    """python model -> the value records of Codec.tla"""
    if v is None:
        return {"t": "null"}
    if isinstance(v, int):
        return {"t": "int", "i": nv.tla_int(v)}
    if isinstance(v, float):
        return {"t": "float", "f": nv.tla_float(float_bits(v))}
    if isinstance(v, str):
        return {"t": "str", "s": cps(v)}
    if isinstance(v, list):
        return {"t": "list", "v": [value_spec(x) for x in v]}
    if isinstance(v, dict):
        return {"t": "dict", "v": [[cps(k), value_spec(x)] for k, x in v.items()]}
    raise ValueError(type(v))


def spec_src(sv):
    """value record printed by TLC -> Noulith literal source (floats through their exact double)"""
    t = sv["t"]
    if t == "null":
        return "null"
    if t == "int":
        return numgen.lit(nv.from_tla_int(sv["i"]))
    if t == "float":
        return float_src(flt_to_py(sv["f"]))
    if t == "str":
        return str_lit(text_of(sv["s"]))
    if t == "list":
        return "[" + ", ".join(spec_src(x) for x in sv["v"]) + "]"
    if t == "dict":
        return "{" + ", ".join("%s: %s" % (str_lit(text_of(k)), spec_src(x)) for k, x in sv["v"]) + "}"
    raise ValueError(t)


def flt_to_py(f):
    if f["c"] == "zero":
        return -0.0 if f["sg"] else 0.0
    if f["c"] == "inf":
        return -math.inf if f["sg"] else math.inf
    m = 0
    for limb in reversed(f["m"]):
        m = m * nv.BASE + limb
    x = math.ldexp(m, f["e"])
    return -x if f["sg"] else x


# ----------------------------------------------------------------------------- observations
def canon_spec(c):
    """canonical value from the harness -> value record of Codec.tla ({"t": "other"} outside the universe)"""
    t = c.get("t")
    if t == "null":
        return {"t": "null"}
    if t == "int":
        return {"t": "int", "i": nv.tla_int(c["v"])}
    if t == "float":
        return {"t": "float", "f": nv.tla_float(c["bits"])}
    if t == "str":
        return {"t": "str", "s": cps(c["v"])}
    if t == "list":
        return {"t": "list", "v": [canon_spec(x) for x in c["v"]]}
    if t == "dict" and "def" not in c and all(k.get("t") == "str" for k, _ in c["v"]):
        return {"t": "dict", "v": [[cps(k["v"]), canon_spec(x)] for k, x in c["v"]]}
    return {"t": "other"}


def same_value(a, b):
    """equality of two value records up to the order of dict entries (comparison only)"""
    if a.get("t") != b.get("t"):
        return False
    t = a["t"]
    if t == "list":
        return len(a["v"]) == len(b["v"]) and all(same_value(x, y) for x, y in zip(a["v"], b["v"]))
    if t == "dict":
        if len(a["v"]) != len(b["v"]):
            return False
        db = {tuple(k): x for k, x in b["v"]}
        return all(tuple(k) in db and same_value(x, db[tuple(k)]) for k, x in a["v"])
    return a == b


def outcome(st):
    o = st.get("o")
    return o if o in ("ok", "throw") else ("panic" if o == "panic" else str(o))


def obs_text(st):
    if st.get("o") == "ok" and st["v"].get("t") == "str":
        return {"out": "ok", "s": cps(st["v"]["v"])}
    return {"out": outcome(st) if st.get("o") != "ok" else "wrong-type"}


def obs_printed(st):
    if st.get("o") == "ok":
        return {"out": "ok", "s": cps(st.get("out", ""))}
    return {"out": outcome(st)}


def obs_int(st):
    if st.get("o") == "ok" and st["v"].get("t") == "int":
        return {"out": "ok", "t": "int", "i": nv.tla_int(st["v"]["v"])}
    if st.get("o") == "ok":
        return {"out": "ok", "t": "other"}
    return {"out": outcome(st)}


def obs_rat(st):
    if st.get("o") == "ok" and st["v"].get("t") == "rat":
        return {"out": "ok", "t": "rat", "n": nv.tla_int(st["v"]["n"]), "d": nv.nat_limbs(int(st["v"]["d"]))}
    if st.get("o") == "ok" and st["v"].get("t") == "int":
        return {"out": "ok", "t": "rat", "n": nv.tla_int(st["v"]["v"]), "d": [1]}
    if st.get("o") == "ok":
        return {"out": "ok", "t": "other"}
    return {"out": outcome(st)}


def obs_bytes(st):
    if st.get("o") == "ok" and st["v"].get("t") == "bytes":
        return {"out": "ok", "t": "bytes", "b": list(st["v"]["v"])}
    if st.get("o") == "ok":
        return {"out": "ok", "t": "other", "b": []}
    return {"out": outcome(st)}


def obs_value(st):
    if st.get("o") == "ok":
        return {"out": "ok", "v": canon_spec(st["v"])}
    return {"out": outcome(st)}


def obs_intlist(st):
    if st.get("o") == "ok" and st["v"].get("t") == "list" and all(x.get("t") == "int" for x in st["v"]["v"]):
        return {"out": "ok", "v": [int(x["v"]) for x in st["v"]["v"]]}
    return {"out": outcome(st) if st.get("o") != "ok" else "wrong-type"}


def what(st):
    o = st.get("o")
    if o == "panic":
        return "panic:" + nv.norm_panic(st.get("e", ""))
    if o == "ok":
        return "wrong-value"
    return str(o)


def dumps(x):
    return json.dumps(x, ensure_ascii=True)
