"""C09 - dictionaries are finite maps keyed by value equality.

(a) MC_Dict: TLC explores every history of <= 3 (quick) / 4 (thorough) dictionary operations over a
    key pool with several members per `==` class (1, 1.0, 2/2, 1+0i | 0.5, 1/2 | "a" | NaN | ...),
    every short call sequence of a memoized function and every short list through set / dict / unique /
    frequencies / count_distinct / group_all; OneEntryPerClass, LenIsCardinality, LookupTotalOnClass
    are invariants.  Every transition is re-executed in the real interpreter (c09mc.py) and the
    post-state and ALL read paths for ALL pool keys are compared with what the specification printed.
(b) Trace validation: seeded histories of 40 operations over pools drawn from the property's key
    space (levels, representations, nesting in lists / vectors / dicts-as-keys); Trace_Dict.tla keeps
    its own dictionary, re-executes each logged operation with the operators of Dict.tla and compares
    state, len/keys/values/items and every read path for every pool key after EACH operation (c09drv.py).

`C09_MUTANT=union_left|key_by_rep|no_materialise ./check C09 quick` runs the negative control of the
binding: one rule of the specification is switched to a wrong one and the check must fail.
"""
import os
import shutil

import nv


def run(tier):
    seed = nv.seed()
    rep = nv.Report("C09", tier, seed, "model_checking")
    wd = nv.work_dir("C09")
    nv.build_harness()
    mutant = os.environ.get("C09_MUTANT") or None
    import c09mc
    import c09drv
    cfgs = ["quick"] if tier == "quick" else ["thorough", "thorough4"]
    mcs = [c09mc.run(rep, c, wd, mutant) for c in cfgs]
    dr = c09drv.drive(rep, tier, seed, wd, mutant)
    shutil.rmtree(wd, ignore_errors=True)
    if mutant:
        rep.assumptions.append("NEGATIVE CONTROL RUN: specification mutant " + mutant)
    rep.assumptions += [
        "which of two ==-equal keys is STORED after an overwrite is unspecified: stored keys compare up to KeyEq",
        "values stored in the dictionaries are integers and null; the key space carries the variety",
        "NaN keys: float NaN only (complex numbers with a NaN component are not in the pools)",
        "the structural number equality of Dict.tla is checked against NumTower!NumEq for every pair of "
        "numbers of every pool (ASSUME in MC_Dict, init event in Trace_Dict)",
    ]
    replayed = sum(m["replayed"] for m in mcs)
    return rep.finish({
        "states": sum(m["distinct"] for m in mcs), "transitions": sum(m["transitions"] for m in mcs),
        "traces_validated_against_impl": replayed + dr["events"],
        "evaluations": replayed + dr["events"],
        "distinct_nontrivial": sum(m["nontrivial"] for m in mcs) + dr["nontrivial"],
        "rule": "MC: one case per TLC transition (history + operation / memoize call sequence / list function "
                "application), non-trivial = the keys used in the case include two keys of DIFFERENT kinds from ONE "
                "== class of the specification's pool; driver: one event per executed operation, non-trivial = "
                "distinct (operation, key, equal-by-construction keys of another kind that are stored or used in "
                "the same operation)",
        "exhaustive": False,
        "mc": [{k: v for k, v in m.items() if k != "reports_per_key"} for m in mcs],
        "mc_findings_per_key": {k: v for m in mcs for k, v in m["reports_per_key"].items()},
        "driver": {k: v for k, v in dr.items() if k != "reports_per_key"},
        "driver_findings_per_key": dr["reports_per_key"],
        "checker_cmd": "tlc MC_Dict.tla (bounded, all transitions replayed) + tlc Trace_Dict.tla (trace validation)",
        "trusted_base": ["TLC", "CommunityModules Json/IOUtils/SequencesExt", "lib/BigNum + NumTower number equality",
                         "harness canonical projection", "try-free observation: a read that throws is recorded as undefined"],
    })
