"""C03 - infix chains group by the operators' runtime precedence and associativity.

(a) MC_Chain (tools/c03mc.py): TLC explores the shunting machine over every choice of operators
    (precedence in {1,2,3,NaN} x associativity x chain class), proves machine = recursive climbing
    = declarative rule, the evaluation log and the merge rule, and prints every finished run; each
    one is instantiated with real operators whose precedence is assigned at runtime and executed as
    a direct chain, as underscore sections, and after a runtime reassignment of precedences.
(b) Trace_Chain: a seeded driver evaluates chains of 5-9 operators over the default global table
    (optionally after `swap f::precedence, g::precedence` / `f::precedence = x`), reads every
    operator's precedence back at runtime, and the specification re-computes the value through
    Climb + exact arithmetic and rejects any event it cannot explain.
"""
import json
import math
import os
import random
import shutil
import struct
from concurrent.futures import ThreadPoolExecutor

import nv

NUM_OPS = {"^": 2, "<<": 1, ">>": 1, "*": 4, "//": 2, "%%": 2, "&": 1, "+": 4, "-": 4, "~": 1, "|": 1,
           "==": 2, "!=": 1, "<": 3, "<=": 2, ">": 2, ">=": 1, "<=>": 1, ">=<": 1,
           "min": 2, "max": 2, "gcd": 1, "lcm": 1, "xor": 1, "subtract": 1, "to": 1, "til": 1, "by": 1}
LIST_OPS = {"++": 4, ".+": 4, "+.": 3, "**": 3, "zip": 3, "==": 2, "!=": 1, "prepend": 1, "append": 1}
EXPLOSIVE = ("^", "<<", ">>")
PREC_VALUES = [0, 0.5, 1, 2, 3, 3.5, 4, 4.5, 5, 6, 7, 8, 8.5, None]     # None = NaN


def wchoice(rng, table, exclude=()):
    names = [n for n in table if n not in exclude]
    return rng.choices(names, weights=[table[n] for n in names])[0]


def lit(v):
    if isinstance(v, list):
        return "[" + ", ".join(lit(x) for x in v) + "]"
    return "(%d)" % v if v < 0 else str(v)


def gen_chain(rng):
    """-> (names, leaves, mutation statements)"""
    n = rng.randint(5, 9)
    mutated = rng.random() < 0.35
    if rng.random() < 0.7:
        names = []
        for _ in range(n):
            ex = []
            pows = sum(1 for x in names if x == "^")
            shifts = sum(1 for x in names if x in ("<<", ">>"))
            if mutated:
                # reassigned precedences can make any sub-chain an exponent: at most one such operator
                if pows + shifts >= 1:
                    ex = list(EXPLOSIVE)
            else:
                # default table: exponent / shift count is a leaf or a chain of these operators only
                if pows >= 2 or (pows >= 1 and shifts >= 1):
                    ex.append("^")
                if pows >= 2 or shifts >= 2:
                    ex += ["<<", ">>"]
            names.append(wchoice(rng, NUM_OPS, ex))
        small = mutated and any(x in EXPLOSIVE for x in names)
        if small:
            names = names[:6]
        leaves = []
        for i in range(len(names) + 1):
            after = names[i - 1] if i >= 1 else None
            if small:
                leaves.append(rng.randint(-2, 3))
            elif after in EXPLOSIVE:
                leaves.append(rng.randint(0, 3))
            elif after == "by":
                leaves.append(rng.choice([1, 2, 3, -1, -2]))
            else:
                leaves.append(rng.randint(-4, 9))
    else:
        names = [wchoice(rng, LIST_OPS) for _ in range(n)]
        leaves = [[rng.randint(0, 5) for _ in range(rng.choice([1, 1, 2, 2, 0]))] for _ in range(n + 1)]
    muts = []
    if mutated:
        ops = sorted(set(names))
        for _ in range(rng.randint(1, 2)):
            if len(ops) >= 2 and rng.random() < 0.5:
                a, b = rng.sample(ops, 2)
                muts.append("swap %s::precedence, %s::precedence" % (a, b))
            else:
                p = rng.choice(PREC_VALUES)
                muts.append("%s::precedence = %s" % (rng.choice(ops), "(0/0)" if p is None else repr(p)))
    return names, leaves, muts


def mid_mutation(rng, names, leaves):
    """A side effect INSIDE the chain: operand k (k >= 1) assigns a precedence to, or rebinds, an operator
    that occurs again at or after position k.  Operands and operator expressions are evaluated left to right,
    each exactly once, so the occurrences before operand k carry the old value and those after it the new one.
    -> (k, statement text, per-position override {i: (name, prec or None)}) or None"""
    n = len(names)
    if n < 3 or any(x in EXPLOSIVE for x in names) or isinstance(leaves[0], list):
        return None
    k = rng.randint(1, n - 1)
    if rng.random() < 0.6:
        names[k] = names[k - 1]          # the same identifier on both sides of the mutating operand
    nm = names[k]
    over = {}
    # (`-` is never REBOUND: negative literals such as (-2) are calls of whatever `-` names)
    if nm == "-" or rng.random() < 0.7:
        p = rng.choice([x for x in PREC_VALUES if x is not None])
        stmt = "%s::precedence = %s" % (nm, repr(p))
        for i in range(k, n):
            if names[i] == nm:
                over[i] = (nm, {"nan": False, "v": int(p * 2)})
    else:
        other = rng.choice([x for x in ("+", "-", "*", "max", "min") if x != nm])
        stmt = "%s = %s" % (nm, other)
        for i in range(k, n):
            if names[i] == nm:
                over[i] = (other, None)       # precedence: whatever `other` carries (read back before the chain)
    return k, stmt, over


def to_val(c):
    """canonical value -> Trace_Chain value"""
    t = c.get("t")
    if t == "int":
        return {"t": "int", "i": nv.tla_int(c["v"])}
    if t == "list":
        return {"t": "list", "v": [to_val(x) for x in c["v"]]}
    if t == "stream" and not c.get("more") and not c.get("err"):
        return {"t": "stream", "v": [to_val(x) for x in c["v"]]}
    return {"t": "other"}


def py_val(v):
    return {"t": "list", "v": [py_val(x) for x in v]} if isinstance(v, list) else {"t": "int", "i": nv.tla_int(v)}


def prec_of(c):
    """canonical float -> [nan, v] with v = 2 * precedence, or None when not representable"""
    if not c or c.get("t") != "float":
        return None
    f = struct.unpack("<d", struct.pack("<Q", int(c["bits"])))[0]
    if math.isnan(f):
        return {"nan": True, "v": 0}
    if math.isinf(f) or f * 2 != int(f * 2) or abs(f) > 10 ** 6:
        return None
    return {"nan": False, "v": int(f * 2)}


def validate(module, events, workdir, chunk=300, timeout=1500):
    """like nv.validate_trace, and also returns the ids the specification left open (UNSPEC lines)"""
    for i, e in enumerate(events):
        e["id"] = i
    chunks = [events[i:i + chunk] for i in range(0, len(events), chunk)]

    def one(ci):
        path = os.path.join(workdir, "%s-%d.ndjson" % (module, ci))
        with open(path, "w") as f:
            for e in chunks[ci]:
                f.write(json.dumps(e) + "\n")
        r = nv.run_tlc(module, module + ".cfg", workdir, workers=1, timeout=timeout, env={"TRACE": path}, xmx="3g")
        end = r["tagged"].get("TRACE-END", [])
        return (bool(end) and int(end[0]) == len(chunks[ci]) and r["ok"]), ci, r

    mism, unspec = [], set()
    with ThreadPoolExecutor(max_workers=max(1, nv.JOBS)) as ex:
        for ok, ci, r in ex.map(one, range(len(chunks))):
            if not ok:
                print("\n".join(r["lines"][-40:]))
                nv.tool_fail("trace validation of chunk %d of %s did not complete: %s" % (ci, module, r["error"][:2000]))
            for m in r["tagged"].get("MISMATCH", []):
                j = json.loads(m)
                mism.append((j["id"], j.get("exp")))
            for u in r["tagged"].get("UNSPEC", []):
                unspec.add(int(u))
    return mism, unspec


def drive(rep, tier, seed, wd):
    rng = random.Random(seed)
    n_chains = 1600 if tier == "quick" else 40000
    cases, meta = [], {}
    for cid in range(n_chains):
        names, leaves, muts = gen_chain(rng)
        mid = mid_mutation(rng, names, leaves) if rng.random() < 0.15 else None
        lits = [lit(v) for v in leaves]
        readback = list(names)
        if mid:
            k, stmt, over = mid
            lits[k] = "(%s; %s)" % (stmt, lits[k])
            readback += sorted({nm for nm, pr in over.values() if pr is None})
        src = " ".join(([lits[0]] + [x for i, nm in enumerate(names) for x in (nm, lits[i + 1])]))
        steps = [{"src": m} for m in muts]
        steps.append({"src": "[" + ", ".join("%s::precedence" % nm for nm in readback) + "]"})
        steps.append({"src": src})
        cases.append({"id": cid, "steps": steps})
        meta[cid] = (names, leaves, muts, src, mid, readback)
    res = nv.run_cases(cases, timeout_ms=20000)
    events, info = [], []
    for c in cases:
        names, leaves, muts, src, mid, readback = meta[c["id"]]
        sts = res[c["id"]]
        replay = {"steps": [s["src"] for s in c["steps"]], "observed": sts}
        if len(sts) != len(c["steps"]) or any(s.get("o") != "ok" for s in sts[:-1]):
            rep.mismatch("trace:setup:%s" % (sts[-1].get("o") if sts else "none"),
                         "reading / reassigning precedences failed: %s" % json.dumps(sts)[:300], replay)
            continue
        precs = [prec_of(x) for x in sts[-2]["v"]["v"]]
        if any(p is None for p in precs):
            rep.mismatch("trace:precedence-readback", "f::precedence did not give back an assigned value", replay)
            continue
        last = sts[-1]
        names_eff = list(names)
        if mid:
            # what each operator POSITION carries when the chain reaches it
            byname = dict(zip(readback, precs))
            precs = precs[:len(names)]
            for i, (nm2, pr) in mid[2].items():
                names_eff[i] = nm2
                precs[i] = pr if pr is not None else byname[nm2]
            muts = muts + ["(inside operand %d) %s" % (mid[0], mid[1])]
        ev = {"ev": "chain", "names": names_eff, "precs": precs, "leaves": [py_val(v) for v in leaves],
              "out": last.get("o"), "r": to_val(last["v"]) if last.get("o") == "ok" else {"t": "none"},
              "doc": not muts}
        events.append(ev)
        info.append(dict(src=src, muts=muts, names=names, observed=last, replay=replay, mid=bool(mid)))
    mism, unspec = validate("Trace_Chain", events, wd, chunk=(len(events) + 7) // 8 if tier == "quick" else 500)
    for idx, exp in mism:
        i = info[idx]
        o = i["observed"].get("o")
        what = exp.get("what", "value")
        kind = "wrong-value" if o == "ok" else ("panic:" + nv.norm_panic(i["observed"].get("e", "")) if o == "panic" else str(o))
        if what == "default-precedence":
            key = "trace:default-precedence:" + "+".join(sorted(set(x for x in exp["exp"].get("wrong", []) if x)))
        else:
            key = "trace:%s:%s:%s:%s" % (what, "mid-chain" if i["mid"] else ("reassigned" if i["muts"] else "default"),
                                         "+".join(sorted(set(i["names"]))), kind)
        rep.mismatch(key, "%s%s: observed %s, specification groups it as %s and expects %s" % (
            "; ".join(i["muts"]) + "; " if i["muts"] else "", i["src"],
            json.dumps(i["observed"].get("v", i["observed"].get("e")))[:200],
            json.dumps(exp.get("tree"))[:400], json.dumps(exp.get("exp"))[:200]),
            dict(i["replay"], expected=exp))
    decided = [i for j, i in enumerate(info) if j not in unspec]
    nontrivial = set(i["src"] + "|" + ";".join(i["muts"]) for i in decided)
    for i in decided[:2]:
        rep.sample({"trace_chain": i["replay"]["steps"], "observed": i["observed"].get("v", i["observed"].get("o"))})
    return dict(events=len(events), decided=len(decided), unspec=len(unspec), nontrivial=len(nontrivial),
                reassigned=sum(1 for i in decided if i["muts"]),
                throws=sum(1 for i in decided if i["observed"].get("o") == "throw"))


def run(tier):
    seed = nv.seed()
    rep = nv.Report("C03", tier, seed, "model_checking")
    wd = nv.work_dir("C03")
    nv.build_harness()
    import c03mc
    mc = c03mc.run(rep, tier, wd)
    tr = drive(rep, tier, seed, wd)
    shutil.rmtree(wd, ignore_errors=True)
    if os.environ.get("C03_MUTANT"):
        rep.assumptions.append("NEGATIVE CONTROL: specification mutant %s active" % os.environ["C03_MUTANT"])
    return rep.finish({
        "states": mc["distinct"], "transitions": mc["generated"],
        "traces_validated_against_impl": mc["evaluations"] + tr["decided"],
        "evaluations": mc["evaluations"] + tr["events"],
        "distinct_nontrivial": mc["nontrivial"] + tr["nontrivial"],
        "rule": "MC: one case per (operator configuration, way) where way is direct chain / underscore section per hole "
                "pattern / old section after a precedence reassignment / bare chain after the reassignment; non-trivial = "
                "distinct configuration with >= 2 operators whose chain evaluates to a value (not a throw), so that the "
                "grouping is visible in the result.  Trace: one event per random 5-9 operator chain over the default table; "
                "non-trivial = distinct chain for which the specification computes a definite outcome (not unspec)",
        "mc_chains_enumerated": mc["chains"], "mc_chains_replayed": mc["replayed"], "mc_invariants": mc["invariants"],
        "trace_events": tr["events"], "trace_events_decided": tr["decided"], "trace_events_unspec": tr["unspec"],
        "trace_events_after_reassignment": tr["reassigned"], "trace_events_throw": tr["throws"],
        "checker_cmd": "tlc MC_Chain.tla (bounded, every instantiable finished run replayed) + tlc Trace_Chain.tla (trace validation)",
        "trusted_base": ["TLC", "CommunityModules Json/IOUtils", "harness canonical projection",
                         "source rendering in tools/c03mc.py (fully parenthesised single applications)"],
    })
