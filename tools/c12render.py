"""C12: rendering of specification values / types / patterns (JSON as printed by TLC or generated
for the trace) to noulith source, and conversion of the harness's canonical values to the
specification's value encoding (spec/Types.tla).  No semantics here: only syntax and encodings."""
import struct
from fractions import Fraction

PRED_SRC = {"small": "satisfying(\\sv -> sv < 3)", "nonempty": "satisfying(\\sv -> len(sv) > 0)"}
PRELUDE = ["struct Foo (fa, fb)", "struct Bar (ba)"]


# ------------------------------------------------------------------ values
def val_src(v, big=False):
    """big: integers (also inside lists / vectors / struct instances) are written so that the SAME value is
    held in big representation - what arithmetic on large numbers leaves behind (2^70 - 2^70 + n)"""
    t = v["t"]
    if t == "null":
        return "null"
    if t == "int":
        plain = str(v["i"]) if v["i"] >= 0 else "(-%d)" % -v["i"]
        return "(2^70 - 2^70 + %s)" % plain if big else plain
    if t == "rat":
        return "(%s/%d)" % (str(v["n"]) if v["n"] >= 0 else "(-%d)" % -v["n"], v["d"])
    if t == "float":
        f = v["n"] / v["d"]
        return repr(float(f)) if f >= 0 else "(-%r)" % -float(f)
    if t == "complex":
        return "(%r+2i)" % float(v["n"] / v["d"])
    if t == "str":
        return "\"" + "".join(v["v"]) + "\""
    if t == "list":
        return "[" + ", ".join(val_src(x, big) for x in v["v"]) + "]"
    if t == "vec":
        return "V(" + ", ".join(val_src(x) for x in v["v"]) + ")"
    if t == "bytes":
        return "B[" + ",".join(str(x) for x in v["v"]) + "]"
    if t == "stream":
        xs = [x["i"] for x in v["v"]]
        assert xs and xs == list(range(xs[0], xs[0] + len(xs)))
        return "(%d to %d)" % (xs[0], xs[-1])
    if t == "dict":
        return "{" + ", ".join("%s: %s" % (val_src(k), val_src(w)) for k, w in zip(v["ks"], v["vs"])) + "}"
    if t == "inst":
        return "%s(%s)" % (v["name"], ", ".join(val_src(x, big) for x in v["v"]))
    if t in ("func", "type"):
        return v["name"]
    raise ValueError(t)


def val_kind(v):
    t = v["t"]
    if t in ("list", "vec", "bytes", "stream", "str"):
        return "%s%d" % (t, len(v["v"]))
    if t == "inst":
        return v["name"]
    if t == "int":
        return "int" if v["i"] >= 0 else "negint"
    return t


def type_src(T):
    if T["k"] == "sat":
        return PRED_SRC[T["name"]]
    return T["name"]


def type_key(T):
    return ("sat-" + T["name"]) if T["k"] == "sat" else T["name"]


def float_to_frac(bits):
    f = struct.unpack(">d", struct.pack(">Q", int(bits)))[0]
    if f != f or f in (float("inf"), float("-inf")):
        return None
    return Fraction(f)


def canon_to_spec(c):
    """harness canonical JSON -> the value encoding of spec/Types.tla (None if outside the universe)"""
    t = c.get("t")
    if t == "null":
        return {"t": "null"}
    if t == "int":
        n = int(c["v"])
        return {"t": "int", "i": n} if abs(n) < 2 ** 31 else None
    if t == "rat":
        return {"t": "rat", "n": int(c["n"]), "d": int(c["d"])}
    if t == "float":
        fr = float_to_frac(c["bits"])
        return None if fr is None else {"t": "float", "n": fr.numerator, "d": fr.denominator}
    if t == "complex":
        fr = float_to_frac(c["re"])
        return None if fr is None else {"t": "complex", "n": fr.numerator, "d": fr.denominator}
    if t == "str":
        return {"t": "str", "v": list(c["v"])}
    if t in ("list", "vec", "stream"):
        xs = [canon_to_spec(x) for x in c["v"]]
        return None if any(x is None for x in xs) else {"t": t, "v": xs}
    if t == "bytes":
        return {"t": "bytes", "v": list(c["v"])}
    if t == "dict":
        ks = [canon_to_spec(k) for k, _ in c["v"]]
        vs = [canon_to_spec(w) for _, w in c["v"]]
        if any(x is None for x in ks + vs) or "def" in c:
            return None
        return {"t": "dict", "ks": ks, "vs": vs}
    if t == "inst":
        xs = [canon_to_spec(x) for x in c["v"]]
        return None if any(x is None for x in xs) else {"t": "inst", "name": c["name"], "v": xs}
    if t == "func":
        d = c.get("disp", "")
        if c.get("kind") == "type":
            return {"t": "type", "name": d.strip("<>").split(" ")[0]}
        if d.startswith("<Builtin("):
            return {"t": "func", "name": d[len("<Builtin("):].split(")")[0]}
        return {"t": "func", "name": "?"}
    return None


# ------------------------------------------------------------------ patterns
def has_kind(p, kinds):
    if p["k"] in kinds:
        return True
    for f in ("p", "a", "b"):
        if f in p and isinstance(p[f], dict) and has_kind(p[f], kinds):
            return True
    return any(has_kind(x, kinds) for x in p.get("items", []))


def pat_src(p, top=False):
    """source of a pattern; top=True: not nested in another pattern (a bare comma sequence is fine)"""
    k = p["k"]
    if k == "var":
        return p["n"]
    if k == "wild":
        return "_"
    if k == "lit":
        v = p["v"]
        if v["t"] == "null" or v["t"] == "str" or (v["t"] == "int" and v["i"] >= 0):
            return val_src(v)
        return "(literally %s)" % val_src(v)
    if k == "seq":
        items = [pat_src(x) for x in p["items"]]
        if p["delim"]:
            return "[" + ", ".join(items) + "]"
        body = items[0] + "," if len(items) == 1 else ", ".join(items)
        return body if top else "(" + body + ")"
    if k == "splat":
        return "..." + pat_src(p["p"])
    if k == "dflt":
        # `p = dv` as a lambda parameter (top), `(p = dv)` as an item of any other sequence pattern
        s = "%s = %s" % (pat_src(p["p"]), val_src(p["dv"]))
        return s if top else "(" + s + ")"
    if k == "or":
        return "(%s or %s)" % (pat_src(p["a"]), pat_src(p["b"]))
    if k == "and":
        return "(%s and %s)" % (pat_src(p["a"]), pat_src(p["b"]))
    if k == "ann":
        inner = pat_src(p["p"])
        s = "%s: %s" % (inner, type_src(p["ty"]))
        return s if top else "(" + s + ")"
    if k == "struct":
        return "%s(%s)" % (p["name"], ", ".join(pat_src(x) for x in p["items"]))
    if k == "op":
        its = [pat_src(x) for x in p["items"]]
        if p["o"] == "-":
            return "(-%s)" % its[0]
        return "(%s %s %s)" % (its[0], p["o"], its[1])
    if k == "cmp":
        its = [pat_src(x) for x in p["items"]]
        s = its[0]
        for o, x in zip(p["ops"], its[1:]):
            s += " %s %s" % (o, x)
        return "(" + s + ")"
    raise ValueError(k)


def skeleton(p):
    """shape of a pattern without names and constants (finding keys)"""
    k = p["k"]
    if k in ("var", "wild"):
        return k
    if k == "lit":
        return "lit-" + p["v"]["t"]
    if k == "seq":
        return ("list" if p["delim"] else "seq") + "(" + ",".join(skeleton(x) for x in p["items"]) + ")"
    if k in ("splat", "dflt"):
        return k + "(" + skeleton(p["p"]) + ")"
    if k in ("or", "and"):
        return k + "(" + skeleton(p["a"]) + "," + skeleton(p["b"]) + ")"
    if k == "ann":
        return "ann(" + skeleton(p["p"]) + ":" + type_key(p["ty"]) + ")"
    if k == "struct":
        return p["name"] + "(" + ",".join(skeleton(x) for x in p["items"]) + ")"
    if k == "op":
        return "op" + p["o"] + "(" + ",".join(skeleton(x) for x in p["items"]) + ")"
    if k == "cmp":
        return "cmp" + "".join(p["ops"]) + "(" + ",".join(skeleton(x) for x in p["items"]) + ")"
    return k


def contexts(p, v):
    """[(context name, statement source)] for one (pattern, value) pair; NAMES is replaced by the
    names the specification binds.  Defaulted items `(p = dv)` are accepted by every context; a
    lambda parameter list additionally writes them bare (`p = dv`)."""
    out = []
    vs = val_src(v)
    has_lit = has_kind(p, ("lit",))
    top_items = p["items"] if p["k"] == "seq" and not p["delim"] else None
    if p["k"] == "ann":
        out.append(("decl", "%s = %s" % (pat_src(p, True), vs)))
    else:
        out.append(("decl", "%s := %s" % (pat_src(p, True), vs)))
    # literals match by `==`, whatever the representation of an integer: where the pattern contains a
    # literal, the switch and catch contexts get the value with its integers in big representation
    vsb = val_src(v, big=True) if has_lit else vs
    out.append(("switch", "switch (%s) case %s -> [\"arm\", NAMES] case _ -> \"nomatch\"" % (vsb, pat_src(p, True))))
    out.append(("catch", "try (throw %s) catch %s -> [\"arm\", NAMES]" % (vsb, pat_src(p, True))))
    if not has_lit:
        out.append(("for", "for (%s <- [%s]) yield [\"arm\", NAMES]" % (pat_src(p, True), vs)))
        if p["k"] != "splat":
            one = pat_src(p, top=(p["k"] == "ann" and p["p"]["k"] in ("var", "wild")))
            out.append(("lambda", "(\\%s -> [\"arm\", NAMES])(%s)" % (one, vs)))
        if top_items is not None and v["t"] == "list":
            params = ", ".join(pat_src(x, top=(x["k"] in ("ann", "dflt"))) for x in top_items)
            out.append(("params", "(\\%s -> [\"arm\", NAMES])(%s)" % (params, ", ".join(val_src(x) for x in v["v"]))))
    return out
