"""C04 - operators are ordinary functions: all application forms agree.

(a) MC_Apply (tools/c04mc.py): TLC checks FormsAgree on the dispatch model of spec/Apply.tla
    (primitives, PA1 / PA2 / PALast / Flip wrappers, call and chain sections; every form; arity
    1-3; data or function first argument) and every case is executed in the interpreter.
(b) Trace_Apply: the driver lists EVERY global name bound to a function at runtime (minus an
    explicit exclusion list: terminal / file / process I/O, clock, random, sleep, eval, vars),
    probes argument tuples from a pool of all value kinds, and for the selected tuples evaluates
    every application form the property names in one session; Trace_Apply groups the forms by
    their denotation in the dispatch model and requires equal outcomes (equal canonical value or
    all fail), with the property's preconditions read from the logged outcomes.
"""
import json
import random
import resource
import shutil

import nv

EXCLUDE = {
    # terminal / standard input
    "input", "interact", "interact_lines", "read", "read_bytes", "read_compressed", "flush",
    # files, directories, processes
    "read_file", "read_file?", "read_file_bytes", "read_file_bytes?", "write_file", "append_file", "list_files",
    "run_process",
    # network / crypto-random (only present with optional features)
    "request", "http_get", "http_post",
    # clock, sleeping, randomness
    "time", "now", "sleep", "random", "random_bytes", "random_range", "shuffle", "choose",
    # evaluation of source text, reflection on the session's variables, process exit
    "eval", "import", "vars", "exit",
}

# ("intf": the float equal to the pool's int - ties between tower levels must be broken the same way by every form)
POOL_QUICK = [("int", "3"), ("intf", "3.0"), ("negint", "(-2)"), ("rat", "(1/2)"), ("float", "2.5"), ("complex", "(1+2i)"),
              ("str", '"ab"'), ("list", "[3, 1, 2]"), ("dict", "{1: 2}"), ("vector", "V(1, 2)"),
              ("bytes", "B[1, 2]"), ("stream", "(1 to 3)"), ("null", "null"),
              ("fn1", "\\x -> [x]"), ("fn2", "\\x, y -> [x, y]"), ("builtin", "+")]
POOL_MORE = [("zero", "0"), ("bigint", "(2^70)"), ("negrat", "((-7)/3)"), ("nan", "(0.0/0.0)"), ("emptystr", '""'),
             ("unicode", '"hé世"'), ("emptylist", "[]"), ("nested", '[[1, 2], ["a"]]'), ("strlist", '["b", "a"]'),
             ("dict2", '{"k": [0]}'), ("bytes0", "B[]"), ("stream2", "(5 til 1 by (-2))"), ("fnv", "\\...a -> a")]

FORMS2 = [("call", "{f}(va, vb)"), ("infix", "va {f} vb"), ("bang", "{f} ! va, vb"), ("backtick", "va `{f}` vb"),
          ("sec1", "{f}(_, vb)(va)"), ("sec2", "{f}(va, _)(vb)"), ("chsec1", "(_ {f} vb)(va)"),
          ("chsec2", "(va {f} _)(vb)"), ("apply", "[va, vb] apply {f}"), ("of", "{f} of [va, vb]"),
          ("splat", "{f}(...[va, vb])"), ("juxta", "(va {f})(vb)"), ("rsec", "{f}(vb)(va)"),
          ("opassign", "xx = va; xx {f}= vb; xx"), ("secsp1", "{f}(_, ...[vb])(va)"), ("secsp2", "{f}(...[va], _)(vb)"),
          ("opself", "xx = va; xx {f}= xx; xx")]
FORMS1 = [("call", "{f}(va)"), ("bang", "{f} ! va"), ("splat", "{f}(...[va])"), ("dot", "va . {f}"),
          ("then", "va then {f}"), ("sec", "{f}(_)(va)")]
FORMS3 = [("call", "{f}(va, vb, vc)"), ("bang", "{f} ! va, vb, vc"), ("splat", "{f}(...[va, vb, vc])"),
          ("sec1", "{f}(_, vb, vc)(va)"), ("sec2", "{f}(va, _, vc)(vb)"), ("sec3", "{f}(va, vb, _)(vc)"),
          ("secall", "{f}(_, _, _)(va, vb, vc)"), ("secsp1", "{f}(_, ...[vb, vc])(va)"),
          ("secsp3", "{f}(...[va, vb], _)(vc)"), ("secspmid", "{f}(va, _, ...[vc])(vb)")]
# user-defined functions in the global environment, enumerated together with the builtins
USER_FUNCS = {
    "u_two": "u_two := \\a, b -> [a, b]",
    "u_def": "u_def := \\a, b = 5 -> [a, b]",
    "u_var": "u_var := \\...r -> r",
    "u_mid": "u_mid := \\a, ...r, z -> [a, r, z]",
    "u_comp": "u_comp := (\\x -> [x, x]) >>> len",
    "u_flip": "u_flip := flip(-)",
    "u_memo": "u_memo := memoize(\\a, b -> [a, b])",
    "u_pa2": "u_pa2 := +(1)",
    "u_pa1": "u_pa1 := (1 -)",
    "u_sec": "u_sec := (_ - _)",
    "u_on": "u_on := max on abs",
    "u_fan": "u_fan := + &&& -",
    # parameter forms that assign_all treats specially (annotations wrap the splat / the default; a
    # destructuring parameter; type-checked parameters): every application form binds them alike
    "u_ann": "u_ann := \\a: int, b -> [a, b]",
    "u_annsp": "u_annsp := \\a, ...bs: list -> [a, bs]",
    "u_spann": "u_spann := \\...as: list, b -> [as, b]",
    "u_pat": "u_pat := \\(a, b), c -> [a, b, c]",
    "u_defann": "u_defann := \\a, b: int = 5 -> [a, b]",
    "u_sat": "u_sat := \\a, b: satisfying(\\x -> x != 0) -> [a, b]",
}


def prelude(f):
    return USER_FUNCS[f] + "; " if f in USER_FUNCS else ""


# results whose top-level order is the iteration order of a freshly built hash map (unspecified: never compared)
HASH_ORDERED = {"group_all", "keys", "values", "items"}
# `x <= b` and `x >= b` are the comparison operators, not an operator assignment with `<` / `>`
NO_OPASSIGN = {"<", ">", "=", "!"}


def limited_run(cases, timeout_ms):
    """harness run with an address-space limit for the workers (an argument tuple that asks for an
    astronomically large result must abort its worker, not exhaust the shared machine)"""
    soft, hard = resource.getrlimit(resource.RLIMIT_AS)
    cap = 6 << 30
    try:
        resource.setrlimit(resource.RLIMIT_AS, (cap if hard == resource.RLIM_INFINITY else min(cap, hard), hard))
        return nv.run_cases(cases, timeout_ms=timeout_ms)
    finally:
        resource.setrlimit(resource.RLIMIT_AS, (soft, hard))


def cls(st):
    o = st.get("o")
    if o == "ok":
        return "ok"
    if o in ("throw", "panic"):
        return "fail"
    return "other"          # timeout / abort / skipped / ctl / parse_error: not an outcome the property talks about


def list_functions():
    res = nv.run_cases([{"id": 0, "steps": [{"src": "vars()"}]}])
    st = res[0][0]
    if st.get("o") != "ok" or st["v"].get("t") != "dict":
        nv.tool_fail("cannot list the global environment: %s" % json.dumps(st)[:300])
    names = sorted(k["v"] for k, v in st["v"]["v"] if v.get("t") == "func" and k.get("t") == "str")
    return [n for n in names if n not in EXCLUDE], [n for n in names if n in EXCLUDE]


def pool_setup(pool):
    return "; ".join("p%d := %s" % (i, src) for i, (_, src) in enumerate(pool))


def probe(funcs, pool, tuples_of, timeout_ms):
    """evaluates f(args) for every function and every tuple of pool indices given by tuples_of(f);
    returns {(f, tuple): 'ok' | 'fail' | 'other'}"""
    cases, meta = [], {}
    setup = pool_setup(pool)
    for f in funcs:
        tl = tuples_of(f)
        # one case per first argument so that a crash loses little
        by_first = {}
        for t in tl:
            by_first.setdefault(t[0], []).append(t)
        for first, ts in sorted(by_first.items()):
            cid = len(cases)
            cases.append({"id": cid, "steps": [{"src": prelude(f) + setup}] + [
                {"src": "%s(%s)" % (f, ", ".join("p%d" % i for i in t))} for t in ts]})
            meta[cid] = (f, ts)
    res = limited_run(cases, timeout_ms)
    out = {}
    retry = []
    for cid, (f, ts) in meta.items():
        sts = res[cid][1:]
        dead = False
        for k, t in enumerate(ts):
            if k < len(sts) and sts[k].get("o") not in ("skipped",):
                out[(f, t)] = cls(sts[k])
                if sts[k].get("o") in ("timeout", "abort"):
                    dead = True
            elif dead:
                retry.append((f, t))
            else:
                retry.append((f, t))
    if retry:
        cases2 = [{"id": i, "steps": [{"src": prelude(f) + setup},
                                      {"src": "%s(%s)" % (f, ", ".join("p%d" % j for j in t))}]}
                  for i, (f, t) in enumerate(retry)]
        res2 = limited_run(cases2, timeout_ms)
        for i, (f, t) in enumerate(retry):
            sts = res2[i]
            out[(f, t)] = cls(sts[1]) if len(sts) > 1 else "other"
    return out, len(cases) + len(retry)


def select(outcomes, f, tuples, pool, k_ok, k_fail, rng):
    oks = [t for t in tuples if outcomes.get((f, t)) == "ok"]
    fails = [t for t in tuples if outcomes.get((f, t)) == "fail"]
    rng.shuffle(oks)
    rng.shuffle(fails)
    # prefer argument-kind combinations not seen yet
    chosen, seen = [], set()
    for t in oks:
        kinds = tuple(pool[i][0] for i in t)
        if kinds not in seen and len(chosen) < k_ok:
            seen.add(kinds)
            chosen.append(t)
    return chosen + fails[:k_fail]


def group_case(cid, f, t, pool, forms):
    names = ["va", "vb", "vc"][:len(t)]
    setup = prelude(f) + "; ".join("%s := %s" % (n, pool[i][1]) for n, i in zip(names, t)) + "; xx := null"
    steps = [{"src": setup}]
    roles = []
    if len(t) == 2:
        steps.append({"src": "%s(vb)" % f})
        roles.append("fb")
    for name, tpl in forms:
        if name in ("opassign", "opself") and f in NO_OPASSIGN:
            continue
        if name == "opself" and (len(t) != 2 or t[0] != t[1]):
            continue        # x f= x denotes f(a, a): only comparable with the other forms when both arguments are a
        steps.append({"src": tpl.format(f=f)})
        roles.append(name)
    return {"id": cid, "steps": steps}, roles


def run_groups(groups, pool):
    """groups: [(f, tuple, forms)] -> events + info (None for groups that cannot be judged)"""
    cases, meta = [], {}
    for f, t, forms in groups:
        c, roles = group_case(len(cases), f, t, pool, forms)
        cases.append(c)
        meta[c["id"]] = (f, t, roles)
    res = limited_run(cases, 6000)
    # forms lost behind a panic are re-run alone
    redo = []
    for c in cases:
        sts = res[c["id"]]
        f, t, roles = meta[c["id"]]
        for k, role in enumerate(roles):
            if k + 1 >= len(sts) or sts[k + 1].get("o") == "skipped":
                redo.append((c["id"], k))
    if redo:
        cases2 = []
        for i, (cid, k) in enumerate(redo):
            cases2.append({"id": i, "steps": [cases[cid]["steps"][0], cases[cid]["steps"][k + 1]]})
        res2 = limited_run(cases2, 6000)
        for i, (cid, k) in enumerate(redo):
            sts = res[cid]
            while len(sts) <= k + 1:
                sts.append({"o": "skipped"})
            sts[k + 1] = res2[i][1] if len(res2[i]) > 1 else {"o": "abort"}
    events, info, unjudged = [], [], 0
    for c in cases:
        f, t, roles = meta[c["id"]]
        sts = res[c["id"]]
        by = {role: sts[k + 1] for k, role in enumerate(roles)}
        srcs = {role: c["steps"][k + 1]["src"] for k, role in enumerate(roles)}
        if sts[0].get("o") != "ok" or any(cls(by[r]) == "other" for r in roles if r != "fb"):
            unjudged += 1
            continue
        vids, forms_ev = [], []
        for role in roles:
            if role == "fb":
                continue
            st = by[role]
            vid = -1
            if st.get("o") == "ok":
                v = st["v"]
                if f in HASH_ORDERED and v.get("t") == "list":
                    v = {"t": "list", "v": sorted(v["v"], key=lambda x: json.dumps(x, sort_keys=True))}
                key = json.dumps(v, sort_keys=True)
                if key not in vids:
                    vids.append(key)
                vid = vids.index(key)
            forms_ev.append({"form": role, "out": cls(st), "vid": vid})
        fb = by.get("fb")
        afunc = pool[t[0]][0] in ("fn1", "fn2", "builtin", "fnv")
        events.append({"f": f, "ar": len(t), "afunc": afunc,
                       "fbfunc": bool(fb and fb.get("o") == "ok" and fb["v"].get("t") == "func"),
                       "forms": forms_ev})
        info.append(dict(f=f, t=t, kinds=[pool[i][0] for i in t], setup=c["steps"][0]["src"], srcs=srcs, by=by))
    return events, info, unjudged, sum(len(c["steps"]) for c in cases)


def run(tier):
    seed = nv.seed()
    rng = random.Random(seed)
    rep = nv.Report("C04", tier, seed, "model_checking")
    wd = nv.work_dir("C04")
    nv.build_harness()
    import c04mc
    mc = c04mc.run(rep, tier, wd)

    funcs, excluded = list_functions()
    funcs = funcs + sorted(USER_FUNCS)
    pool = POOL_QUICK if tier == "quick" else POOL_QUICK + POOL_MORE
    n = len(pool)
    k_ok, k_fail = (8, 3) if tier == "quick" else (800, 150)
    pairs = [(i, j) for i in range(n) for j in range(n)]
    out2, ncases2 = probe(funcs, pool, lambda f: pairs, 2500)
    groups = []
    for f in funcs:
        for t in select(out2, f, pairs, pool, k_ok, k_fail, rng):
            groups.append((f, t, FORMS2))
    # one argument: every function on every pool value
    for f in funcs:
        for i in range(n):
            groups.append((f, (i,), FORMS1))
    # three arguments: extend tuples that work with two arguments, plus random triples
    def triples(f):
        base = [t for t in pairs if out2.get((f, t)) == "ok"]
        r = random.Random("%s-%d" % (f, seed))
        r.shuffle(base)
        ts = [(a, b, c) for (a, b) in base[:3 if tier == "quick" else 60] for c in range(n)]
        ts += [(r.randrange(n), r.randrange(n), r.randrange(n)) for _ in range(12 if tier == "quick" else 400)]
        return sorted(set(ts))
    trip = {f: triples(f) for f in funcs}
    out3, ncases3 = probe(funcs, pool, lambda f: trip[f], 2500)
    for f in funcs:
        for t in select(out3, f, trip[f], pool, 4 if tier == "quick" else 200, 1 if tier == "quick" else 20, rng):
            groups.append((f, t, FORMS3))
    events, info, unjudged, nsteps = run_groups(groups, pool)
    mism, nval = nv.validate_trace("Trace_Apply", events, wd, chunk=(len(events) + 7) // 8 if tier == "quick" else 4000)
    for idx, exp in mism:
        i = info[idx]
        ref = i["by"]["call"]
        for form in [x for x in exp["disagree"] if x]:
            st = i["by"][form]
            c_ref, c_st = cls(ref), cls(st)
            how = "ok-vs-other-value" if c_ref == "ok" and c_st == "ok" else "%s-vs-%s" % (c_ref, c_st)
            key = "apply:%s:ar%d:%s:%s" % (i["f"], len(i["t"]), form, how)
            rep.mismatch(key, "%s; %s gives %s but %s gives %s" % (
                i["setup"], i["srcs"]["call"], json.dumps(ref.get("v", ref.get("e")))[:160],
                i["srcs"][form], json.dumps(st.get("v", st.get("e")))[:160]),
                {"steps": [i["setup"], i["srcs"]["call"], i["srcs"][form]], "observed": [ref, st],
                 "f": i["f"], "form": form, "arg_kinds": i["kinds"]})
    ok_groups = set((i["f"], i["t"]) for i in info if i["by"]["call"].get("o") == "ok")
    for i in [x for x in info if x["by"]["call"].get("o") == "ok"][:3]:
        rep.sample({"group": i["setup"], "forms": {k: v for k, v in list(i["srcs"].items())[:6]},
                    "value": i["by"]["call"].get("v")})
    shutil.rmtree(wd, ignore_errors=True)
    import os
    if os.environ.get("C04_MUTANT"):
        rep.assumptions.append("NEGATIVE CONTROL: specification mutant %s active" % os.environ["C04_MUTANT"])
    return rep.finish({
        "states": mc["distinct"], "transitions": mc["generated"],
        "traces_validated_against_impl": mc["replayed"] + nval,
        "evaluations": mc["replayed"] + len(out2) + len(out3) + nsteps,
        "distinct_nontrivial": mc["nontrivial"] + len(ok_groups),
        "rule": "a group = (global function, argument tuple) with every application form of the property evaluated in "
                "one session; tuples are chosen after probing f(args) on the whole pool (all pairs, all single values, "
                "extended / random triples): up to k succeeding tuples of distinct argument-kind combinations and a few "
                "failing ones per function; non-trivial = distinct group whose explicit call f(args) succeeds, so that "
                "values (not only failure) are compared across the forms; MC cases: non-trivial = distinct (function "
                "value kind, arity, form, first-argument kind) judged by the property whose form evaluates to a value",
        "functions": len(funcs), "user_defined_functions": sorted(USER_FUNCS), "functions_excluded": excluded, "pool": [k for k, _ in pool],
        "probes": len(out2) + len(out3) + 0, "groups": len(events), "groups_unjudged_resource": unjudged,
        "groups_call_ok": len(ok_groups),
        "groups_by_arity": {str(k): sum(1 for e in events if e["ar"] == k) for k in (1, 2, 3)},
        "groups_call_ok_by_arity": {str(k): sum(1 for (f, t) in ok_groups if len(t) == k) for k in (1, 2, 3)}, "form_evaluations": nsteps, "mc_cases_replayed": mc["replayed"],
        "checker_cmd": "tlc MC_Apply.tla (FormsAgree on the dispatch model, all cases replayed) + tlc Trace_Apply.tla "
                       "(trace validation of grouped events)",
        "trusted_base": ["TLC", "CommunityModules Json/IOUtils", "harness canonical projection (equality of canonical "
                         "values decides 'equal results')", "source rendering of the forms in tools/c04.py"],
    })
