"""C09 (b): seeded driver.  Histories of ~40 dictionary operations over key pools that contain
numerically equal keys of different levels and representations, also nested in lists, vectors and
dictionaries-as-keys; after EVERY operation the interpreter's dictionary, len/keys/values/items and the
result of every read path for EVERY pool key are recorded.  Trace_Dict.tla re-executes each operation
on its own dictionary and compares.  Python renders source, records and names findings - it does not
know which keys are equal (the groups below only steer generation)."""
import json
import os
import random
from concurrent.futures import ThreadPoolExecutor

import nv
import c09val as cvl
from c09mc import name_key, Limiter

# keys that are meant to be (mostly) equal appear in one group - a generation heuristic only
GROUPS = [
    ["1", "1.0", "(2/2)", "(1+0i)", "((2^70+1)-2^70)"],
    ["(2^64)", "(2.0^64)", "(2^65/2)", "(2^64+0i)"],
    ["0.5", "(1/2)", "(0.5+0i)"],
    ["0", "0.0", "(-0.0)", "(0/1)", "(0+0i)"],
    ["(0.0/0.0)"],
    ["2", "2.0", "(4/2)", "((2^70+2)-2^70)"],
    ["(2^53+1)", "(2.0^53)", "(2^53)"],
    ["(1/3)"],
    ["(-1)", "(-1.0)", "((-2)/2)"],
    ['"a"'], ['""'], ['"1"'], ["null"],
    ['B"a"', "bytes([97])"],
    ["[1]", "[1.0]", "[(2/2)]", "[(1+0i)]"],
    ['[1, "a"]', '[1.0, "a"]', '[(2/2), "a"]'],
    ["[]"],
    ["[[1]]", "[[1.0]]", "[[(2/2)]]"],
    ["[0.5]", "[(1/2)]"],
    ["[(0.0/0.0)]"],
    ["[0.0]", "[(-0.0)]", "[0]"],
    ["V(1, 2)", "V(1.0, 2)", "V(1, (4/2))", "[1, 2]"],
    ["V(0.5)", "V((1/2))"],
    ["{1: 2}", "{1.0: 2}", "{(2/2): 2}", "{1: 2.0}", "{1: (4/2)}", "{:0, 1: 2}"],
    ['{"a": [1]}', '{"a": [1.0]}', '{"a": [(2/2)]}'],
    ["{}"],
    ["{1: 2, 3: 4}", "{3: 4, 1.0: 2}", "{3.0: 4, 1: 2}"],
    ["{(2^64): 1}", "{(2.0^64): 1}"],
    # NaN is equal to itself wherever it sits inside a key: as a value or a key of a dictionary used as
    # a key, nested in a list inside such a value, in a vector
    ["{1: (0.0/0.0)}", "{1.0: (0.0/0.0)}"],
    ['{"a": [(0.0/0.0)]}'],
    ["{(0.0/0.0): 1}", "{(0.0/0.0): 1.0}"],
    ["V((0.0/0.0), 1)", "V((0.0/0.0), 1.0)"],
    # complex numbers with a non-zero imaginary part whose real parts are zeros of opposite sign are equal
    ["(-1i)", "(0 - 1i)", "(1i*1i*1i)"],
    ["(2i)", "(-(0 - 2i))"],
    ["[(-1i)]", "[(0 - 1i)]"],
    ["(1.5+2i)", "((3/2)+2i)"],
    # an integral RATIONAL beyond 2^53 that no float represents exactly, and the equal integer
    ["(2^64+1)", "((2^64+1)/1)", "((2^65+2)/2)"],
    ["[(2^64+1)]", "[((2^64+1)/1)]"],
]
ALL_KEYS = [k for g in GROUPS for k in g]
GROUP_OF = {k: gi for gi, g in enumerate(GROUPS) for k in g}
FOPS = ["+", "*", "max", "-"]
OPSYM = {"union": "||", "inter": "&&", "diff": "--", "unionplus": "||+"}
KEYFN = {"id": "id", "lst": "(\\x -> [x])", "const": "(\\x -> 0)"}
PATHS = ["g", "s", "m", "x", "i"]


def int_canon(n):
    return {"t": "int", "v": str(n), "big": False}


def vsrc(v):
    return "null" if v is None else cvl.int_src(v)


def vtla(v):
    return {"t": "null"} if v is None else cvl.tla_val(int_canon(v))


class History:
    """one generated history: pool (source texts), operations"""
    def __init__(self, rng, n_ops, pool_size):
        multi = [g for g in GROUPS if len(g) > 1]
        gs = rng.sample(multi, 3) + rng.sample(GROUPS, 3)
        keys = []
        for g in gs:
            for k in g:
                if k not in keys:
                    keys.append(k)
        rng.shuffle(keys)
        self.pool = keys[:pool_size]
        self.ops = [self.gen_lit(rng, "dd")]
        for _ in range(n_ops - 1):
            self.ops.append(self.gen_op(rng))

    def key(self, rng):
        return rng.randrange(len(self.pool))

    def val(self, rng):
        return rng.choice([1, 2, 3, 5, 7, 10, 0, -3, 100])

    def pairs(self, rng, lo, hi):
        return [[self.key(rng), self.val(rng)] for _ in range(rng.randint(lo, hi))]

    def gen_lit(self, rng, on):
        return {"ev": "lit", "on": on, "pairs": self.pairs(rng, 0, 4), "df": rng.choice([[], [], [0], [5]])}

    def operand(self, rng):
        return {"pairs": self.pairs(rng, 0, 3), "df": rng.choice([[], [], [], [9]])}

    def gen_op(self, rng):
        r = rng.random()
        k = self.key(rng)
        if r < 0.06:
            return self.gen_lit(rng, "dd")
        if r < 0.20:
            return {"ev": "set", "k": k, "v": self.val(rng)}
        if r < 0.32:
            return {"ev": "opassign", "k": k, "f": rng.choice(FOPS), "v": self.val(rng)}
        if r < 0.36:
            return {"ev": "opassign_dflt", "k": k, "v0": self.val(rng), "f": rng.choice(FOPS), "v": self.val(rng)}
        if r < 0.44:
            return {"ev": "remove", "k": k}
        if r < 0.49:
            return {"ev": "addkey", "k": k}
        if r < 0.55:
            return {"ev": "discard", "k": k, "sym": rng.choice(["-.", "discard"])}
        if r < 0.61:
            return {"ev": "insert", "k": k, "v": self.val(rng), "sym": rng.choice(["insert", "|.."])}
        if r < 0.77:
            return {"ev": rng.choice(["union", "inter", "diff", "unionplus"]), "b": self.operand(rng)}
        if r < 0.80:
            return {"ev": "eq", "b": {"pairs": self.pairs(rng, 0, 2), "df": []}, "flip": rng.random() < 0.5}
        if r < 0.82:
            return {"ev": "eq_roundtrip"}
        if r < 0.85:
            return {"ev": rng.choice(["setd", "dict_items"])}
        if r < 0.93:
            fn = rng.choice(["set", "dict", "unique", "frequencies", "count_distinct", "group_all"])
            xs = [self.key(rng) for _ in range(rng.randint(0, 8))]
            o = {"ev": fn, "on": "xs", "xs": xs}
            if fn == "dict":
                o["vals"] = [self.val(rng) for _ in xs]
            if fn == "group_all":
                o["fn"] = rng.choice(sorted(KEYFN))
            return o
        if rng.random() < 0.7:
            return {"ev": "memo", "fn": "mf", "args": [k]}
        return {"ev": "memo", "fn": "mg", "args": [k, self.key(rng)]}

    # ------------------------------------------------------------ rendering
    def lit_src(self, pairs, df):
        parts = [":" + vsrc(df[0])] if df else []
        parts += ["%s: %s" % (self.pool[k], vsrc(v)) for k, v in pairs]
        return "{" + ", ".join(parts) + "}"

    def src(self, o):
        ev = o["ev"]
        k = self.pool[o["k"]] if "k" in o else None
        if ev == "lit":
            return "dd = " + self.lit_src(o["pairs"], o["df"])
        if ev == "set" and "k" in o:
            return "dd[%s] = %s" % (k, vsrc(o["v"]))
        if ev == "opassign":
            return "dd[%s] %s= %s" % (k, o["f"], vsrc(o["v"]))
        if ev == "opassign_dflt":
            return "(dd[%s] = %s) %s= %s" % (k, vsrc(o["v0"]), o["f"], vsrc(o["v"]))
        if ev == "remove":
            return "remove dd[%s]" % k
        if ev == "addkey":
            return "dd = (dd |. %s)" % k
        if ev == "discard":
            return "dd = (dd %s %s)" % (o["sym"], k)
        if ev == "insert":
            return "dd = (dd %s [%s, %s])" % (o["sym"], k, vsrc(o["v"]))
        if ev in OPSYM:
            return "dd = (dd %s %s)" % (OPSYM[ev], self.lit_src(o["b"]["pairs"], o["b"]["df"]))
        if ev == "eq":
            lit = self.lit_src(o["b"]["pairs"], o["b"]["df"])
            return "%s == dd" % lit if o["flip"] else "dd == %s" % lit
        if ev == "eq_roundtrip":
            return "dd == dict(reverse(items(dd)))"
        if ev == "setd":
            return "set(dd)"
        if ev == "dict_items":
            return "dict(items(dd))"
        if ev == "memo":
            return "%s(%s)" % (o["fn"], ", ".join(self.pool[a] for a in o["args"]))
        xs = "[" + ", ".join(self.pool[x] for x in o["xs"]) + "]"
        if ev == "dict":
            return "dict([" + ", ".join("[%s, %s]" % (self.pool[x], vsrc(v)) for x, v in zip(o["xs"], o["vals"])) + "])"
        if ev == "group_all":
            return "(%s group_all %s)" % (xs, KEYFN[o["fn"]])
        return "%s(%s)" % (ev, xs)

    def changes_dd(self, o):
        return o["ev"] in ("lit", "opassign", "opassign_dflt", "remove", "addkey", "discard", "insert",
                           "union", "inter", "diff", "unionplus") or (o["ev"] == "set" and "k" in o)

    def obs_exprs(self):
        ex = ["dd", "len(dd)", "keys(dd)", "values(dd)", "items(dd)"]
        for s in self.pool:
            ex += ["dd[%s]" % s, "dd !? %s" % s, "%s in dd" % s, "(_[%s])(dd)" % s, "dd !! %s" % s]
        return ex

    def case(self, cid):
        steps = [{"src": "[" + ", ".join(self.pool) + "]"},
                 {"src": "dd := {}"}, {"src": "cnt := 0"},
                 {"src": "mf := memoize(\\x -> (cnt += 1; [x, cnt]))"},
                 {"src": "mg := memoize(\\x, y -> (cnt += 1; [x, y, cnt]))"}]
        obs = self.obs_exprs()
        for o in self.ops:
            st = {"src": self.src(o)}
            if self.changes_dd(o):
                st["obs"] = obs
            elif o["ev"] == "memo":
                st["obs"] = ["cnt"]
            else:
                st["obs"] = []
            steps.append(st)
        return {"id": cid, "steps": steps}


def opt(c):
    return [] if c.get("t") in ("undef", "panic") else [cvl.tla_val(c)]


def obs_json(pool_n, obs):
    def lst(c):
        return [cvl.tla_val(x) for x in c["v"]] if c.get("t") == "list" else [{"t": "other", "str": "not-a-list"}]
    look = []
    for i in range(pool_n):
        g, s, m, x, ix = obs[5 + 5 * i: 10 + 5 * i]
        look.append({"g": opt(g), "s": cvl.tla_val(s) if s.get("t") != "undef" else {"t": "other", "str": "undef"},
                     "m": int(m["v"]) if m.get("t") == "int" and m["v"] in ("0", "1") else -1,
                     "x": opt(x), "i": opt(ix)})
    ln = obs[1]
    return {"d": cvl.tla_val(obs[0]) if obs[0].get("t") != "undef" else {"t": "other", "str": "undef"},
            "len": int(ln["v"]) if ln.get("t") == "int" and abs(int(ln["v"])) < 2 ** 30 else -1,
            "keys": lst(obs[2]), "values": lst(obs[3]), "items": lst(obs[4]), "look": look}


def build_events(h, sts, events, einfo, hid):
    """events of one executed history; stops at the first step that could not run"""
    p0 = sts[0]
    if p0.get("o") != "ok" or p0["v"].get("t") != "list" or len(p0["v"]["v"]) != len(h.pool):
        return "pool:" + cvl.outcome(p0)
    canon = p0["v"]["v"]
    ktla = [cvl.tla_val(c) for c in canon]
    for st in sts[1:5]:
        if st.get("o") != "ok":
            return "setup:" + cvl.outcome(st)
    events.append({"ev": "init", "pool": ktla})
    einfo.append(dict(h=h, hid=hid, idx=-1, canon=canon))
    prev_d = None
    memo_seen = {"mf": [], "mg": []}
    for j, o in enumerate(h.ops):
        st = sts[5 + j]
        out = st.get("o")
        if out == "skipped":
            break
        e = {"ev": o["ev"], "on": o.get("on", "dd"), "out": out if out in ("ok", "throw") else cvl.outcome(st),
             "r": cvl.tla_val(st["v"]) if out == "ok" else {"t": "null"}}
        if "k" in o:
            e["k"] = ktla[o["k"]]
        for f in ("v", "v0"):
            if f in o:
                e[f] = vtla(o[f])
        if "f" in o:
            e["f"] = o["f"]
        if o["ev"] == "lit":
            e["b"] = {"pairs": [[ktla[k], vtla(v)] for k, v in o["pairs"]], "df": [vtla(v) for v in o["df"]]}
        if "b" in o:
            e["b"] = {"pairs": [[ktla[k], vtla(v)] for k, v in o["b"]["pairs"]], "df": [vtla(v) for v in o["b"]["df"]]}
        if "xs" in o:
            if o["ev"] == "dict":
                e["xs"] = [{"t": "list", "xs": [ktla[x], vtla(v)]} for x, v in zip(o["xs"], o["vals"])]
            else:
                e["xs"] = [ktla[x] for x in o["xs"]]
            e["fn"] = o.get("fn", "")
        if o["ev"] == "memo":
            e["fn"] = o["fn"]
            e["args"] = [ktla[a] for a in o["args"]]
            c = (st.get("obs") or [{}])[0]
            e["calls"] = int(c["v"]) if c.get("t") == "int" else -1
        cur_d = prev_d
        if h.changes_dd(o):
            ob = st.get("obs")
            if ob is None or len(ob) != 5 + 5 * len(h.pool) or any(x.get("t") == "panic" for x in ob):
                # the operation (or an observation) crashed the interpreter: report the operation, stop here
                e["obs"] = {"d": {"t": "other", "str": "unobservable"}, "len": -1, "keys": [], "values": [], "items": [],
                            "look": [{"g": [], "s": {"t": "other", "str": "undef"}, "m": -1, "x": [], "i": []} for _ in h.pool]}
                events.append(e)
                einfo.append(dict(h=h, hid=hid, idx=j, canon=canon, st=st, pre=prev_d, post=None))
                break
            e["obs"] = obs_json(len(h.pool), ob)
            cur_d = ob[0]
        events.append(e)
        einfo.append(dict(h=h, hid=hid, idx=j, canon=canon, st=st, pre=prev_d, post=cur_d,
                          memo_seen=list(memo_seen[o["fn"]]) if o["ev"] == "memo" else []))
        if o["ev"] == "memo":
            memo_seen[o["fn"]].append(o["args"])
        prev_d = cur_d
        if out in ("timeout", "abort") or str(out).startswith("panic"):
            break
    return None


def validate(events, wd, per_chunk, cfg, timeout=2400):
    """like nv.validate_trace, but chunks never split a history and the cfg can be replaced (mutants)"""
    for i, e in enumerate(events):
        e["id"] = i
    chunks, cur = [], []
    for e in events:
        if e["ev"] == "init" and len(cur) >= per_chunk:
            chunks.append(cur)
            cur = []
        cur.append(e)
    if cur:
        chunks.append(cur)

    def one(ci):
        path = os.path.join(wd, "Trace_Dict-%d.ndjson" % ci)
        with open(path, "w") as f:
            for e in chunks[ci]:
                f.write(json.dumps(e) + "\n")
        r = nv.run_tlc("Trace_Dict", cfg, wd, workers=1, timeout=timeout, env={"TRACE": path}, xmx="3g")
        end = r["tagged"].get("TRACE-END", [])
        return (bool(end) and int(end[0]) == len(chunks[ci]) and r["ok"]), ci, r

    mism = []
    with ThreadPoolExecutor(max_workers=max(1, nv.JOBS)) as ex:
        for ok, ci, r in ex.map(one, range(len(chunks))):
            if not ok:
                print("\n".join(r["lines"][-40:]))
                nv.tool_fail("trace validation of chunk %d of Trace_Dict did not complete: %s" % (ci, r["error"][:2000]))
            for m in r["tagged"].get("MISMATCH", []):
                j = json.loads(m)
                mism.append((j["id"], j.get("exp")))
    return mism, len(events)


def op_keys(o):
    """pool indices of the keys an operation names"""
    return ([o["k"]] if "k" in o else []) + [k for k, _ in o.get("pairs", [])] + \
        [k for k, _ in o.get("b", {}).get("pairs", [])] + list(o.get("xs", [])) + list(o.get("args", []))


def stored_kinds(info, cls_idx):
    """kinds of the keys stored before / after the operation that are one of the pool keys cls_idx"""
    want = set(cvl.cj(info["canon"][i - 1]) for i in cls_idx)
    ks = []
    for d in (info.get("pre"), info.get("post")):
        if d and d.get("t") == "dict":
            ks += [cvl.kind(k) for k, _ in d["v"] if cvl.cj(k) in want]
    return ks


def finding_key(info, fail):
    """names a failing component (see c09mc.name_key): group, kinds of the keys that met in one class"""
    h, o = info["h"], (info["h"].ops[info["idx"]] if info["idx"] >= 0 else {"ev": "init"})
    c, ki, cls = fail["c"], fail["ki"], fail.get("cls", [])
    canon = info["canon"]
    used_in_cls = [cvl.kind(canon[k]) for k in op_keys(o) if (k + 1) in cls]
    st = info.get("st") or {}
    if c.startswith("lookup."):
        return name_key("lookup", c[7:], [cvl.kind(canon[ki - 1])] if ki else [], stored_kinds(info, cls) + used_in_cls)
    if c in ("outcome", "result") or c.startswith("state."):
        own = used_in_cls or ([cvl.kind(canon[ki - 1])] if ki else [])
        detail = "%s:%s" % (o["ev"], c if c != "outcome" else "outcome:" + str(cvl.outcome(st)))
        return name_key("update", detail, own, stored_kinds(info, cls))
    if c == "memoize":
        pos = [j for j, a in enumerate(o["args"]) if (a + 1) in cls]
        earlier = [cvl.kind(canon[args[j]]) for args in info.get("memo_seen", []) for j in pos
                   if j < len(args) and (args[j] + 1) in cls]
        return name_key("memoize", "wrong-value" if st.get("o") == "ok" else str(cvl.outcome(st)),
                        [cvl.kind(canon[ki - 1])] if ki else [], earlier)
    if c.startswith("fn."):
        # a list function: name the finding after two elements that the generator meant to be equal
        kinds = {}
        for x in o.get("xs", []):
            kinds.setdefault(GROUP_OF[h.pool[x]], set()).add(cvl.kind(canon[x]))
        mixed = sorted(set(k for v in kinds.values() if len(v) > 1 for k in v))
        name = c[3:] + (":" + o["fn"] if o.get("fn") else "")
        detail = "wrong-value" if st.get("o") == "ok" else str(cvl.outcome(st))
        if mixed:
            return name_key(name, detail, mixed[:1], mixed[1:])
        return name_key(name, detail, sorted(set(cvl.kind(canon[x]) for x in o.get("xs", [])))[:3], [])
    return "%s:%s" % (o["ev"], c)


def event_keys(info, fails):
    """finding keys of one mismatching event: outcome / result / memoize list one record per key of the
    operation (the culprit is the one that meets another kind in its class), the rest one per key"""
    out, alt = [], {}
    for f in fails:
        k = finding_key(info, f)
        if f["c"] in ("outcome", "result", "memoize"):
            alt.setdefault(f["c"], []).append((k, f))
        else:
            out.append((k, f))
    for c, cands in alt.items():
        cross = [x for x in cands if x[0].startswith("cross:")]
        out.insert(0, (cross or cands)[0])
    seen, res = set(), []
    for k, f in out:
        if k not in seen:
            seen.add(k)
            res.append((k, f))
    return res


def drive(rep, tier, seed, wd, mutant=None):
    rng = random.Random(seed)
    n_hist = 60 if tier == "quick" else 700
    n_ops = 40
    hs = [History(rng, n_ops, rng.choice([10, 12, 14])) for _ in range(n_hist)]
    cases = [h.case(i) for i, h in enumerate(hs)]
    res = nv.run_cases(cases, timeout_ms=120000)
    events, einfo = [], []
    for i, h in enumerate(hs):
        err = build_events(h, res[i], events, einfo, i)
        if err:
            rep.mismatch("driver:" + err, "key pool / set-up of a history could not be evaluated",
                         {"steps": [s["src"] for s in cases[i]["steps"][:5]], "observed": res[i][:5]})
    cfg = "Trace_Dict.cfg"
    if mutant:
        txt = open(os.path.join(nv.SPEC, cfg)).read().replace('Mutation = "none"', 'Mutation = "%s"' % mutant)
        cfg = os.path.join(wd, "Trace_Dict_mutant.cfg")
        open(cfg, "w").write(txt)
    mism, n = validate(events, wd, 160 if tier == "quick" else 400, cfg)
    lim = Limiter(rep)
    for idx, exp in sorted(mism):
        info = einfo[idx]
        h = info["h"]
        j = info["idx"]
        steps = [s["src"] for s in cases[info["hid"]]["steps"][:6 + max(j, 0)]]
        for key, fail in event_keys(info, (exp or {}).get("fails", [])):
            what = "%s (component %s%s)" % (steps[-1], fail["c"], ", key " + h.pool[fail["ki"] - 1] if fail["ki"] else "")
            lim.mismatch(key, "history %d, operation %d: %s; observed %s" % (
                info["hid"], j, what, json.dumps(info.get("st", {}).get("v", info.get("st", {}).get("e")))[:200]),
                {"steps": steps, "failing": (exp or {}).get("fails", [])[:20], "observed": info.get("st")})
    # measured coverage
    nontrivial = set()
    per_op = {}
    for info in einfo:
        j = info["idx"]
        if j < 0:
            continue
        h, o = info["h"], info["h"].ops[info["idx"]]
        per_op[o["ev"]] = per_op.get(o["ev"], 0) + 1
        used = op_keys(o)
        stored = set()
        for d in (info.get("pre"),):
            if d and d.get("t") == "dict":
                stored |= set(cvl.cj(k) for k, _ in d["v"])
        for k in used:
            g = GROUP_OF[h.pool[k]]
            mates = [i for i, s in enumerate(h.pool) if GROUP_OF[s] == g and i != k and cvl.kind(info["canon"][i]) != cvl.kind(info["canon"][k])]
            if any(cvl.cj(info["canon"][m]) in stored for m in mates) or sum(1 for u in used if u in mates) > 0:
                nontrivial.add(json.dumps([o["ev"], h.pool[k], sorted(h.pool[m] for m in mates if cvl.cj(info["canon"][m]) in stored or m in used)]))
                break
    for h in hs[:2]:
        rep.sample({"pool": h.pool, "history": [h.src(o) for o in h.ops[:12]] + ["..."]})
    return dict(events=n, histories=n_hist, nontrivial=len(nontrivial), per_op=per_op,
                mismatching_events=len(mism), reports_beyond_cap=lim.dropped, reports_per_key=dict(lim.n),
                keys_in_full_pool=len(ALL_KEYS))
