"""C17 - freeze preserves meaning and binds free variables eagerly.

Oracle: spec/Lang.tla's Frz: every identifier that the evaluator's scoping rules do not bind inside
the frozen expression is resolved once, at freeze time, and replaced by its value; freezing raises
when a free identifier is unbound or when the expression writes to a variable it does not declare.
(a) MC_Lang over a vocabulary of freeze statements (free variables and functions, reassignment of
    outer variables and functions after the freeze, unbound names, assignment to outer variables,
    local shadowing, loops / try / while / nested lambdas inside frozen code, defaults): every history
    of <= 3 (quick) / 4 (thorough) statements is explored and replayed.
(b) Trace validation, three-way per generated closed lambda L and argument tuple: L(args),
    (freeze L)(args), and (freeze L)(args) again after every outer variable and function has been
    reassigned - plus L(args) after the reassignment; the specification predicts each one.
"""
import json
import random
import shutil

import c05gen
import langgen as g
import langmc
import langtrace
import nv

I, L = g.ident, g.lit
TRACK = ["yy", "hh", "ff", "gg", "kk", "ss", "rr", "rn", "rd"]


def T(x, *ix):
    return g.target(x, list(ix))


def P(*a):
    return g.call(I("print"), list(a))


def vocabulary():
    V = []

    def add(name, ast, w):
        V.append(dict(name=name, ast=ast, w=w))
    lam1 = lambda body: g.lam([g.param("aa")], body)
    # prelude
    add("decl-y", g.decl("yy", L(1)), ["yy"])
    add("decl-h", g.decl("hh", lam1(g.binop("+", I("aa"), I("yy")))), ["hh"])
    # explored
    add("freeze-var", g.decl("ff", g.freeze(lam1(g.binop("+", I("aa"), I("yy"))))), ["ff"])
    add("freeze-fn", g.decl("gg", g.freeze(lam1(g.call(I("hh"), [g.binop("+", I("aa"), L(1))])))), ["gg"])
    add("reassign-var", g.asg(T("yy"), g.binop("+", I("yy"), L(10))), ["yy"])
    add("reassign-fn", g.asg(T("hh"), lam1(L(1000))), ["hh"])
    add("call-ff", P(g.call(I("ff"), [L(1)])), [])
    add("call-gg", P(g.call(I("gg"), [L(1)])), [])
    add("call-hh", P(g.call(I("hh"), [L(1)])), [])
    add("unbound", g.freeze(lam1(I("zz"))), [])
    add("assign-outer", g.freeze(lam1(g.asg(T("yy"), L(3)))), [])
    add("opassign-outer", g.freeze(lam1(g.opasg(T("yy"), "+", L(3)))), [])
    add("local-shadow", g.decl("kk", g.freeze(lam1(g.seq([g.decl("yy", I("aa")), g.asg(T("yy"), g.binop("+", I("yy"), L(1))), I("yy")])))), ["kk"])
    add("call-kk", P(g.call(I("kk"), [L(5)]), I("yy")), [])
    add("shadow-self", g.decl("ss", g.freeze(lam1(g.seq([g.decl("yy", g.binop("+", I("yy"), I("aa"))), I("yy")])))), ["ss"])
    add("call-ss", P(g.call(I("ss"), [L(1)])), [])
    add("frozen-loop", P(g.call(g.freeze(g.lam([], g.for_yield([g.cl_it(g.lv_id("ii"), g.lst([L(1), L(2)])), g.cl_guard(g.binop("<", I("ii"), I("yy")))],
                                                                g.binop("+", I("ii"), I("yy"))))), [])), [])
    add("frozen-nested-lambda", g.decl("rn", g.freeze(lam1(g.lam([g.param("bb")], g.binop("+", g.binop("+", I("aa"), I("bb")), I("yy")))))), ["rn"])
    add("call-nested", P(g.call(g.call(I("rn"), [L(1)]), [L(2)])), [])
    # a freeze NESTED in frozen code: names bound by the enclosing frozen code (a parameter that shadows an
    # outer variable, a local declaration) stay bound inside it - they are not looked up outside
    add("frozen-nested-freeze", g.decl("rz", g.freeze(g.lam([g.param("yy")], g.seq([g.decl("kk", g.binop("+", I("yy"), I("yy"))),
        g.freeze(g.lam([g.param("zz")], g.binop("+", g.binop("+", I("yy"), I("kk")), I("zz"))))])))), ["rz"])
    add("call-nested-freeze", P(g.call(g.call(I("rz"), [L(5)]), [L(2)])), [])
    add("frozen-default", g.decl("rd", g.freeze(g.lam([g.param("aa"), g.param("bb", I("yy"))], g.binop("+", I("aa"), I("bb"))))), ["rd"])
    add("call-default", P(g.call(I("rd"), [L(1)])), [])
    add("frozen-try-while", P(g.call(g.freeze(g.lam([], g.seq([g.decl("cc", L(2)),
                                                                g.while_(g.binop(">", I("cc"), L(0)), g.seq([g.asg(T("cc"), g.binop("-", I("cc"), L(1))), P(I("cc"), I("yy"))])),
                                                                g.try_(g.throw(I("yy")), "ee", g.binop("+", I("ee"), L(1)))]))), [])), [])
    # a local declared in a try body is visible in the catch handler (no scope is opened), also when an
    # outer variable of the same name exists
    trybody = lambda nm: g.try_(g.seq([g.decl(nm, g.binop("+", I("aa"), I("aa"))), g.if_(g.binop(">", I(nm), L(5)), g.throw(I(nm))), I(nm)]),
                                "ee", g.binop("+", I(nm), I("ee")))
    add("frozen-try-local-shadow", g.decl("rr", g.freeze(lam1(trybody("yy")))), ["rr"])
    add("frozen-try-local", g.decl("rr", g.freeze(lam1(trybody("tl")))), ["rr"])
    add("call-try-local-1", P(g.call(I("rr"), [L(1)])), [])
    add("call-try-local-4", P(g.call(I("rr"), [L(4)])), [])
    add("freeze-expr", P(g.freeze(g.binop("+", I("yy"), L(1)))), [])
    add("freeze-builtin-shadow", g.decl("rr", g.freeze(lam1(g.seq([g.decl("len", L(7)), g.binop("+", I("len"), I("aa"))])))), ["rr"])
    # a negative literal is the CALL of whatever `-` names: frozen code that rebinds `-` locally keeps using its own
    add("frozen-minus-shadow", g.decl("rm", g.freeze(lam1(g.seq([
        g.decl("-", g.lam([g.param("xx")], g.binop("+", I("xx"), L(100)))),
        g.lst([g.call(I("-"), [L(5)]), g.call(I("-"), [I("yy")]), g.call(I("-"), [I("aa")])])])))), ["rm"])
    add("frozen-minus", g.decl("rm", g.freeze(lam1(g.lst([g.call(I("-"), [L(5)]), g.call(I("-"), [I("yy")]), g.call(I("-"), [I("aa")])])))), ["rm"])
    add("call-rm", P(g.call(I("rm"), [L(1)])), [])
    # operator chains: an operator's precedence travels with the value its name resolves to, so a frozen
    # chain keeps the grouping of the moment it was frozen
    ch = lambda: g.chain(I("aa"), "+", I("yy"), "*", L(3))
    add("frozen-chain", g.decl("rc", g.freeze(lam1(ch()))), ["rc"])
    add("plain-chain", g.decl("rd", lam1(ch())), ["rd"])
    add("lower-times", g.setprec("*", L(1)), [])
    add("restore-times", g.setprec("*", L(5)), [])
    add("call-rc", P(g.call(I("rc"), [L(1)]), g.chain(L(1), "+", L(2), "*", L(3))), [])
    add("call-rd", P(g.call(I("rd"), [L(1)])), [])
    # a name declared inside a loop body / switch arm is local to it: after the loop the same name is the OUTER
    # variable again, a free variable to be resolved when the code is frozen
    add("frozen-while-shadow", g.decl("rq", g.freeze(lam1(g.seq([
        g.decl("cc", L(0)),
        g.while_(g.binop("<", I("cc"), I("aa")), g.seq([g.decl("yy", g.binop("*", I("cc"), L(100))), g.asg(T("cc"), g.binop("+", I("cc"), L(1)))])),
        I("yy")])))), ["rq"])
    add("frozen-for-shadow", g.decl("rq", g.freeze(lam1(g.seq([
        g.for_do([g.cl_it(g.lv_id("ii"), g.lst([L(1), I("aa")]))], g.decl("yy", I("ii"))),
        g.switch(I("aa"), [(g.LV_IGNORE, g.decl("yy", L(7)))]),
        I("yy")])))), ["rq"])
    add("call-rq", P(g.call(I("rq"), [L(2)])), [])
    # a later clause of a for header sees the variables of the earlier clauses (bound, not free), also when an
    # outer variable of the same name exists
    add("frozen-for-clauses", g.decl("r2", g.freeze(lam1(g.for_yield(
        [g.cl_it(g.lv_id("yy"), g.lst([L(1), I("aa")])), g.cl_it(g.lv_id("jj"), g.lst([I("yy"), L(5)])), g.cl_decl(g.lv_id("kk2"), g.binop("+", I("yy"), I("jj")))],
        I("kk2"))))), ["r2"])
    add("call-r2", P(g.call(I("r2"), [L(3)])), [])
    # switch inside frozen code: each arm is a scope of its own; `literally e` is code in a pattern
    add("frozen-switch", g.decl("rw", g.freeze(lam1(g.switch(g.lst([I("aa"), I("yy")]), [
        (g.lv_tuple([g.lv_lit(0), g.lv_id("ww")]), g.binop("+", I("ww"), I("yy"))),
        (g.lv_tuple([g.lv_lity(I("yy")), g.LV_IGNORE]), L(100)),
        (g.lv_tuple([g.lv_id("mm"), g.LV_IGNORE]), g.binop("+", I("mm"), I("yy")))])))), ["rw"])
    add("call-rw-0", P(g.call(I("rw"), [L(0)])), [])
    add("call-rw-1", P(g.call(I("rw"), [L(1)])), [])
    add("call-rw-7", P(g.call(I("rw"), [L(7)])), [])
    # `literally yy` runs before the pattern binds its own yy: it is a free occurrence of the outer yy
    add("frozen-switch-self", g.decl("rl", g.freeze(lam1(g.switch(g.lst([I("aa"), L(1)]), [
        (g.lv_tuple([g.lv_id("yy"), g.lv_lity(I("yy"))]), g.binop("+", I("yy"), L(100))),
        (g.LV_IGNORE, L(0))])))), ["rl"])
    add("call-rl", P(g.call(I("rl"), [L(1)])), [])
    return V, 2


class FGen(c05gen.Gen):
    """lambda bodies over outer names that frozen code may read but not write"""

    def __init__(self, rng, outer, max_nodes=45):
        super().__init__(rng, max_nodes)
        self.use_eval = False          # the argument of eval is data to freeze: not part of the property
        self.fwd_refs = False          # a forward reference is free when the closure is frozen: no static freezer can know
        self.branch_scoped = True      # names declared in an if-branch / try body are not used outside it
        self.outer = set(outer)
        for n, k in outer.items():
            self.scopes[0][n] = k

    def stmt(self):
        # inside a nested scope (loop body, switch arm, ...) an outer name may be shadowed by a local declaration;
        # once that scope is left the name is the outer variable again (the initialiser does not mention the
        # name itself: that is the known shadow-self finding)
        if len(self.scopes) > 2 and self.rng.random() < 0.08:
            o = self.rng.choice(["o1", "o2"])
            if o not in self.scopes[-1]:
                for _ in range(6):
                    e = self.int_expr(1)
                    if '"%s"' % o not in json.dumps(e):
                        self.scopes[-1][o] = "int"
                        return [g.decl(o, e)]
        # no assignment to / redeclaration of outer names except deliberately (freeze must then fail)
        for _ in range(8):
            before = self.budget
            out = super().stmt()
            src = json.dumps(out)
            bad = False
            for o in self.outer:
                if '"x": "%s", "ix"' % o in src or '"k": "id", "x": "%s"' % o in src:
                    bad = True
            if not bad:
                return out
            self.budget = before
        return [g.call(I("print"), [L(0)])]


def three_way(rng):
    outer = {"o1": "int", "o2": "int", "ol": "list", "of1": "fn1"}
    setup = [g.decl("o1", L(rng.randint(0, 9))), g.decl("o2", L(rng.randint(0, 9))),
             g.decl("ol", g.lst([L(rng.randint(0, 9)) for _ in range(rng.randint(1, 3))])),
             g.decl("of1", g.lam([g.param("q1")], g.binop("+", I("q1"), I("o1"))))]
    gen = FGen(rng, outer)
    gen.push()
    gen.in_lambda = 1
    arity = rng.choice([0, 1, 2])
    ps = []
    for k in range(arity):
        p = gen.fresh("p")
        ps.append(g.param(p, g.binop("+", I("o2"), L(1)) if (k == arity - 1 and rng.random() < 0.3) else None))
        gen.declare(p, "int")
    body = gen.block(3)
    tail = gen.int_expr(1)
    body = g.seq([body, tail])
    deliberate = rng.random() < 0.08
    if deliberate:
        body = g.seq([rng.choice([g.asg(T("o1"), L(3)), g.opasg(T("o2"), "+", L(1)), I("nosuch"), g.pop(T("ol"))]), body])
    lam = g.lam(ps, body)
    nargs = arity if rng.random() < 0.85 else max(0, arity - 1)
    args = [L(rng.randint(0, 9)) for _ in range(nargs)]
    stmts = setup + [
        g.decl("ll", lam),
        g.decl("r1", g.call(I("ll"), args)),
        g.decl("fz", g.freeze(lam)),
        g.decl("r2", g.call(I("fz"), args)),
        g.asg(T("o1"), g.binop("+", I("o1"), L(10))),
        g.asg(T("o2"), L(77)),
        g.asg(T("ol"), g.lst([L(5), L(5), L(5), L(5), L(5)])),
        g.asg(T("of1"), g.lam([g.param("q1")], L(999))),
        g.decl("r3", g.call(I("fz"), args)),
        g.decl("r4", g.call(I("ll"), args)),
    ]
    return dict(stmts=stmts, track=["o1", "o2", "ol", "r1", "r2", "r3", "r4", "fz"], tag="deliberate" if deliberate else "3way")


def run(tier):
    seed = nv.seed()
    rep = nv.Report("C17", tier, seed, "translation_validation")
    wd = nv.work_dir("C17")
    nv.build_harness()
    vocab, prelude = vocabulary()
    mc = langmc.run(rep, "C17", tier, wd, vocab, TRACK, tag="c17", prelude=prelude)
    rng = random.Random(seed + 17)
    nprog = 400 if tier == "quick" else 6000
    progs = [three_way(rng) for _ in range(nprog)]
    events, info = langtrace.run_histories(progs)
    mism, n = nv.validate_trace("Trace_Lang", events, wd, chunk=500, timeout=900 if tier == "quick" else 3000)
    first = {}
    for idx, exp in sorted(mism):
        first.setdefault(info[idx]["hist"], (idx, exp))
    NAMES = {4: "define-L", 5: "call-L", 6: "freeze-L", 7: "call-frozen", 12: "call-frozen-after-reassign", 13: "call-L-after-reassign"}
    for idx, exp in sorted(first.values()):
        i = info[idx]
        o = i["observed"].get("o")
        what = "wrong-result" if o == exp["out"] else "%s-instead-of-%s" % (o, exp["out"])
        if o == "panic":
            what = "panic:" + nv.norm_panic(i["observed"].get("e", ""))
        key = "3way:%s:%s" % (NAMES.get(i["step"], "step%d" % i["step"]), what)
        rep.mismatch(key, "%s: observed %s %s, specification expects %s" % (
            i["src"][:300], o, json.dumps([g.from_canon(c) for c in i["observed"].get("obs", [])])[:200], json.dumps(exp)[:400]),
            {"steps": i["prefix"] + [i["src"]], "expected": exp, "observed": i["observed"]})
    disagreements = sum(1 for p, ev in zip(progs, [0] * len(progs)) if p["tag"] == "deliberate")
    for p in progs[:2]:
        rep.sample({"three_way": [g.pp(s) for s in p["stmts"]]})
    shutil.rmtree(wd, ignore_errors=True)
    return rep.finish({
        "programs": nprog + mc["transitions"], "disagreements_checked": len(mism),
        "states": mc["distinct"], "transitions": mc["transitions"],
        "traces_validated_against_impl": mc["transitions"] + n, "evaluations": mc["transitions"] + n,
        "distinct_nontrivial": mc["nontrivial"] + len({json.dumps(p["stmts"][4]) for p in progs}),
        "rule": "MC: one case per (history, next statement) over the %d-statement freeze vocabulary; trace: %d generated "
                "lambdas, each run unfrozen, frozen, frozen after reassigning every outer name, and unfrozen again "
                "(distinct lambdas counted); %d of them deliberately write to an outer variable or mention an unbound "
                "name (freeze must fail)" % (len(vocab), nprog, disagreements),
        "trace_events": n, "mc_invariants": ["Frame", "Sane"],
        "checker_cmd": "tlc MC_Lang.tla (freeze vocabulary, every transition replayed) + tlc Trace_Lang.tla (three-way runs)",
        "trusted_base": ["TLC", "CommunityModules Json/IOUtils", "source printer tools/langgen.py", "harness canonical projection"],
    })
