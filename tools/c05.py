"""C05 - control flow, scoping and closures follow the documented semantics.

Oracle: spec/Lang.tla (static lexical scoping with a fresh scope per call, per loop iteration and
clause, per while iteration, per catch clause; := / = rules; non-local exits as control results that
loops and calls absorb or decrement; yield / into; short circuits).
(a) MC_Lang over a vocabulary of scoping / closure / loop statements: every history of <= 3 (quick)
    / 4 (thorough) statements from a small prelude is explored by TLC and every transition replayed
    in the real interpreter (value, printed output, outcome class, all tracked globals).
(b) Trace validation: seeded random programs (nested loops with guards / mid-loop declarations /
    index iteration, yield / yield k: v / into, multi-level break / continue with values, return,
    try / catch / throw, short-circuit operators with logging leaves, lambdas with defaults and
    splats, closures escaping their scope or created per iteration, shadowing and redeclaration)
    are executed statement by statement and re-executed by the specification.
"""
import json
import random
import shutil

import c05gen
import langgen as g
import langmc
import langtrace
import nv

I, L = g.ident, g.lit
TRACK = ["xx", "yy", "ff", "gg", "hh", "fs", "rr"]


def T(x, *ix):
    return g.target(x, list(ix))


def P(*args):
    return g.call(I("print"), list(args))


def vocabulary():
    V = []

    def add(name, ast, w):
        V.append(dict(name=name, ast=ast, w=w))
    # prelude
    add("decl-x", g.decl("xx", L(1)), ["xx"])
    add("decl-reader", g.decl("ff", g.lam([], I("xx"))), ["ff"])
    add("decl-counter", g.decl("gg", g.lam([], g.seq([g.asg(T("xx"), g.binop("+", I("xx"), L(1))), I("xx")]))), ["gg"])
    # explored
    add("redeclare", g.decl("xx", L(5)), ["xx"])
    add("assign", g.asg(T("xx"), L(7)), ["xx"])
    add("assign-undeclared", g.asg(T("zz"), L(1)), [])
    add("call-reader", g.asg(T("rr"), g.call(I("ff"), [])), ["rr"])
    add("decl-r", g.decl("rr", g.call(I("ff"), [])), ["rr"])
    add("call-counter", P(g.call(I("gg"), [])), ["xx"])
    add("shadow-in-call", P(g.call(g.lam([], g.seq([g.decl("xx", L(50)), g.asg(T("xx"), g.binop("+", I("xx"), L(1))), I("xx")])), [])), [])
    add("param-shadows", P(g.call(g.lam([g.param("xx")], g.seq([g.asg(T("xx"), L(9)), g.call(I("ff"), [])])), [L(3)])), [])
    add("static-scope", g.decl("hh", g.lam([g.param("yy", L(10))], g.binop("+", g.call(I("ff"), []), I("yy")))), ["hh"])
    add("call-hh", P(g.call(I("hh"), [])), [])
    add("call-hh-arg", P(g.call(I("hh"), [L(2)])), [])
    add("call-hh-too-many", P(g.call(I("hh"), [L(2), L(3)])), [])
    add("closures-per-iteration", g.decl("fs", g.for_yield([g.cl_it(g.lv_id("ii"), g.binop("til", L(0), L(3)))], g.lam([], g.binop("+", I("ii"), I("xx"))))), ["fs"])
    add("call-closure-1", P(g.call(g.idx(I("fs"), L(1)), [])), [])
    add("loop-assign-outer", g.for_do([g.cl_it(g.lv_id("ii"), g.lst([L(1), L(2), L(3)]))], g.asg(T("xx"), g.binop("+", I("xx"), I("ii")))), ["xx"])
    add("loop-decl-inner", g.for_do([g.cl_it(g.lv_id("ii"), g.lst([L(1), L(2)]))], g.seq([g.decl("yy", I("ii")), P(I("yy"))])), [])
    add("loop-var-leak", P(I("ii")), [])
    add("two-clause-break", P(g.for_do([g.cl_it(g.lv_id("aa"), g.lst([L(1), L(2), L(3)])), g.cl_it(g.lv_id("bb"), g.lst([L(1), L(2)]))],
                                         g.seq([P(I("aa"), I("bb")), g.if_(g.binop("==", I("bb"), L(2)), g.brk(0, I("aa")))]))), [])
    add("nested-break2", P(g.for_do([g.cl_it(g.lv_id("aa"), g.lst([L(1), L(2)]))],
                                      g.seq([g.for_do([g.cl_it(g.lv_id("bb"), g.lst([L(1), L(2)]))],
                                                      g.seq([P(I("aa"), I("bb")), g.if_(g.binop("==", I("bb"), I("aa")), g.brk(1, I("bb")))])),
                                             P(L("after"))]))), [])
    add("continue-outer", g.for_do([g.cl_it(g.lv_id("aa"), g.lst([L(1), L(2)]))],
                                   g.seq([g.for_do([g.cl_it(g.lv_id("bb"), g.lst([L(1), L(2)]))],
                                                   g.seq([g.if_(g.binop("==", I("bb"), L(1)), g.cont(1)), P(I("aa"), I("bb"))])),
                                          P(L("tail"))])), [])
    add("break-through-call", P(g.for_do([g.cl_it(g.lv_id("aa"), g.lst([L(1), L(2), L(3)]))],
                                           g.seq([P(I("aa")), g.call(g.lam([], g.if_(g.binop("==", I("aa"), L(2)), g.brk(0, L(42)))), [])]))), [])
    add("return-in-loop", P(g.call(g.lam([], g.seq([g.for_do([g.cl_it(g.lv_id("aa"), g.lst([L(1), L(2), L(3)]))],
                                                              g.if_(g.binop("==", I("aa"), L(2)), g.ret(g.binop("+", I("aa"), I("xx"))))), L(0)])), [])), [])
    add("yield-guard-decl", P(g.for_yield([g.cl_it(g.lv_id("aa"), g.binop("til", L(0), L(5))), g.cl_guard(g.binop("!=", I("aa"), L(2))),
                                           g.cl_decl(g.lv_id("bb"), g.binop("+", I("aa"), I("xx")))], I("bb"))), [])
    add("yield-into-first", P(g.for_yield([g.cl_it(g.lv_id("aa"), g.lst([L(4), L(5), L(6)]))], g.seq([P(I("aa")), I("aa")]), "first")), [])
    add("yield-break-partial", P(g.for_yield([g.cl_it(g.lv_id("aa"), g.lst([L(4), L(5), L(6)]))],
                                              g.seq([g.if_(g.binop("==", I("aa"), L(6)), g.brk(0)), I("aa")]))), [])
    add("yield-break-outer", g.seq([g.for_do([g.cl_it(g.lv_id("aa"), g.lst([L(1), L(2)]))],
                                             g.seq([g.asg(T("rr"), g.for_yield([g.cl_it(g.lv_id("bb"), g.lst([L(4), L(5), L(6)]))],
                                                                               g.seq([g.if_(g.binop("==", I("bb"), L(5)), g.brk(1)), I("bb")]))),
                                                    P(I("rr"))])),
                                    P(L("after"))]), ["rr"])
    add("yield-kv", g.asg(T("rr"), g.for_yieldkv([g.cl_item(g.lv_tuple([g.lv_id("kk"), g.lv_id("vv")]), g.lst([L(7), L(8), L(7)]))], I("vv"), I("kk"))), ["rr"])
    add("while-scope", g.seq([g.decl("yy", L(2)), g.while_(g.binop(">", I("yy"), L(0)),
                                                           g.seq([g.asg(T("yy"), g.binop("-", I("yy"), L(1))), g.decl("tt", I("yy")), P(I("tt"))]))]), ["yy"])
    add("try-catch-scope", P(g.try_(g.seq([g.asg(T("xx"), L(20)), g.throw(L(3))]), "ee", g.binop("+", I("ee"), I("xx")))), ["xx"])
    add("try-passes-break", P(g.for_do([g.cl_it(g.lv_id("aa"), g.lst([L(1), L(2)]))], g.try_(g.brk(0, L(5)), "ee", L(9)))), [])
    add("catch-var-leak", P(I("ee")), [])
    # catch PATTERNS: a handler whose pattern does not match is skipped and the original value travels on
    add("catch-lit-rethrow", P(g.tryp(g.tryp(g.throw(L(5)), g.lv_lit(6), L("six")), g.lv_lit(5), L("five"))), [])
    add("catch-lit-outer-value", P(g.try_(g.tryp(g.throw(I("xx")), g.lv_lit(6), L("six")), "ee", g.binop("+", I("ee"), L(100)))), [])
    add("catch-tuple-rethrow", P(g.tryp(g.tryp(g.throw(g.lst([L(1), I("xx")])), g.lv_tuple([g.lv_id("aa"), g.lv_id("bb"), g.lv_id("cc")]), I("aa")),
                                        g.lv_tuple([g.lv_id("aa"), g.lv_id("bb")]), g.binop("+", I("aa"), I("bb")))), [])
    add("catch-pattern-escapes", P(g.tryp(g.throw(I("xx")), g.lv_tuple([g.lv_lit(1), g.lv_id("bb")]), I("bb"))), [])
    add("catch-pattern-in-loop", P(g.for_yield([g.cl_it(g.lv_id("aa"), g.lst([L(1), L(2), L(3)]))],
                                               g.try_(g.tryp(g.throw(I("aa")), g.lv_lit(2), L("two")), "ee", I("ee")))), [])
    add("throw-escapes", g.seq([g.asg(T("xx"), L(30)), g.throw(L(1)), g.asg(T("xx"), L(31))]), ["xx"])
    add("short-circuit", P(g.or_(g.and_(g.seq([P(L("a")), L(0)]), g.seq([P(L("b")), L(1)])), g.coal(g.seq([P(L("c")), L(None)]), g.seq([P(L("d")), L(0)])))), [])
    add("if-no-scope", g.if_(g.binop("==", I("xx"), L(1)), g.decl("yy", L(77)), g.decl("yy", L(78))), ["yy"])
    add("seq-value", P(g.seq([L(1), L(2)]), g.seq([L(1), L(2)], semi=True)), [])
    add("top-level-break", g.brk(0, L(3)), [])
    add("switch-bind-scope", g.seq([g.switch(g.lst([L(1), I("xx")]), [(g.lv_tuple([g.lv_lit(1), g.lv_lit(2)]), P(L("a"))),
                                                                    (g.lv_tuple([g.lv_lit(1), g.lv_id("ww")]), g.asg(T("xx"), g.binop("+", I("ww"), L(10))))]),
                                    P(I("ww"))]), ["xx"])
    add("switch-literally-nocase", P(g.switch(L(2), [(g.lv_lity(I("xx")), L("same")), (g.lv_lit(1), L("one"))])), [])
    add("switch-break", P(g.for_do([g.cl_it(g.lv_id("aa"), g.lst([L(1), L(2), L(3)]))],
                                   g.switch(I("aa"), [(g.lv_lit(2), g.brk(0, L("two"))), (g.LV_IGNORE, P(I("aa")))]))), [])
    add("fwd-ref-in-call", P(g.call(g.lam([], g.seq([g.decl("get", g.lam([], I("xx"))), g.decl("xx", L(2)), g.call(I("get"), [])])), []), I("xx")), [])
    add("recursive-local", P(g.call(g.lam([], g.seq([
        g.decl("fact", g.lam([g.param("nn")], g.if_(g.binop("==", I("nn"), L(0)), L(1), g.binop("*", I("nn"), g.call(I("fact"), [g.binop("-", I("nn"), L(1))]))))),
        g.call(I("fact"), [L(4)])])), [])), [])
    add("fwd-ref-in-while", g.call(g.lam([], g.seq([g.decl("cc", L(2)), g.while_(g.binop(">", I("cc"), L(0)), g.seq([
        g.decl("get", g.lam([], I("ww"))), g.decl("ww", g.binop("*", I("cc"), I("cc"))), P(g.call(I("get"), [])),
        g.asg(T("cc"), g.binop("-", I("cc"), L(1)))]))])), []), [])
    add("eval-declares-here", g.seq([g.evl(g.decl("ev", g.binop("+", I("xx"), L(1)))), P(I("ev"))]), [])
    add("eval-in-call-scope", P(g.call(g.lam([g.param("xx")], g.evl(g.binop("+", I("xx"), L(1)))), [L(40)])), [])
    add("eval-break", P(g.for_do([g.cl_it(g.lv_id("aa"), g.lst([L(1), L(2), L(3)]))], g.evl(g.if_(g.binop("==", I("aa"), L(2)), g.brk(0, I("aa")))))), [])
    return V, 3


def run(tier):
    seed = nv.seed()
    rep = nv.Report("C05", tier, seed, "model_checking")
    wd = nv.work_dir("C05")
    nv.build_harness()
    vocab, prelude = vocabulary()
    mc = langmc.run(rep, "C05", tier, wd, vocab, TRACK, tag="c05", prelude=prelude)
    rng = random.Random(seed + 5)
    nprog = 700 if tier == "quick" else 12000
    progs = [c05gen.program(rng, n_stmts=rng.randint(4, 9)) for _ in range(nprog)]
    events, info = langtrace.run_histories(progs)
    mism, n = nv.validate_trace("Trace_Lang", events, wd, chunk=500, timeout=900 if tier == "quick" else 3000)
    first = {}
    for idx, exp in sorted(mism):
        first.setdefault(info[idx]["hist"], (idx, exp))
    for idx, exp in sorted(first.values()):
        i = info[idx]
        o = i["observed"].get("o")
        what = "wrong-result" if o == exp["out"] else "%s-instead-of-%s" % (o, exp["out"])
        if o == "panic":
            what = "panic:" + nv.norm_panic(i["observed"].get("e", ""))
        ast = progs[i["hist"]]["stmts"][i["step"]]
        key = "prog:%s:%s" % (ast["n"] if ast["n"] != "for" else "for-" + ast["body"]["k"], what)
        rep.mismatch(key, "%s (statement %d): observed %s value %s printed %r, specification expects %s" % (
            i["src"][:300], i["step"], o, json.dumps(i["observed"].get("v"))[:150], i["observed"].get("out", "")[:80],
            json.dumps(exp)[:400]),
            {"steps": i["prefix"] + [i["src"]], "expected": exp, "observed": i["observed"]})
    kinds = {}
    for p in progs:
        for s in p["stmts"]:
            kinds[s["n"]] = kinds.get(s["n"], 0) + 1
    nontrivial = len({json.dumps(p["stmts"]) for p in progs if any(s["n"] in ("for", "while", "try") or
                      (s["n"] == "decl" and s["e"]["n"] == "lam") for s in p["stmts"])})
    for p in progs[:3]:
        rep.sample({"program": [g.pp(s) for s in p["stmts"]]})
    shutil.rmtree(wd, ignore_errors=True)
    return rep.finish({
        "states": mc["distinct"], "transitions": mc["transitions"],
        "traces_validated_against_impl": mc["transitions"] + n, "evaluations": mc["transitions"] + n,
        "distinct_nontrivial": mc["nontrivial"] + nontrivial,
        "rule": "MC: one case per (history, next statement) over the %d-statement scoping/closure/loop vocabulary, "
                "non-trivial = an earlier statement exists; trace: %d random programs, non-trivial = distinct programs "
                "containing a loop, a try or a closure definition" % (len(vocab), nprog),
        "trace_events": n, "trace_mismatching_events": len(mism), "statement_kinds": kinds,
        "mc_invariants": ["Frame", "Sane"],
        "checker_cmd": "tlc MC_Lang.tla (all histories over the vocabulary, every transition replayed) + tlc Trace_Lang.tla",
        "trusted_base": ["TLC", "CommunityModules Json/IOUtils", "source printer tools/langgen.py",
                         "harness canonical projection"],
    })
