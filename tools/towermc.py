"""MC_Tower driver shared by C07 (Mode = arith) and C08 (Mode = order): writes the pool file,
runs TLC, replays every printed case in the real interpreter and compares with the value the
specification computed."""
import json
import os

import nv
import towergen


def num_of_step(st):
    if st.get("o") == "ok" and st["v"].get("t") in ("int", "rat", "float", "complex"):
        return st["v"]
    return None


def same_as_spec(exp, st):
    """exp: {"out":..., "r": TLA number record or {"k":"none"}}; st: harness step"""
    if exp["out"] == "unspec":
        return True
    if exp["out"] == "throw":
        return st.get("o") == "throw"
    v = num_of_step(st)
    if v is None:
        return False
    got = nv.tla_num(v)
    r = exp["r"]
    if r["k"] != got["k"]:
        return False
    if r["k"] == "int":
        return nv.from_tla_int(r["i"]) == nv.from_tla_int(got["i"])
    if r["k"] == "rat":
        # the specification's rationals are in lowest terms; so must the implementation's be
        return (nv.from_tla_int(r["n"]), r["d"]) == (nv.from_tla_int(got["n"]), got["d"])
    if r["k"] == "float":
        if r["f"]["c"] == "nan":
            return got["f"]["c"] == "nan"
        return r["f"] == got["f"]
    if r["k"] == "complex":
        return r["re"] == got["re"] and r["im"] == got["im"]
    return False


def run(rep, pid, mode, tier, wd, pool, cfg=None):
    path = os.path.join(wd, "pool-%s.ndjson" % mode)
    with open(path, "w") as f:
        for c in pool:
            f.write(json.dumps({"v": nv.tla_num(c)}) + "\n")
    cfg = cfg or "MC_Tower_%s_%s.cfg" % (mode, tier)
    r = nv.run_tlc("MC_Tower", cfg, wd, workers=nv.JOBS, timeout=3000, env={"POOL": path})
    if not r["ok"]:
        if "is violated" in r["error"]:
            rep.mismatch("spec:MC_Tower:invariant", "TLC found a law violated by the specification itself",
                         {"tlc": r["error"]})
        else:
            print(r["error"])
            nv.tool_fail("TLC failed on MC_Tower")
    trans = [json.loads(x) for x in r["tagged"].get("REPLAY", [])]
    srcs = [towergen.src_of(c) for c in pool]
    # one case per transition; operands are bound to variables first so that their production
    # can be checked against the intended value
    cases = []
    for n, t in enumerate(trans):
        idx = [t["i"], t["j"]] + ([t["k"]] if t["kind"] == "chain" else [])
        names = ["aa", "bb", "cc"][:len(idx)]
        steps = [{"src": "%s := %s" % (nm, srcs[i - 1]), "obs": [nm]} for nm, i in zip(names, idx)]
        if t["kind"] == "chain":
            steps.append({"src": "aa %s bb %s cc" % (t["op1"], t["op2"])})
        else:
            steps.append({"src": "aa %s bb" % t["op"]})
        cases.append({"id": n, "steps": steps})
    res = nv.run_cases(cases, timeout_ms=10000)
    nontrivial = set()
    for n, t in enumerate(trans):
        st = res[n]
        idx = [t["i"], t["j"]] + ([t["k"]] if t["kind"] == "chain" else [])
        bad = False
        for pos, i in enumerate(idx):
            got = st[pos].get("obs", [None])[0] if st[pos].get("o") == "ok" else None
            if not towergen.same(pool[i - 1], got):
                bad = True
                rep.mismatch("operand:%s" % srcs[i - 1], "operand source did not evaluate to the intended number",
                             {"steps": [cases[n]["steps"][pos]["src"]], "want": pool[i - 1], "observed": st[pos]})
        if bad:
            continue
        kinds = "".join(pool[i - 1]["t"][0] for i in idx)
        if len(set(kinds)) > 1 or "r" in kinds:
            nontrivial.add((t.get("op", t.get("op1", "") + t.get("op2", "")), tuple(idx)))
        last = st[-1]
        if not same_as_spec(t["exp"], last):
            o = last.get("o")
            what = "wrong-value" if o == "ok" else ("panic:" + nv.norm_panic(last.get("e", "")) if o == "panic" else o)
            opname = t.get("op") or (t["op1"] + "," + t["op2"])
            key = "mc:%s:%s:%s" % (opname, kinds, what)
            rep.mismatch(key, "%s  with %s: observed %s, specification expects %s" % (
                cases[n]["steps"][-1]["src"], ", ".join(s["src"] for s in cases[n]["steps"][:-1]),
                json.dumps(last.get("v", last.get("e")))[:160], json.dumps(t["exp"])[:200]),
                {"steps": [s["src"] for s in cases[n]["steps"]], "expected": t["exp"], "observed": last})
    if cases:
        for n in (0, len(cases) // 2):
            rep.sample({"mc_case": [s["src"] for s in cases[n]["steps"]], "expected": trans[n]["exp"]})
    return dict(distinct=r["distinct"], transitions=len(trans), nontrivial=len(nontrivial))
