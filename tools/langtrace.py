"""Run histories of Lang AST statements in the real interpreter and turn them into Trace_Lang events."""
import json

import langgen as lg
import nv


def run_histories(histories, timeout_ms=5000):
    """histories: list of dict(stmts=[ast...], track=[global names]).
    Returns (events, info): events for Trace_Lang (reset + exec per statement), info[i] parallel."""
    cases = []
    for i, h in enumerate(histories):
        cases.append({"id": i, "steps": [{"src": lg.pp(s), "obs": h["track"]} for s in h["stmts"]]})
    res = nv.run_cases(cases, timeout_ms=timeout_ms)
    events, info = [], []
    for i, h in enumerate(histories):
        events.append({"ev": "reset"})
        info.append(None)
        steps = res[i]
        for j, s in enumerate(h["stmts"]):
            if j >= len(steps):
                break
            st = steps[j]
            o = st.get("o")
            if o == "skipped":
                break
            ev = {"ev": "exec", "ast": s, "out": o,
                  "v": lg.from_canon(st["v"]) if o == "ok" else lg.vstr("-"),
                  "printed": st.get("out", ""),
                  "vars": [[x, lg.from_canon(c)] for x, c in zip(h["track"], st.get("obs", []))]}
            if "obs" not in st:
                ev["vars"] = []
            events.append(ev)
            info.append(dict(hist=i, step=j, src=cases[i]["steps"][j]["src"],
                             prefix=[x["src"] for x in cases[i]["steps"][:j]], observed=st, tag=h.get("tag", "")))
            if o in ("panic", "timeout", "abort"):
                break
    return events, info
