"""C14 - every failure is a catchable error, never a crash, and try/catch contains it.

(a) MC_Outcome: TLC explores the session protocol automaton of spec/Outcome.tla (phase idle /
    evaluating; an evaluation ends Returned / Thrown / Ctl / ParseError and in no other way;
    containment, frame, usability as invariants over the history) and prints every complete
    abstract session; each is rendered with concrete statements and replayed (c14mc.py).
(b) The sweep: every global function of the interpreter's own table (minus the exclusion list
    that is also in the specification) x every tuple of 0..2 (thorough: 0..3) boundary values,
    prefix and infix call form, each as the mini-session  sentinel ; call ; try call catch ;
    1 + 1  with the sentinel re-read; lazy results forced; fault-injected statements
    (c14stmts.py) the same way.  Observations are compressed per (callee, arity, argument-kind
    signature, observed outcome tuple) with counts -- one trace event per (callee, arity) listing
    its observation classes, abnormal observations (panic / abort / time-out) never merged -- and
    Trace_Outcome rejects every class that is not a behaviour of the automaton, every (callee,
    arity) that does not cover all argument-kind signatures, and at the end of the trace a
    sweep that skipped a global function of the interpreter's table or an arity.
Finding keys: "<builtin>/<arity>:<argument kinds>:<panic message normalised | timeout | abort>",
"...:forced-<how>:..." when the failure surfaces on forcing a lazy result, "stmt:<template>:...".
"""
import itertools
import json
import os
import shutil
import time

import nv
import c14sweep as S
import c14stmts as T

# partners of an infinite stream: no predicate (take-while / filter on an infinite stream may legitimately not end)
INF_SAFE = ["zero", "one", "l123", "sabc", "null"]


def call_items(funcs, tier):
    pool = S.POOL
    byl = {p[0]: p for p in pool}
    pool3 = [byl[x] for x in S.POOL3_LABELS]
    items = []

    def add(f, tup, form):
        src = S.call_src(f, [t[1] for t in tup], form == "i")
        items.append({"steps": [{"src": src},
                                {"src": "try %s catch ee -> \"caught\"" % src},
                                {"src": "1 + 1", "obs": ["zq"]}],
                      "group": (f, len(tup), form, tup[0][0] if len(tup) >= 2 else ""),
                      "kind": "call", "f": f, "ar": len(tup), "form": form, "labels": [t[0] for t in tup],
                      "sig": [t[2] for t in tup], "src": src})

    # infix form  a f b  (the evaluator takes another path: run2 instead of run): the full pool in
    # thorough, the 12-value pool in quick
    pool_i = pool if tier == "thorough" else pool3
    for f in funcs:
        add(f, (), "p")
        for a in pool:
            add(f, (a,), "p")
        for a in pool:
            for b in pool:
                add(f, (a, b), "p")
        for a in pool_i:
            for b in pool_i:
                add(f, (a, b), "i")
        if tier == "thorough":
            for tup in itertools.product(pool3, repeat=3):
                add(f, tup, "p")
        if f in S.NON_CONSUMING:
            safe = [byl[x] for x in INF_SAFE]
            for inf in S.INF_POOL:
                add(f, (inf,), "p")
                for x in safe:
                    add(f, (inf, x), "p")
                    add(f, (x, inf), "p")
        if f in S.NON_CONSUMING or f == "len":
            for h in S.HUGE_POOL:
                add(f, (h,), "p")
    return items


def force_items(items, results, lazy_anyway=()):
    """forcing of lazy results.  lazy_anyway: indices of calls whose result could not even be
    projected (the projection iterates a stream) although the call itself returns a stream."""
    out = []
    for idx, (it, res) in enumerate(zip(items, results)):
        if it["form"] != "p" or len(res) < 2:
            continue
        lk = "stream" if idx in lazy_anyway else S.lazy_kind(res[1])
        if not lk or ("sti" in it["sig"] or "sth" in it["sig"]) and lk == "stream":
            continue
        for how, tmpl in S.FORCE[lk]:
            src = tmpl % it["src"]
            out.append({"steps": [{"src": src, "obs": ["zq"]}], "group": (it["f"], it["ar"]), "kind": "force",
                        "f": it["f"], "ar": it["ar"], "sig": it["sig"], "labels": it["labels"], "how": how,
                        "src": src, "lazy": lk})
    return out


def unprojectable_streams(items, results, stats):
    """calls that panicked while their RESULT was being projected: is the result itself a stream?
    (`type(call)` evaluates the call without iterating its result)"""
    cand = [i for i, (it, res) in enumerate(zip(items, results))
            if it["form"] == "p" and len(res) >= 2 and res[1].get("o") == "panic"]
    probes = [{"steps": [{"src": "type(%s)" % items[i]["src"]}], "group": 0} for i in cand]
    res = S.run_items(probes, batch_steps=60, stats=stats)
    out = set()
    for i, rs in zip(cand, res):
        st = rs[1] if len(rs) > 1 else {}
        if st.get("o") == "ok" and st.get("v", {}).get("t") == "func" and st["v"].get("disp", "").startswith("<stream"):
            out.add(i)
    return out


def stmt_items(tier):
    byl = {p[0]: p for p in S.POOL}
    pool_a = S.POOL
    pool_b = S.POOL if tier == "thorough" else [byl[x] for x in S.POOL3_LABELS + ["one", "imax", "st13"]]
    items = []
    n = 0
    for tid, tmpl, holes, names_b in T.TEMPLATES:
        for a in (pool_a if "a" in holes else [byl["zero"]]):
            for b in (pool_b if "b" in holes else [("int77", "77", "i")]):
                n += 1
                sp, st = "p%d" % n, "t%d" % n
                plain = T.render(tmpl, "va" + sp, "vb" + sp, sp)
                tried = T.render(tmpl, "va" + st, "vb" + st, st)
                # names declared fresh by the statement: the try version must not meet them already declared
                steps = [{"src": "va%s := %s" % (sp, a[1])},
                         {"src": "vb%s := %s" % (sp, b[1]), "obs": ["vb" + sp]},
                         {"src": plain, "obs": ["vb" + sp, "zq"]},
                         {"src": "va%s := %s" % (st, a[1])},
                         {"src": "vb%s := %s" % (st, b[1]), "obs": ["vb" + st]},
                         {"src": "try (%s) catch ee -> \"caught\"" % tried, "obs": ["vb" + st, "zq"]},
                         {"src": "1 + 1", "obs": ["vb" + st, "zq"]}]
                sig = ([a[2]] if "a" in holes else []) + ([b[2]] if "b" in holes else [])
                items.append({"steps": steps, "group": tid, "kind": "stmt", "tid": tid, "sig": sig,
                              "labels": [a[0], b[0]], "names_b": names_b, "src": plain})
    return items


def observe_stmt(it, res):
    """[decl, va, vb, plain, va', vb', tried, probe] -> the fields Trace_Outcome judges"""
    def g(i):
        return res[i] if i < len(res) else {"o": "missing"}

    def same(x, y):
        return x is not None and y is not None and json.dumps(x, sort_keys=True) == json.dumps(y, sort_keys=True)

    def obs(i, k):
        o = g(i).get("obs") or []
        return o[k] if k < len(o) else None
    caught = g(6).get("o") == "ok" and g(6).get("v", {}).get("t") == "str" and g(6)["v"].get("v") == "caught"
    keep = True
    if not it["names_b"]:
        keep = same(obs(2, 0), obs(3, 0)) and same(obs(5, 0), obs(6, 0)) and same(obs(5, 0), obs(7, 0))
    return {"z0": S.int_of(obs(0, 0)), "plain": g(3).get("o", "missing"), "tried": g(6).get("o", "missing"),
            "caught": caught, "z2": S.int_of(obs(6, 1)), "after": g(7).get("o", "missing"),
            "two": S.int_of(g(7).get("v")) if g(7).get("o") == "ok" else -1, "z3": S.int_of(obs(7, 1)),
            "keep": bool(keep), "zp": S.int_of(obs(3, 1))}


def run(tier):
    seed = nv.seed()
    rep = nv.Report("C14", tier, seed, "exploration")
    wd = nv.work_dir("C14")
    nv.build_harness()
    import c14mc
    tlc_mc = c14mc.start_tlc(tier, wd)        # runs while the sweep is being driven

    # ---- the interpreter's own table of globals
    table = S.global_table()
    funcs = [n for n, isf in table if isf and n not in S.EXCLUDED]
    only = os.environ.get("C14_ONLY")
    if only:                                  # development aid: the coverage check will reject this run
        funcs = [f for f in funcs if f in only.split(",")]

    # ---- the sweep
    t0 = time.time()
    stats = {}
    citems = call_items(funcs, tier)
    cres = S.run_items(citems, batch_steps=110, stats=stats, cls_of=lambda it: (it["f"], it["ar"], tuple(it["sig"])))
    fitems = force_items(citems, cres, unprojectable_streams(citems, cres, stats))
    fres = S.run_items(fitems, batch_steps=60, stats=stats, cls_of=lambda it: (it["f"], it["ar"], tuple(it["sig"]), it["how"]))
    sitems = stmt_items(tier)
    sres = S.run_items(sitems, batch_steps=120, stats=stats, prelude=T.PRELUDE, cls_of=lambda it: (it["tid"], tuple(it["sig"])))
    t_sweep = time.time() - t0

    # ---- (a) sessions enumerated by TLC, replayed
    t0 = time.time()
    mc = c14mc.run(rep, tier, wd, tlc_mc)
    t_mc = time.time() - t0

    # ---- events: one per (builtin, arity) / template, classes = distinct observations
    groups = {}     # (kind, f, ar) -> {"ev":.., "classes": [...], "infos": [...], "index": {obs key -> class index}}
    order = []
    nontrivial = set()

    def add(gkey, head, okey, cls, sig, info, abnormal):
        g = groups.get(gkey)
        if g is None:
            g = groups[gkey] = dict(head, classes=[], infos=[], index={})
            order.append(gkey)
        j = None if abnormal else g["index"].get(okey)
        if j is None:
            g["classes"].append(dict(cls, sigs=[], n=0))
            g["infos"].append(dict(info, n=0, srcs=[]))
            j = len(g["classes"]) - 1
            if not abnormal:
                g["index"][okey] = j
        c, inf = g["classes"][j], g["infos"][j]
        c["n"] += 1
        inf["n"] += 1
        for s in c["sigs"]:
            if s["sig"] == sig:
                s["n"] += 1
                break
        else:
            c["sigs"].append({"sig": sig, "n": 1})
        if len(inf["srcs"]) < 3:
            inf["srcs"].append(info["src"])
        nontrivial.add(gkey + (tuple(sig), okey))

    for it, res in zip(citems, cres):
        ob = S.observe(res)
        ab = S.abnormal_class(res)
        add(("calls", it["f"], it["ar"]), {"ev": "calls", "f": it["f"], "ar": it["ar"]}, tuple(sorted(ob.items())), ob,
            it["sig"], {"kind": "call", "f": it["f"], "ar": it["ar"], "sig": it["sig"], "src": it["src"], "ob": ob,
                        "ab": ab, "res": res[1:2]}, ab is not None)
    for it, res in zip(fitems, fres):
        st = res[1] if len(res) > 1 else {"o": "missing"}
        ab = S.abnormal_class(res)
        ob = {"how": it["how"], "o": st.get("o", "missing")}
        add(("force", it["f"], it["ar"]), {"ev": "force", "f": it["f"], "ar": it["ar"]}, (it["how"], ob["o"]), ob,
            it["sig"], {"kind": "force", "f": it["f"], "ar": it["ar"], "sig": it["sig"], "how": it["how"],
                        "src": it["src"], "ob": ob, "ab": ab, "res": res[1:2]}, ab is not None)
    for it, res in zip(sitems, sres):
        ob = observe_stmt(it, res)
        ab = S.abnormal_class(res)
        add(("stmts", it["tid"], 0), {"ev": "stmts", "tid": it["tid"]}, (tuple(it["sig"]),) + tuple(sorted(ob.items())),
            ob, it["sig"], {"kind": "stmt", "tid": it["tid"], "sig": it["sig"], "src": it["src"], "ob": ob, "ab": ab,
                            "steps": [s["src"] for s in it["steps"]], "res": res[3:4]}, ab is not None)

    events = [{"ev": "table", "names": [n for n, _ in table], "isfunc": [bool(f) for _, f in table],
               "excluded": S.EXCLUDED, "kinds": S.KINDS, "maxar": 3 if tier == "thorough" else 2}]
    einfo = [None]
    for gkey in order:
        g = groups[gkey]
        events.append({k: v for k, v in g.items() if k not in ("infos", "index")})
        einfo.append(g["infos"])
    n_classes = sum(len(groups[g]["classes"]) for g in order)

    # ---- trace validation: protocol per class, signature coverage per (f, arity), global coverage at the end
    t0 = time.time()
    mism, n_ev = nv.validate_trace("Trace_Outcome", events, wd, chunk=10 ** 9, timeout=1500)
    t_tlc = time.time() - t0

    found = {}
    norm = [(idx, exp if isinstance(exp, dict) else {"rule": str(exp)}) for idx, exp in mism]
    for idx, exp in sorted(norm, key=lambda m: m[1].get("rule") == "protocol"):    # coverage problems first
        ev = events[idx]
        rule = exp.get("rule")
        if rule != "protocol":
            if rule == "coverage":
                names = sorted({"%s/%d" % (ev["names"][m[0] - 1], m[1]) for m in exp.get("missing", [])})
                rep.mismatch("coverage:missing", "the sweep is vacuous: not every global function x arity was swept "
                             "(missing: %s)" % ", ".join(names[:40]), {"missing": names})
            elif rule == "signatures":
                rep.mismatch("coverage:signatures:%s/%d" % (ev["f"], ev["ar"]),
                             "not every argument-kind signature was swept for %s/%d" % (ev["f"], ev["ar"]),
                             {"f": ev["f"], "ar": ev["ar"]})
            else:
                rep.mismatch("coverage:%s" % rule, "the sweep tables differ from the specification's (%s)" % rule,
                             {"event": {k: v for k, v in ev.items() if k != "classes"}, "validator": exp})
            continue
        info = einfo[idx][exp["cls"] - 1]
        ob = info["ob"]
        if info["ab"]:
            cls = info["ab"]
        elif info["kind"] == "force":
            cls = "outcome:" + ob["o"]
        else:
            cls = "protocol:plain=%s,tried=%s%s,after=%s%s%s" % (
                ob["plain"], ob["tried"], "(caught)" if ob["caught"] else "", ob["after"],
                "" if ob["z3"] == ob["z0"] == ob.get("zp", S.SENTINEL) == ob.get("z2", S.SENTINEL) == S.SENTINEL
                else ",sentinel-changed", "" if ob.get("keep", True) else ",bystander-changed")
        sig = ",".join(info["sig"])
        src = info["srcs"][0]
        if info["kind"] == "call":
            key = "%s/%d:%s:%s" % (info["f"], info["ar"], sig, cls)
            steps = ["zq := 12345", src, "try %s catch ee -> \"caught\"" % src, "1 + 1", "zq"]
        elif info["kind"] == "force":
            key = "%s/%d:%s:forced-%s:%s" % (info["f"], info["ar"], sig, info["how"], cls)
            steps = ["zq := 12345", src, "1 + 1", "zq"]
        else:
            key = "stmt:%s:%s:%s" % (info["tid"], sig, cls)
            steps = ["zq := 12345"] + T.PRELUDE + info["steps"]
        what = "`%s`: %s (the protocol allows Returned / Thrown / Ctl / ParseError, containment under try, " \
               "an intact sentinel and a usable session afterwards)" % (src, cls)
        new = rep.mismatch(key, what, {"steps": steps, "observed": info["ob"], "first": info.get("res"),
                                       "members": info["n"]})
        found.setdefault(key, [0, src, new])[0] += info["n"]

    # finding classes grouped by callee and outcome (evidence; one line each with C14_CLASSES=1)
    grouped = {}
    for key in sorted(found):
        n, src, new = found[key]
        if os.environ.get("C14_CLASSES"):
            print("C14-CLASS %s\t%d\t%s\t%s" % ("new" if new else "known", n, key, src))
        parts = key.split(":")
        callee = ":".join(parts[:2]) if parts[0] == "stmt" else parts[0]
        i = key.find("panic:")
        cls = key[i:] if i >= 0 else parts[-1]
        if ":forced-" in key:
            cls = "forced:" + cls
        g = grouped.setdefault((callee, cls), {"callee": callee, "class": cls, "keys": 0, "cases": 0, "example": src,
                                               "known": not new})
        g["keys"] += 1
        g["cases"] += n

    n_calls, n_force, n_stmt = len(citems), len(fitems), len(sitems)
    for it in (citems[len(citems) // 3], citems[2 * len(citems) // 3]):
        rep.sample({"session": ["zq := 12345"] + [s["src"] for s in it["steps"]], "kinds": it["sig"]})
    if fitems:
        rep.sample({"forced_lazy_result": fitems[len(fitems) // 2]["src"], "lazy": fitems[len(fitems) // 2]["lazy"]})
    if sitems:
        rep.sample({"fault_injected_statement": [s["src"] for s in sitems[len(sitems) // 2]["steps"]]})
    shutil.rmtree(wd, ignore_errors=True)
    return rep.finish({
        "evaluations": n_calls + n_force + n_stmt + mc["replayed"],
        "distinct_nontrivial": len(nontrivial),
        "rule": "one evaluation = one mini-session in the real interpreter (sentinel; statement; the same statement "
                "under try/catch; 1 + 1; sentinel re-read) for a builtin call (every global function of vars() minus "
                "the exclusion list x all argument tuples of arity 0..%d from the %d-value boundary pool, prefix and "
                "infix form), a forcing of a lazy result, a fault-injected statement (%d templates x pool values) or "
                "a replayed MC session; distinct_nontrivial = number of distinct behaviour classes observed = "
                "distinct (callee or template, arity, argument-kind signature, forcing mode, observed outcome "
                "tuple), counted from the recorded events" % (3 if tier == "thorough" else 2, len(S.POOL), len(T.TEMPLATES)),
        "builtins_swept": len(funcs), "globals": len(table), "excluded": sorted(set(S.EXCLUDED) & {n for n, _ in table}),
        "calls": n_calls, "forcings": n_force, "statements": n_stmt,
        "interpreter_sessions": stats.get("sessions", 0), "isolated_reruns": stats.get("isolated", 0),
        "trace_events": n_ev, "trace_classes": n_classes, "finding_classes": len(found),
        "findings_by_callee": [grouped[k] for k in sorted(grouped)],
        "states": mc["distinct"], "transitions": mc["generated"], "mc_sessions_replayed": mc["replayed"],
        "traces_validated_against_impl": mc["replayed"] + n_classes,
        "mc_invariants": mc["invariants"],
        "seconds": {"mc": round(t_mc, 1), "sweep": round(t_sweep, 1), "trace_validation": round(t_tlc, 1)},
        "checker_cmd": "tlc MC_Outcome.tla (protocol automaton, sessions replayed) + tlc Trace_Outcome.tla "
                       "(every recorded mini-session must be a behaviour of Outcome.tla; coverage obligation at the end)",
        "trusted_base": ["TLC", "CommunityModules Json/IOUtils", "harness (catch_unwind, watchdog, canonical projection)"],
    })
