"""C15 helpers: conversion of the harness's token / value JSON into the shapes Lexer.tla uses,
representatives of the character classes, extraction of the corpus programs."""
import glob
import json
import os
import re

import sys

import nv

REPO = "/repo"
if hasattr(sys, "set_int_max_str_digits"):
    sys.set_int_max_str_digits(0)      # the harness reports 10^4-digit integers in decimal


def run_cases(cases, timeout_ms=5000, jobs=None):
    """nv.run_cases, but splitting the harness output on LF only: str.splitlines() also splits on
    U+0085, U+2028, U+000B ... which serde_json leaves unescaped inside string values"""
    import subprocess
    jobs = jobs or nv.JOBS
    inp = "\n".join(json.dumps(c) for c in cases) + "\n"
    p = subprocess.run([nv.NVH, "run", "-j", str(jobs), "-t", str(timeout_ms)], input=inp.encode("utf-8"),
                       stdout=subprocess.PIPE, stderr=subprocess.PIPE)
    if p.returncode != 0:
        nv.tool_fail("harness run failed: " + p.stderr.decode("utf-8", "replace")[-2000:])
    out = {}
    for line in p.stdout.decode("utf-8").split("\n"):
        if not line.strip():
            continue
        r = json.loads(line)
        out[r["id"]] = r["steps"]
    if len(out) != len(cases):
        nv.tool_fail("harness returned %d results for %d cases" % (len(out), len(cases)))
    return out


def cps(s):
    return [ord(c) for c in s]


def text_of(cp_list):
    return "".join(chr(c) for c in cp_list)


def spec_token(t):
    """harness token JSON -> the record shape of Lexer.tla (Comment text and Invalid messages are
    not part of the property: kind only)"""
    k = t["k"]
    if k == "IntLit":
        return {"k": k, "v": nv.nat_limbs(int(t["v"]))}
    if k == "RatLit":
        n = int(t["n"])
        if n < 0:
            return {"k": k, "n": ["negative"], "d": nv.nat_limbs(int(t["d"]))}
        return {"k": k, "n": nv.nat_limbs(n), "d": nv.nat_limbs(int(t["d"]))}
    if k in ("FloatLit", "ImaginaryFloatLit"):
        return {"k": k, "f": nv.tla_float(t["bits"])}
    if k in ("StringLit", "FormatString", "Ident"):
        return {"k": k, "s": cps(t["v"])}
    if k == "BytesLit":
        return {"k": k, "b": list(t["v"])}
    return {"k": k}


def norm_spec_token(t):
    """token record printed by TLC -> comparable with spec_token()"""
    if t["k"] == "Comment":
        return {"k": "Comment"}
    return t


def spec_value(c):
    """canonical value of an evaluated literal -> the LiteralValue shape of Lexer.tla"""
    t = c.get("t")
    if t == "int":
        n = int(c["v"])
        return {"t": "int", "v": nv.nat_limbs(n)} if n >= 0 else {"t": "other"}
    if t == "rat":
        n = int(c["n"])
        return {"t": "rat", "n": nv.nat_limbs(n), "d": nv.nat_limbs(int(c["d"]))} if n >= 0 else {"t": "other"}
    if t == "float":
        return {"t": "float", "f": nv.tla_float(c["bits"])}
    if t == "complex":
        return {"t": "complex", "re": nv.tla_float(c["re"]), "im": nv.tla_float(c["im"])}
    if t == "str":
        return {"t": "str", "s": cps(c["v"])}
    if t == "bytes":
        return {"t": "bytes", "b": list(c["v"])}
    return {"t": "other"}


# other members of the character classes of Lexer.tla!Class, keyed by the representative the
# bounded model uses (the substituted strings are judged by Trace_Lexer from their code points,
# so a wrong entry here cannot produce a wrong verdict - only a less useful test)
ALTERNATES = {
    "0": "0", "1": "1", "7": "23456", "9": "8",
    "a": "cd", "b": "b", "e": "e", "f": "f", "i": "j", "o": "o", "q": "q", "r": "r", "x": "x",
    "n": "n", "u": "u", "z": "ghklmpsvwy", "g": "hkz",
    "B": "B", "F": "F", "R": "R", "E": "E", "X": "X", "Z": "GHKLMNPSTUVWY",
    "_": "_", "'": "'", '"': '"', "\\": "\\", "#": "#", "(": "(", ")": ")", "[": "[", "]": "]",
    "{": "{", "}": "}", "`": "`", ",": ",", ";": ";", ":": ":", " ": " \t\r ", "\n": "\n",
    ".": ".", "-": "-", "=": "=", "!": "!", "?": "?", "<": "<", ">": ">", "+": "$%&*@^|~", "/": "/",
    "\u2227": "\u2228\u00d7\u2264", "\t": "\r\u00a0", "\u0663": "\u00b2\u0669", "X": "X",
    "\U0001F409": "\U0001F409", "é": "ßÉβЖ中あ", "€": "§→\U0001F600\u0001٣²",
}
# upper / lower case variants of the literal prefix and suffix letters (same class pairs)
CASE_PAIRS = {"b": "B", "e": "E", "f": "F", "i": "IJ", "o": "O", "q": "Q", "r": "R", "x": "X"}


def rust_unescape(s):
    out = []
    i = 0
    while i < len(s):
        c = s[i]
        if c == "\\" and i + 1 < len(s):
            n = s[i + 1]
            if n == "\n":
                # line continuation: skip the newline and leading whitespace
                i += 2
                while i < len(s) and s[i] in " \t\n":
                    i += 1
                continue
            out.append({"n": "\n", "t": "\t", "r": "\r", "0": "\0", "\\": "\\", '"': '"', "'": "'"}.get(n, "\\" + n))
            i += 2
        else:
            out.append(c)
            i += 1
    return "".join(out)


def corpus():
    """the programs of tests/test.rs (string literals passed to the eval helpers) and examples/*.noul"""
    src = open(os.path.join(REPO, "tests", "test.rs"), encoding="utf-8").read()
    progs = []
    for m in re.finditer(r'(?:simple_eval|parse|evaluate\w*)\s*\(\s*(?:&\w+\s*,\s*)?"((?:[^"\\]|\\.)*)"', src, flags=re.S):
        progs.append(rust_unescape(m.group(1)))
    # every other string literal of the file too (expected outputs are harmless extra inputs)
    for m in re.finditer(r'"((?:[^"\\]|\\.)*)"', src, flags=re.S):
        progs.append(rust_unescape(m.group(1)))
    for f in sorted(glob.glob(os.path.join(REPO, "examples", "*.noul"))):
        progs.append(open(f, encoding="utf-8").read())
    seen = set()
    out = []
    for p in progs:
        if p and p not in seen:
            seen.add(p)
            out.append(p)
    return out


def dumps(x):
    return json.dumps(x, ensure_ascii=True)
