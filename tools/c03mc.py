"""C03 (a): TLC enumerates chains over MC_Chain (machine = Climb = Decl, log, merge rule); every
finished run whose operators have a real counterpart is instantiated with REAL operators in the
real interpreter and run four ways: direct chain (logging operands / operators), underscore
sections applied later, the old section after a runtime precedence reassignment, and the bare
chain after the reassignment (expected tree: the specification's tree of the reassigned chain).

The expected value is obtained by evaluating the specification's tree through single-operator
applications and explicit (n-ary) calls only - python renders source and compares canonical
values for equality, nothing else."""
import json

import nv

CMPS = ["<", "<=", "==", "!=", ">", ">="]
REAL = {"self1": ["**"], "head1": ["fold", "scan"], "prep1": ["from"],
        "self2": ["zip", "ziplongest"], "prep2": ["with"], "head3": ["to", "til"], "prep3": ["by"]}
CYCLE = [1, 2, 3, 0]     # precedence values of the model, 0 = NaN


def prec_src(p):
    return "(0/0)" if p == 0 else str(p)


def key_of(ops):
    return tuple((o["p"], o["a"], o["c"]) for o in ops)


def op_defs(ops, variant):
    out = []
    real = []
    for j, o in enumerate(ops):
        i = j + 1
        c = o["c"]
        if c == "plain" and o["a"] == "L":
            src, nm = '\\a, b -> ["op%d", a, b]' % i, "closure"
        elif c == "plain":
            if (variant + i) % 2 == 0:
                src, nm = ".+", ".+"
            else:
                # a tree-building operator carrying the (right) associativity of `.+`
                src, nm = 'lift(\\a, b -> "op%d", \\a, b -> [a, b], .+)' % i, "lift(.+)"
        elif c == "cmp":
            nm = CMPS[(variant + i) % len(CMPS)]
            src = nm
        else:
            # one real operator per self-chaining class and chain (zip does not chain with ziplongest)
            nm = REAL[c][(variant + (0 if c.startswith("self") else i)) % len(REAL[c])]
            src = nm
        out.append("op%d := %s" % (i, src))
        out.append("op%d::precedence = %s" % (i, prec_src(o["p"])))
        real.append(nm)
    return out, real


def leaf_src(i, ops):
    n = len(ops)
    left = ops[i - 1]["c"] if i >= 1 else None
    right = ops[i]["c"] if i < n else None
    if left in ("head1", "prep2"):
        return '\\...a -> ["g%d", a]' % i
    if left in ("head3", "prep3") or right in ("head3", "prep3"):
        return str(3 * i + 1)
    return "[%d, %d]" % (2 * i, 2 * i + 1)


def ref_stmts(tree, ops, prefix, variant):
    """statements evaluating the tree bottom-up through single applications; returns (stmts, name)"""
    stmts = []

    def walk(t):
        if t["k"] == "leaf":
            return "v%d" % t["i"]
        kids = [walk(k) for k in t["kids"]]
        tops = t["ops"]
        head = ops[tops[0] - 1]["c"]
        if len(tops) == 1:
            o = tops[0]
            if (variant + o) % 2 == 0:
                expr = "(%s op%d %s)" % (kids[0], o, kids[1])        # single-operator chain (fast path)
            else:
                expr = "op%d(%s, %s)" % (o, kids[0], kids[1])        # explicit call
        elif head == "cmp":
            expr = " and ".join("(%s op%d %s)" % (kids[j], tops[j], kids[j + 1]) for j in range(len(tops)))
        else:
            expr = "op%d(%s)" % (tops[0], ", ".join(kids))           # one n-ary application of the head
        name = "%s%d" % (prefix, len(stmts) + 1)
        stmts.append("%s := %s" % (name, expr))
        return name

    return stmts, walk(tree)


def chain_src(ops, logged, holes=()):
    n = len(ops)
    parts = []
    for i in range(n + 1):
        if i >= 1:
            parts.append("`oo(%d, op%d)`" % (i, i) if logged else "op%d" % i)
        if i in holes:
            parts.append("_")
        else:
            parts.append("tt(%d, v%d)" % (i, i) if logged else "v%d" % i)
    return " ".join(parts)


def holes_of(pat, n):
    return [i for i in range(n + 1) if pat == "all" or (pat == "first" and i == 0) or
            (pat == "even" and i % 2 == 0) or (pat == "odd" and i % 2 == 1)]


def mutate(ops, k):
    """a runtime reassignment of precedences: (statement, new ops)"""
    n = len(ops)
    pairs = [(i, j) for i in range(n) for j in range(i + 1, n) if ops[i]["p"] != ops[j]["p"]]
    new = [dict(o) for o in ops]
    if pairs:
        i, j = pairs[k % len(pairs)]
        new[i]["p"], new[j]["p"] = ops[j]["p"], ops[i]["p"]
        return "swap op%d::precedence, op%d::precedence" % (i + 1, j + 1), new
    i = k % n
    q = CYCLE[(CYCLE.index(ops[i]["p"]) + 1 + (k // n) % 3) % 4]
    if q == ops[i]["p"]:
        q = CYCLE[(CYCLE.index(q) + 1) % 4]
    new[i]["p"] = q
    return "op%d::precedence = %s" % (i + 1, prec_src(q)), new


def log_of(c):
    """canonical value of `lg` -> [(k, i)]"""
    out = []
    if not c or c.get("t") != "list":
        return None
    for e in c["v"]:
        try:
            out.append((e["v"][0]["v"], int(e["v"][1]["v"])))
        except Exception:
            return None
    return out


def same(a, b):
    """equal outcome: equal canonical value, or both throw"""
    if a.get("o") == "ok" and b.get("o") == "ok":
        return a.get("v") == b.get("v")
    return a.get("o") == "throw" and b.get("o") == "throw"


def feat(ops):
    n = len(ops)
    f = []
    if any(o["p"] == 0 for o in ops):
        f.append("nan")
    if any(ops[i]["p"] == ops[i + 1]["p"] for i in range(n - 1)):
        f.append("tie")
    if any(o["a"] == "R" for o in ops):
        f.append("rassoc")
    return "n%d:%s:%s" % (n, "+".join(sorted(set(o["c"] for o in ops))), "+".join(f) or "plain-order")


def show(st):
    if st.get("o") == "ok":
        return json.dumps(st.get("v"))[:240]
    return "%s %s" % (st.get("o"), (st.get("e") or "")[:120])


def run(rep, tier, wd):
    cfg = "MC_Chain_quick.cfg" if tier == "quick" else "MC_Chain_thorough.cfg"
    table = {}      # config key -> {"ops", "tree", "log", "sections": {pat: log}}

    def on_line(tag, payload):
        if tag != "REPLAY":
            return False
        t = json.loads(payload)
        k = key_of(t["ops"])
        e = table.setdefault(k, {"ops": t["ops"], "sections": {}})
        if t["mode"] == "direct":
            e["tree"] = t["tree"]
            e["log"] = [(x["k"], x["i"]) for x in t["log"]]
        else:
            e["sections"][t["pat"]] = [(x["k"], x["i"]) for x in t["log"]]
        return True

    r = nv.run_tlc("MC_Chain", cfg, wd, workers=nv.JOBS, timeout=3000, on_line=on_line, xmx="10g")
    if not r["ok"]:
        if "is violated" in r["error"]:
            rep.mismatch("spec:MC_Chain:invariant", "TLC found an invariant violation in the specification itself "
                         "(machine, Climb and Decl disagree, or the log / merge rule fails)", {"tlc": r["error"]})
            # TLC stops at the first violation: the table of chains is incomplete, nothing to replay
            return dict(distinct=max(1, r["distinct"]), generated=max(1, r["generated"]), chains=len(table), replayed=0,
                        evaluations=0, nontrivial=0, invariants=[])
        else:
            print(r["error"])
            nv.tool_fail("TLC failed on MC_Chain")
    keys = sorted(k for k in table if "tree" in table[k])
    if tier == "thorough":
        # every chain of up to 3 operators, a seeded 1-in-3 sample of the 4-operator chains
        import random
        rng = random.Random(nv.seed())
        keys = [k for k in keys if len(k) <= 3 or rng.random() < 0.34]
    cases, meta = [], {}
    for cid, k in enumerate(keys):
        e = table[k]
        ops = e["ops"]
        n = len(ops)
        defs, real = op_defs(ops, cid)
        setup = ["lg := []", "tt := \\i, v -> (lg append= [\"e\", i]; v)", "oo := \\i, f -> (lg append= [\"f\", i]; f)"]
        setup += defs + ["v%d := %s" % (i, leaf_src(i, ops)) for i in range(n + 1)]
        refa, ra = ref_stmts(e["tree"], ops, "ra", cid)
        steps = [{"src": "; ".join(setup)},
                 {"src": chain_src(ops, True), "obs": ["lg"]},
                 {"src": "; ".join(refa + [ra])}]
        roles = ["setup", "direct", "ref"]
        pats = sorted(e["sections"])
        if tier == "quick" and pats:
            pats = [pats[cid % len(pats)]]       # TLC checks every pattern; one of them is executed per chain
        for pat in pats:
            hs = holes_of(pat, n)
            # build the section (operator and non-hole operand expressions are evaluated now), keep the
            # log, then apply it to the hole values
            steps.append({"src": "lg = []; sec_%s := (%s); lc_%s := lg; sec_%s(%s)" % (
                pat, chain_src(ops, True, hs), pat, pat, ", ".join("v%d" % i for i in hs)),
                "obs": ["lc_" + pat, "lg"]})
            roles.append("sec:" + pat)
        mstmt, mops = mutate(ops, cid)
        mk = key_of(mops)
        if mk not in table or "tree" not in table[mk]:
            nv.tool_fail("reassigned chain %r is not in the model's table" % (mk,))
        if pats:
            pat = pats[cid % len(pats)]
            steps.append({"src": "%s; sec_%s(%s)" % (mstmt, pat, ", ".join("v%d" % i for i in holes_of(pat, n)))})
            roles.append("old:" + pat)
        else:
            steps.append({"src": mstmt})
            roles.append("mutate")
        refb, rb = ref_stmts(table[mk]["tree"], mops, "rb", cid + 1)
        steps.append({"src": chain_src(mops, False)})
        roles.append("bare")
        steps.append({"src": "; ".join(refb + [rb])})
        roles.append("refb")
        cases.append({"id": cid, "steps": steps})
        meta[cid] = (k, roles, real, mstmt)
    res = nv.run_cases(cases, timeout_ms=10000)
    nontrivial = set()
    evaluations = 0
    for c in cases:
        cid = c["id"]
        k, roles, real, mstmt = meta[cid]
        e = table[k]
        ops = e["ops"]
        sts = res[cid]
        by = {}
        for role, st, step in zip(roles, sts, c["steps"]):
            by[role] = (st, step["src"])
        srcs = [s["src"] for s in c["steps"]]

        def bad(way, kind, what):
            rep.mismatch("mc:%s:%s:%s" % (way, kind, feat(ops)),
                         "%s [operators %s]" % (what, ", ".join(real)),
                         {"steps": srcs, "spec_tree": e["tree"], "ops": ops, "observed": sts})

        if len(sts) < len(roles) or sts[0].get("o") != "ok":
            bad("setup", sts[0].get("o", "?") if sts else "none",
                "rendered setup did not evaluate: %s" % (show(sts[0]) if sts else "no result"))
            continue
        ref = by["ref"][0]
        if ref.get("o") not in ("ok", "throw"):
            bad("ref", ref.get("o"), "evaluating the specification's tree through single applications gave %s" % show(ref))
            continue
        d = by["direct"][0]
        evaluations += 1
        if not same(d, ref):
            bad("direct", "value" if d.get("o") == "ok" and ref.get("o") == "ok" else str(d.get("o")),
                "%s evaluates to %s, the specification's tree %s to %s" % (by["direct"][1], show(d), by["ref"][1], show(ref)))
        lg = log_of(d.get("obs", [None])[0]) if d.get("obs") else None
        want = e["log"]
        if lg is None or (d.get("o") == "ok" and lg != want) or (d.get("o") != "ok" and lg != want[:len(lg)]):
            bad("direct", "log", "evaluation order of %s: observed %s, specification %s" % (by["direct"][1], lg, want))
        if d.get("o") == "ok" and len(ops) >= 2:
            nontrivial.add(k)
        dead = False
        for role in roles:
            if role.startswith("sec:"):
                pat = role[4:]
                slog = e["sections"][pat]
                ap, apsrc = by[role]
                evaluations += 1
                l1 = log_of(ap["obs"][0]) if ap.get("obs") else None
                l2 = log_of(ap["obs"][1]) if ap.get("obs") else None
                if l1 is None:
                    bad("section:" + pat, "create:" + str(ap.get("o")), "building the section in %s gave %s" % (apsrc, show(ap)))
                    continue
                if l1 != slog or l2 != slog:
                    bad("section:" + pat, "log", "evaluation order of %s: at creation %s, after application %s, specification %s"
                        % (apsrc, l1, l2, slog))
                if not same(ap, ref):
                    bad("section:" + pat, "value" if ap.get("o") == "ok" and ref.get("o") == "ok" else str(ap.get("o")),
                        "%s gives %s, the specification's tree %s" % (apsrc, show(ap), show(ref)))
            elif role.startswith("old:"):
                evaluations += 1
                if not same(by[role][0], ref):
                    bad("section-after-reassign", "value",
                        "a section built before `%s` gives %s afterwards (its operator values must keep their precedence: %s)"
                        % (mstmt, show(by[role][0]), show(ref)))
                    dead = by[role][0].get("o") not in ("ok", "throw")
            elif role == "mutate" and by[role][0].get("o") != "ok":
                bad("reassign", "stmt:" + str(by[role][0].get("o")), "%s gave %s" % (mstmt, show(by[role][0])))
                dead = True
        if dead:
            continue
        refb, bare = by["refb"][0], by["bare"][0]
        if refb.get("o") not in ("ok", "throw"):
            bad("refb", str(refb.get("o")), "reference after reassignment gave %s" % show(refb))
            continue
        evaluations += 1
        if not same(bare, refb):
            bad("reassigned", "value" if bare.get("o") == "ok" and refb.get("o") == "ok" else str(bare.get("o")),
                "after `%s`, %s evaluates to %s, the specification's tree %s to %s"
                % (mstmt, by["bare"][1], show(bare), by["refb"][1], show(refb)))
        if bare.get("o") == "ok" and len(ops) >= 2:
            nontrivial.add(key_of_mut(k, mstmt))
    for c in cases[:1] + cases[len(cases) // 2: len(cases) // 2 + 1] + cases[-1:]:
        rep.sample({"mc_chain": [s["src"] for s in c["steps"]][:4], "spec_tree": table[meta[c["id"]][0]]["tree"],
                    "observed": res[c["id"]][1].get("v", res[c["id"]][1].get("o"))})
    return dict(distinct=r["distinct"], generated=r["generated"], chains=len(table), replayed=len(cases),
                evaluations=evaluations, nontrivial=len(nontrivial),
                invariants=["TreeAgrees", "DeclAgrees", "OperandsInOrder", "LogOnceLeftToRight", "FastPathAgrees",
                            "MergeIffTighterAndChains"])


def key_of_mut(k, mstmt):
    return (k, mstmt)
