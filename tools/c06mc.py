"""C06 (a): TLC enumerates the integer representation machine; every transition is replayed."""
import json

import nv
import numgen

UN_SRC = {"neg": "(-(%s))", "~": "(~(%s))", "abs": "abs(%s)", "signum": "signum(%s)", "even": "even(%s)",
          "odd": "odd(%s)", "is_prime": "is_prime(%s)"}
WORD_MIN, WORD_MAX = -2 ** 63, 2 ** 63 - 1


def operand_src(x):
    """source text for an operand in the representation the model chose"""
    v = nv.from_tla_int(x["v"])
    if x["rep"] == "S":
        return numgen.lit(v)
    if WORD_MIN <= v <= WORD_MAX:
        # a small value held in big representation: difference of two big values
        return "((2^70 + %s) - 2^70)" % numgen.lit(v)
    return numgen.lit(v)


def app_src(op, arity, a_src, b_src):
    if arity == 1:
        return UN_SRC[op] % a_src
    return "((%s) %s (%s))" % (a_src, op, b_src)


def run(rep, tier, wd):
    cfg = "MC_IntRep_quick.cfg" if tier == "quick" else "MC_IntRep_thorough.cfg"
    r = nv.run_tlc("MC_IntRep", cfg, wd, workers=nv.JOBS, timeout=5400)
    if not r["ok"]:
        if "is violated" in r["error"]:
            rep.mismatch("spec:MC_IntRep:invariant", "TLC found an invariant violation in the specification itself",
                         {"tlc": r["error"]})
        else:
            print(r["error"])
            nv.tool_fail("TLC failed on MC_IntRep")
    trans = [json.loads(x) for x in r["tagged"].get("REPLAY", [])]
    cases = []
    for i, t in enumerate(trans):
        if t["depth"] > 1:
            p = t["prev"]
            a_src = app_src(p["op"], 1 if p["op"] in UN_SRC else 2, operand_src(p["a"]), operand_src(p["b"]))
        else:
            a_src = operand_src(t["a"])
        src = app_src(t["op"], t["arity"], a_src, operand_src(t["b"]))
        steps = [{"src": "is_big(%s)" % a_src}, {"src": src}]
        cases.append({"id": i, "steps": steps})
    res = nv.run_cases(cases, timeout_ms=10000)
    nontrivial = 0
    for i, t in enumerate(trans):
        st = res[i]
        want = nv.from_tla_int(t["r"])
        av, bv = nv.from_tla_int(t["a"]["v"]), nv.from_tla_int(t["b"]["v"])
        small_in_big = (t["a"]["rep"] == "B" and WORD_MIN <= av <= WORD_MAX) or \
                       (t["arity"] == 2 and t["b"]["rep"] == "B" and WORD_MIN <= bv <= WORD_MAX)
        if small_in_big or not (WORD_MIN <= av <= WORD_MAX and WORD_MIN <= bv <= WORD_MAX
                                and WORD_MIN <= want <= WORD_MAX):
            nontrivial += 1
        last = st[-1]
        got = last.get("v") if last.get("o") == "ok" else None
        ok = got is not None and got.get("t") == "int" and int(got["v"]) == want
        # sanity of the binding: the operand really is in the representation the model chose
        if st[0].get("o") == "ok" and t["depth"] == 1:
            isbig = st[0]["v"].get("v") == "1"
            if isbig != (t["a"]["rep"] == "B"):
                rep.mismatch("binding:rep", "operand not in the intended representation",
                             {"src": cases[i]["steps"][0]["src"], "want": t["a"]["rep"], "observed": st[0]})
        if not ok:
            o = last.get("o")
            what = "wrong-value" if o == "ok" else ("panic:" + nv.norm_panic(last.get("e", "")) if o == "panic" else o)
            key = "mc:%s:%s%s:%s" % (t["op"], t["a"]["rep"], t["b"]["rep"] if t["arity"] == 2 else "-", what)
            rep.mismatch(key, "%s: observed %s, specification expects %d" % (
                cases[i]["steps"][1]["src"], json.dumps(got if got else last)[:200], want),
                {"steps": [s["src"] for s in cases[i]["steps"]], "expected": str(want), "observed": last})
    if trans:
        rep.sample({"mc_transition": cases[0]["steps"][1]["src"], "expected": str(nv.from_tla_int(trans[0]["r"]))})
        rep.sample({"mc_transition": cases[len(cases) // 2]["steps"][1]["src"],
                    "expected": str(nv.from_tla_int(trans[len(cases) // 2]["r"]))})
    return dict(distinct=r["distinct"], transitions=len(trans), replayed=len(trans), nontrivial=nontrivial,
                invariants=["RepIndependent", "RepSound"])
