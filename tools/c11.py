"""C11 - lazy streams are coherent: length, iteration, indexing, slicing, reversal agree, and using a
stream never changes the stream value bound to a variable.

(a) MC_Streams: TLC enumerates every stream constructor with all small parameter combinations and
    every cursor position (drop position), checks at each that the cursor state machine, the
    declarative denotation and the closed-form length agree (Coherent), and prints the expected
    result of every observation; each state is replayed as a walk of observations on ONE variable in
    which every ordered pair of the pair-observations occurs adjacently.
(b) Trace validation: a seeded driver binds random stream pipelines (depth <= 3) at random drop
    positions and observes each ~30 times in random order; Trace_Streams must explain every
    observation with one unchanged stream value.
"""
import shutil

import nv


def run(tier):
    seed = nv.seed()
    rep = nv.Report("C11", tier, seed, "model_checking")
    wd = nv.work_dir("C11")
    nv.build_harness()
    import c11mc
    import c11drive
    mc = c11mc.run(rep, tier, wd)
    tr = c11drive.run(rep, tier, seed, wd)
    shutil.rmtree(wd, ignore_errors=True)
    rep.assumptions += [
        "element functions of lazy_map / lazy_filter / lazy_zip / iterate come from a small pure family (no side "
        "effects)",
        "length / truthiness of a lazy map or zip over an INFINITE stream, negative indices / reverse / last / `in` "
        "on infinite streams are outside the property (they cannot terminate) and are not generated",
        "`hd, ...tl = t` on a stream with fewer than two elements is left to C14/C05 (splat-length underflow of the "
        "pinned tree); permutations([]) and cycle([]) panic (C14) and are not generated; a cartesian power of the "
        "empty list is empty for every exponent (named rule EmptyBasePower)",
        "a slice / reverse of a stream is compared by its elements (list or stream result accepted)",
    ]
    return rep.finish({
        "states": mc["distinct"], "transitions": mc["generated"],
        "traces_validated_against_impl": mc["evaluations"] + tr["events"],
        "evaluations": mc["evaluations"] + tr["events"],
        "distinct_nontrivial": mc["nontrivial"] + tr["nontrivial"],
        "exhaustive": True,
        "rule": "MC: one state per (stream constructor with small parameters, drop position); per state every "
                "observation of the observation list once, then a walk visiting every ordered pair of the "
                "pair-observations on the same variable; all replayed.  Trace: one event per observation of a random "
                "pipeline variable.  non-trivial = distinct (constructor, drop position, observation) other than "
                "list/first of an undropped non-empty finite stream (MC) resp. other than observations of an "
                "undropped positive-step range (trace)",
        "mc_invariants": mc["invariants"], "mc_states_replayed": mc["states"], "mc_observations": mc["evaluations"],
        "mc_ordered_pairs_exercised": mc["pairs"], "trace_events": tr["events"], "trace_streams": tr["streams"],
        "checker_cmd": "tlc MC_Streams.tla -config MC_Streams_%s.cfg (all states replayed) + tlc Trace_Streams.tla "
                       "(trace validation)" % tier,
        "trusted_base": ["TLC", "CommunityModules Json/IOUtils", "lib/BigNum (self-checked by MC_BigNum)",
                         "spec/Index.tla (C10) for index/slice semantics of the denoted list",
                         "harness canonical projection (first 48 elements of a stream value)"],
    })
