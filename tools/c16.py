"""C16 - text and byte codecs round-trip and conversions are exact.

(a) MC_Codec: TLC checks the inverse-pair laws of spec/Codec.tla (positional notation, decimal /
    scientific / fraction text, hex, base64, UTF-8, chr/ord, JSON text and Noulith literal syntax of
    JSON-shaped values, integer rendering in base 2/8/10/16) as theorems over exhaustive small
    domains and prints one REPLAY line per case with the encoding the specification computed.
    Every case is replayed in the interpreter: the implementation's text / bytes must be equal to
    the specification's (an independent oracle for the intermediate encoding), decoding must give
    the value back, integers are presented in small and in big representation.
(b) Trace_Codec: a seeded driver evaluates the conversions on integers of any size and sign in
    both representations, every base, signed decimal / scientific / fraction strings, random byte
    strings, Unicode strings across the planes and nested JSON-shaped values; the logged arguments,
    intermediate encodings and read-back values are validated by the specification.
"""
import json
import math
import os
import random
import shutil
import struct
import time

import nv
import c15lib
import c16lib as L
from c16lib import cps, text_of

FLAGS = ["d", "x", "X", "b", "o"]


def tlc_env():
    return {"JAVA_TOOL_OPTIONS": "-Xss256m -XX:ParallelGCThreads=4 -DTLA-Library=%s" % os.path.join(nv.SPEC, "lib")}


def run_cases(cases, timeout_ms=20000):
    return c15lib.run_cases(cases, timeout_ms=timeout_ms)


def sign_class(n):
    return "zero" if n == 0 else ("neg" if n < 0 else "pos")


def rat_shape(s):
    """class of a rational text for mismatch keys; a negative component with a fraction part is its own class"""
    t = s.strip()
    for comp in t.split("/"):
        comp = comp.strip().lower().split("e")[0]
        if comp.startswith("-") and "." in comp:
            return "neg-frac"
    parts = []
    parts.append("neg" if t.startswith("-") else ("plus" if t.startswith("+") else "plain"))
    if "/" in t:
        parts.append("ratio")
    if "." in t:
        parts.append("frac")
    if "e" in t.lower():
        parts.append("exp")
    return "-".join(parts)


# ----------------------------------------------------------------------------- (a) bounded model
def run_mc(rep, tier, wd):
    r = nv.run_tlc("MC_Codec", "MC_Codec_%s.cfg" % tier, wd, workers=max(4, nv.JOBS), timeout=6000, env=tlc_env())
    if not r["ok"]:
        if "is violated" in r["error"]:
            rep.mismatch("spec:MC_Codec:invariant", "TLC found a law of the specification violated", {"tlc": r["error"]})
        else:
            print(r["error"])
            print("\n".join(r["lines"][-30:]))
            nv.tool_fail("TLC failed on MC_Codec")
    cases = [json.loads(x) for x in r["tagged"].get("REPLAY", [])]
    if not cases:
        nv.tool_fail("MC_Codec produced no REPLAY lines")
    return cases, r["distinct"]


def expect_text(rep, key, src, st, want_cps, setup=()):
    got = L.obs_text(st)
    if got.get("out") != "ok" or got["s"] != want_cps:
        k = "%s:%s" % (key, L.what(st))
        rep.mismatch(k, "%s gives %s; specification: %r" % (src, json.dumps(st.get("v", st.get("e")), ensure_ascii=False)[:200],
                                                               text_of(want_cps)[:200]),
                     {"steps": list(setup) + [src], "expected": text_of(want_cps), "observed": st})
        return False
    return True


def expect_canon(rep, key, src, st, pred, want_desc, setup=()):
    if st.get("o") != "ok" or not pred(st["v"]):
        k = "%s:%s" % (key, L.what(st))
        rep.mismatch(k, "%s gives %s; specification: %s" % (src, json.dumps(st.get("v", st.get("e")), ensure_ascii=False)[:200],
                                                              want_desc[:200]),
                     {"steps": list(setup) + [src], "expected": want_desc, "observed": st})
        return False
    return True


def is_int(n):
    return lambda v: v.get("t") == "int" and int(v["v"]) == n


def is_bytes(b):
    return lambda v: v.get("t") == "bytes" and list(v["v"]) == list(b)


def is_str(s):
    return lambda v: v.get("t") == "str" and v["v"] == s


def replay_mc(rep, mc):
    """returns (replayed cases, evaluations, non-trivial count)"""
    cases = []
    plan = []       # per case: list of (check function taking the step result) aligned with steps
    evals = 0

    def add(steps, checks):
        cases.append({"id": len(cases), "steps": [{"src": s} for s in steps]})
        plan.append(checks)

    by_n = {}
    for c in mc:
        k = c["kind"]
        if k == "bytes":
            b = c["b"]
            hexs, b64s = text_of(c["hex"]), text_of(c["b64"])
            setup = ["bb := " + L.bytes_lit(b)]
            steps = list(setup)
            checks = [None]
            cls = "valid-utf8" if c["utf8"] == "ok" else "invalid-utf8"
            steps.append("hex_encode(bb)")
            checks.append(lambda st, hexs=hexs, setup=setup: expect_text(rep, "hex_encode", "hex_encode(bb)", st, cps(hexs), setup))
            for src, key in (("hex_decode(%s)" % L.str_lit(hexs), "hex_decode"),
                             ("hex_decode(%s)" % L.str_lit(hexs.upper()), "hex_decode:upper"),
                             ("base64_decode(%s)" % L.str_lit(b64s), "base64_decode"),
                             ("decompress(compress(bb))", "decompress(compress)")):
                steps.append(src)
                checks.append(lambda st, src=src, key=key, b=b, setup=setup: expect_canon(rep, key, src, st, is_bytes(b), L.bytes_lit(b), setup))
            steps.append("base64_encode(bb)")
            checks.append(lambda st, b64s=b64s, setup=setup: expect_text(rep, "base64_encode", "base64_encode(bb)", st, cps(b64s), setup))
            steps.append("utf8_decode(bb)")
            if c["utf8"] == "ok":
                s = text_of(c["s"])
                checks.append(lambda st, s=s, setup=setup: expect_canon(rep, "utf8_decode:valid-utf8", "utf8_decode(bb)", st, is_str(s), repr(s), setup))
                steps.append("utf8_encode(utf8_decode(bb))")
                checks.append(lambda st, b=b, setup=setup: expect_canon(rep, "utf8_encode", "utf8_encode(utf8_decode(bb))", st, is_bytes(b), L.bytes_lit(b), setup))
            else:
                def chk(st, setup=setup):
                    if st.get("o") != "throw":
                        rep.mismatch("utf8_decode:invalid-utf8:%s" % L.what(st) if st.get("o") != "ok" else "utf8_decode:invalid-utf8:accepted",
                                     "utf8_decode(bb) on an invalid sequence gives %s; specification: error" % json.dumps(st)[:200],
                                     {"steps": setup + ["utf8_decode(bb)"], "expected": "throw", "observed": st})
                checks.append(chk)
            add(steps, checks)
        elif k == "cp":
            cpl = c["cps"]
            if len(cpl) == 1:
                n = cpl[0]
                src = "chr(%s)" % L.int_src(n, "S")
                if c["valid"]:
                    s = chr(n)
                    steps = [src, "ord(%s)" % src, "utf8_encode(%s)" % src, "utf8_decode(%s)" % L.bytes_lit(c["enc"])]
                    checks = [lambda st, src=src, s=s: expect_canon(rep, "chr:scalar", src, st, is_str(s), repr(s)),
                              lambda st, src=src, n=n: expect_canon(rep, "ord(chr)", "ord(%s)" % src, st, is_int(n), str(n)),
                              lambda st, src=src, e=c["enc"]: expect_canon(rep, "utf8_encode", "utf8_encode(%s)" % src, st, is_bytes(e), L.bytes_lit(e)),
                              lambda st, e=c["enc"], s=s: expect_canon(rep, "utf8_decode:valid-utf8", "utf8_decode(%s)" % L.bytes_lit(e), st, is_str(s), repr(s))]
                else:
                    def chk(st, src=src):
                        if st.get("o") != "throw":
                            rep.mismatch("chr:non-scalar:%s" % ("accepted" if st.get("o") == "ok" else L.what(st)),
                                         "%s gives %s; specification: error (not a Unicode scalar value)" % (src, json.dumps(st)[:200]),
                                         {"steps": [src], "expected": "throw", "observed": st})
                    steps, checks = [src], [chk]
                add(steps, checks)
            else:
                s = text_of(cpl)
                src = "utf8_encode(%s)" % L.str_lit(s)
                add([src, "utf8_decode(%s)" % L.bytes_lit(c["enc"]), "ord(%s)" % L.str_lit(s)],
                    [lambda st, src=src, e=c["enc"]: expect_canon(rep, "utf8_encode", src, st, is_bytes(e), L.bytes_lit(e)),
                     lambda st, e=c["enc"], s=s: expect_canon(rep, "utf8_decode:valid-utf8", "utf8_decode(%s)" % L.bytes_lit(e), st, is_str(s), repr(s)),
                     lambda st, s=s: None if st.get("o") == "throw" else rep.mismatch(
                         "ord:two-chars:%s" % ("accepted" if st.get("o") == "ok" else L.what(st)), "ord of a two character string gives %s" % json.dumps(st)[:200],
                         {"steps": ["ord(%s)" % L.str_lit(s)], "expected": "throw", "observed": st})])
        elif k in ("radix", "fmt"):
            n = nv.from_tla_int(c["n"])
            by_n.setdefault(n, {"radix": [], "fmt": []})[k].append(c)
        elif k == "rat":
            s = text_of(c["s"])
            src = "rational(%s)" % L.str_lit(s)
            r = c["r"]

            def chk(st, src=src, r=r, s=s):
                if r["out"] == "unspec":
                    if st.get("o") not in ("ok", "throw"):
                        rep.mismatch("rational:%s:%s" % (rat_shape(s), L.what(st)), "%s -> %s" % (src, L.what(st)), {"steps": [src], "observed": st})
                    return
                if r["out"] == "throw":
                    if st.get("o") != "throw":
                        rep.mismatch("rational:%s:%s" % (rat_shape(s), "accepted" if st.get("o") == "ok" else L.what(st)),
                                     "%s gives %s; specification: error" % (src, json.dumps(st.get("v", st.get("e")))[:200]),
                                     {"steps": [src], "expected": "throw", "observed": st})
                    return
                n, d = nv.from_tla_int(r["n"]), nv.from_tla_int({"s": 1, "m": r["d"]})
                o = L.obs_rat(st)
                ok = o.get("out") == "ok" and o.get("t") == "rat" and nv.from_tla_int(o["n"]) == n and nv.from_tla_int({"s": 1, "m": o["d"]}) == d
                if not ok:
                    rep.mismatch("rational:%s:%s" % (rat_shape(s), L.what(st)),
                                 "%s gives %s; the text denotes %d/%d" % (src, json.dumps(st.get("v", st.get("e")))[:200], n, d),
                                 {"steps": [src], "expected": "%d/%d" % (n, d), "observed": st})
            add([src], [chk])
        elif k == "json":
            v = c["v"]
            tsrc = text_of(c["text"])
            lit = L.spec_src(v)
            setup = ["vv := " + lit]
            steps = [setup[0], "vv", "json_decode(json_encode(vv))", "json_decode(%s)" % L.str_lit(tsrc), "eval(%s)" % L.str_lit(tsrc),
                     "eval(repr(vv))", "eval(json_encode(vv))"]
            names = [None, "literal", "json_decode(json_encode)", "json_decode:spec-text", "json text as literal", "eval(repr)", "json_encode as literal"]

            def mk(name, src, v=v, setup=setup):
                def chk(st):
                    got = L.canon_spec(st["v"]) if st.get("o") == "ok" else None
                    if got is None or not L.same_value(got, v):
                        rep.mismatch("json:%s:%s:%s" % (name, diff_kind(got, v) if got is not None else "text", L.what(st)),
                                     "%s (vv = %s) gives %s" % (src, setup[0][6:200], json.dumps(st.get("v", st.get("e")), ensure_ascii=False)[:200]),
                                     {"steps": setup + [src], "expected": v, "observed": st})
                return chk
            add(steps, [None] + [mk(names[i], steps[i]) for i in range(1, len(steps))])
    # integers: one case per value, in both representations
    for n, d in sorted(by_n.items()):
        for rp in ("S", "B"):
            if rp == "S" and not (-2 ** 63 <= n < 2 ** 63):
                continue
            setup = ["nn := " + L.int_src(n, rp)]
            steps = [setup[0], "is_big(nn)"]
            checks = [None, lambda st, rp=rp, setup=setup: None if (st.get("o") == "ok" and (st["v"].get("v") == "1") == (rp == "B")) else
                      rep.mismatch("binding:rep", "operand not in the intended representation", {"steps": setup + ["is_big(nn)"], "observed": st})]
            for c in d["radix"]:
                b, s = c["b"], text_of(c["s"])
                src = "str_radix(nn, %d)" % b
                steps.append(src)
                checks.append(lambda st, src=src, s=s, n=n, rp=rp, setup=setup: expect_text(
                    rep, "str_radix:%s" % sign_class(n), src, st, cps(s), setup))
                if n >= 0 and rp == "S":
                    for txt, key in ((s, "int_radix"), (s.upper(), "int_radix:upper")):
                        src2 = "int_radix(%s, %d)" % (L.str_lit(txt), b)
                        steps.append(src2)
                        checks.append(lambda st, src2=src2, n=n, key=key: expect_canon(rep, key, src2, st, is_int(n), str(n)))
            for c in d["fmt"]:
                flag, s = c["flag"], text_of(c["s"])
                srcs = ['F"{nn #%s}"' % flag]
                if flag == "d":
                    srcs += ["str(nn)", "$(nn)", 'F"{nn}"']
                for src in srcs:
                    steps.append(src)
                    name = "fmt:#%s" % flag if src.startswith("F") and "#" in src else ("fmt:plain" if src.startswith("F") else src.split("(")[0])
                    checks.append(lambda st, src=src, s=s, n=n, rp=rp, name=name, setup=setup: expect_text(
                        rep, "%s:%s:%s" % (name, rp, sign_class(n)), src, st, cps(s), setup))
                if flag == "d":
                    steps.append("print(nn)")

                    def chk(st, s=s, n=n, rp=rp, setup=setup):
                        if st.get("o") != "ok" or st.get("out") != s + "\n":
                            rep.mismatch("print:%s:%s:%s" % (rp, sign_class(n), L.what(st)), "print(nn) wrote %r; specification: %r" % (st.get("out"), s + "\n"),
                                         {"steps": setup + ["print(nn)"], "expected": s + "\n", "observed": st})
                    checks.append(chk)
                    for src in ("int(str(nn))", "number(str(nn))", "int(%s)" % L.str_lit(s)):
                        steps.append(src)
                        checks.append(lambda st, src=src, n=n, rp=rp, setup=setup: expect_canon(
                            rep, "%s:%s:%s" % (src.split("(")[0] + "(str)", rp, sign_class(n)), src, st, is_int(n), str(n), setup))
            add(steps, checks)
    res = run_cases(cases)
    nontrivial = 0
    for c, checks in zip(cases, plan):
        sts = res[c["id"]]
        for j, chk in enumerate(checks):
            if chk is None:
                continue
            evals += 1
            st = sts[j] if j < len(sts) else {"o": "skipped"}
            chk(st)
    for c in mc:
        if c["kind"] in ("bytes", "cp", "rat", "json") or nv.from_tla_int(c["n"]) < 0 or abs(nv.from_tla_int(c["n"])) >= 2 ** 31:
            nontrivial += 1
    return len(mc), evals, nontrivial


# ----------------------------------------------------------------------------- (b) driver
def rand_string(rng, printable):
    pools = [list(range(32, 127)), list(range(0xa1, 0x100)), [0x3b1, 0x416, 0x5d0, 0x4e2d, 0x3042, 0xfffd, 0xe000, 0xd7ff],
             [0x10000, 0x1f409, 0x1f600, 0x2000b, 0x10ffff], [34, 39, 92, 47, 123, 125, 36]]
    if not printable:
        pools.append([0, 1, 7, 8, 9, 10, 12, 13, 27, 31, 127, 0x80, 0x9f, 0x2028, 0xfeff, 0x200b])
    k = rng.choice([0, 1, 1, 2, 3, 5, 9])
    out = []
    for _ in range(k):
        c = rng.choice(rng.choice(pools))
        if printable and (c == 0xad):
            c = 0xe9
        out.append(chr(c))
    return "".join(out)


def rand_float(rng, tier):
    r = rng.random()
    if r < 0.3:
        return rng.choice([0.0, -0.0, 1.0, -1.0, 0.5, 1.5, 0.1, 0.2, 0.3, 1e21, 1e22, 1e-7, 123456.789, 2.0 ** 53, 2.0 ** 63, -2.0 ** 63, 1e15, 1e16, 1e17])
    if r < 0.6:
        return round(rng.uniform(-1000, 1000), rng.choice([0, 1, 2, 5]))
    m = rng.getrandbits(53) / 2.0 ** 53
    e = rng.randint(-40, 40) if tier == "quick" or rng.random() < 0.9 else rng.choice([-300, -320, 300, 308])
    x = math.ldexp(m, 0) * 10.0 ** e
    return -x if rng.random() < 0.4 else x


def rand_value(rng, tier, depth, printable):
    r = rng.random()
    if depth <= 0 or r < 0.55:
        t = rng.random()
        if t < 0.12:
            return None
        if t < 0.45:
            return rng.choice([0, 1, -1, 7, 255, -256, 2 ** 31, -2 ** 31, 2 ** 53 + 1, 2 ** 63 - 1, -2 ** 63, rng.randint(-10 ** 6, 10 ** 6),
                               rng.randint(-2 ** 63, 2 ** 63 - 1)])
        if t < 0.7:
            return rand_float(rng, tier)
        return rand_string(rng, printable)
    if r < 0.8:
        return [rand_value(rng, tier, depth - 1, printable) for _ in range(rng.choice([0, 1, 2, 3]))]
    d = {}
    for _ in range(rng.choice([0, 1, 2, 3])):
        d[rand_string(rng, printable)] = rand_value(rng, tier, depth - 1, printable)
    return d


def shape_of(v):
    s = set()

    def walk(x):
        if x is None:
            s.add("null")
        elif isinstance(x, int):
            s.add("int")
        elif isinstance(x, float):
            s.add("float")
        elif isinstance(x, str):
            s.add("str")
        elif isinstance(x, list):
            s.add("list")
            for y in x:
                walk(y)
        else:
            s.add("dict")
            for k, y in x.items():
                walk(y)
    walk(v)
    return "+".join(sorted(s))


def rand_decimal(rng):
    sg = rng.choice(["", "", "-", "-", "+"])
    ip = rng.choice(["0", "1", "7", "12", "007", "123456789012345678901234567890", "", "000", str(rng.randint(0, 10 ** 6))])
    form = rng.choice(["int", "dot", "dot", "dote", "e"])
    fp = rng.choice(["", "5", "05", "25", "125", "000", "999999999999999999999", str(rng.randint(0, 10 ** 5))])
    ex = rng.choice(["0", "1", "3", "-2", "+4", "-10", "25", "007", "-007"])
    if form == "int":
        body = ip or "0"
    elif form == "dot":
        body = ip + "." + fp
    elif form == "dote":
        body = ip + "." + fp + rng.choice("eE") + ex
    else:
        body = (ip or "1") + rng.choice("eE") + ex
    if body.startswith(".") and sg:
        body = "0" + body          # a sign directly followed by the point is left open by the property
    if body == ".":
        body = "0."
    return sg + body


def drive(rep, tier, seed, wd):
    rng = random.Random(seed)
    q = tier == "quick"
    cases, metas = [], []

    def add(steps, meta):
        cases.append({"id": len(cases), "steps": [{"src": s} for s in steps]})
        metas.append(meta)

    # integers in both representations
    ints = [0, 1, -1, 9, 10, -10, 15, 16, 255, -255, 256, -256, 2 ** 31 - 1, -2 ** 31, 2 ** 63 - 1, -2 ** 63, 2 ** 63, -2 ** 63 - 1, 2 ** 64, -2 ** 64,
            10 ** 18, -10 ** 19]
    for _ in range(160 if q else 1200):
        ints.append(numgen_int(rng, tier))
    bi = 0
    for n in ints:
        for rp in ("S", "B"):
            if rp == "S" and not (-2 ** 63 <= n < 2 ** 63):
                continue
            setup = "nn := " + L.int_src(n, rp)
            steps = [setup, "is_big(nn)", "str(nn)", "$(nn)", "print(nn)", 'F"{nn}"', 'F"{nn #d}"', 'F"{nn #x}"', 'F"{nn #X}"', 'F"{nn #b}"',
                     'F"{nn #o}"', "int(str(nn))", "number(str(nn))"]
            add(steps, {"ev": "int", "n": n, "rep": rp})
            bases = list(range(2, 37)) if (not q or n in (0, 255, -255, 2 ** 64)) else [2 + (bi + 6 * k) % 35 for k in range(6)]
            bi += 1
            st2 = [setup]
            for b in bases:
                st2 += ["str_radix(nn, %d)" % b, "int_radix(str_radix(nn, %d), %d)" % (b, b)]
            add(st2, {"ev": "radix", "n": n, "rep": rp, "bases": bases})
    # int_radix / int() on arbitrary digit strings
    for _ in range(400 if q else 3000):
        b = rng.randint(2, 36)
        k = rng.choice([1, 1, 2, 5, 12, 40])
        alpha = "0123456789abcdefghijklmnopqrstuvwxyz"[:b]
        s = "".join(rng.choice(alpha) for _ in range(k))
        r = rng.random()
        if r < 0.3:
            s = s.upper()
        elif r < 0.45:
            s = "".join(c.upper() if rng.random() < 0.5 else c for c in s)
        elif r < 0.6:
            pos = rng.randrange(len(s) + 1)
            s = s[:pos] + rng.choice("0123456789abcdefghijklmnopqrstuvwxyz"[b:] + "-+ _.é٣") + s[pos:]
        add(["int_radix(%s, %d)" % (L.str_lit(s), b)], {"ev": "iradix", "s": s, "b": b})
    for _ in range(200 if q else 1500):
        sg = rng.choice(["", "", "-", "+", "--", " "])
        body = rng.choice(["0", "7", "007", "12345678901234567890123", str(rng.randint(0, 10 ** 9)), "", "1.0", "1e3", "12a", "٣"])
        s = sg + body
        add(["int(%s)" % L.str_lit(s)], {"ev": "ipars", "s": s})
    # rational(text)
    rats = ["-0.5", "-1.5", "0.5", "1.5", "-0.25", "-12.75", "-0.0", "-00.125", "-1.5e2", "-1.5e-2", "-2.5/2", "1.5/-2.5", "-1.5/-0.5", " -3/4 ", "3 / 4",
            "+1.5", "1.", ".5", "0.", "1e0", "1E3", "1e+3", "1e-3", "10/4", "0/5", "5/0", "1.5/0.0", "", " ", ".", "1..2", "1e", "e5", "1e1.5", "1/2/3",
            "abc", "-", "+", "1 2", "0x10", "1,5", "١"]
    for _ in range(600 if q else 4000):
        if rng.random() < 0.75:
            rats.append(rand_decimal(rng))
        else:
            rats.append(rand_decimal(rng) + rng.choice(["/", " / ", "/ "]) + rand_decimal(rng))
    for s in dict.fromkeys(rats):
        add(["rational(%s)" % L.str_lit(s)], {"ev": "rat", "s": s})
    # byte strings
    bss = [[], [0], [255], [0, 0, 0], [255, 255, 255], list(range(256)), [0xc3, 0xa9], [0xf0, 0x9f, 0x90, 0x89], [0xed, 0xa0, 0x80], [0xc0, 0x80],
           [0xf4, 0x90, 0x80, 0x80], [0xe2, 0x82], [0x80]]
    for _ in range(400 if q else 3000):
        k = rng.choice([1, 2, 3, 4, 5, 7, 16, 33, 100])
        if rng.random() < 0.4:
            b = list(rand_string(rng, False).encode("utf-8"))[:k * 4] or [65]
            if rng.random() < 0.3 and b:
                b[rng.randrange(len(b))] = rng.randrange(256)
        else:
            b = [rng.randrange(256) for _ in range(k)]
        bss.append(b)
    for b in bss:
        add(["bb := " + L.bytes_lit(b), "hex_encode(bb)", "hex_decode(hex_encode(bb))", "base64_encode(bb)", "base64_decode(base64_encode(bb))",
             "utf8_decode(bb)", "utf8_encode(utf8_decode(bb))", "decompress(compress(bb))"], {"ev": "bytes", "b": b})
    # bulk payloads: pseudo-random (incompressible) / repetitive bytes of 5 kB .. 200 kB built inside the
    # interpreter - block boundaries of the codecs' buffers; only [round trip equals payload, length] is logged
    for n_, mul in ([(5000, 75), (40000, 75), (70000, 1), (100000, 75)] if q else
                    [(5000, 75), (33000, 75), (40000, 1), (66000, 75), (100000, 75), (131072, 75), (200000, 75), (200000, 1)]):
        gen = ("bb := (xx := %d; bytes(for (ii <- 1 to %d) yield (xx = (xx * %d + 74) %% 65537; xx %% %d)))"
               % (rng.randrange(1, 60000), n_, mul, 256 if mul != 1 else 7))
        pair = lambda enc, dec: "(\\rr -> [(if (rr == bb) 1 else 0), len(rr)])(%s(%s(bb)))" % (dec, enc)
        add([gen, "len(bb)", pair("hex_encode", "hex_decode"), pair("base64_encode", "base64_decode"), pair("compress", "decompress")],
            {"ev": "bulk", "n": n_})
    # decoding of arbitrary text
    for _ in range(300 if q else 2500):
        k = rng.choice([0, 1, 2, 3, 4, 6, 8, 20])
        s = "".join(rng.choice("0123456789abcdefABCDEF") for _ in range(k))
        if rng.random() < 0.3 and s:
            pos = rng.randrange(len(s))
            s = s[:pos] + rng.choice("gGxz -+é") + s[pos + 1:]
        add(["hex_decode(%s)" % L.str_lit(s)], {"ev": "hexdec", "s": s})
        alpha = "ABCDEFGHIJKLMNOPQRSTUVWXYZabcdefghijklmnopqrstuvwxyz0123456789+/"
        k = rng.choice([0, 2, 3, 4, 4, 8, 12, 7])
        t = "".join(rng.choice(alpha) for _ in range(k))
        r = rng.random()
        if r < 0.35 and len(t) >= 2:
            t = t[:-1] + "="
        elif r < 0.6 and len(t) >= 2:
            t = t[:-2] + "=="
        elif r < 0.75 and t:
            pos = rng.randrange(len(t))
            t = t[:pos] + rng.choice("-_ .é=") + t[pos + 1:]
        add(["base64_decode(%s)" % L.str_lit(t)], {"ev": "b64dec", "s": t})
    # Unicode strings, chr / ord
    strs = ["", "a", "é", "🐉", "a🐉é\u0000", "퟿", "\U0010ffff", "߿ࠀ￿\U00010000"]
    for _ in range(300 if q else 2500):
        strs.append(rand_string(rng, False))
    for s in dict.fromkeys(strs):
        sl = L.str_lit(s)
        add(["ss := " + sl, "utf8_encode(ss)", "utf8_decode(utf8_encode(ss))", "ss map ord", "(ss map ord map chr) join \"\""],
            {"ev": "str", "s": s})
    for n in [0, 65, 127, 128, 0x7ff, 0x800, 0xd7ff, 0xd800, 0xdbff, 0xdc00, 0xdfff, 0xe000, 0xffff, 0x10000, 0x10ffff, 0x110000, -1, -65, 2 ** 31, 2 ** 32 + 65,
              2 ** 64 + 65, -2 ** 63] + [rng.randint(0, 0x10ffff) for _ in range(120 if q else 800)]:
        for rp in ("S", "B"):
            src = "chr(%s)" % L.int_src(n, rp)
            add([src, "ord(%s)" % src], {"ev": "chr", "n": n, "rep": rp})
    # JSON-shaped values
    for i in range(600 if q else 4000):
        printable = rng.random() < 0.7
        v = rand_value(rng, tier, rng.choice([0, 1, 2, 3]), printable)
        # a third of the values carry their integers in big representation
        big = (lambda n: True) if i % 3 == 2 else None
        add(["vv := " + L.value_src(v, big), "vv", "json_encode(vv)", "json_decode(json_encode(vv))", "eval(json_encode(vv))", "repr(vv)", "eval(repr(vv))"],
            {"ev": "json", "v": v, "printable": printable})
    res = run_cases(cases)
    events, infos = [], []
    evals = 0
    for c, m in zip(cases, metas):
        sts = res[c["id"]]
        sts = sts + [{"o": "skipped"}] * (len(c["steps"]) - len(sts))
        srcs = [s["src"] for s in c["steps"]]
        evals += len(srcs)
        k = m["ev"]
        if k == "int":
            n = m["n"]
            if not binding_ok(rep, srcs, sts, n, m["rep"]):
                continue
            e = {"ev": "int", "n": nv.tla_int(n), "str": L.obs_text(sts[2]), "dollar": L.obs_text(sts[3]), "pr": L.obs_printed(sts[4]),
                 "f": L.obs_text(sts[5]), "fd": L.obs_text(sts[6]), "fx": L.obs_text(sts[7]), "fX": L.obs_text(sts[8]), "fb": L.obs_text(sts[9]),
                 "fo": L.obs_text(sts[10]), "back": L.obs_int(sts[11]), "nback": L.obs_int(sts[12])}
            events.append(e)
            infos.append({"m": m, "srcs": srcs, "sts": sts, "cls": "%s:%s" % (m["rep"], sign_class(n)),
                          "idx": {"str": 2, "$": 3, "print": 4, "F{}": 5, "F{#d}": 6, "F{#x}": 7, "F{#X}": 8, "F{#b}": 9, "F{#o}": 10,
                                  "int(str)": 11, "number(str)": 12}})
        elif k == "radix":
            n = m["n"]
            for j, b in enumerate(m["bases"]):
                e = {"ev": "radix", "n": nv.tla_int(n), "b": b, "s": L.obs_text(sts[1 + 2 * j]), "back": L.obs_int(sts[2 + 2 * j])}
                events.append(e)
                infos.append({"m": m, "srcs": [srcs[0], srcs[1 + 2 * j], srcs[2 + 2 * j]], "sts": [sts[0], sts[1 + 2 * j], sts[2 + 2 * j]],
                              "cls": "%s:%s" % (m["rep"], sign_class(n)), "idx": {"str_radix": 1, "int_radix(str_radix)": 2}})
        elif k in ("iradix", "ipars"):
            e = {"ev": k, "s": cps(m["s"]), "r": L.obs_int(sts[0])}
            if k == "iradix":
                e["b"] = m["b"]
            events.append(e)
            infos.append({"m": m, "srcs": srcs, "sts": sts, "cls": "text", "idx": {}})
        elif k == "rat":
            events.append({"ev": "rat", "s": cps(m["s"]), "r": L.obs_rat(sts[0])})
            infos.append({"m": m, "srcs": srcs, "sts": sts, "cls": rat_shape(m["s"]), "idx": {}})
        elif k == "bytes":
            e = {"ev": "bytes", "b": m["b"], "hex": L.obs_text(sts[1]), "hexdec": L.obs_bytes(sts[2]), "b64": L.obs_text(sts[3]),
                 "b64dec": L.obs_bytes(sts[4]), "u8": L.obs_text(sts[5]), "u8enc": L.obs_bytes(sts[6]), "gz": L.obs_bytes(sts[7])}
            events.append(e)
            infos.append({"m": m, "srcs": srcs, "sts": sts, "cls": "bytes",
                          "idx": {"hex_encode": 1, "hex_decode(hex_encode)": 2, "base64_encode": 3, "base64_decode(base64_encode)": 4,
                                  "utf8_decode": 5, "utf8_encode(utf8_decode)": 6, "decompress(compress)": 7}})
        elif k == "bulk":
            pr = lambda st: [int(x["v"]) for x in st["v"]["v"]] if st.get("o") == "ok" and st.get("v", {}).get("t") == "list" else [0, -1]
            if not (sts[1].get("o") == "ok" and sts[1]["v"].get("v") == str(m["n"])):
                nv.tool_fail("bulk payload was not built: %s" % json.dumps(sts[:2])[:300])
            events.append({"ev": "bulk", "n": m["n"], "hex": pr(sts[2]), "b64": pr(sts[3]), "gz": pr(sts[4])})
            infos.append({"m": m, "srcs": srcs, "sts": sts, "cls": "bulk",
                          "idx": {"bulk hex_decode(hex_encode)": 2, "bulk base64_decode(base64_encode)": 3,
                                  "bulk decompress(compress)": 4}})
        elif k in ("hexdec", "b64dec"):
            events.append({"ev": k, "s": cps(m["s"]), "r": L.obs_bytes(sts[0])})
            infos.append({"m": m, "srcs": srcs, "sts": sts, "cls": "text", "idx": {}})
        elif k == "str":
            e = {"ev": "str", "s": cps(m["s"]), "enc": L.obs_bytes(sts[1]), "dec": L.obs_text(sts[2]), "ords": L.obs_intlist(sts[3]), "chrs": L.obs_text(sts[4])}
            events.append(e)
            infos.append({"m": m, "srcs": srcs, "sts": sts, "cls": "str", "idx": {"utf8_encode": 1, "utf8_decode(utf8_encode)": 2, "ord": 3, "chr(ord)": 4}})
        elif k == "chr":
            events.append({"ev": "chr", "n": nv.tla_int(m["n"]), "r": L.obs_text(sts[0]), "back": L.obs_int(sts[1])})
            infos.append({"m": m, "srcs": srcs, "sts": sts, "cls": m["rep"], "idx": {"chr": 0, "ord(chr)": 1}})
        elif k == "json":
            v = L.value_spec(m["v"])
            got = L.canon_spec(sts[1]["v"]) if sts[1].get("o") == "ok" else None
            if got is None or not L.same_value(got, v):
                rep.mismatch("json:literal:%s:%s" % (shape_of(m["v"]), L.what(sts[1])), "the literal %s evaluates to %s" % (srcs[0][6:200], json.dumps(sts[1])[:200]),
                             {"steps": srcs[:2], "expected": v, "observed": sts[1]})
                continue
            e = {"ev": "json", "v": v, "jt": L.obs_text(sts[2]), "jd": L.obs_value(sts[3]), "je": L.obs_value(sts[4]), "rt": L.obs_text(sts[5]),
                 "re": L.obs_value(sts[6])}
            events.append(e)
            infos.append({"m": m, "srcs": srcs, "sts": sts, "cls": shape_of(m["v"]),
                          "idx": {"json_encode": 2, "json_decode(json_encode)": 3, "json text as literal": 4, "repr": 5, "eval(repr)": 6}})
    mism, n = nv.validate_trace("Trace_Codec", events, wd, chunk=220 if q else 500, timeout=2400, par=max(2, nv.JOBS), xmx="2g")
    for i, exp in mism:
        info = infos[i]
        name = exp["what"]
        j = info["idx"].get(name, 0)
        st = info["sts"][j] if j < len(info["sts"]) else {"o": "skipped"}
        cls = info["cls"]
        if info["m"]["ev"] == "json":
            got = L.canon_spec(st["v"]) if st.get("o") == "ok" and isinstance(st.get("v"), dict) else None
            cls = diff_kind(got, events[i]["v"]) if got is not None and name not in ("json_encode", "repr") else "text"
        elif name.startswith("str_radix") or name.startswith("int_radix"):
            cls = cls.split(":")[-1]
        key = "%s:%s:%s" % (KEY_NAMES.get(name, name), cls, L.what(st))
        want = exp.get("want")
        rep.mismatch(key, "%s%s gives %s; specification: %s" % (
            info["srcs"][j] if j < len(info["srcs"]) else name, (" (" + info["srcs"][0] + ")") if j > 0 else "",
            json.dumps(st.get("v", st.get("e")), ensure_ascii=False)[:200],
            repr(text_of(want))[:200] if isinstance(want, list) and want and all(isinstance(x, int) for x in want) else "(see the replay file)"),
            {"steps": info["srcs"][:1] + ([info["srcs"][j]] if j > 0 else []), "check": name, "expected": want, "observed": st, "event": events[i]})
    nontrivial = set()
    for e, info in zip(events, infos):
        m = info["m"]
        if m["ev"] in ("int", "radix", "chr"):
            if m.get("rep") == "B" or m["n"] < 0 or abs(m["n"]) >= 2 ** 31:
                nontrivial.add((m["ev"], m["n"], m.get("rep"), e.get("b")))
        else:
            nontrivial.add((m["ev"], json.dumps(m.get("s", m.get("b", m.get("v"))), sort_keys=True, default=str)))
    bykind = {}
    for e in events:
        bykind[e["ev"]] = bykind.get(e["ev"], 0) + 1
    for want_kind in ("json", "rat", "radix"):
        for e, info in zip(events, infos):
            if e["ev"] == want_kind:
                rep.sample({"event": want_kind, "steps": info["srcs"][:4], "observed": [s.get("v", s.get("e")) for s in info["sts"][:4]]})
                break
    return n, len(nontrivial), bykind, evals


KEY_NAMES = {"F{#x}": "fmt:#x", "F{#X}": "fmt:#X", "F{#b}": "fmt:#b", "F{#o}": "fmt:#o", "F{#d}": "fmt:#d", "F{}": "fmt:plain",
             "rational(text)": "rational", "json_encode": "json:json_encode", "json_decode(json_encode)": "json:json_decode(json_encode)",
             "json text as literal": "json:json text as literal", "repr": "json:repr", "eval(repr)": "json:eval(repr)"}


def diff_kind(a, b):
    """type of the first leaf at which two value records differ (for mismatch keys)"""
    if a.get("t") != b.get("t"):
        return "%s-for-%s" % (a.get("t"), b.get("t"))
    t = a["t"]
    if t == "list":
        if len(a["v"]) != len(b["v"]):
            return "list-length"
        for x, y in zip(a["v"], b["v"]):
            if not L.same_value(x, y):
                return diff_kind(x, y)
        return "same"
    if t == "dict":
        db = {tuple(k): x for k, x in b["v"]}
        if len(a["v"]) != len(b["v"]) or any(tuple(k) not in db for k, _ in a["v"]):
            return "dict-keys"
        for k, x in a["v"]:
            if not L.same_value(x, db[tuple(k)]):
                return diff_kind(x, db[tuple(k)])
        return "same"
    return t if a != b else "same"


def binding_ok(rep, srcs, sts, n, rp):
    st = sts[1]
    ok = st.get("o") == "ok" and (st["v"].get("v") == "1") == (rp == "B")
    if not ok:
        rep.mismatch("binding:rep", "operand not in the intended representation", {"steps": srcs[:2], "observed": st})
    return ok


def numgen_int(rng, tier):
    import numgen
    n = numgen.random_int(rng, tier)
    if abs(n) >= 2 ** 400:
        n = n >> (abs(n).bit_length() - 300) if n > 0 else -((-n) >> ((-n).bit_length() - 300))
    return n


def run(tier):
    seed = nv.seed()
    rep = nv.Report("C16", tier, seed, "model_checking")
    wd = nv.work_dir("C16")
    nv.build_harness()
    t0 = time.time()
    mc, states = run_mc(rep, tier, wd)
    t1 = time.time()
    replayed, mc_evals, mc_nontrivial = replay_mc(rep, mc)
    t2 = time.time()
    n, nontrivial, bykind, evals = drive(rep, tier, seed, wd)
    print("C16 %s: model checking %.0fs (%d cases), replay %.0fs, driver + trace validation %.0fs (%d events)" % (
        tier, t1 - t0, len(mc), t2 - t1, time.time() - t2, n), flush=True)
    for c in mc[:1] + [x for x in mc if x["kind"] == "json"][5:6]:
        rep.sample({"mc_case": {k: v for k, v in c.items() if k != "law"}})
    shutil.rmtree(wd, ignore_errors=True)
    rep.assumptions.append("gzip is opaque: only decompress(compress(b)) = b over logged pairs")
    rep.assumptions.append("left open (any non-crashing outcome accepted): int_radix of the empty string, text with '_' separators, "
                           "a sign directly followed by the decimal point, exponents beyond +-9999, base64 text that is not "
                           "canonically padded")
    bymc = {}
    for c in mc:
        bymc[c["kind"]] = bymc.get(c["kind"], 0) + 1
    return rep.finish({
        "states": states, "transitions": len(mc),
        "traces_validated_against_impl": replayed + n,
        "evaluations": mc_evals + evals,
        "distinct_nontrivial": mc_nontrivial + nontrivial,
        "rule": "MC: one case per (function group, argument); trace: one event per argument tuple; non-trivial = every byte / text / "
                "JSON case, and integer cases whose value is negative, beyond 2^31 in magnitude or held in big representation",
        "mc_invariants": ["Laws"], "mc_cases": bymc, "mc_replayed": replayed, "trace_events": n, "trace_events_by_kind": bykind,
        "checker_cmd": "tlc MC_Codec.tla (laws as invariants, every case replayed) + tlc Trace_Codec.tla (trace validation)",
        "trusted_base": ["TLC", "CommunityModules Json/IOUtils", "lib/BigNum (self-checked by MC_BigNum)", "Lexer.tla (bound by C15)",
                         "num-bigint decimal rendering", "harness canonical projection"],
    })
