"""C08 - numeric equality and ordering are exact and coherent across types.

(a) MC_Tower (Mode = order): TLC evaluates == != < <= > >= <=> >=< min max on every pair of a pool
    mixing integers around 2^53 / 2^63 and far beyond, fractions next to floats, floats incl. +-0,
    +-inf, NaN and complex numbers, and chained comparisons on every triple of a sub-pool; it checks
    the order laws (trichotomy, == an equivalence, < transitive and compatible with ==, <=>
    antisymmetric, NaN comparisons are errors) as invariants of the specification and prints every
    case; each one is replayed in the real interpreter.
(b) Trace validation (Trace_Num): seeded driver - all pairs of a larger random pool through every
    comparison operator, lexicographic comparison of lists / vectors built from the pool, `sort`
    (the permutation produced must be THE stable sorting permutation), `min` / `max` of lists (first
    extremal element).
"""
import json
import random
import shutil

import nv
import towergen as tg
import towermc

CMP_OPS = ["==", "!=", "<", "<=", ">", ">=", "<=>", ">=<", "min", "max"]
SEQ_OPS = ["==", "!=", "<", "<=", ">", ">=", "<=>"]


def numrec(st):
    v = towermc.num_of_step(st)
    return nv.tla_num(v) if v is not None else {"k": "none"}


def random_pool(rng, n):
    out = list(tg.ORDER_POOL)
    n = max(n, len(out) + 8)
    while len(out) < n:
        r = rng.random()
        if r < 0.35:
            base = rng.choice([2 ** 53, 2 ** 63, 2 ** 63, 2 ** 64, 2 ** 62, 2 ** 31, 10 ** 20, 3, 2 ** 100])
            out.append(tg.c_int(rng.choice([1, -1]) * (base + rng.randint(-2, 2))))
        elif r < 0.6:
            x = tg.random_float(rng, finite=False)
            out.append(tg.c_float(x))
            # the exact rational value of a finite float, and its neighbours, as fractions
            if x == x and abs(x) != float("inf") and rng.random() < 0.7:
                from fractions import Fraction
                f = Fraction(x)
                if f.denominator == 1:
                    # an integral float: the equal integer and its two neighbours (where rounding lies)
                    out += [tg.c_int(f.numerator), tg.c_int(f.numerator - 1), tg.c_int(f.numerator + 1)]
                    continue
                out.append(tg.c_rat(f.numerator, f.denominator))
                eps = Fraction(1, 10 ** 40)
                g = f + rng.choice([eps, -eps])
                out.append(tg.c_rat(g.numerator, g.denominator))
        elif r < 0.9:
            e = tg.random_exact(rng, "quick")
            out.append(e)
        else:
            out.append(tg.c_complex(rng.choice([0.0, 1.0, -1.0, 2.5]), rng.choice([0.0, 1.0, -2.0])))
    return out[:n]


def perm_of(xs, ys):
    """positions (1-based) of the output elements in the input: equal canonical values are matched
    left to right (they are indistinguishable, so this loses nothing)"""
    used = [False] * len(xs)
    perm = []
    for y in ys:
        for i, x in enumerate(xs):
            if not used[i] and tg.same(x, y):
                used[i] = True
                perm.append(i + 1)
                break
        else:
            return None
    return perm


def drive(rep, tier, seed):
    rng = random.Random(seed + 8)
    npool = 34 if tier == "quick" else 90
    pool = random_pool(rng, npool)
    srcs = [tg.src_of(c) for c in pool]
    cases, plans = [], []
    # all pairs, all comparison operators
    for i in range(npool):
        for j in range(npool):
            steps = [{"src": "aa := " + srcs[i], "obs": ["aa"]}, {"src": "bb := " + srcs[j], "obs": ["bb"]}]
            plan = [("operand", pool[i]), ("operand", pool[j])]
            ops = CMP_OPS if tier == "thorough" or (i * 7 + j) % 3 == 0 else rng.sample(CMP_OPS, 4)
            for op in ops:
                steps.append({"src": "aa %s bb" % op})
                plan.append(("bin", op, pool[i], pool[j]))
            cases.append({"id": len(cases), "steps": steps})
            plans.append(plan)
    # sequences
    nseq = 250 if tier == "quick" else 2500
    small = [c for c in pool if c["t"] != "complex"]
    for _ in range(nseq):
        n1 = rng.randint(0, 4)
        xs = [rng.choice(small) for _ in range(n1)]
        r = rng.random()
        if r < 0.4:
            ys = list(xs)
            if ys and rng.random() < 0.7:
                k = rng.randrange(len(ys))
                ys[k] = rng.choice(small)
        elif r < 0.7:
            ys = xs[:rng.randint(0, len(xs))] + [rng.choice(small) for _ in range(rng.randint(0, 2))]
        else:
            ys = [rng.choice(small) for _ in range(rng.randint(0, 4))]
        kind = rng.choice(["list", "list", "vec"])
        def sq(v):
            body = ", ".join(tg.src_of(e) for e in v)
            return "[%s]" % body if kind == "list" else "V(%s)" % body
        steps, plan = [], []
        if rng.random() < 0.25:
            # one sequence OBJECT on both sides (a variable compared with itself or with its alias): the
            # answer is still the lexicographic one - with a NaN inside, `x == x` is false and `x < x` raises
            ys = list(xs)
            steps += [{"src": "sa := " + sq(xs)}, {"src": "sb := sa"}]
            plan += [("setup",), ("setup",)]
            lhs, rhs = "sa", rng.choice(["sa", "sb"])
        else:
            lhs, rhs = sq(xs), sq(ys)
        for op in SEQ_OPS:
            steps.append({"src": "(%s) %s (%s)" % (lhs, op, rhs)})
            plan.append(("seqcmp", op, xs, ys))
        cases.append({"id": len(cases), "steps": steps})
        plans.append(plan)
    # sort / min / max
    nsort = 200 if tier == "quick" else 3000
    for _ in range(nsort):
        n = rng.randint(0, 9)
        base = [rng.choice(small) for _ in range(max(1, n // 2))]
        xs = [rng.choice(base + [rng.choice(small)]) for _ in range(n)]
        if rng.random() < 0.8:
            xs = [x for x in xs if not (x["t"] == "float" and tg.bits_float(x["bits"]) != tg.bits_float(x["bits"]))]
        lst = "[%s]" % ", ".join(tg.src_of(e) for e in xs)
        steps = [{"src": "xs := " + lst, "obs": ["xs"]}, {"src": "sort(xs)"}, {"src": "min(xs)"}, {"src": "max(xs)"},
                 {"src": "xs", "obs": []}]
        plan = [("list", xs), ("sort", xs), ("extremum", "min", xs), ("extremum", "max", xs), ("unchanged", xs)]
        cases.append({"id": len(cases), "steps": steps})
        plans.append(plan)

    res = nv.run_cases(cases, timeout_ms=10000)
    events, info = [], []
    for c, plan in zip(cases, plans):
        st = res[c["id"]]
        ok = True
        for idx, p in enumerate(plan):
            if idx >= len(st):
                break
            if p[0] == "operand":
                got = st[idx].get("obs", [None])[0] if st[idx].get("o") == "ok" else None
                if not tg.same(p[1], got):
                    ok = False
                    rep.mismatch("operand:%s:%s" % (p[1]["t"], st[idx].get("o")), "operand source did not evaluate to the intended number",
                                 {"steps": [c["steps"][idx]["src"]], "want": p[1], "observed": st[idx]})
            if p[0] == "list":
                got = st[idx].get("obs", [None])[0] if st[idx].get("o") == "ok" else None
                if not got or got.get("t") != "list" or len(got["v"]) != len(p[1]) or \
                        not all(tg.same(a, b) for a, b in zip(p[1], got["v"])):
                    ok = False
                    rep.mismatch("operand:list", "list literal did not evaluate to the intended numbers",
                                 {"steps": [c["steps"][idx]["src"]], "observed": st[idx]})
        if not ok:
            continue
        for idx, p in enumerate(plan):
            if idx >= len(st) or st[idx].get("o") == "skipped":
                break
            s = st[idx]
            src = c["steps"][idx]["src"]
            setup = [x["src"] for x in c["steps"][:idx] if ":=" in x["src"]]
            if p[0] == "bin":
                events.append({"ev": "bin", "op": p[1], "a": nv.tla_num(p[2]), "b": nv.tla_num(p[3]),
                               "out": s.get("o"), "r": numrec(s)})
                info.append(dict(kind="bin", op=p[1], kinds=p[2]["t"][0] + p[3]["t"][0], src=src, setup=setup, observed=s))
            elif p[0] == "seqcmp":
                events.append({"ev": "seqcmp", "op": p[1], "xs": [nv.tla_num(x) for x in p[2]],
                               "ys": [nv.tla_num(x) for x in p[3]], "out": s.get("o"), "r": numrec(s)})
                info.append(dict(kind="seqcmp", op=p[1], kinds="%d,%d" % (len(p[2]), len(p[3])), src=src, setup=setup, observed=s))
            elif p[0] == "sort":
                out = s.get("o")
                perm = []
                if out == "ok":
                    perm = perm_of(p[1], s["v"]["v"]) if s["v"].get("t") == "list" else None
                    if perm is None:
                        out, perm = "not-a-permutation", []
                events.append({"ev": "sort", "op": "sort", "xs": [nv.tla_num(x) for x in p[1]], "perm": perm, "out": out})
                info.append(dict(kind="sort", op="sort", kinds="n%d" % min(len(p[1]), 3), src=src, setup=setup, observed=s))
            elif p[0] == "extremum":
                events.append({"ev": "extremum", "op": p[1], "xs": [nv.tla_num(x) for x in p[2]],
                               "out": s.get("o"), "r": numrec(s)})
                info.append(dict(kind="extremum", op=p[1], kinds="n%d" % min(len(p[2]), 3), src=src, setup=setup, observed=s))
            elif p[0] == "unchanged":
                got = s.get("v") if s.get("o") == "ok" else None
                if not got or got.get("t") != "list" or len(got["v"]) != len(p[1]) or \
                        not all(tg.same(a, b) for a, b in zip(p[1], got["v"])):
                    rep.mismatch("sort:argument-changed", "sort/min/max changed the list bound to the variable",
                                 {"steps": [x["src"] for x in c["steps"]], "observed": s})
    return events, info, npool


def run(tier):
    seed = nv.seed()
    rep = nv.Report("C08", tier, seed, "model_checking")
    wd = nv.work_dir("C08")
    nv.build_harness()
    mc1 = towermc.run(rep, "C08", "order", tier, wd, tg.ORDER_POOL, cfg="MC_Tower_order_pairs.cfg")
    sub = tg.ORDER_POOL[:: 3] if tier == "quick" else tg.ORDER_POOL[:: 2] + [tg.ORDER_POOL[-1]]
    # make sure the sub-pool has the interesting neighbours: 2^53, 2^53+1, 2.0^53, 1/3, 0.333.., NaN, +-0
    want = [tg.c_int(2 ** 53), tg.c_int(2 ** 53 + 1), tg.c_float(2.0 ** 53), tg.c_rat(1, 3),
            tg.c_float(0.3333333333333333), tg.c_float(float("nan")), tg.c_float(0.0), tg.c_float(-0.0), tg.c_int(0)]
    for w in want:
        if not any(tg.same(w, x) for x in sub):
            sub.append(w)
    mc2 = towermc.run(rep, "C08", "order", tier, wd, sub, cfg="MC_Tower_order_triples.cfg")
    events, info, npool = drive(rep, tier, seed)
    mism, n = nv.validate_trace("Trace_Num", events, wd, chunk=400 if tier == "quick" else 1500)
    for idx, exp in mism:
        i = info[idx]
        o = i["observed"].get("o")
        what = "wrong-value" if o == "ok" else ("panic:" + nv.norm_panic(i["observed"].get("e", "")) if o == "panic" else o)
        key = "%s:%s:%s:%s" % (i["kind"], i["op"], i["kinds"], what)
        rep.mismatch(key, "%s  (%s): observed %s, specification expects %s" % (
            i["src"], "; ".join(i["setup"]), json.dumps(i["observed"].get("v", i["observed"].get("e")))[:200],
            json.dumps(exp)[:300]),
            {"steps": i["setup"] + [i["src"]], "expected": exp, "observed": i["observed"]})
    nontrivial = set()
    for i in info:
        if i["kind"] != "bin" or len(set(i["kinds"])) > 1:
            nontrivial.add((i["kind"], i["op"], i["src"], tuple(i["setup"])))
    for i in info[:2] + info[len(info) // 2: len(info) // 2 + 1] + info[-3:]:
        rep.sample({"setup": i["setup"], "expr": i["src"], "observed": i["observed"].get("v", i["observed"].get("o"))})
    shutil.rmtree(wd, ignore_errors=True)
    tr = mc1["transitions"] + mc2["transitions"]
    return rep.finish({
        "states": mc1["distinct"] + mc2["distinct"], "transitions": tr,
        "traces_validated_against_impl": tr + n, "evaluations": tr + n,
        "distinct_nontrivial": len(nontrivial) + mc1["nontrivial"] + mc2["nontrivial"],
        "rule": "MC: one case per (comparison operator, pair) of the %d-value pool and per (chained comparison, triple) "
                "of the %d-value sub-pool, non-trivial = operands of different kinds or a rational involved; trace: "
                "all pairs of a %d-value random pool, list/vector comparisons, sorts and extrema; non-trivial = "
                "cross-kind comparison or any sequence / sort / extremum event" % (len(tg.ORDER_POOL), len(sub), npool),
        "trace_events": n, "mc_invariants": ["OrderLaws"],
        "checker_cmd": "tlc MC_Tower.tla (Mode=order, pairs + triples, all cases replayed) + tlc Trace_Num.tla",
        "trusted_base": ["TLC", "CommunityModules Json/IOUtils/Bitwise", "lib/BigNum (self-checked)",
                         "num-bigint decimal rendering", "f64::to_bits", "harness canonical projection"],
    })
