"""C15 - lexing and parsing are total; number / string literals decode exactly.

(a) MC_Lexer: TLC feeds the lexer automaton of spec/Lexer.tla (modes x character classes) with every
    string up to a bound over a one-representative-per-class alphabet (four configurations: the
    full alphabet, two numeric-literal sub-alphabets behind digit prefixes, the string-literal
    sub-alphabet behind quote / escape prefixes), checks totality, progress and well-formedness
    as invariants, and prints one REPLAY line per string with the token list (kinds + decoded
    payloads), what follows for parse() and the value of a one-literal program.  Every line is
    replayed: lex() tokens must be equal, parse() must return ok / parse_error / empty as
    predicted, the literal must evaluate to the specified value.  A sample of the strings is
    re-concretised with other members of each class and judged by the trace validator.
(b) Trace_Lexer: a seeded driver produces token soups, character / token mutations of the
    programs of tests/test.rs and examples/*.noul, unbalanced delimiters, runaway comments and
    strings, very long literals, every literal value in every literal syntax, format strings and
    the class table itself; the recorded {text, tokens, parse outcome, value} events are validated
    against the specification's own lexer.
"""
import json
import os
import random
import shutil
import threading
import time

import nv
import c15lib
from c15lib import cps, text_of

LIT_KINDS = ("IntLit", "RatLit", "FloatLit", "ImaginaryFloatLit", "StringLit", "BytesLit", "FormatString")
CONFIGS = {"quick": ("full", "num", "num2", "str"), "thorough": ("fullx", "core", "num", "num2", "str")}
DEPTH = {"quick": 3000, "thorough": 10000}      # nesting depth of the delimiter / keyword towers


def tlc_env():
    import os
    return {"JAVA_TOOL_OPTIONS": "-Xss256m -XX:ParallelGCThreads=3 -DTLA-Library=%s" % os.path.join(nv.SPEC, "lib")}


# ----------------------------------------------------------------------------- harness batching
def run_batched(kind, srcs, batch=150, timeout_ms=20000):
    """one result per source text; a fatal outcome (timeout / abort, or a panic that kills an eval
    session) only costs the texts after it a second, individual run"""
    out = [None] * len(srcs)
    cases = []
    for b in range(0, len(srcs), batch):
        c = {"id": len(cases), "steps": [{"src": s} for s in srcs[b:b + batch]]}
        if kind != "eval":
            c["kind"] = kind
        cases.append(c)
    res = c15lib.run_cases(cases, timeout_ms=timeout_ms) if cases else {}
    redo = []
    for ci, c in enumerate(cases):
        steps = res[ci]
        base = ci * batch
        n = len(c["steps"])
        for j in range(n):
            st = steps[j] if j < len(steps) else None
            if st is None or st.get("o") in ("timeout", "abort", "skipped") or (
                    kind == "eval" and st.get("o") == "panic" and j + 1 < n):
                redo.extend(range(base + j, base + n))
                break
            out[base + j] = st
    if redo:
        cases2 = []
        for k, idx in enumerate(redo):
            c = {"id": k, "steps": [{"src": srcs[idx]}]}
            if kind != "eval":
                c["kind"] = kind
            cases2.append(c)
        res2 = c15lib.run_cases(cases2, timeout_ms=timeout_ms)
        for k, idx in enumerate(redo):
            out[idx] = res2[k][-1] if res2[k] else {"o": "abort"}
    return out


def outcome_key(st):
    o = st.get("o")
    if o == "panic":
        return "panic:" + nv.norm_panic(st.get("e", ""))
    return str(o)


def observe(texts):
    """lex + parse every text; evaluate the ones the implementation lexes to a single literal"""
    lexr = run_batched("lex", texts)
    parr = run_batched("parse", texts)
    ev_idx = []
    for i, st in enumerate(lexr):
        if st.get("o") == "ok":
            nc = [t for t in st["tokens"] if t["k"] != "Comment"]
            if len(nc) == 1 and nc[0]["k"] in LIT_KINDS and parr[i].get("o") == "ok":
                ev_idx.append(i)
    evr = run_batched("eval", [texts[i] for i in ev_idx], batch=60)
    evs = {i: r for i, r in zip(ev_idx, evr)}
    return lexr, parr, evs


def make_event(text, lex_st, par_st, ev_st, mode="full"):
    if mode == "protocol":
        return {"mode": mode, "text": [], "lexo": lex_st.get("o"), "toks": [], "parse": par_st.get("o"),
                "evo": "none", "val": {"t": "none"}}
    e = {"mode": mode, "text": cps(text), "lexo": lex_st.get("o"),
         "toks": [c15lib.spec_token(t) for t in lex_st.get("tokens", [])] if lex_st.get("o") == "ok" else [],
         "parse": par_st.get("o"), "evo": "none", "val": {"t": "none"}}
    if ev_st is not None:
        e["evo"] = ev_st.get("o")
        if ev_st.get("o") == "ok":
            e["val"] = c15lib.spec_value(ev_st["v"])
    return e


# ----------------------------------------------------------------------------- (a) bounded model
def run_mc(rep, tier, wd, rng):
    """runs the configurations concurrently; each one's strings are replayed as soon as it finishes and only
    a sample is kept (for the re-concretisation with other class members)"""
    results = {}
    lock = threading.Lock()
    tot = dict(states=0, trans=0, nontrivial=0, evals=0, n=0)
    sample = []
    per = {}

    def one(which):
        r = nv.run_tlc("MC_Lexer", "MC_Lexer_%s_%s.cfg" % (which, tier), wd, workers=4 if tier == "quick" else 5,
                       timeout=6000, env=tlc_env())
        results[which] = r
        if not r["ok"]:
            return
        strings = [json.loads(x) for x in r["tagged"].get("REPLAY", [])]
        r["tagged"] = {}
        with lock:          # one replay at a time: the harness already uses every core
            nt, ev = replay_mc(rep, strings)
            tot["states"] += r["distinct"]
            tot["trans"] += len(strings)
            tot["nontrivial"] += nt
            tot["evals"] += ev
            tot["n"] += len(strings)
            per[which] = len(strings)
            k = min(len(strings), 60000)
            sample.extend(s["text"] for s in rng.sample(strings, k))
            if which == CONFIGS[tier][0] and strings:
                s0 = strings[len(strings) // 3]
                rep.sample({"mc_string": text_of(s0["text"]), "tokens": s0["toks"], "parse": s0["pe"]})

    ths = [threading.Thread(target=one, args=(w,)) for w in CONFIGS[tier]]
    for t in ths:
        t.start()
    for t in ths:
        t.join()
    for w in CONFIGS[tier]:
        r = results[w]
        if not r["ok"]:
            if "is violated" in r["error"]:
                rep.mismatch("spec:MC_Lexer:%s:invariant" % w,
                             "TLC found an invariant violation in the specification itself", {"tlc": r["error"]})
            else:
                print(r["error"])
                print("\n".join(r["lines"][-30:]))
                nv.tool_fail("TLC failed on MC_Lexer (%s)" % w)
    if not tot["n"]:
        nv.tool_fail("MC_Lexer produced no REPLAY lines")
    return tot, sample, per


def token_key(expected_kind, got_kind):
    if expected_kind == got_kind:
        return "tokens:%s:wrong-payload" % expected_kind
    return "tokens:exp=%s:got=%s" % (expected_kind, got_kind)


def kinds_sig(toks, n=6):
    return ",".join(t["k"] for t in toks[:n]) + ("..." if len(toks) > n else "")


def replay_mc(rep, strings):
    texts = [text_of(s["text"]) for s in strings]
    lexr = run_batched("lex", texts)
    parr = run_batched("parse", texts)
    lit_idx = [i for i, s in enumerate(strings) if s["lit"].get("t") != "none"]
    evr = dict(zip(lit_idx, run_batched("eval", [texts[i] for i in lit_idx], batch=60)))
    nontrivial = 0
    evaluations = 2 * len(strings) + len(lit_idx)
    for i, s in enumerate(strings):
        exp = [c15lib.norm_spec_token(t) for t in s["toks"]]
        if any(t["k"] in LIT_KINDS or t["k"] == "Invalid" for t in exp):
            nontrivial += 1
        lx, pr = lexr[i], parr[i]
        src = texts[i]
        if lx.get("o") != "ok":
            rep.mismatch("lex:" + outcome_key(lx), "lex(%r) -> %s; specification: %s" % (src, outcome_key(lx), kinds_sig(exp)),
                         {"kind": "lex", "src": src, "text": s["text"], "expected": exp, "observed": lx})
            continue
        got = [c15lib.spec_token(t) for t in lx["tokens"]]
        if got != exp:
            d = next((k for k in range(max(len(got), len(exp))) if k >= len(got) or k >= len(exp) or got[k] != exp[k]), 0)
            ek = exp[d]["k"] if d < len(exp) else "(end)"
            gk = got[d]["k"] if d < len(got) else "(end)"
            rep.mismatch(token_key(ek, gk),
                         "lex(%r): token %d is %s, specification expects %s" % (
                             src, d + 1, json.dumps(got[d] if d < len(got) else None)[:160],
                             json.dumps(exp[d] if d < len(exp) else None)[:160]),
                         {"kind": "lex", "src": src, "text": s["text"], "expected": exp, "observed": got})
            continue
        po = pr.get("o")
        pe = s["pe"]
        ok = po in ("ok", "parse_error") if pe == "ok-or-parse_error" else po == pe
        if not ok:
            key = "parse:" + outcome_key(pr) if po not in ("ok", "parse_error", "empty") else \
                "parse-outcome:exp=%s:got=%s" % (pe, po)
            rep.mismatch(key, "parse(%r) -> %s; specification: %s" % (src, outcome_key(pr), pe),
                         {"kind": "parse", "src": src, "text": s["text"], "expected": pe, "observed": pr})
            continue
        if i in evr:
            st = evr[i]
            if po == "ok":
                gv = c15lib.spec_value(st["v"]) if st.get("o") == "ok" else None
                if gv != s["lit"]:
                    rep.mismatch("literal:%s:%s" % (exp and [t for t in exp if t["k"] != "Comment"][0]["k"],
                                                    "wrong-value" if st.get("o") == "ok" else outcome_key(st)),
                                 "%r evaluates to %s; the literal denotes %s" % (
                                     src, json.dumps(st.get("v", st.get("e")))[:200], json.dumps(s["lit"])[:200]),
                                 {"steps": [src], "expected": s["lit"], "observed": st})
            else:
                rep.mismatch("parse-outcome:single-literal:got=%s" % po,
                             "parse(%r) -> %s although the text is one literal token" % (src, po),
                             {"kind": "parse", "src": src, "observed": pr})
    return nontrivial, evaluations


def alternates(texts, rng, n):
    """re-concretise a sample of the model's strings with other members of each class"""
    out = []
    seen = set()
    pool = [{"text": t} for t in texts if len(t) >= 1]
    tries = 0
    while len(out) < n and tries < 6 * n:
        tries += 1
        s = rng.choice(pool)
        t = []
        for c in s["text"]:
            ch = chr(c)
            alts = c15lib.ALTERNATES.get(ch, ch)
            r = rng.random()
            if r < 0.2 and ch in c15lib.CASE_PAIRS:
                t.append(rng.choice(c15lib.CASE_PAIRS[ch]))
            elif r < 0.85:
                t.append(rng.choice(alts))
            else:
                t.append(ch)
        t = "".join(t)
        if t not in seen and t != text_of(s["text"]):
            seen.add(t)
            out.append(t)
    return out


# ----------------------------------------------------------------------------- (b) driver
KEYWORDS = ["if", "else", "while", "for", "yield", "into", "switch", "case", "null", "and", "or", "coalesce",
            "break", "try", "catch", "throw", "continue", "return", "consume", "pop", "remove", "swap", "every",
            "struct", "freeze", "import", "literally", "_"]
SOUP = KEYWORDS + ["x", "y", "foo", "a'", "b?", "X", "Foo", "B", "F", "R", "V", "é", "β", "中",
                   "0", "1", "42", "007", "0x1F", "0b101", "0o17", "36rZZ", "64rAb+/", "2r2", "5q", "1.5", "1e3", "1e-3",
                   "2.f", "3i", "4.5j", "1e", "99999999999999999999",
                   "'s'", '"t"', "'\\n'", "'\\x41'", "'\\u{41}'", "B'ab'", 'F"{x}"', 'F"{x #x}"', "R'\\n'", "'", '"', "F'",
                   "+", "-", "*", "/", "//", "%", "^", "==", "!=", "<=", ">=", "<", ">", "=", ":=", "+=", "!", "?", ".", "..", "...",
                   "->", "<-", "<<-", "<<", ">>", "$", "~", "&", "|", "&&", "||", "∧", "∨", "≤", "×", "⊕", "@",
                   "(", ")", "[", "]", "{", "}", "B[", "`", ",", ";", ":", "::", "\\", "\\\\", "#", "#(", "\n", " ", "\t",
                   "🐉frame", "🐉peek", "🐉0", "🐉call", "🐉lambda", "🐉for", "🐉while", "🐉push", "🐉pop", "€", "\u0001"]


def gen_soups(rng, n):
    out = []
    for _ in range(n):
        k = rng.choice([1, 2, 3, 4, 6, 10, 20, 40])
        sep = rng.choice(["", " ", " ", "\n"])
        out.append(sep.join(rng.choice(SOUP) for _ in range(k)))
    return out


def tokens_rough(p):
    import re
    return re.findall(r"\w+|\s+|[^\w\s]", p)


def gen_mutations(rng, progs, per):
    out = []
    for p in progs:
        for _ in range(per):
            r = rng.random()
            if r < 0.5 and len(p) > 1:
                i = rng.randrange(len(p))
                how = rng.choice(["del", "dup", "swap", "ins"])
                if how == "del":
                    q = p[:i] + p[i + 1:]
                elif how == "dup":
                    q = p[:i] + p[i] + p[i:]
                elif how == "swap":
                    j = rng.randrange(len(p))
                    lst = list(p)
                    lst[i], lst[j] = lst[j], lst[i]
                    q = "".join(lst)
                else:
                    q = p[:i] + rng.choice("()[]{}'\"\\#:;,.=!?-<>`_ \n09axeF") + p[i:]
            else:
                ts = tokens_rough(p)
                if len(ts) < 2:
                    continue
                i = rng.randrange(len(ts))
                how = rng.choice(["del", "dup", "swap", "trunc"])
                if how == "del":
                    del ts[i]
                elif how == "dup":
                    ts.insert(i, ts[i])
                elif how == "swap":
                    j = rng.randrange(len(ts))
                    ts[i], ts[j] = ts[j], ts[i]
                else:
                    ts = ts[:i]
                q = "".join(ts)
            out.append(q)
    return out


def gen_delims(rng, n, depth, mid=300):
    """(texts judged in full, towers of the full depth judged by outcome only)"""
    out = []
    towers = []
    opens, closes = "([{", ")]}"
    for _ in range(n):
        k = rng.choice([1, 2, 3, 5, 8, 13, 30])
        out.append("".join(rng.choice("()[]{}" + " 1a,:") for _ in range(k)))
    for d in (1, 2, 50, mid, depth):
        tw = []
        for o, c in zip(opens, closes):
            tw += [o * d, c * d, o * d + "1" + c * d, o * d + "1" + c * (d - 1), o * (d - 1) + "1" + c * d,
                   (o + c) * min(d, 2000)]
        tw += ["\\x -> " * d + "1", "-" * d + "1", "if (1) " * d + "2", "a" + "[0]" * d, "f" + "(1)" * d,
               "1" + " + 1" * d, "..." * d + "x", "literally " * d + "x", "try " * d + "1" + " catch x -> 1" * d,
               "for (x <- y) " * d + "1", "break " * d, "a" + "::b" * d, "a:" * d + "b", "f!" * d,
               "B[" + "1," * d + "]", "{" + "1:2," * d + "}", "1 `f` " * d + "2", "switch (x) " + "case 1 -> 1 " * d,
               ";" * d, "1;" * d, "1," * d, "\\" * d, "\\\\" * d, "F'" + "{" * d + "1" + "}" * d + "'",
               "F'{" * min(d, 40) + "1" + "}'" * min(d, 40)]
        if d > mid:
            towers.extend(tw)
        else:
            out.extend(tw)
    out += ["B[256]", "B[-1]", "B[1,,2]", "B[", "B[1", "B[1,", "B[99999999999999999999999]", "\\99999999999999999999999999",
            "\\0", "\\1 + \\2", "🐉peek 99999999999999999999999", "🐉call 99999999999999999999 1", "🐉lambda 99999999999999999999 1",
            "🐉lambda [", "🐉lambda [a] ... 1", "🐉for (x) 1", "🐉while (1) 2", "🐉push 1", "🐉pop", "🐉frame 1", "🐉0 + 🐉9",
            "struct", "struct Foo", "struct Foo(", "struct Foo(a = ", "struct Foo(a,)", "::", "a::", "::a", "a::1", "switch (x)",
            "switch (x) case", "\\switch", "\\switch case 1 -> 2", "for (", "for (x", "for (x <-", "for (if", "for (x <- y;", "for (x <- y) yield",
            "for (x <- y) yield 1: 2 into", "try 1", "try 1 catch", "try 1 catch x", "try 1 catch x ->", "if", "if (", "if (1", "if (1)", "if (1) 2 else",
            "x[", "x[1:", "x[:]", "x[::]", "x[1:2:3]", "x[1,2]", "x{", "x{a=1}", "x{a=}", "a := ", ":= 1", "a, := 1", "every", "every x", "every x += 1",
            "swap a", "swap a,", "swap a, b", "pop", "pop 1", "remove 'a'", "consume", "1 2 3", "1 + ", "+ 1", "(+)", "(+ 1)", "(1 +)", "a b c d e",
            "a `", "` a", "a `b", "a `b` ", "!a", "a!", "a!b", "a!!", "a?", "?", "a ? b", "x = = 1", "x += = 1", "1 = 2", "'a' = 1", "[a, 1] := 2",
            "a: int = 1", "a: = 1", "(a: int, b) := 1, 2", "...", "...a", "a...", "[...a, ...b] = c", "_ = 1", "_", "__", "import", "import 'x'",
            "freeze", "freeze x", "literally", "throw", "return", "break", "continue", "break break continue", "break continue continue",
            "null null", "and", "or", "1 and", "or 1", "coalesce", "a coalesce", "yield", "into", "else", "case", "catch", "->", "<-", "<<-", "=", "!"]
    return out, towers


def gen_runaway(rng, big):
    out = []
    for q in ("'", '"'):
        for pre in ("", "B", "F", "R"):
            for body in ("", "a", "a\\", "a\\x", "a\\x4", "a\\u", "a\\u{", "a\\u{41", "a\\q", "a\\q" + q, "a" * big,
                         "\\" + q, "\\\\", "\n", "{", "{x", "{x}", "}", "{{", "}}", "{}", "{#x}", "{x #99999999999999999999999}",
                         "{x #x}", "{x #0}", "{x #<5}", "{'}", "{\"}"):
                out.append(pre + q + body)
                out.append(pre + q + body + q)
    for c in ("#", "# abc", "#\n1", "#(", "#(a", "#(a)", "#((a)", "#((a))", "#(a))", "#()", "#(\n)\n1", "#(" * big, "#(" * 50 + ")" * 49,
              "#(" * 50 + ")" * 50, "#(" * 50 + ")" * 51, "1 #( x", "1 #( x ) 2", "# " + "x" * big, "#(" + "x" * big, "#" * big):
        out.append(c)
    out += ["F", "R", "F1", "R(", "F ", "R\n'a'", "F'{", "F'{1", "F'{1}", "F'{1}}'", "F'{{1}'", "F'{1 2}'", "F'{}'", "F'{ }'", "F'{#x}'",
            "F'{F\"{1}\"}'", "F'{F\"{F'{1}'}\"}'", "F'{\"}\"}'", "F'{{{1}}}'", "F'}'", "F'{1}{2}{'", "F'{a{b}c}'", "F'{[1,2][0]}'", "F'{{a: 1}}'",
            "F'{x #b}' ", "F'{x #o #X #d #<^>9 0}'", "F'{x #" + "9" * 30 + "}'", "F'{1 #(}'", "F'{1 #()}'", "F'{(}'", "F'{)}'", "F'{'a'}'"]
    return out


def hexdigits(rng, n, case):
    s = "%x" % n
    if case == "upper":
        return s.upper()
    if case == "mixed":
        return "".join(c.upper() if rng.random() < 0.5 else c for c in s)
    return s


def to_base(n, b, alphabet="0123456789abcdefghijklmnopqrstuvwxyz"):
    if n == 0:
        return alphabet[0]
    out = []
    while n:
        out.append(alphabet[n % b])
        n //= b
    return "".join(reversed(out))


B64A = "ABCDEFGHIJKLMNOPQRSTUVWXYZabcdefghijklmnopqrstuvwxyz0123456789"


def gen_int_literals(rng, tier):
    """(text, intended value) - every integer literal syntax"""
    vals = [0, 1, 2, 7, 8, 9, 10, 15, 16, 35, 36, 63, 64, 255, 256, 2 ** 31 - 1, 2 ** 31, 2 ** 32, 2 ** 53 + 1, 2 ** 63 - 1, 2 ** 63,
            2 ** 64 - 1, 2 ** 64, 10 ** 18, 10 ** 19, 36 ** 13 - 1, 64 ** 11]
    nrand = 40 if tier == "quick" else 400
    for _ in range(nrand):
        vals.append(rng.getrandbits(rng.choice([8, 20, 40, 62, 63, 64, 65, 100, 200, 400])))
    out = []
    bi = 0
    for v in vals:
        out.append(("%d" % v, v))
        out.append(("0" * rng.randint(1, 4) + "%d" % v, v))
        case = rng.choice(["lower", "upper", "mixed"])
        out.append((rng.choice(["0x", "0X"]) + hexdigits(rng, v, case), v))
        out.append((rng.choice(["0b", "0B"]) + to_base(v, 2), v))
        out.append((rng.choice(["0o", "0O"]) + to_base(v, 8), v))
        bases = range(2, 37) if tier == "thorough" or v in (0, 35, 36, 2 ** 64) else [2 + (bi + k * 7) % 35 for k in range(5)]
        bi += 1
        for b in bases:
            d = to_base(v, b)
            r = rng.random()
            if r < 0.3:
                d = d.upper()
            elif r < 0.5:
                d = "".join(c.upper() if rng.random() < 0.5 else c for c in d)
            out.append(("%s%d%s%s" % ("0" * rng.choice([0, 0, 1, 3]), b, rng.choice("rR"), d), v))
        alpha = B64A + rng.choice(["+", "-"]) + rng.choice(["/", "_"])
        out.append(("%s64%s%s" % (rng.choice(["", "0"]), rng.choice("rR"), to_base(v, 64, alpha)), v))
        out.append(("%d%s" % (v, rng.choice("qQ")), ("rat", v)))
    return out


def gen_float_literals(rng, tier):
    fixed = ["0.0", "0.", "1.", "1.5", "00001.5", "1.e5", "1.5e3", "1.5e-3", "1e0", "1e00", "1e-0", "0e5", "0.0e-5", "1f", "1.f", "1.5f", "1.5F", "2E3",
             "1.7976931348623157e308", "1.7976931348623158e308", "1.7976931348623159e308", "179769313486231580793728971405303415079934132710037826936173778980444968292764750946649017977587207096330286416692887910946555547851940402630657488671505820681908902000708383676273854845817711531764475730270069855571366959622842914819860834936475292719074168444365510704342711559699508093042880177904174497791.9",
             "179769313486231580793728971405303415079934132710037826936173778980444968292764750946649017977587207096330286416692887910946555547851940402630657488671505820681908902000708383676273854845817711531764475730270069855571366959622842914819860834936475292719074168444365510704342711559699508093042880177904174497792.0",
             "1e308", "1e309", "2e308", "1e400", "1e-400", "4.9e-324", "5e-324", "2.4703282292062327e-324", "2.4703282292062328e-324",
             "2.47032822920623272088284396434110686182529901307162382212792841250337753635104375932649918180817996189898282347722858865463328355177969898199387398005390939063150356595155702263922908583924491051844359318028499365361525003193704576782492193656236698636584807570015857692699037063119282795585513329278343384093519780155312465972635795746227664652728272200563740064854999770965994704540208281662262378573934507363390079677619305775067401763246736009689513405355374585166611342237666786041621596804619144672918403005300575308490487653917113865916462395249126236538818796362393732804238910186723484976682350898633885879256283027559956575244555072551893136908362547791869486679949683240497058210285131854513962138377228261454376934125320985913276672363281251e-324",
             "2.2250738585072014e-308", "2.2250738585072011e-308", "2.225073858507201e-308", "9007199254740993f", "9007199254740993.0", "9007199254740992.5",
             "9007199254740993.000000000000000000000000000001", "9007199254740995f", "0.1", "0.2", "0.3", "0.30000000000000004", "123456789012345678901234567890e-10",
             "1e99999999999", "0e99999999999", "1e-99999999999", "1e22", "1e23", "8.5e22", "1e", "1e-", "1.e", "1.e-", "1.5e", "0." + "0" * 400 + "1", "1" + "0" * 400 + ".0", "1" + "0" * 400 + "e-400",
             "0." + "".join(rng.choice("0123456789") for _ in range(800)), "".join(rng.choice("123456789") for _ in range(300)) + "." + "".join(rng.choice("0123456789") for _ in range(50)),
             "3.141592653589793238462643383279502884197169399375105820974944592307816406286", "5i", "5j", "5I", "5J", "5.i", "1.5i", "0i", "0.0j", "12345678901234567890i", "1e5i", "1.5e3j", "1fi"]
    out = list(fixed)
    n = 150 if tier == "quick" else 3000
    for _ in range(n):
        ip = "".join(rng.choice("0123456789") for _ in range(rng.choice([1, 1, 2, 5, 17, 20])))
        fp = "".join(rng.choice("0123456789") for _ in range(rng.choice([0, 1, 2, 5, 17, 20])))
        form = rng.choice(["dot", "dote", "e", "f", "dotf", "i", "doti"])
        ex = "%s%d" % (rng.choice(["", "", "-"]), rng.choice([0, 1, 5, 10, 22, 23, 100, 290, 300, 307, 308, 309, 320, 323, 324, 330]))
        if form == "dot":
            out.append(ip + "." + fp)
        elif form == "dote":
            out.append(ip + "." + fp + rng.choice("eE") + ex)
        elif form == "e":
            out.append(ip + rng.choice("eE") + ex)
        elif form == "f":
            out.append(ip + rng.choice("fF"))
        elif form == "dotf":
            out.append(ip + "." + fp + rng.choice("fF"))
        elif form == "i":
            out.append(ip + rng.choice("iIjJ"))
        else:
            out.append(ip + "." + fp + rng.choice("iIjJ"))
    return out


NAMED = {10: "n", 13: "r", 9: "t", 0: "0", 92: "\\", 39: "'", 34: '"'}
CP_POOLS = [list(range(32, 127)), [0, 1, 7, 9, 10, 13, 27, 127], list(range(128, 256)), [0x100, 0x3b2, 0x416, 0x7ff, 0x800, 0x4e2d, 0xd7ff, 0xe000, 0xfffd, 0xffff],
            [0x10000, 0x1f409, 0x1f600, 0x10ffff], [34, 39, 92, 123, 125, 35]]


def render_char(rng, c, q):
    """(source text, is a bare \\u escape) for one intended code point"""
    forms = []
    if c in NAMED:
        forms += ["named"] * 3
    if c < 256:
        forms += ["x"] * 2
    forms += ["u", "ub", "ub"]
    if c not in (92, ord(q)):
        forms += ["raw"] * 4
    f = rng.choice(forms)
    if f == "raw":
        return chr(c), False
    if f == "named":
        return "\\" + NAMED[c], False
    case = rng.choice(["lower", "upper", "mixed"])
    if f == "x":
        return "\\x" + hexdigits(rng, c + 256, case)[1:], False
    h = "0" * rng.choice([0, 0, 1, 4]) + hexdigits(rng, c, case)
    if f == "ub":
        o, cl = rng.choice(["{}", "()", "[]", "<>"])
        return "\\u" + o + h + cl, False
    return "\\u" + h, True


def gen_string_literals(rng, tier):
    """(text, intended code points, prefix)"""
    out = []
    n = 250 if tier == "quick" else 4000
    for _ in range(n):
        q = rng.choice("'\"")
        pre = rng.choice(["", "", "B", "F", "R"])
        k = rng.choice([0, 1, 1, 2, 3, 6, 12])
        chars = []
        for _ in range(k):
            c = rng.choice(rng.choice(CP_POOLS))
            if pre == "F" and c in (123, 125):
                c = 65
            if pre == "R" and c == ord(q):
                c = 66
            chars.append(c)
        if pre == "R":
            body = "".join(chr(c) for c in chars)
        else:
            parts = [render_char(rng, c, q) for c in chars]
            body = ""
            for i, (p, bare) in enumerate(parts):
                nxt = parts[i + 1][0] if i + 1 < len(parts) else q
                if bare and nxt and nxt[0] in "0123456789abcdefABCDEF{([<":
                    # a bare \\u would swallow the next character: use the braced form instead
                    p = "\\u{" + p[2:] + "}"
                body += p
        out.append((pre + q + body + q, chars, pre))
    return out


def gen_classes(rng, tier):
    """the class table itself: every ASCII character alone and after a letter / digit / operator; members of
    the transcribed non-ASCII ranges"""
    out = []
    for c in range(0, 128):
        ch = chr(c)
        out += [ch, "a" + ch, "a" + ch + "b", "1" + ch, "0" + ch + "1", "+" + ch, "X" + ch + "y", "1." + ch, "1e" + ch + "2"]
    xs = [170, 181, 186, 192, 214, 215, 216, 246, 247, 248, 591, 913, 929, 931, 969, 1040, 1103, 12353, 12438, 19968, 30000, 40869,
          178, 179, 185, 188, 190, 1632, 1641, 133, 160, 5760, 8192, 8202, 8232, 8233, 8239, 8287, 12288, 11, 12, 13,
          8712, 8713, 8715, 8716, 8728, 8743, 8744, 8800, 8804, 8805, 8853, 10746, 128009, 128, 132, 134, 159, 161, 169, 171, 172, 174, 177,
          180, 182, 184, 187, 191, 8364, 8592, 8703, 128512, 128591]
    extra = 60 if tier == "quick" else 1500
    ranges = [(192, 591), (913, 969), (1040, 1103), (12353, 12438), (19968, 40869), (8192, 8202), (8592, 8703), (128512, 128591), (128, 191)]
    for _ in range(extra):
        lo, hi = rng.choice(ranges)
        xs.append(rng.randint(lo, hi))
    for c in xs:
        ch = chr(c)
        out += [ch, "a" + ch + "1", "1" + ch, ch + "'x'", "+" + ch + "+", ch + ch]
    # code points the specification does not classify: protocol only
    for c in (0x2603, 0x0300, 0x200b, 0xfeff, 0x1d7d8, 0xe0001, 0x10ffff, 0xfffe, 0x0378):
        out += [chr(c), "a" + chr(c), chr(c) + "1"]
    return out


def gen_long(tier):
    """(literals validated exactly, 10^4-digit texts judged by outcome only).  Radix 2^k digit strings are
    regrouped into limbs by the specification in linear time; for the other radices TLC's exact conversion
    is quadratic, which bounds the length that can be validated digit by digit"""
    n = 10000
    m = 400 if tier == "quick" else 2000
    full = ["0x" + "f" * n, "0X" + "123456789abcdefABCDEF0" * (n // 22), "0b" + "10" * (n // 2), "0o" + "7" * n, "0o" + "1234567" * (n // 7),
            "32r" + "v" * n, "4r" + "3210" * (n // 4), "2r" + "1" * n, "16r" + "F" * n, "64r" + "_" * n, "64r" + "Az09+/-_" * (n // 8),
            "1" * m, "9" * m, "0" * n + "7", "36r" + "z" * (m // 2), "7r" + "6" * (m // 2), "1" * m + "q", "1" * m + "r1",
            # floats: far out of range literals are classified by length, in range ones are evaluated
            "1" * n + ".0", "1" * n + "f", "1" * n + "i", "0." + "0" * n + "1", "1e" + "9" * n, "1e-" + "9" * n, "0e" + "9" * n,
            "0." + "0" * 300 + "1" * m, "1" * 300 + "." + "1" * m,
            "'\\u{" + "0" * n + "41}'", "'\\u" + "0" * n + "41'", "'\\u{" + "F" * 9 + "}'", "'\\u{100000041}'", "'\\uFFFFFFFFF'",
            "\"\\u{FFFFFFFFF}\"", "B'\\u(FFFFFFFF0)'", "F'\\u[123456789]'", "'\\u{FFFFFFFF}'", "'\\u{FFFFFFFFFFFFFFFFFFFF}'"]
    proto = ["1" * n, "9" * n, "123456789" * (n // 9), "1" * n + "q", "36r" + "z" * n, "7r" + "6" * n, "1" * n + "r1", "10r" + "9" * n,
             "0." + "1234567890" * (n // 10), "1" * n + "." + "9" * n + "e-" + "9" * 4, "1" * n + "e-" + "9" * 4, "x" * n, "'" + "a" * n + "'", "+" * n, "_" * n]
    if tier == "thorough":
        full += ["0x" + "f" * (10 * n), "123456789" * (m // 9), "0." + "1234567890" * 200, "9" * 1000 + "e-700"]
        proto += ["1" * (10 * n), "(" * n + "1" + ")" * n]
    return full, proto


def drive(rep, tier, seed, wd, mc_strings):
    rng = random.Random(seed)
    progs = c15lib.corpus()
    groups = []      # (generator name, texts, how judged)
    q = tier == "quick"
    groups.append(("alt", alternates(mc_strings, rng, 7000 if q else 60000), "full"))
    groups.append(("corpus", list(progs), "full"))
    groups.append(("soup", gen_soups(rng, 1500 if q else 10000), "full"))
    sample = progs if not q else rng.sample(progs, min(len(progs), 220))
    groups.append(("mutation", gen_mutations(rng, sample, 4 if q else 10), "full"))
    delims, towers = gen_delims(rng, 150 if q else 2000, DEPTH[tier], 150 if q else 400)
    groups.append(("delims", delims, "full"))
    groups.append(("towers", towers, "protocol"))
    groups.append(("runaway", gen_runaway(rng, 800 if q else 20000), "full"))
    ints = gen_int_literals(rng, tier)
    groups.append(("intlit", [t for t, _ in ints], "full"))
    groups.append(("floatlit", gen_float_literals(rng, tier), "full"))
    strs = gen_string_literals(rng, tier)
    groups.append(("strlit", [t for t, _, _ in strs], "full"))
    groups.append(("classes", gen_classes(rng, tier), "full"))
    longs, longp = gen_long(tier)
    groups.append(("long", longs, "full"))
    groups.append(("long-protocol", longp, "protocol"))
    texts, gens, modes = [], [], []
    seen = set()
    for g, ts, md in groups:
        for t in ts:
            if t not in seen:
                seen.add(t)
                texts.append(t)
                gens.append(g)
                modes.append(md)
    tobs = time.time()
    lexr, parr, evs = observe(texts)
    print("C15: observed %d texts in %.0fs" % (len(texts), time.time() - tobs), flush=True)
    events = [make_event(t, lexr[i], parr[i], evs.get(i), modes[i]) for i, t in enumerate(texts)]
    # generator sanity (not a verdict): what the implementation decoded vs the value the generator rendered
    want = {}
    for t, v in ints:
        want[t] = {"t": "rat", "n": nv.nat_limbs(v[1]), "d": [1]} if isinstance(v, tuple) else {"t": "int", "v": nv.nat_limbs(v)}
    for t, chars, pre in strs:
        if pre == "B":
            want[t] = {"t": "bytes", "b": list("".join(chr(c) for c in chars).encode("utf-8"))}
        else:
            want[t] = {"t": "str", "s": chars}
    # validate: short texts in big chunks, long ones in small chunks (TLC start-up dominates otherwise)
    order = sorted(range(len(events)), key=lambda i: len(events[i]["text"]))
    buckets = [([i for i in order if len(events[i]["text"]) <= 12], 2500),
               ([i for i in order if 12 < len(events[i]["text"]) <= 300], 400),
               ([i for i in order if 300 < len(events[i]["text"]) <= 4000], 8),
               ([i for i in order if len(events[i]["text"]) > 4000], 3)]
    mism = []
    lock = threading.Lock()

    def val(idx, chunk):
        if not idx:
            return
        evl = [dict(events[i]) for i in idx]
        sub = os.path.join(wd, "chunk%d" % chunk)
        os.makedirs(sub, exist_ok=True)
        tb = time.time()
        m, _ = nv.validate_trace("Trace_Lexer", evl, sub, chunk=chunk, timeout=2400,
                                 par=max(2, nv.JOBS // 2 if chunk <= 8 else nv.JOBS // 4), xmx="2g")
        with lock:
            mism.extend((idx[k], exp) for k, exp in m)
            if os.environ.get("C15_VERBOSE"):
                print("C15: %d events in chunks of %d validated in %.0fs" % (len(idx), chunk, time.time() - tb), flush=True)

    ths = [threading.Thread(target=val, args=b) for b in buckets]
    for t in ths:
        t.start()
    for t in ths:
        t.join()
    flagged = set(i for i, _ in mism)
    for i, exp in mism:
        ev = events[i]
        src = texts[i]
        why = exp.get("why")
        show = src if len(src) <= 120 else src[:60] + "...(%d chars)..." % len(src) + src[-30:]
        if why == "protocol":
            bad = lexr[i] if ev["lexo"] != "ok" else parr[i]
            which = "lex" if ev["lexo"] != "ok" else "parse"
            key = "%s:%s" % (which, outcome_key(bad))
            what = "%s(%r) -> %s; the specification allows only %s" % (
                which, show, outcome_key(bad), "a token list" if which == "lex" else "ok / parse_error / empty")
        elif why == "tokens":
            at = exp["at"]
            gk = ev["toks"][at - 1]["k"] if at - 1 < len(ev["toks"]) else "(end)"
            key = token_key(exp["tok"]["k"] if exp["tok"]["k"][0] != "(" else "(end)", gk)
            what = "lex(%r): token %d is %s, specification expects %s" % (
                show, at, json.dumps(ev["toks"][at - 1] if at - 1 < len(ev["toks"]) else None)[:160], json.dumps(exp["tok"])[:160])
        elif why == "parse":
            key = "parse-outcome:exp=%s:got=%s" % (exp["tok"]["k"], ev["parse"])
            what = "parse(%r) -> %s; the token list implies %s" % (show, ev["parse"], exp["tok"]["k"])
        else:
            key = "literal:%s:%s" % (exp["tok"]["k"], "wrong-value" if ev["evo"] == "ok" else ev["evo"])
            what = "%r evaluates to %s; the literal denotes %s" % (show, json.dumps(ev["val"])[:200], json.dumps(exp["tok"])[:200])
        rep.mismatch(key, what, {"kind": "lex" if why in ("tokens",) or (why == "protocol" and ev["lexo"] != "ok") else "parse",
                                 "src": src if len(src) <= 20000 else src[:20000], "generator": gens[i], "expected": exp,
                                 "observed": {"lex": ev["lexo"], "parse": ev["parse"], "eval": ev["evo"],
                                              "tokens": ev["toks"][:12], "value": ev["val"]}})
    for i, t in enumerate(texts):
        if t in want and i not in flagged:
            got = events[i]["val"] if events[i]["evo"] == "ok" else None
            if got != want[t]:
                nv.tool_fail("generator / specification disagreement on %r: rendered %s, implementation and "
                             "specification agree on %s" % (t[:200], json.dumps(want[t])[:200], json.dumps(got)[:200]))
    nontrivial = set()
    for i, e in enumerate(events):
        if e["lexo"] != "ok" or any(t["k"] in LIT_KINDS or t["k"] == "Invalid" for t in e["toks"]) or e["parse"] != "ok":
            nontrivial.add(texts[i])
    bygen = {}
    for g in gens:
        bygen[g] = bygen.get(g, 0) + 1
    for g in ("mutation", "strlit", "floatlit"):
        i = gens.index(g) if g in gens else None
        if i is not None:
            rep.sample({"generator": g, "text": texts[i][:200], "lex": [t["k"] for t in events[i]["toks"]][:12],
                        "parse": events[i]["parse"], "value": events[i]["val"] if events[i]["evo"] == "ok" else None})
    return len(events), len(nontrivial), bygen, 2 * len(events) + len(evs)


def run(tier):
    seed = nv.seed()
    rep = nv.Report("C15", tier, seed, "model_checking")
    wd = nv.work_dir("C15")
    nv.build_harness()
    t0 = time.time()
    tot, sample, per = run_mc(rep, tier, wd, random.Random(seed))
    t2 = time.time()
    n, nontrivial, bygen, evals = drive(rep, tier, seed, wd, sample)
    print("C15 %s: model checking + replay %.0fs (%d strings), driver + trace validation %.0fs (%d events)" % (
        tier, t2 - t0, tot["n"], time.time() - t2, n), flush=True)
    shutil.rmtree(wd, ignore_errors=True)
    rep.assumptions.append("Unicode classification (alphabetic / numeric / whitespace) is transcribed for ASCII and the ranges "
                           "listed in Lexer.tla; texts with other code points are held to the protocol part only")
    rep.assumptions.append("nesting depth explored up to %d; which token lists the grammar accepts is not specified" % DEPTH[tier])
    return rep.finish({
        "states": tot["states"], "transitions": tot["trans"],
        "traces_validated_against_impl": tot["n"] + n,
        "evaluations": tot["evals"] + evals,
        "distinct_nontrivial": tot["nontrivial"] + nontrivial,
        "rule": "one case per distinct input text; non-trivial = the token list contains a literal or an Invalid token, "
                "or lex/parse did not return ok (parse_error, empty, panic, abort, time-out)",
        "mc_invariants": ["Total", "BoundedDispatch", "PosOk", "EndsInTokens", "FinishExtends", "Progress", "TokensGrow"],
        "mc_configs": per,
        "mc_replayed": tot["n"], "trace_events": n, "trace_events_by_generator": bygen,
        "checker_cmd": "tlc MC_Lexer.tla x {" + ",".join(CONFIGS[tier]) + "} (every string replayed: lex, parse, eval) + tlc Trace_Lexer.tla "
                       "(trace validation)",
        "trusted_base": ["TLC", "CommunityModules Json/IOUtils", "lib/BigNum (self-checked by MC_BigNum)",
                         "num-bigint decimal rendering", "harness token / value projection"],
    })
