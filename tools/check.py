import importlib
import json
import os
import sys

sys.path.insert(0, os.path.dirname(os.path.abspath(__file__)))
import nv  # noqa: E402


def replay(path):
    d = json.load(open(path))
    print(json.dumps(d, indent=1)[:6000])
    rp = d.get("replay", {})
    steps = rp.get("steps") or (rp.get("setup", []) + ([rp["src"]] if "src" in rp else []))
    steps = [s if isinstance(s, str) else s.get("src", "") for s in steps]
    if steps:
        nv.build_harness()
        res = nv.run_cases([{"id": 0, "steps": [{"src": s} for s in steps]}])
        print("--- re-executed on the current tree:")
        for s, r in zip(steps, res[0]):
            print("  %s\n     => %s" % (s, json.dumps(r)[:400]))
    return 0


def main():
    if len(sys.argv) >= 3 and sys.argv[1] == "replay":
        sys.exit(replay(sys.argv[2]))
    if len(sys.argv) >= 2 and sys.argv[1] == "selftest":
        import selftest
        sys.exit(selftest.run(sys.argv[2:]))
    if len(sys.argv) < 2:
        print(__doc__ or "usage: check <ID> quick|thorough")
        sys.exit(2)
    pid = sys.argv[1].upper()
    tier = sys.argv[2] if len(sys.argv) > 2 else os.environ.get("VERIF_TIER", "quick")
    if tier not in ("quick", "thorough"):
        tier = "quick"
    try:
        mod = importlib.import_module(pid.lower())
    except ImportError as e:
        print("TOOL-ERROR: no check for %s (%s)" % (pid, e))
        sys.exit(2)
    try:
        rc = mod.run(tier)
    except SystemExit:
        raise
    except Exception:
        import traceback
        traceback.print_exc()
        print("TOOL-ERROR: check crashed")
        sys.exit(2)
    sys.exit(rc)


main()
