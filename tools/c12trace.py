"""C12 (b): seeded driver for trace validation -- random deeper patterns / values and long
assignment histories on annotated variables; Trace_Pattern re-computes every event."""
import json
import random

import nv
import c14sweep as S
import c12render as R

I = lambda n: {"t": "int", "i": n}
STR = lambda s: {"t": "str", "v": list(s)}
LIST = lambda xs: {"t": "list", "v": xs}
TB = lambda n: {"k": "builtin", "name": n}
ANN_TYPES = [TB("int"), TB("str"), TB("list"), TB("number"), TB("anything"), TB("float"), TB("rational"),
             TB("nulltype"), TB("vector"), {"k": "struct", "name": "Foo"}, {"k": "sat", "name": "small"},
             {"k": "sat", "name": "nonempty"}]


class Gen:
    def __init__(self, rng):
        self.rng = rng
        self.n = 0

    def name(self):
        self.n += 1
        return "g%d" % self.n

    def scalar(self):
        r = self.rng
        return r.choice([I(r.randint(-3, 9)), I(1), I(5), {"t": "float", "n": r.choice([1, 3, 5, -1]), "d": 2},
                         {"t": "float", "n": 1, "d": 1}, {"t": "rat", "n": r.choice([1, 3, -1]), "d": r.choice([2, 4])
                          if False else 2}, STR(r.choice(["a", "ab", "", "xyz"])), {"t": "null"}])

    def value(self, d):
        r = self.rng
        k = r.random()
        if d <= 0 or k < 0.35:
            return self.scalar()
        if k < 0.8:
            return LIST([self.value(d - 1) for _ in range(r.randint(0, 4))])
        if k < 0.86:
            return {"t": "vec", "v": [I(r.randint(0, 5)) for _ in range(r.randint(0, 3))]}
        if k < 0.93:
            return {"t": "inst", "name": "Foo", "v": [self.value(d - 1), self.value(d - 1)]}
        if k < 0.97:
            return {"t": "inst", "name": "Bar", "v": [self.value(d - 1)]}
        return {"t": "bytes", "v": [r.randint(97, 100) for _ in range(r.randint(0, 3))]}

    def leaf(self):
        r = self.rng
        k = r.random()
        if k < 0.5:
            return {"k": "var", "n": self.name()}
        if k < 0.6:
            return {"k": "wild"}
        if k < 0.8:
            return {"k": "lit", "v": r.choice([I(1), I(5), I(0), STR("a"), STR("ab"), {"t": "null"},
                                               {"t": "float", "n": 3, "d": 2}, {"t": "rat", "n": 1, "d": 2}])}
        return {"k": "ann", "p": {"k": "var", "n": self.name()} if r.random() < 0.8 else {"k": "wild"},
                "ty": r.choice(ANN_TYPES)}

    def pattern(self, d):
        r = self.rng
        if d <= 0 or r.random() < 0.25:
            return self.leaf()
        k = r.random()
        if k < 0.45:
            n = r.randint(1, 4)
            items = [self.pattern(d - 1) for _ in range(n)]
            if r.random() < 0.4:
                j = r.randrange(n)
                items[j] = {"k": "splat", "p": {"k": "var", "n": self.name()} if r.random() < 0.8 else {"k": "wild"}}
            if r.random() < 0.35:
                # defaulted items: usually a trailing run (possibly around the splat), sometimes anywhere
                idx = [j for j in range(n) if items[j]["k"] != "splat"]
                run = r.randint(1, len(idx)) if idx else 0
                chosen = idx[len(idx) - run:] if r.random() < 0.8 else [j for j in idx if r.random() < 0.5]
                for j in chosen:
                    inner = items[j]
                    # `(p = dv)` parses only around a name, _, an annotated name or a bracketed / struct pattern
                    if inner["k"] in ("var", "wild", "struct") or (inner["k"] == "seq" and inner["delim"]) or (
                            inner["k"] == "ann" and inner["p"]["k"] in ("var", "wild")):
                        items[j] = {"k": "dflt", "p": inner, "dv": r.choice([I(7), I(8), STR("d"), {"t": "null"}])}
            return {"k": "seq", "items": items, "delim": r.random() < 0.3}
        if k < 0.57:
            return {"k": "or", "a": self.pattern(d - 1), "b": self.pattern(d - 1)}
        if k < 0.63:
            return {"k": "and", "a": self.pattern(d - 1), "b": self.pattern(d - 1)}
        if k < 0.72:
            if r.random() < 0.7:
                return {"k": "struct", "name": "Foo", "items": [self.pattern(d - 1), self.pattern(d - 1)]}
            return {"k": "struct", "name": "Bar", "items": [self.pattern(d - 1)]}
        if k < 0.86:
            o = r.choice([".+", "+.", "+", "*", "-", "/"])
            if o in (".+", "+."):
                return {"k": "op", "o": o, "items": [self.pattern(d - 1), self.pattern(d - 1)]}
            plain = lambda: {"k": "var", "n": self.name()} if r.random() < 0.7 else r.choice(
                [{"k": "wild"}, {"k": "lit", "v": I(r.choice([1, 2, 3]))}])
            if o == "-":
                return {"k": "op", "o": o, "items": [plain()]}
            if o == "/":
                return {"k": "op", "o": o, "items": [plain(), plain()]}
            lit = {"k": "lit", "v": I(r.choice([1, 2, 3] if o == "*" else [0, 1, 2, 7]))}
            var = {"k": "var", "n": self.name()}
            return {"k": "op", "o": o, "items": [var, lit] if r.random() < 0.5 else [lit, var]}
        if k < 0.93:
            lo, hi = r.randint(-2, 3), r.randint(3, 9)
            mid = {"k": "var", "n": self.name()} if r.random() < 0.8 else {"k": "wild"}
            return r.choice([
                {"k": "cmp", "ops": ["<", "<"], "items": [{"k": "lit", "v": I(lo)}, mid, {"k": "lit", "v": I(hi)}]},
                {"k": "cmp", "ops": [r.choice(["<", "<="]), r.choice(["<", "<="])],
                 "items": [{"k": "lit", "v": I(lo)}, mid, {"k": "lit", "v": I(hi)}]},
                {"k": "cmp", "ops": [r.choice([">", ">="]), r.choice([">", ">="])],
                 "items": [{"k": "lit", "v": I(hi)}, mid, {"k": "lit", "v": I(lo)}]},
                {"k": "cmp", "ops": [r.choice(["<", "<=", ">", ">="])], "items": [mid, {"k": "lit", "v": I(hi)}]}])
        return {"k": "ann", "p": self.pattern(d - 1), "ty": r.choice(ANN_TYPES)}

    def fit(self, p, d):
        """a value that has a chance to match p"""
        r = self.rng
        k = p["k"]
        if k in ("var", "wild"):
            return self.value(min(d, 1))
        if k == "lit":
            return p["v"]
        if k == "seq":
            xs = []
            for it in p["items"]:
                if it["k"] == "splat":
                    xs += [self.value(0) for _ in range(r.randint(0, 2))]
                elif it["k"] == "dflt" and r.random() < 0.5:
                    continue                      # leave it to the default (boundary lengths)
                else:
                    xs.append(self.fit(it, d - 1))
            return LIST(xs)
        if k == "dflt":
            return self.fit(p["p"], d)
        if k in ("or", "and"):
            return self.fit(p[r.choice(["a", "b"])], d)
        if k == "ann":
            t = p["ty"]
            if t["k"] == "builtin" and t["name"] in ("int", "number") and p["p"]["k"] in ("var", "wild"):
                return I(r.randint(0, 5))
            if t["k"] == "builtin" and t["name"] == "str" and p["p"]["k"] in ("var", "wild"):
                return STR("ab")
            return self.fit(p["p"], d)
        if k == "struct":
            return {"t": "inst", "name": p["name"], "v": [self.fit(x, d - 1) for x in p["items"]]}
        if k == "op":
            o = p["o"]
            if o == ".+":
                t = self.fit(p["items"][1], d - 1)
                return LIST([self.fit(p["items"][0], d - 1)] + (t["v"] if t["t"] == "list" else []))
            if o == "+.":
                t = self.fit(p["items"][0], d - 1)
                return LIST((t["v"] if t["t"] == "list" else []) + [self.fit(p["items"][1], d - 1)])
            if o == "/":
                return r.choice([{"t": "rat", "n": 3, "d": 4}, I(6)])
            return I(r.randint(0, 12))
        if k == "cmp":
            return I(r.randint(-1, 8))
        return self.value(1)


def has_splat_outside_seq(p, parent=None):
    if p["k"] == "splat" and parent not in ("seq", "struct"):
        return True
    for f in ("p", "a", "b"):
        if f in p and isinstance(p[f], dict) and has_splat_outside_seq(p[f], p["k"]):
            return True
    return any(has_splat_outside_seq(x, p["k"]) for x in p.get("items", []))


def names_of_all(p):
    k = p["k"]
    if k == "var":
        return [p["n"]]
    out = []
    for f in ("p", "a", "b"):
        if f in p and isinstance(p[f], dict):
            out += names_of_all(p[f])
    for x in p.get("items", []):
        out += names_of_all(x)
    return out


HVALS = [I(1), I(5), I(-2), I(0), {"t": "float", "n": 3, "d": 2}, {"t": "float", "n": 1, "d": 2}, STR("a"), STR(""),
         LIST([I(1)]), LIST([]), LIST([I(1), I(2), I(3)]), {"t": "null"}, {"t": "stream", "v": [I(1), I(2)]}]
HTYPES = [TB("int"), TB("number"), TB("list"), TB("str"), TB("anything"), {"k": "sat", "name": "small"}, TB("stream")]


def random_action(rng):
    x, y = rng.choice([("xa", "xb"), ("xb", "xa")])
    k = rng.choice(["assign", "assign", "opassign", "opassign", "every", "everyop", "index", "swap", "destructure"])
    a = {"k": k, "x": x, "y": "", "o": "", "i": 0, "w": {"t": "null"}, "w2": {"t": "null"}}
    if k in ("assign", "every"):
        a["w"] = rng.choice(HVALS)
    elif k == "opassign":
        a["o"] = rng.choice(["+", "+", "append"])
        a["w"] = rng.choice(HVALS[:8])
    elif k == "everyop":
        a["o"] = "+"
        a["w"] = rng.choice(HVALS[:6])
    elif k == "index":
        a["i"] = rng.randint(-3, 3)
        a["w"] = rng.choice(HVALS)
    elif k == "swap":
        a["y"] = y
    else:
        a["x"], a["y"] = "xa", "xb"
        a["w"], a["w2"] = rng.choice(HVALS), rng.choice(HVALS)
    return a


def run(rep, tier, seed, wd):
    import c12
    rng = random.Random(seed)
    g = Gen(rng)
    n_pat = 1500 if tier == "quick" else 12000
    n_hist = 150 if tier == "quick" else 1200
    hist_len = 25 if tier == "quick" else 30
    stats = {}
    # ---- random patterns
    items, meta = [], []
    pats = 0
    while pats < n_pat:
        p = g.pattern(rng.choice([2, 3, 3, 4]))
        if p["k"] == "splat" or has_splat_outside_seq(p):
            continue
        v = g.fit(p, 3) if rng.random() < 0.65 else g.value(2)
        names = names_of_all(p)
        if len(set(names)) != len(names):
            continue
        pats += 1
        vs = R.val_src(v)
        ps = R.pat_src(p, True)
        decl = ("%s = %s" if p["k"] == "ann" else "%s := %s") % (ps, vs)
        items.append({"steps": [{"src": decl, "obs": names}], "group": 0})
        meta.append(("decl", p, v, names))
        items.append({"steps": [{"src": "switch (%s) case %s -> \"arm\" case _ -> \"nomatch\"" % (
            R.val_src(v, big=True) if pats % 2 else vs, ps)}], "group": 0})
        meta.append(("switch", p, v, names))
        if not R.has_kind(p, ("lit",)):
            one = R.pat_src(p, top=(p["k"] == "ann" and p["p"]["k"] in ("var", "wild")))
            items.append({"steps": [{"src": "(\\%s -> \"arm\")(%s)" % (one, vs)}], "group": 0})
            meta.append(("lambda", p, v, names))
    res = S.run_items(items, batch_steps=150, t_batch=2000, t_alone=3000, stats=stats, prelude=R.PRELUDE)
    events, einfo = [], []
    nontrivial = set()
    for it, (ctx, p, v, names), rs in zip(items, meta, res):
        st = rs[1] if len(rs) > 1 else {"o": "missing"}
        o = st.get("o")
        ev = {"ev": "match", "ctx": ctx, "p": p, "v": v, "b": []}
        if ctx == "decl":
            ev["o"] = "ok" if o == "ok" else ("fail" if o == "throw" else c12.out_class(st))
            if o == "ok":
                for n, c in zip(names, st.get("obs") or []):
                    if c.get("t") != "undef":
                        sv = R.canon_to_spec(c)
                        ev["b"].append({"n": n, "v": sv if sv is not None else {"t": "other"}})
        elif ctx == "switch":
            val = st.get("v", {})
            if o == "ok" and val.get("t") == "str" and val.get("v") in ("arm", "nomatch"):
                ev["o"] = "ok" if val["v"] == "arm" else "fail"
            else:
                ev["o"] = c12.out_class(st)
        else:
            ev["o"] = "ok" if o == "ok" else ("fail" if o == "throw" else c12.out_class(st))
        events.append(ev)
        einfo.append({"kind": "match", "ctx": ctx, "src": it["steps"][0]["src"], "p": p, "v": v, "st": st, "o": ev["o"]})
        nontrivial.add((R.skeleton(p), R.val_kind(v), ctx))
    # ---- histories on annotated variables
    hitems, hmeta = [], []
    for h in range(n_hist):
        types = {"xa": rng.choice(HTYPES), "xb": rng.choice(HTYPES)}
        acts = [random_action(rng) for _ in range(hist_len)]
        hitems.append({"steps": c12.var_steps(types, acts, "h%d" % h), "group": 0})
        hmeta.append((types, acts))
    hres = S.run_items(hitems, batch_steps=170, t_batch=2000, t_alone=3000, stats=stats, prelude=R.PRELUDE)
    for it, (types, acts), rs in zip(hitems, hmeta, hres):
        ini = c12.observed_vars(rs[2]) if len(rs) > 2 else None
        if ini is None or ini["xa"] is None or ini["xb"] is None:
            rep.mismatch("trace:hist:declaration", "annotated declarations did not evaluate",
                         {"steps": R.PRELUDE + [s["src"] for s in it["steps"][:2]]})
            continue
        steps = []
        for j, a in enumerate(acts):
            st = rs[3 + j] if len(rs) > 3 + j else {"o": "missing"}
            ov = c12.observed_vars(st) or {"xa": None, "xb": None, "isa": False, "isb": False}
            o = st.get("o")
            steps.append({"a": a, "o": "ok" if o == "ok" else ("raise" if o == "throw" else c12.out_class(st)),
                          "xa": ov["xa"] if ov["xa"] is not None else {"t": "other"},
                          "xb": ov["xb"] if ov["xb"] is not None else {"t": "other"},
                          "isa": bool(ov["isa"]), "isb": bool(ov["isb"])})
            nontrivial.add((a["k"], a["o"], R.type_key(types[a["x"]]), R.val_kind(a["w"]), steps[-1]["o"]))
        events.append({"ev": "hist", "ty": types, "init": {"xa": ini["xa"], "xb": ini["xb"]}, "steps": steps})
        einfo.append({"kind": "hist", "srcs": [s["src"] for s in it["steps"]], "types": types, "acts": acts, "steps": steps})
    mism, n = nv.validate_trace("Trace_Pattern", events, wd, chunk=700 if tier == "quick" else 1500)
    for idx, exp in mism:
        info = einfo[idx]
        exp = exp if isinstance(exp, dict) else {}
        if info["kind"] == "match":
            key = "trace:match:%s:%s:exp-%s:obs-%s" % (info["ctx"], info["p"]["k"], "ok" if exp.get("ok") else "fail", info["o"])
            if info["ctx"] == "decl" and exp.get("ok") and info["o"] == "ok" and R.has_kind(info["p"], ("or",)):
                # everything the specification binds is bound as it says, and MORE names are: what a failed
                # alternative of an `or` declared before it failed (the known missing rollback)
                want = {b["n"]: b["v"] for b in exp.get("b") or []}
                got = {n: R.canon_to_spec(c) for n, c in zip(names_of_all(info["p"]), info["st"].get("obs") or [])
                       if c.get("t") != "undef"}
                if set(want) < set(got) and all(c12.spec_eq(got[n], v) for n, v in want.items()):
                    key = "trace:match:decl:or-leftover-binding"
            rep.mismatch(key, "`%s`: observed %s, specification %s" % (
                info["src"], info["o"], ("binds " + json.dumps(exp.get("b"))[:300]) if exp.get("ok") else "no match"),
                {"steps": R.PRELUDE + [info["src"]], "expected": exp, "observed": info["st"]})
        else:
            j = exp.get("step", 0)
            a = info["acts"][j - 1] if j >= 1 else {"k": "declaration", "o": "", "x": "xa"}
            stp = info["steps"][j - 1] if j >= 1 else {}
            key = "trace:hist:%s%s:%s:obs-%s" % (a["k"], ("(" + a["o"] + ")") if a["o"] else "",
                                                 R.type_key(info["types"][a["x"]]), stp.get("o"))
            rep.mismatch(key, "history step %d `%s` is not a step of the annotated-variable machine (observed %s)" % (
                j, info["srcs"][1 + j] if j >= 1 else "", json.dumps(stp)[:300]),
                {"steps": R.PRELUDE + info["srcs"][:2 + j], "step": j})
    if hitems:
        rep.sample({"history": [s["src"] for s in hitems[0]["steps"][:8]] + ["..."]})
    return dict(events=n, evaluations=len(items) + sum(len(a) for _, a in hmeta), nontrivial=len(nontrivial),
                histories=len(hitems), patterns=pats, sessions=stats.get("sessions", 0))
