"""C14 (a): TLC explores the session protocol automaton (spec/MC_Outcome.tla); every complete
abstract session it prints is rendered by concrete noulith statements of the stated nature and
replayed in the real interpreter; outcome classes, values and framed variables must be the ones
the specification computed."""
import json

import nv
import c14sweep as S

# concrete statements per abstract statement nature ({x} = the named variable, {k} = the constant)
VARIANTS = {
    "value": ["1 + 1", "[0, 1, 2][2]", "len(\"ab\")"],
    "assign": ["{x} = {k}", "{x} = [{k}][0]", "{x} = {k} + 0"],
    "fail:": ["1 // 0", "throw \"boom\"", "[1,2,3][7]", "null + 1", "no_such_name_zz", "assert(0)"],
    "fail:x": ["{x} = 1 // 0", "{x} //= 0", "{x} = [1][5]", "{x}[0] = 1", "{x} .= no_such_name_zz", "{x}, = []"],
    "fail:xa,xb": ["{xa}, {xb} = [1]", "{xa}, {xb} = 1 // 0", "swap {xa}, {xb}[0]", "every {xa}, {xb} = 1 // 0",
                   "{xa}, ...{xb} = 5", "{xa}, {xb} = [1, 2, 3]"],
    "ctl": ["break", "continue", "return 5", "break", "continue", "return 5"],
    "malformed": ["(1 +", "[1, 2", "1 )", "if (", "]", "{1:"],
}


def render(stmt, variant, sfx):
    nat = stmt["nat"]
    names = sorted(stmt["names"])
    if nat == "fail":
        key = "fail:" + ("" if not names else ("x" if len(names) == 1 else "xa,xb"))
    else:
        key = nat
    vs = VARIANTS[key]
    t = vs[variant % len(vs)]
    x = (stmt["x"] or (names[0] if names else "xa")) + sfx
    src = t.replace("{xa}", "xa" + sfx).replace("{xb}", "xb" + sfx).replace("{x}", x).replace("{k}", str(stmt["k"]))
    if stmt["try"]:
        if nat == "malformed":
            return "try %s catch ee -> \"caught\"" % src
        return "try (%s) catch ee -> \"caught\"" % src
    return src


def describe(stmt, variant):
    return "%s%s{%s}#%d" % ("try:" if stmt["try"] else "", stmt["nat"], ",".join(sorted(stmt["names"])), variant % 6)


def start_tlc(tier, wd):
    """TLC on the protocol automaton, in the background (the sweep does not need its result)"""
    import threading
    cfg = "MC_Outcome_quick.cfg" if tier == "quick" else "MC_Outcome_thorough.cfg"
    box = {}

    def work():
        box["r"] = nv.run_tlc("MC_Outcome", cfg, wd, workers=4, timeout=3000)
    th = threading.Thread(target=work)
    th.start()
    return th, box


def run(rep, tier, wd, started=None):
    th, box = started or start_tlc(tier, wd)
    th.join()
    r = box.get("r") or {"ok": False, "error": "TLC thread died", "tagged": {}}
    if not r["ok"]:
        if "is violated" in r["error"]:
            rep.mismatch("spec:MC_Outcome:invariant", "TLC found an invariant violation in the protocol specification itself",
                         {"tlc": r["error"]})
        else:
            print(r["error"])
            nv.tool_fail("TLC failed on MC_Outcome")
    sessions = [json.loads(x)["steps"] for x in r["tagged"].get("REPLAY", [])]
    nvar = 2 if tier == "quick" else 3
    items = []
    for si, sess in enumerate(sessions):
        for k in range(nvar):
            variant = (si + k * 3) % 6 if k else si % 6
            sfx = "s%dv%d" % (si, k)
            steps = [{"src": "xa%s := 0" % sfx}, {"src": "xb%s := 0" % sfx}]
            for st in sess:
                steps.append({"src": render(st["stmt"], variant, sfx), "obs": ["xa" + sfx, "xb" + sfx, "zq"]})
            items.append({"steps": steps, "group": 0, "si": si, "variant": variant})
    stats = {}
    out = S.run_items(items, batch_steps=100, t_batch=3000, t_alone=3000, stats=stats)
    nontrivial = set()
    for it, res in zip(items, out):
        sess = sessions[it["si"]]
        srcs = ["zq := 12345"] + [s["src"] for s in it["steps"]]
        for j, st in enumerate(sess):
            ob = res[3 + j] if 3 + j < len(res) else {"o": "missing"}
            desc = describe(st["stmt"], it["variant"])
            o = ob.get("o")
            bad = None
            if o != st["out"]:
                cls = S.abnormal_class([ob]) or ("out=%s" % o)
                bad = ("%s:%s" % (desc, cls), "outcome class %s, specification expects %s" % (o, st["out"]))
            elif st["v"]["t"] == "int" and S.int_of(ob.get("v")) != st["v"]["i"]:
                bad = ("%s:value" % desc, "value %s, specification expects %d" % (json.dumps(ob.get("v"))[:80], st["v"]["i"]))
            elif st["v"]["t"] == "str" and not (ob.get("v", {}).get("t") == "str" and ob["v"]["v"] == st["v"]["s"]):
                bad = ("%s:value" % desc, "value %s, specification expects \"%s\"" % (json.dumps(ob.get("v"))[:80], st["v"]["s"]))
            else:
                obs = ob.get("obs") or []
                for vi, name in enumerate(("xa", "xb")):
                    want = st["after"][name]
                    if want != -1 and (vi >= len(obs) or S.int_of(obs[vi]) != want):
                        bad = ("%s:frame:%s" % (desc, name), "variable %s is %s after the statement, specification expects %d"
                               % (name, json.dumps(obs[vi] if vi < len(obs) else None)[:80], want))
                if not bad and (len(obs) < 3 or S.int_of(obs[2]) != S.SENTINEL):
                    bad = ("%s:frame:sentinel" % desc, "the sentinel variable changed")
            if st["out"] != "ok" or st["stmt"]["try"]:
                nontrivial.add((it["si"], it["variant"]))
            if bad:
                rep.mismatch("mc:" + bad[0], "session %s, step %d `%s`: %s" % (
                    " ; ".join(srcs[1:3 + j]), j + 1, srcs[3 + j], bad[1]),
                    {"steps": srcs[:4 + j], "expected": st, "observed": ob})
                break
    if items:
        rep.sample({"mc_session": [s["src"] for s in items[len(items) // 2]["steps"]],
                    "expected_outcomes": [s["out"] for s in sessions[items[len(items) // 2]["si"]]]})
    return dict(distinct=r["distinct"], generated=r["generated"], sessions=len(sessions), replayed=len(items),
                nontrivial=len(nontrivial),
                invariants=["OneOutcome", "Containment", "NoEscape", "OnlyThrowIsCaught", "Transparent", "Frame",
                            "Usable"])
