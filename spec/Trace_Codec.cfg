INIT Init
NEXT Next
INVARIANT Done
CHECK_DEADLOCK FALSE
