------------------------------ MODULE Outcome ------------------------------
(***************************************************************************)
(* C14 -- every failure is a catchable error, never a crash, and           *)
(* try/catch contains it.                                                  *)
(*                                                                         *)
(* The protocol of ONE interpreter session, seen from outside:             *)
(*                                                                         *)
(*    idle --Begin(stmt)--> evaluating --End--> idle                       *)
(*                                                                         *)
(* An evaluation ends in exactly one of                                    *)
(*    Returned(v)   outcome class "ok"                                     *)
(*    Thrown(e)     outcome class "throw"                                  *)
(*    Ctl           "ctl": break / continue / return reaching top level    *)
(*    ParseError    "parse_error": the text is not a statement             *)
(* There is NO action that ends an evaluation with a panic, an abort of    *)
(* the process or a time-out: a recorded session that contains one of      *)
(* these is not a behaviour of this specification.                         *)
(*                                                                         *)
(* A statement is known to the protocol only through                       *)
(*    nat     how it ends  (value / assign / fail / ctl / malformed)       *)
(*    names   the variables it names (only those may change)               *)
(*    try     whether it is wrapped as   try <stmt> catch e -> "caught"    *)
(* and the rules are                                                       *)
(*    containment   try around a statement that throws returns "caught";   *)
(*                  around anything else it is transparent (try intercepts *)
(*                  Throw only, never break / continue / return);          *)
(*    frame         a variable not named by the statement keeps its value, *)
(*                  however the statement ends (a named variable of a      *)
(*                  failing statement is unconstrained: Unknown);          *)
(*    usable        whatever happened before, the next evaluation is       *)
(*                  accepted, and the probe  1 + 1  returns 2.             *)
(*                                                                         *)
(* MC_Outcome explores the automaton and checks these as invariants over   *)
(* the recorded history; Trace_Outcome uses the same operators (TryClass,  *)
(* ProtocolOk, the sweep tables below) to judge sessions recorded from the *)
(* real interpreter.                                                       *)
(***************************************************************************)
EXTENDS Naturals, Integers, Sequences, FiniteSets, IOUtils

\* named specification mutants for the negative controls (environment NV_SPEC_MUTANT)
Mutant == IF "NV_SPEC_MUTANT" \in DOMAIN IOEnv THEN IOEnv.NV_SPEC_MUTANT ELSE ""

Normal == {"ok", "throw", "ctl", "parse_error"}
Abnormal == {"panic", "abort", "timeout"}      \* named only to be able to say why a trace is rejected

(* ------------------------------- values -------------------------------- *)
IntV(k) == [t |-> "int", i |-> k]
StrV(s) == [t |-> "str", s |-> s]
NullV == [t |-> "null"]
NoV == [t |-> "none"]
CaughtV == StrV("caught")
Unknown == -1                                   \* store content about which the protocol says nothing

(* ------------------------------ statements ----------------------------- *)
Vars == {"xa", "xb"}
Natures == {"value", "assign", "fail", "ctl", "malformed"}
Stmt(nat, names, x, k, tr) == [nat |-> nat, names |-> names, x |-> x, k |-> k, try |-> tr]
Probe == Stmt("value", {}, "", 2, FALSE)        \* 1 + 1
BaseStmts ==
    {Probe}
    \cup {Stmt("assign", {x}, x, k, FALSE) : x \in Vars, k \in {1, 2}}
    \cup {Stmt("fail", ns, "", 0, FALSE) : ns \in SUBSET Vars}
    \cup {Stmt("ctl", {}, "", 0, FALSE), Stmt("malformed", {}, "", 0, FALSE)}
TryOf(s) == [s EXCEPT !.try = TRUE]
Stmts == BaseStmts \cup {TryOf(s) : s \in BaseStmts}

\* which outcome classes a catch clause intercepts
Catches(out) == out = "throw" \/ (Mutant = "try-catches-ctl" /\ out = "ctl")
\* outcome class of  try s catch e -> "caught"  when s itself ends with class p
TryClass(p) == IF Catches(p) THEN "ok" ELSE p

Base(s, st) ==
    CASE s.nat = "value"     -> [out |-> "ok", v |-> IntV(s.k), store |-> st]
      [] s.nat = "assign"    -> [out |-> "ok", v |-> NullV, store |-> [st EXCEPT ![s.x] = s.k]]
      [] s.nat = "fail"      -> [out |-> "throw", v |-> NoV,
                                 store |-> [y \in Vars |-> IF y \in s.names THEN Unknown ELSE st[y]]]
      [] s.nat = "ctl"       -> [out |-> "ctl", v |-> NoV, store |-> st]
      [] s.nat = "malformed" -> [out |-> "parse_error", v |-> NoV, store |-> st]
End(s, st) ==
    LET r == Base(s, st)
    IN IF s.try /\ Catches(r.out) THEN [out |-> "ok", v |-> CaughtV, store |-> r.store] ELSE r

(* ------------------------------ the automaton -------------------------- *)
VARIABLES phase, cur, store, hist, begun
ovars == <<phase, cur, store, hist, begun>>

NoStmt == Stmt("none", {}, "", 0, FALSE)
OInit == /\ phase = "idle" /\ cur = NoStmt /\ begun = 0 /\ hist = <<>>
         /\ store = [y \in Vars |-> 0]

Begin(s) == /\ phase = "idle"
            /\ phase' = "evaluating" /\ cur' = s /\ begun' = begun + 1
            /\ UNCHANGED <<store, hist>>
\* the history entry the current evaluation will leave (a function of the CURRENT state only)
Completed == LET r == End(cur, store)
             IN [stmt |-> cur, out |-> r.out, v |-> r.v, before |-> store, after |-> r.store]
Finish == /\ phase = "evaluating"
          /\ store' = Completed.after
          /\ hist' = Append(hist, Completed)
          /\ phase' = "idle" /\ cur' = NoStmt /\ UNCHANGED begun

(* ------------------- the property, over the recorded history ----------- *)
\* exactly one outcome per evaluation, and it is one of the four normal ones
OneOutcome ==
    /\ phase = "idle" => begun = Len(hist)
    /\ phase = "evaluating" => begun = Len(hist) + 1
    /\ \A j \in 1..Len(hist) : hist[j].out \in Normal
\* a statement that threw, re-evaluated under try, is Returned("caught")
Containment ==
    \A j \in 1..(Len(hist) - 1) :
        (hist[j].out = "throw" /\ hist[j + 1].stmt = TryOf(hist[j].stmt))
            => (hist[j + 1].out = "ok" /\ hist[j + 1].v = CaughtV)
\* nothing thrown escapes a try; and only a Throw is turned into "caught"
NoEscape == \A j \in 1..Len(hist) : hist[j].stmt.try => hist[j].out # "throw"
OnlyThrowIsCaught ==
    \A j \in 1..Len(hist) : (hist[j].stmt.try /\ hist[j].v = CaughtV) => hist[j].stmt.nat = "fail"
Transparent ==
    \A j \in 1..Len(hist) : (hist[j].stmt.try /\ hist[j].stmt.nat # "fail")
                               => hist[j].out = Base(hist[j].stmt, hist[j].before).out
\* frame condition
Frame == \A j \in 1..Len(hist) : \A y \in Vars \ hist[j].stmt.names : hist[j].after[y] = hist[j].before[y]
\* the session stays usable: a new evaluation is always accepted when idle, and the probe works
Usable == /\ phase = "idle" => \A s \in Stmts : ENABLED Begin(s)
          /\ \A j \in 1..Len(hist) : hist[j].stmt = Probe => (hist[j].out = "ok" /\ hist[j].v = IntV(2))

(* --------------------- judging one recorded mini-session --------------- *)
(* declare sentinel; s; try s catch e -> "caught"; 1 + 1; re-read sentinel  *)
(* (z0 = the sentinel as declared, z3 = as re-read at the end), where s     *)
(* does not name the sentinel.                                              *)
Sentinel == 12345
\* the mini-session is a behaviour of the automaton: some statement s of the alphabet explains
\* the three observed evaluations  s ; try s ; probe  (the frame is judged on the sentinel)
ProtocolOk(ev) ==
    /\ ev.z0 = Sentinel /\ ev.z3 = Sentinel
    /\ \E s \in BaseStmts :
          LET st0 == [y \in Vars |-> 0]
              r1 == End(s, st0)
              r2 == End(TryOf(s), r1.store)
              r3 == End(Probe, r2.store)
          IN /\ ev.plain = r1.out
             /\ ev.tried = r2.out
             /\ r2.v = CaughtV => ev.caught
             /\ ev.after = r3.out /\ IntV(ev.two) = r3.v
\* forcing a lazy result is an evaluation like any other
ForceOk(ev) == ev.o \in Normal

(* ------------------------------ sweep tables --------------------------- *)
\* globals that touch files, the process, the network, the clock, sleep or randomness
Excluded == {"input", "read", "read_bytes", "read_compressed", "read_file", "read_file?", "read_file_bytes",
             "read_file_bytes?", "interact", "interact_lines", "write_file", "append_file", "list_files",
             "path_join", "path_parent", "run_process", "sleep", "now", "time", "random", "random_bytes",
             "random_range", "shuffle", "choose", "request", "exit", "import"}
\* argument-kind alphabet of the boundary pool
Kinds == {"i0", "i", "ibig", "q", "f", "fx", "c", "s0", "s", "l0", "l", "d0", "d", "v0", "v", "b0", "b",
          "n", "st", "fn"}
\* callees that may be handed an infinite stream (they do not have to consume it)
NonConsuming == {"take", "first", "second", "third", "tail", "lazy_map", "lazy_filter", "lazy_zip", "type",
                 "is", "id", "const", "not", "!!", "!?", "uncons", "uncons?", "zip", "then", "=>"}
=============================================================================
