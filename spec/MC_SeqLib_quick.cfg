SPECIFICATION Spec
CONSTANT MaxLen = 3
INVARIANT Laws
CONSTANT SeqMutation = "none"
CHECK_DEADLOCK FALSE
