SPECIFICATION Spec
CONSTANT MaxLen = 3
INVARIANT Laws
CHECK_DEADLOCK FALSE
