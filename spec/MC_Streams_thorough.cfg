SPECIFICATION Spec
CONSTANT RNeg = 4
CONSTANT RPos = 4
CONSTANT SMax = 3
CONSTANT MaxBase = 5
CONSTANT MaxPerm = 5
CONSTANT MaxPow = 3
CONSTANT MaxDropInf = 5
INVARIANT Coherent
INVARIANT ObsDefined
CHECK_DEADLOCK FALSE
