------------------------------ MODULE Trace_Outcome ------------------------------
(***************************************************************************)
(* C14, trace validation: sessions recorded from the real interpreter      *)
(* must be behaviours of the protocol automaton Outcome.tla.               *)
(*                                                                         *)
(* Every recorded mini-session is                                          *)
(*    zq := 12345 ; s ; try s catch e -> "caught" ; 1 + 1 ; re-read zq     *)
(* and is logged by its observation: plain / tried / after = outcome       *)
(* classes of the three evaluations, caught = the try returned "caught",   *)
(* two = value of 1 + 1, z0 / z3 = the sentinel as declared / re-read.     *)
(* The trace (ndjson, path in env TRACE) is compressed: one event per      *)
(*   ev = "calls"  (builtin f, arity ar): classes = the distinct           *)
(*                 observations, each with the argument-kind signatures    *)
(*                 (and member counts) that produced it; an abnormal       *)
(*                 observation (panic / abort / timeout) is never merged:  *)
(*                 one class per member                                    *)
(*   ev = "force"  (f, ar): forcings of lazy results: classes (how, o)     *)
(*   ev = "stmts"  fault-injected statement template tid: classes as for   *)
(*                 calls plus zp / z2 (sentinel after the plain / the try  *)
(*                 evaluation) and keep (the bystander variable kept its   *)
(*                 value)                                                  *)
(*   ev = "table"  the interpreter's own table of globals (names, isfunc), *)
(*                 the exclusion list and kind alphabet the sweep used,    *)
(*                 the largest arity swept                                 *)
(* Abnormal outcome classes are not in Outcome!Normal, so a class carrying *)
(* one is rejected.  A "calls" event must cover every argument-kind        *)
(* signature of its arity, and when the whole trace has been consumed the  *)
(* coverage obligation is checked: every global function of the table that *)
(* is not in Outcome!Excluded x every arity 0..maxar must have had its     *)
(* "calls" event (a sweep that silently skips builtins is rejected as      *)
(* vacuous).  Mismatches are printed and do not block.                     *)
(***************************************************************************)
EXTENDS Outcome, Json, Sequences, TLC

Rec == ndJsonDeserialize(IOEnv.TRACE)

VARIABLES l, tab, seen
tvars == <<l, tab, seen>>

Range(s) == {s[j] : j \in 1..Len(s)}
NoTab == [ev |-> "none"]

\* kinds of the 3-argument pool (one representative per important kind)
Kinds3 == {"i0", "i", "ibig", "q", "fx", "s", "l0", "l", "d", "b", "n", "fn"}
AllSigs(ar) ==
    CASE ar = 0 -> {<<>>}
      [] ar = 1 -> {<<x>> : x \in Kinds}
      [] ar = 2 -> {<<x, y>> : x \in Kinds, y \in Kinds}
      [] ar = 3 -> {<<x, y, z>> : x \in Kinds3, y \in Kinds3, z \in Kinds3}

Report(ev, exp) == PrintT("MISMATCH " \o ToJson([l |-> l, id |-> ev.id, exp |-> exp]))
Chk(ok, ev, exp) == IF ok THEN TRUE ELSE Report(ev, exp)

\* an infinite stream ("sti") may only be handed to a callee that need not consume it
SigOk(f, sig) == ("sti" \in Range(sig)) => (f \in NonConsuming)
MembersOk(f, c) == \A k \in 1..Len(c.sigs) : c.sigs[k].n >= 1 /\ SigOk(f, c.sigs[k].sig)
CallClassOk(f, c) == MembersOk(f, c) /\ ProtocolOk(c)
ForceClassOk(f, c) == MembersOk(f, c) /\ ForceOk(c)
\* a statement names variables: everything else (sentinel and bystander) is framed
StmtClassOk(c) == c.n >= 1 /\ ProtocolOk(c) /\ c.zp = Sentinel /\ c.z2 = Sentinel /\ c.keep
SigsOf(ev) == UNION {{c.sigs[k].sig : k \in 1..Len(c.sigs)} : c \in Range(ev.classes)}
TableOk(ev) == /\ Range(ev.excluded) = Excluded
               /\ Range(ev.kinds) = Kinds
               /\ ev.maxar \in {2, 3}
               /\ Len(ev.names) = Len(ev.isfunc)

\* one MISMATCH line per class of the event that the protocol cannot explain
Classes(ev, Ok(_)) ==
    \A j \in 1..Len(ev.classes) : Chk(Ok(ev.classes[j]), ev, [rule |-> "protocol", cls |-> j])

Step(ev) ==
    CASE ev.ev = "calls" ->
            LET ok(c) == CallClassOk(ev.f, c)
                cov == AllSigs(ev.ar) \subseteq SigsOf(ev)
            IN /\ Classes(ev, ok)
               /\ Chk(ev.f \notin Excluded, ev, [rule |-> "excluded"])
               /\ Chk(cov, ev, [rule |-> "signatures"])
               /\ seen' = IF cov THEN seen \cup {<<ev.f, ev.ar>>} ELSE seen
               /\ UNCHANGED tab
      [] ev.ev = "force" ->
            LET ok(c) == ForceClassOk(ev.f, c)
            IN Classes(ev, ok) /\ UNCHANGED <<tab, seen>>
      [] ev.ev = "stmts" ->
            Classes(ev, StmtClassOk) /\ UNCHANGED <<tab, seen>>
      [] ev.ev = "table" ->
            /\ Chk(TableOk(ev), ev, [rule |-> "table"])
            /\ tab' = ev /\ UNCHANGED seen

Init == l = 1 /\ tab = NoTab /\ seen = {} /\ OInit
Next == /\ l <= Len(Rec)
        /\ Step(Rec[l])
        /\ l' = l + 1
        /\ UNCHANGED ovars       \* the automaton's own variables are not used by the validator

\* coverage obligation, checked when the whole trace has been consumed
Missing == {p \in (1..Len(tab.names)) \X (0..tab.maxar) :
               /\ tab.isfunc[p[1]]
               /\ tab.names[p[1]] \notin Excluded
               /\ <<tab.names[p[1]], p[2]>> \notin seen}
Coverage == IF tab.ev # "table" THEN Report([id |-> 0], [rule |-> "no-table"])
            ELSE IF Missing # {} THEN Report(tab, [rule |-> "coverage", missing |-> Missing])
            ELSE TRUE
Done == l = Len(Rec) + 1 => (Coverage /\ PrintT("TRACE-END " \o ToString(Len(Rec))))
=============================================================================
