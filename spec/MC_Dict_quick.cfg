SPECIFICATION Spec
CONSTANT NKeys = 7
CONSTANT Depth = 3
CONSTANT MemoLen = 3
CONSTANT Mutation = "none"
CONSTANT ListLen = 3
INVARIANT RepInv
INVARIANT LenInv
INVARIANT LookupInv
INVARIANT ListInv
VIEW View
CHECK_DEADLOCK FALSE
