----------------------------- MODULE Trace_Index -----------------------------
(***************************************************************************)
(* Trace validation for C10.  The trace (ndjson, path in env TRACE) holds   *)
(* one event per statement executed by the real interpreter on a variable   *)
(* holding the sequence s = [k, xs] (logged as it was before the            *)
(* statement):                                                              *)
(*   ev = "read"   op, a1, a2          an index / slice / accessor builtin  *)
(*   ev = "write"  op, a1, a2, w       an indexed write statement           *)
(* with  out  the outcome class,  r  the value of the statement and  post   *)
(* the value of the variable afterwards.  The specification recomputes the  *)
(* expected result from the logged arguments (Index!Access / Index!Write)   *)
(* and compares; a read must leave the variable as it was.  A mismatch is   *)
(* printed and the validator moves on.                                      *)
(***************************************************************************)
EXTENDS Index, Json, Sequences

Rec == ndJsonDeserialize(IOEnv.TRACE)

VARIABLE l
vars == <<l>>

Report(ev, exp) == PrintT("MISMATCH " \o ToJson([l |-> l, id |-> ev.id, exp |-> exp]))
Chk(ok, ev, exp) == IF ok THEN TRUE ELSE Report(ev, exp)

Step(ev) ==
    IF ev.ev = "read"
    THEN LET exp == Access(ev.op, ev.s, ev.a1, ev.a2)
         IN Chk(ReadAgrees(exp, ev.s, ev.out, ev.r, ev.post), ev, exp)
    ELSE LET exp == Write(ev.op, ev.s, ev.a1, ev.a2, ev.w)
         IN Chk(WriteAgrees(exp, ev.op, ev.out, ev.r, ev.post), ev, exp)

Init == l = 1
Next == /\ l <= Len(Rec)
        /\ Step(Rec[l])
        /\ l' = l + 1
Done == l = Len(Rec) + 1 => PrintT("TRACE-END " \o ToString(Len(Rec)))
=============================================================================
