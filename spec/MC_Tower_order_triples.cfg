SPECIFICATION Spec
CONSTANT Mode = "order"
CONSTANT Triples = TRUE
INVARIANT ArithLaws
INVARIANT OrderLaws
CHECK_DEADLOCK FALSE
