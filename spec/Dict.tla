-------------------------------- MODULE Dict --------------------------------
(***************************************************************************)
(* C09: a noulith dictionary is a finite map whose keys are equivalence    *)
(* classes of the language's `==` on hashable values.                      *)
(*                                                                         *)
(* Values (every kind has its own field names, so that TLC never compares  *)
(* fields of different shapes):                                            *)
(*   [t |-> "null"]                                                        *)
(*   [t |-> "num",   n   |-> NumTower number]                              *)
(*   [t |-> "str",   str |-> STRING]                                       *)
(*   [t |-> "list",  xs  |-> sequence of values]                           *)
(*   [t |-> "vec",   ns  |-> sequence of NumTower numbers]                 *)
(*   [t |-> "bytes", bs  |-> sequence of 0..255]                           *)
(*   [t |-> "dict",  es  |-> SET of <<key, value>>,                        *)
(*                   df  |-> <<>> (no default) or <<value>>]               *)
(*                                                                         *)
(* Representation invariant of a dictionary: OneEntryPerClass - no two     *)
(* entries have KeyEq keys.  Every operation below preserves it.           *)
(*                                                                         *)
(* Where an entry is overwritten through a different representative of its *)
(* class (d[1.0] = v on {1: w}) the documentation does not say which of    *)
(* the two equal keys is stored afterwards.  The operations here keep the  *)
(* key that was stored first (what a hash map insert does); the bindings   *)
(* compare stored keys up to KeyEq only (SameDict), never exactly.         *)
(***************************************************************************)
EXTENDS NumTower, FiniteSets

(* Negative control of the bindings (tools/BUILDING.md): the constant       *)
(* Mutation switches ONE rule of this specification to a wrong one; the     *)
(* unchanged implementation must then be rejected.  Every cfg sets "none";  *)
(* `C09_MUTANT=<name> ./check C09 quick` runs the check with a mutated cfg. *)
(*   union_left  a || b keeps the left value at a collision                 *)
(*   key_by_rep  numbers are equal as keys only at the same numeric level   *)
(*   no_materialise  d[k] f= v on a default does not create the entry       *)
CONSTANT Mutation

VNull == [t |-> "null"]
VNum(x) == [t |-> "num", n |-> x]
VInt(j) == VNum(MkInt(IntFromInt(j)))
VStr(s) == [t |-> "str", str |-> s]
VList(xs) == [t |-> "list", xs |-> xs]
VVec(ns) == [t |-> "vec", ns |-> ns]
VBytes(bs) == [t |-> "bytes", bs |-> bs]
VDict(es, df) == [t |-> "dict", es |-> es, df |-> df]
NoDefault == <<>>
EmptyDict == VDict({}, NoDefault)
IsIntVal(v) == v.t = "num" /\ v.n.k = "int"

(* --------------------- the language's == on numbers --------------------- *)
(* The definition is NumTower!NumEq: exact comparison across int / rational *)
(* / float / complex (floats are exact dyadic rationals, complex numbers    *)
(* compare as (re, im) pairs, a NaN is unequal to everything).  NumEq does  *)
(* rational arithmetic on limb sequences (~0.3 ms in TLC) and dictionaries  *)
(* compare keys millions of times, so the operations below use NumEqual:    *)
(* the same relation decided structurally on CANONICAL representations      *)
(* (normalised integers, rationals in lowest terms, floats as odd mantissa  *)
(* times power of two - what the harness reports and RatOk demands).        *)
(* NumEqAgrees states the equivalence; MC_Dict checks it for all pairs of   *)
(* pool numbers at start-up and Trace_Dict for all pairs of numbers of      *)
(* every history's key pool.                                                *)
FltEq(f, g) == (f.c = "zero" /\ g.c = "zero") \/ (f.c # "nan" /\ f = g)
FltSign(f) == IF f.sg = 1 THEN -1 ELSE 1
IntFltEq(j, f) == CASE f.c = "zero" -> j.s = 0
                    [] f.c = "fin" -> f.e >= 0 /\ j.s = FltSign(f) /\ j.m = NatShl(f.m, f.e)
                    [] OTHER -> FALSE
RatFltEq(x, f) == CASE f.c = "zero" -> x.n.s = 0
                    [] f.c = "fin" -> /\ x.n.s = FltSign(f)
                                      /\ IF f.e >= 0 THEN x.d = <<1>> /\ x.n.m = NatShl(f.m, f.e)
                                         ELSE x.n.m = f.m /\ x.d = NatShl(<<1>>, -f.e)
                    [] OTHER -> FALSE
RealFltEq(x, f) == CASE x.k = "int" -> IntFltEq(x.i, f)
                     [] x.k = "rat" -> RatFltEq(x, f)
                     [] x.k = "float" -> FltEq(x.f, f)
NumEqual(x, y) ==
    CASE x.k = "complex" /\ y.k = "complex" -> FltEq(x.re, y.re) /\ FltEq(x.im, y.im)
      [] x.k = "complex" -> x.im.c = "zero" /\ RealFltEq(y, x.re)
      [] y.k = "complex" -> y.im.c = "zero" /\ RealFltEq(x, y.re)
      [] x.k = "float" -> RealFltEq(y, x.f)
      [] y.k = "float" -> RealFltEq(x, y.f)
      [] x.k = "int" /\ y.k = "int" -> IntEq(x.i, y.i)
      [] x.k = "int" /\ y.k = "rat" -> y.d = <<1>> /\ IntEq(y.n, x.i)
      [] x.k = "rat" /\ y.k = "int" -> x.d = <<1>> /\ IntEq(x.n, y.i)
      [] x.k = "rat" /\ y.k = "rat" -> IntEq(x.n, y.n) /\ x.d = y.d
\* ns: a sequence of numbers
NumEqAgrees(ns) == \A g, h \in 1..Len(ns) : NumEqual(ns[g], ns[h]) = NumEq(ns[g], ns[h])
NIsNaN(x) == \/ x.k = "float" /\ x.f.c = "nan"
             \/ x.k = "complex" /\ (x.re.c = "nan" \/ x.im.c = "nan")
\* as a dictionary key a NaN equals a NaN
NumKeyEq(x, y) == IF Mutation = "key_by_rep" /\ x.k # y.k THEN FALSE
                  ELSE NumEqual(x, y) \/ (NIsNaN(x) /\ NIsNaN(y))

(* ------------------ the language's == on all key values ----------------- *)
(* nanEq = TRUE : equality of KEYS (NaN equal to itself)                    *)
(* nanEq = FALSE: the `==` operator on values (NaN unequal to itself)       *)
(* structural on lists / vectors / strings / bytes, no equality across      *)
(* kinds (a vector never equals a list); dictionaries are equal when they   *)
(* have the same key classes with equal values - defaults are ignored and   *)
(* keys inside a dictionary always compare as keys.                         *)
RECURSIVE Eqv(_, _, _)
Eqv(x, y, nanEq) ==
    IF x.t # y.t THEN FALSE
    ELSE CASE x.t = "null" -> TRUE
           [] x.t = "num" -> IF nanEq THEN NumKeyEq(x.n, y.n) ELSE NumEqual(x.n, y.n)
           [] x.t = "str" -> x.str = y.str
           [] x.t = "bytes" -> x.bs = y.bs
           [] x.t = "list" -> /\ Len(x.xs) = Len(y.xs)
                              /\ \A j \in 1..Len(x.xs) : Eqv(x.xs[j], y.xs[j], nanEq)
           [] x.t = "vec" -> /\ Len(x.ns) = Len(y.ns)
                             /\ \A j \in 1..Len(x.ns) :
                                  IF nanEq THEN NumKeyEq(x.ns[j], y.ns[j]) ELSE NumEqual(x.ns[j], y.ns[j])
           [] x.t = "dict" -> /\ Cardinality(x.es) = Cardinality(y.es)
                              /\ \A p \in x.es : \E q \in y.es :
                                   Eqv(p[1], q[1], TRUE) /\ Eqv(p[2], q[2], nanEq)
           \* functions, streams, struct instances: not keys, never equal here
           [] OTHER -> FALSE
KeyEq(x, y) == Eqv(x, y, TRUE)
ValEq(x, y) == Eqv(x, y, FALSE)

(* ------------------------------- reading -------------------------------- *)
Match(d, k) == {p \in d.es : KeyEq(p[1], k)}
Has(d, k) == \E p \in d.es : KeyEq(p[1], k)
Entry(d, k) == CHOOSE p \in d.es : KeyEq(p[1], k)
HasDefault(d) == d.df # <<>>
\* d[k], d !! k, the section _[k]
Get(d, k) == LET ms == Match(d, k)
             IN IF ms # {} THEN Ok((CHOOSE p \in ms : TRUE)[2])
                ELSE IF HasDefault(d) THEN Ok(d.df[1]) ELSE Throw
\* d !? k
Safe(d, k) == LET ms == Match(d, k)
              IN IF ms # {} THEN (CHOOSE p \in ms : TRUE)[2]
                 ELSE IF HasDefault(d) THEN d.df[1] ELSE VNull
\* k in d  (the default does not make a key present)
In(k, d) == Has(d, k)
DLen(d) == Cardinality(d.es)
Keys(d) == {p[1] : p \in d.es}
\* keys / values / items are sequences in an order the documentation leaves open:
\* the bindings compare them as multisets against these sets / bags
Items(d) == d.es

(* ------------------------------- writing -------------------------------- *)
Without(d, k) == {p \in d.es : ~KeyEq(p[1], k)}
Put(d, k, v) == [d EXCEPT !.es = Without(d, k) \cup {<<IF Has(d, k) THEN Entry(d, k)[1] ELSE k, v>>}]
Del(d, k) == [d EXCEPT !.es = Without(d, k)]

\* results of state changing operations: the new dictionary, the outcome class and the value
Res(d, out, r) == [d |-> d, out |-> out, r |-> r]

\* literal {:df, k1: v1, ...}, dict(pairs): later pairs win
RECURSIVE PutAll(_, _, _)
PutAll(d, pairs, j) == IF j > Len(pairs) \/ Cardinality(d.es) < 0 THEN d
                       ELSE PutAll(Put(d, pairs[j][1], pairs[j][2]), pairs, j + 1)
Literal(pairs, df) == PutAll(VDict({}, df), pairs, 1)

\* d[k] = v
SetKey(d, k, v) == Res(Put(d, k, v), "ok", VNull)

\* the operators of `d[k] f= v` used by the bindings: on two integers the exact value, on a
\* non-number (null entries come from `|.`) an error; anything else is left open here (C06-C08)
ApplyF(f, x, y) ==
    IF IsIntVal(x) /\ IsIntVal(y) THEN
        LET r == IntBin(f, x.n.i, y.n.i) IN IF r.out = "ok" THEN Ok(VNum(r.r)) ELSE r
    ELSE IF x.t # "num" \/ y.t # "num" THEN Throw
    ELSE Unspec

(* d[k] f= v: read d[k] (entry, else default, else key error and nothing    *)
(* changes); the slot is null while f runs and stays null if f throws       *)
(* (documented op-assign protocol); the result is stored under k, so a      *)
(* default that was read is MATERIALISED as an entry.                       *)
OpAssign(d, k, f, v) ==
    LET g == Get(d, k)
    IN IF g.out # "ok" THEN Res(d, "throw", VNull)
       ELSE LET r == ApplyF(f, g.r, v)
            IN CASE r.out = "ok" /\ Mutation = "no_materialise" /\ ~Has(d, k) -> Res(d, "ok", VNull)
                 [] r.out = "ok" -> Res(Put(d, k, r.r), "ok", VNull)
                 [] r.out = "throw" -> Res(Put(d, k, VNull), "throw", VNull)
                 [] OTHER -> Res(d, "unspec", VNull)

(* (d[k] = v0) f= v: explicit default on the left-hand side; refused on a   *)
(* dictionary that has its own default (the evaluator says so explicitly)   *)
OpAssignDflt(d, k, v0, f, v) ==
    IF HasDefault(d) THEN Res(d, "throw", VNull)
    ELSE LET old == IF Has(d, k) THEN Entry(d, k)[2] ELSE v0
             r == ApplyF(f, old, v)
         IN CASE r.out = "ok" -> Res(Put(d, k, r.r), "ok", VNull)
              [] r.out = "throw" -> Res(Put(d, k, VNull), "throw", VNull)
              [] OTHER -> Res(d, "unspec", VNull)

\* remove d[k]: evaluates to the removed value; a missing key is an error even with a default
RemoveKey(d, k) == IF Has(d, k) THEN Res(Del(d, k), "ok", Entry(d, k)[2]) ELSE Res(d, "throw", VNull)

\* d |. k (add key with value null - an existing value is replaced by null), d -. k / discard
AddKey(d, k) == Put(d, k, VNull)
Discard(d, k) == Del(d, k)
\* d insert [k, v], d |.. [k, v]
Insert(d, k, v) == Put(d, k, v)

\* a || b: union, right-biased values; the default is the left one (as for every operator below)
Union(a, b) ==
    [a EXCEPT !.es = {<<p[1], IF Has(b, p[1]) /\ Mutation # "union_left" THEN Entry(b, p[1])[2] ELSE p[2]>> : p \in a.es}
                     \cup {q \in b.es : ~Has(a, q[1])}]
\* a && b: entries of a whose key is in b, values from the left
Inter(a, b) == [a EXCEPT !.es = {p \in a.es : Has(b, p[1])}]
\* a -- b: entries of a whose key is not in b
Diff(a, b) == [a EXCEPT !.es = {p \in a.es : ~Has(b, p[1])}]
\* a ||+ b: union, values at key collisions are added (numbers only)
UnionPlus(a, b) ==
    LET coll == {p \in a.es : Has(b, p[1])}
        sum(p) == ApplyF("+", p[2], Entry(b, p[1])[2])
    IN IF \E p \in coll : sum(p).out = "throw" THEN Res(a, "throw", VNull)
       ELSE IF \E p \in coll : sum(p).out # "ok" THEN Res(a, "unspec", VNull)
       ELSE Res([a EXCEPT !.es = {<<p[1], IF Has(b, p[1]) THEN sum(p).r ELSE p[2]>> : p \in a.es}
                                  \cup {q \in b.es : ~Has(a, q[1])}], "ok", VNull)

\* a == b on dictionaries
DictEq(a, b) == ValEq(a, b)

(* -------------------------- sequences of keys --------------------------- *)
\* set(xs): the elements as keys, null as every value
SetOf(xs) == Literal([j \in 1..Len(xs) |-> <<xs[j], VNull>>], NoDefault)
\* set(d) / iterating a dictionary yields its keys
SetOfDict(d) == VDict({<<p[1], VNull>> : p \in d.es}, NoDefault)
\* dict(xs): every element must be a two-element list
DictOf(xs) ==
    IF \E j \in 1..Len(xs) : xs[j].t # "list" \/ Len(xs[j].xs) # 2 THEN Throw
    ELSE Ok(Literal([j \in 1..Len(xs) |-> <<xs[j].xs[1], xs[j].xs[2]>>], NoDefault))
FirstOcc(xs, j) == \A h \in 1..(j - 1) : ~KeyEq(xs[h], xs[j])
\* unique(xs): first occurrences in order (positions / the elements themselves)
UniquePos(xs) == SelectSeq([j \in 1..Len(xs) |-> j], LAMBDA j : FirstOcc(xs, j))
UniqueVals(xs) == LET u == UniquePos(xs) IN [h \in 1..Len(u) |-> xs[u[h]]]
CountDistinct(xs) == Len(UniquePos(xs))
\* frequencies(xs): element -> number of occurrences, default 0
Frequencies(xs) ==
    VDict({<<xs[j], VInt(Cardinality({h \in 1..Len(xs) : KeyEq(xs[h], xs[j])}))>> :
              j \in {h \in 1..Len(xs) : FirstOcc(xs, h)}}, <<VInt(0)>>)
(* xs group_all F: the elements with equal F(x), one group per class of F(x), *)
(* each group in input order; the order of the groups is left open (here: by  *)
(* first occurrence).  As positions in xs / as the elements themselves.       *)
GroupAllPos(xs, F(_)) ==
    LET ks == [j \in 1..Len(xs) |-> F(xs[j])]
        firsts == SelectSeq([j \in 1..Len(xs) |-> j], LAMBDA j : FirstOcc(ks, j))
    IN [g \in 1..Len(firsts) |-> SelectSeq([h \in 1..Len(xs) |-> h], LAMBDA h : KeyEq(ks[h], ks[firsts[g]]))]
GroupAll(xs, F(_)) ==
    LET gp == GroupAllPos(xs, F) IN [g \in 1..Len(gp) |-> [h \in 1..Len(gp[g]) |-> xs[gp[g][h]]]]

(* ------------------------------- memoize -------------------------------- *)
(* memoize(f): a cache keyed by the argument list (as a key: element-wise    *)
(* KeyEq); a call whose arguments are KeyEq to an earlier call's returns the *)
(* cached result and does not run f.  m = [cache: dictionary, calls: number  *)
(* of times f really ran]; Body(args, n) is the value f returns on its n-th  *)
(* run.                                                                      *)
MemoInit == [cache |-> EmptyDict, calls |-> 0]
MemoCall(m, args, Body(_, _)) ==
    LET key == VList(args)
    IN IF Has(m.cache, key) THEN [m |-> m, r |-> Entry(m.cache, key)[2]]
       ELSE LET r == Body(args, m.calls + 1)
            IN [m |-> [cache |-> Put(m.cache, key, r), calls |-> m.calls + 1], r |-> r]

(* ------------------------------ invariants ------------------------------ *)
OneEntryPerClass(d) == \A p, q \in d.es : KeyEq(p[1], q[1]) => p = q
\* U: a sequence of keys that contains a member of the class of every key of d
ClassRep(U, j) == CHOOSE h \in 1..Len(U) : KeyEq(U[h], U[j]) /\ \A g \in 1..(h - 1) : ~KeyEq(U[g], U[j])
LenIsCardinality(d, U) ==
    DLen(d) = Cardinality({ClassRep(U, j) : j \in {h \in 1..Len(U) : Has(d, U[h])}})
LookupTotalOnClass(d, U) ==
    \A g, h \in 1..Len(U) : KeyEq(U[g], U[h]) =>
        /\ Get(d, U[g]) = Get(d, U[h])
        /\ Safe(d, U[g]) = Safe(d, U[h])
        /\ In(U[g], d) = In(U[h], d)

(* ---------- comparison of a reported dictionary with the model ----------- *)
\* same default (exactly), same key classes, exactly the same value per class
SameDict(e, o) ==
    /\ o.t = "dict" /\ e.df = o.df
    /\ Cardinality(e.es) = Cardinality(o.es)
    /\ \A p \in e.es : \E q \in o.es : KeyEq(p[1], q[1]) /\ p[2] = q[2]
=============================================================================
