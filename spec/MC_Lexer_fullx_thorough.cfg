SPECIFICATION Spec
CONSTANT Which = "fullx"
CONSTANT MaxLen = 3
INVARIANT Total
INVARIANT BoundedDispatch
INVARIANT PosOk
INVARIANT EndsInTokens
INVARIANT FinishExtends
INVARIANT FloatsRounded
PROPERTY Progress
PROPERTY TokensGrow
CHECK_DEADLOCK FALSE
