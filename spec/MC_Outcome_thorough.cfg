SPECIFICATION Spec
CONSTANT MaxLen = 4
INVARIANT OneOutcome
INVARIANT Containment
INVARIANT NoEscape
INVARIANT OnlyThrowIsCaught
INVARIANT Transparent
INVARIANT Frame
INVARIANT Usable
CHECK_DEADLOCK FALSE
