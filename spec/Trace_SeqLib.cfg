INIT Init
NEXT Next
INVARIANT Done
CONSTANT SeqMutation = "none"
CHECK_DEADLOCK FALSE
