------------------------------- MODULE Chain -------------------------------
(***************************************************************************)
(* C03 - infix chains  e0 f1 e1 ... fn en  group by the precedence and     *)
(* associativity carried by each operator VALUE at the moment the chain    *)
(* runs; chainable operators merge into one n-ary application exactly when *)
(* the left one would otherwise be applied first; every operand and        *)
(* operator expression is evaluated exactly once, left to right.           *)
(*                                                                         *)
(* An operator (descriptor) is a record                                    *)
(*   [prec  |-> [nan |-> BOOLEAN, v |-> Int],   the runtime precedence     *)
(*    assoc |-> "L" | "R",                                                 *)
(*    cmp   |-> BOOLEAN,   a comparison (chains with every comparison)     *)
(*    sf    |-> Nat,       self-chaining family (0: none) zip, **, &&& ... *)
(*    pf    |-> Nat,       family of prepositions it accepts (0: none)     *)
(*    pn    |-> Nat,       the preposition family it IS (0: not one)       *)
(*    cls   |-> STRING]    a name for rendering only                       *)
(* A chain is a sequence  <<f1, ..., fn>>  of descriptors; operands are    *)
(* the opaque leaves e0 .. en.  A result tree is                           *)
(*   [k |-> "leaf", i |-> 0..n]   or                                       *)
(*   [k |-> "node", ops |-> <<i1, .., ik>>, kids |-> <<t0, .., tk>>]       *)
(* (operator positions i1 < .. < ik merged into ONE (k+1)-ary application  *)
(* of the head operator f_i1; k = 1 is an ordinary binary application).    *)
(*                                                                         *)
(* Two independent definitions of the tree of a chain:                     *)
(*  (a) Machine  the shunting evaluator as an explicit state machine       *)
(*               (pending stack of [operands, ops, d], `rightmost`,        *)
(*               actions EvalOperand / EvalOperator / Merge / Reduce /     *)
(*               Push / FinishReduce / Finish, an evaluation-order log),   *)
(*               in two modes: "direct" (expressions are evaluated and     *)
(*               given one operator at a time) and "section" (every        *)
(*               non-hole expression is evaluated when the section is      *)
(*               built, the gives happen when it is applied);              *)
(*  (b) Climb    recursive operator-precedence parsing: the call stack     *)
(*               plays the role of the pending stack;                      *)
(* and, on the transitive fragment (no NaN, one associativity per level,   *)
(* no chainable pair), (c) Decl, the textbook declarative rule: the root   *)
(* is the loosest operator, the rightmost such if left-associative, else   *)
(* the leftmost.                                                           *)
(*                                                                         *)
(* Negative control: the environment variable C03_MUTANT selects a         *)
(* deliberately wrong rule ("ties-right": ties never reduce, "merge-new":  *)
(* a merged node takes the new operator's precedence, "merge-push": chain  *)
(* compatibility is also consulted when the top is NOT tighter).           *)
(***************************************************************************)
EXTENDS Integers, Sequences, IOUtils, TLC

Mutant == IF "C03_MUTANT" \in DOMAIN IOEnv THEN IOEnv.C03_MUTANT ELSE "none"

(* ------------------------- the pairwise rules -------------------------- *)
PGt(p, q) == ~p.nan /\ ~q.nan /\ p.v > q.v
PLt(p, q) == ~p.nan /\ ~q.nan /\ p.v < q.v
\* `a` (already pending, i.e. to the LEFT) is applied before `b` arrives: strictly higher
\* precedence, or a tie - NaN compares as a tie with everything - and the LEFT operator is
\* left-associative
Tighter(a, b) ==
    \/ PGt(a.prec, b.prec)
    \/ /\ ~PLt(a.prec, b.prec) /\ ~PGt(a.prec, b.prec)
       /\ IF Mutant = "ties-right" THEN FALSE ELSE a.assoc = "L"

\* chain compatibility of a pending (possibly already merged: it keeps its head's descriptor)
\* operator with the arriving one
Chains(top, new) ==
    \/ top.cmp /\ new.cmp
    \/ top.sf # 0 /\ top.sf = new.sf
    \/ top.pf # 0 /\ top.pf = new.pn

(* ------------------------------- trees --------------------------------- *)
Leaf(i) == [k |-> "leaf", i |-> i]
Node(ops, kids) == [k |-> "node", ops |-> ops, kids |-> kids]

RECURSIVE Leaves(_)
Leaves(t) == IF t.k = "leaf" THEN <<t.i>>
             ELSE LET RECURSIVE Cat(_, _)
                      Cat(j, acc) == IF j > Len(t.kids) \/ Len(acc) < 0 THEN acc
                                     ELSE Cat(j + 1, acc \o Leaves(t.kids[j]))
                  IN Cat(1, <<>>)

(* --------------------- (b) precedence climbing ------------------------- *)
NoPend == [some |-> FALSE]
Pend(d) == [some |-> TRUE, d |-> d]
\* the descriptor a merged node is compared with afterwards: the head's (the mutant takes the new one's precedence)
MergedDesc(head, new) == IF Mutant = "merge-new" THEN [head EXCEPT !.prec = new.prec, !.assoc = new.assoc] ELSE head

RECURSIVE ClimbRhs(_, _, _, _), ClimbNode(_, _, _, _, _)
\* acc is a finished tree that ends with operand e_(i-1); the next operator is f_i; `pend` is the
\* operator waiting immediately to the left of acc.  Returns the tree that becomes pend's next
\* operand and the index of the operator at which pend must be applied (or merged).
ClimbRhs(ch, pend, i, acc) ==
    IF i > Len(ch) THEN [t |-> acc, i |-> i]
    ELSE IF pend.some /\ Tighter(pend.d, ch[i]) THEN [t |-> acc, i |-> i]
    ELSE IF Mutant = "merge-push" /\ pend.some /\ Chains(pend.d, ch[i]) THEN [t |-> acc, i |-> i]
    ELSE LET r == ClimbNode(ch, ch[i], <<i>>, <<acc>>, i + 1)
         IN ClimbRhs(ch, pend, r.i, r.t)
\* an open application of head descriptor d with operator positions `ops` and operands `kids`
\* collected so far; its next operand starts with e_(j-1), the next operator is f_j
ClimbNode(ch, d, ops, kids, j) ==
    LET r == ClimbRhs(ch, Pend(d), j, Leaf(j - 1))
    IN IF r.i <= Len(ch) /\ Chains(d, ch[r.i])
       THEN ClimbNode(ch, MergedDesc(d, ch[r.i]), Append(ops, r.i), Append(kids, r.t), r.i + 1)
       ELSE [t |-> Node(ops, Append(kids, r.t)), i |-> r.i]

Climb(ch) == ClimbRhs(ch, NoPend, 1, Leaf(0)).t

(* ------------------ (c) the declarative textbook rule ------------------ *)
DeclDefined(ch) ==
    /\ \A i \in 1..Len(ch) : ~ch[i].prec.nan
    /\ \A i, j \in 1..Len(ch) : ~Chains(ch[i], ch[j])
    /\ \A i, j \in 1..Len(ch) : ch[i].prec.v = ch[j].prec.v => ch[i].assoc = ch[j].assoc
RECURSIVE DeclRange(_, _, _)
\* operators lo..hi with the operands e_(lo-1) .. e_hi
DeclRange(ch, lo, hi) ==
    IF lo > hi THEN Leaf(lo - 1)
    ELSE LET loosest == CHOOSE i \in lo..hi : \A j \in lo..hi : ch[i].prec.v <= ch[j].prec.v
             m == ch[loosest].prec.v
             cand == {i \in lo..hi : ch[i].prec.v = m}
             root == IF ch[loosest].assoc = "L" THEN CHOOSE i \in cand : \A j \in cand : j <= i
                     ELSE CHOOSE i \in cand : \A j \in cand : j >= i
         IN Node(<<root>>, <<DeclRange(ch, lo, root - 1), DeclRange(ch, root + 1, hi)>>)
Decl(ch) == DeclRange(ch, 1, Len(ch))

(* ---------------------- evaluation-order log --------------------------- *)
EvOperand(i) == [k |-> "e", i |-> i]
EvOperator(i) == [k |-> "f", i |-> i]
\* hole patterns of an underscore section, independent of the chain length
IsHole(pt, i) == CASE pt = "none" -> FALSE
                   [] pt = "all" -> TRUE
                   [] pt = "first" -> i = 0
                   [] pt = "even" -> i % 2 = 0
                   [] pt = "odd" -> i % 2 = 1
RECURSIVE EvalSeqFrom(_, _, _, _)
\* <<e0, f1, e1, ..., fn, en>> without the operands that are holes of pattern pt
EvalSeqFrom(n, i, pt, acc) ==
    IF i > n \/ Len(acc) < 0 THEN acc
    ELSE EvalSeqFrom(n, i + 1, pt,
                     IF IsHole(pt, i) THEN Append(acc, EvOperator(i)) ELSE acc \o <<EvOperator(i), EvOperand(i)>>)
EvalSeq(n, pt) == EvalSeqFrom(n, 1, pt, IF IsHole(pt, 0) THEN <<>> ELSE <<EvOperand(0)>>)

(* ------------------- (a) the shunting state machine -------------------- *)
VARIABLES
    mode,       \* "direct" | "section"
    pat,        \* hole pattern ("none" in direct mode)
    chain,      \* descriptors of the operator expressions evaluated so far
    pc,         \* "opd0" | "op" | "opd" | "give" | "finish" | "done"
    idx,        \* position of the operator expression being evaluated next / just evaluated
    gi,         \* position of the operator being given
    pending,    \* stack (top = last) of [operands |-> Seq(tree), ops |-> Seq(Nat), d |-> descriptor]
    rightmost,  \* tree
    log,        \* evaluation-order log of operand / operator EXPRESSIONS
    dec         \* history of give decisions [kind, hastop, top, new]
mvars == <<mode, pat, chain, pc, idx, gi, pending, rightmost, log, dec>>

NoTree == [k |-> "none"]
MInit(m, p) ==
    /\ mode = m /\ pat = p /\ chain = <<>> /\ pc = "opd0" /\ idx = 0 /\ gi = 0
    /\ pending = <<>> /\ rightmost = NoTree /\ log = <<>> /\ dec = <<>>
\* the machine parked (modules that only use the definitions above)
MIdle == MInit("idle", "none")
MStutter == UNCHANGED mvars

Top == pending[Len(pending)]
Pop == SubSeq(pending, 1, Len(pending) - 1)

EvalOperand0 ==
    /\ pc = "opd0"
    /\ log' = IF IsHole(pat, 0) THEN log ELSE Append(log, EvOperand(0))
    /\ rightmost' = Leaf(0) /\ idx' = 1 /\ pc' = "op"
    /\ UNCHANGED <<mode, pat, chain, gi, pending, dec>>

\* the operator expression at position idx evaluates to a function value with descriptor d
EvalOperator(d) ==
    /\ pc = "op"
    /\ chain' = Append(chain, d)
    /\ log' = Append(log, EvOperator(idx))
    /\ pc' = "opd"
    /\ UNCHANGED <<mode, pat, idx, gi, pending, rightmost, dec>>

EvalOperand ==
    /\ pc = "opd"
    /\ log' = IF IsHole(pat, idx) THEN log ELSE Append(log, EvOperand(idx))
    /\ IF mode = "direct" THEN pc' = "give" /\ gi' = idx /\ idx' = idx
       ELSE pc' = "op" /\ idx' = idx + 1 /\ gi' = gi
    /\ UNCHANGED <<mode, pat, chain, pending, rightmost, dec>>

\* no further operator: a direct chain is finished off; a section (which must contain a hole)
\* is now a value, and applying it starts giving the operators in order
EndChain ==
    /\ pc = "op" /\ Len(chain) >= 1
    /\ IF mode = "direct" THEN pc' = "finish" /\ gi' = gi
       ELSE /\ \E i \in 0..Len(chain) : IsHole(pat, i)
            /\ pc' = "give" /\ gi' = 1
    /\ UNCHANGED <<mode, pat, chain, idx, pending, rightmost, log, dec>>

AfterGive ==
    IF mode = "direct" THEN pc' = "op" /\ idx' = idx + 1 /\ gi' = gi
    ELSE /\ idx' = idx
         /\ IF gi < Len(chain) THEN pc' = "give" /\ gi' = gi + 1 ELSE pc' = "finish" /\ gi' = gi

New == chain[gi]
TopTighter == Len(pending) > 0 /\ Tighter(Top.d, New)
\* the mutant consults chain compatibility on the push path too
MergeNow == IF Mutant = "merge-push" THEN Len(pending) > 0 /\ Chains(Top.d, New)
            ELSE TopTighter /\ Chains(Top.d, New)
Decision(kind) == [kind |-> kind, hastop |-> Len(pending) > 0,
                   top |-> IF Len(pending) > 0 THEN Top.d ELSE New, new |-> New]

Merge ==
    /\ pc = "give" /\ MergeNow
    /\ pending' = Append(Pop, [operands |-> Append(Top.operands, rightmost),
                               ops |-> Append(Top.ops, gi),
                               d |-> MergedDesc(Top.d, New)])
    /\ rightmost' = Leaf(gi)
    /\ dec' = Append(dec, Decision("merge"))
    /\ AfterGive
    /\ UNCHANGED <<mode, pat, chain, log>>

Reduce ==
    /\ pc = "give" /\ TopTighter /\ ~MergeNow
    /\ rightmost' = Node(Top.ops, Append(Top.operands, rightmost))
    /\ pending' = Pop
    /\ dec' = Append(dec, Decision("reduce"))
    /\ UNCHANGED <<mode, pat, chain, pc, idx, gi, log>>

Push ==
    /\ pc = "give" /\ ~TopTighter /\ ~MergeNow
    /\ pending' = Append(pending, [operands |-> <<rightmost>>, ops |-> <<gi>>, d |-> New])
    /\ rightmost' = Leaf(gi)
    /\ dec' = Append(dec, Decision("push"))
    /\ AfterGive
    /\ UNCHANGED <<mode, pat, chain, log>>

FinishReduce ==
    /\ pc = "finish" /\ Len(pending) > 0
    /\ rightmost' = Node(Top.ops, Append(Top.operands, rightmost))
    /\ pending' = Pop
    /\ UNCHANGED <<mode, pat, chain, pc, idx, gi, log, dec>>

Finish ==
    /\ pc = "finish" /\ Len(pending) = 0
    /\ pc' = "done"
    /\ UNCHANGED <<mode, pat, chain, idx, gi, pending, rightmost, log, dec>>

\* every step except the choice of the operator
MStep == EvalOperand0 \/ EvalOperand \/ EndChain \/ Merge \/ Reduce \/ Push \/ FinishReduce \/ Finish

(* ----------------------------- the property ---------------------------- *)
Done == pc = "done"
N == Len(chain)
TreeAgrees == Done => rightmost = Climb(chain)
DeclAgrees == (Done /\ DeclDefined(chain)) => rightmost = Decl(chain)
\* every operand is used exactly once and the operands stay in source order
OperandsInOrder == Done => Leaves(rightmost) = [i \in 1..(N + 1) |-> i - 1]
\* every non-hole operand expression and every operator expression evaluated exactly once, left to right
LogOnceLeftToRight == Done => log = EvalSeq(N, pat)
\* the single-operator fast path:  e0 f1 e1  is  f1(e0, e1)
FastPathAgrees == (Done /\ N = 1) => rightmost = Node(<<1>>, <<Leaf(0), Leaf(1)>>)
\* a merge happens exactly when the pending operator would otherwise be applied now and chains with the new one
MergeIffTighterAndChains ==
    \A j \in 1..Len(dec) :
        LET d == dec[j]
        IN /\ (d.kind = "merge") <=> (d.hastop /\ Tighter(d.top, d.new) /\ Chains(d.top, d.new))
           /\ (d.kind = "reduce") <=> (d.hastop /\ Tighter(d.top, d.new) /\ ~Chains(d.top, d.new))
=============================================================================
