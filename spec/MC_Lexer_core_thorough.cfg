SPECIFICATION Spec
CONSTANT Which = "core"
CONSTANT MaxLen = 4
INVARIANT Total
INVARIANT BoundedDispatch
INVARIANT PosOk
INVARIANT EndsInTokens
INVARIANT FinishExtends
INVARIANT FloatsRounded
PROPERTY Progress
PROPERTY TokensGrow
CHECK_DEADLOCK FALSE
