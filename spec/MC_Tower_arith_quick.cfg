SPECIFICATION Spec
CONSTANT Mode = "arith"
CONSTANT Triples = FALSE
INVARIANT ArithLaws
INVARIANT OrderLaws
CHECK_DEADLOCK FALSE
