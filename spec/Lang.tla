-------------------------------- MODULE Lang --------------------------------
(***************************************************************************)
(* Value semantics of noulith's language core: a big-step reference        *)
(* interpreter over immutable values.  "All data values are immutable and  *)
(* only variables change" is literally how this module is written: a       *)
(* mutation statement replaces the value of ONE variable by a functional    *)
(* update (Upd) and nothing else.  Used by C01 (mutation vocabulary), C05   *)
(* (control flow, scoping, closures), C17 (freeze).                        *)
(*                                                                         *)
(* Values (tagged records, disjoint field names):                          *)
(*   [t |-> "null"]   [t |-> "int", i |-> native int]   [t |-> "str", s]   *)
(*   [t |-> "list", l |-> Seq(Val)]                                        *)
(*   [t |-> "dict", d |-> Seq([k, v]) sorted by integer key, hd, df]       *)
(*   [t |-> "vec", l |-> Seq(int Val)]  [t |-> "bytes", l |-> Seq(int Val)]  *)
(*   [t |-> "inst", nm |-> struct name, l |-> Seq(Val)]                    *)
(*   [t |-> "fn", id |-> index into st.clos]   [t |-> "bfn", nm |-> name]  *)
(*   [t |-> "ctor", nm, n] struct constructor  [t |-> "fld", nm, ix] field  *)
(* State of a session: [envs, out, clos]; envs is a growing sequence of    *)
(* scopes [p |-> parent id (0 = none), vs |-> Seq([x, v])] (a tree:        *)
(* closures keep their defining scope alive), envs[1] is the global scope. *)
(* The result of evaluating an expression is                               *)
(*   [st, k \in {"val","brk","cont","ret","thr"}, v, lv, hv]               *)
(* (lv = remaining loop levels of a break / continue, hv = break carries a *)
(* value).  Programs are ASTs (records with a node tag n), see tools/      *)
(* langgen.py for the concrete syntax each node is rendered to.            *)
(***************************************************************************)
EXTENDS Integers, Sequences, TLC

Null == [t |-> "null"]
VInt(i) == [t |-> "int", i |-> i]
VStr(s) == [t |-> "str", s |-> s]
VList(l) == [t |-> "list", l |-> l]
VDict(d, hd, df) == [t |-> "dict", d |-> d, hd |-> hd, df |-> df]
BFn(nm) == [t |-> "bfn", nm |-> nm]
None == [n |-> "none"]

IsSeqLike(v) == v.t \in {"list", "vec", "bytes"}

(* ------------------------------ results -------------------------------- *)
RVal(st, v) == [st |-> st, k |-> "val", v |-> v, lv |-> 0, hv |-> FALSE]
RThr(st, msg) == [st |-> st, k |-> "thr", v |-> VStr(msg), lv |-> 0, hv |-> FALSE]
RThrV(st, v) == [st |-> st, k |-> "thr", v |-> v, lv |-> 0, hv |-> FALSE]
RBrk(st, lv, hv, v) == [st |-> st, k |-> "brk", v |-> v, lv |-> lv, hv |-> hv]
RCont(st, lv) == [st |-> st, k |-> "cont", v |-> Null, lv |-> lv, hv |-> FALSE]
RRet(st, v) == [st |-> st, k |-> "ret", v |-> v, lv |-> 0, hv |-> FALSE]
IsVal(r) == r.k = "val"

(* ------------------------------ values --------------------------------- *)
Truthy(v) == CASE v.t = "null" -> FALSE
               [] v.t = "int" -> v.i # 0
               [] v.t = "str" -> v.s # ""
               [] v.t \in {"list", "vec", "bytes"} -> v.l # <<>>
               [] v.t = "dict" -> v.d # <<>>
               [] OTHER -> TRUE

RECURSIVE VEq(_, _)
RECURSIVE VEqSeq(_, _, _)
VEqSeq(xs, ys, i) == IF i > Len(xs) THEN TRUE ELSE VEq(xs[i], ys[i]) /\ VEqSeq(xs, ys, i + 1)
RECURSIVE VEqDict(_, _, _)
VEqDict(xs, ys, i) == IF i > Len(xs) THEN TRUE
                      ELSE xs[i].k = ys[i].k /\ VEq(xs[i].v, ys[i].v) /\ VEqDict(xs, ys, i + 1)
\* the language's == on the values of this module (functions are never equal)
VEq(a, b) ==
    IF a.t # b.t THEN FALSE
    ELSE CASE a.t = "null" -> TRUE
           [] a.t = "int" -> a.i = b.i
           [] a.t = "str" -> a.s = b.s
           [] a.t = "list" -> Len(a.l) = Len(b.l) /\ VEqSeq(a.l, b.l, 1)
           [] a.t \in {"vec", "bytes"} -> Len(a.l) = Len(b.l) /\ VEqSeq(a.l, b.l, 1)
           [] a.t = "inst" -> a.nm = b.nm /\ Len(a.l) = Len(b.l) /\ VEqSeq(a.l, b.l, 1)
           [] a.t = "dict" -> Len(a.d) = Len(b.d) /\ VEqDict(a.d, b.d, 1)
           [] OTHER -> FALSE

(* closure ids are an artefact of the specification's state: observations  *)
(* are compared after projecting every function value to a bare tag        *)
RECURSIVE Proj(_)
RECURSIVE ProjSeq(_, _, _)
ProjSeq(xs, i, acc) == IF i > Len(xs) \/ Len(acc) < 0 THEN acc ELSE ProjSeq(xs, i + 1, Append(acc, Proj(xs[i])))
RECURSIVE ProjDict(_, _, _)
ProjDict(xs, i, acc) == IF i > Len(xs) \/ Len(acc) < 0 THEN acc
                        ELSE ProjDict(xs, i + 1, Append(acc, [k |-> xs[i].k, v |-> Proj(xs[i].v)]))
Proj(v) == CASE v.t \in {"fn", "bfn", "ctor", "fld"} -> [t |-> "fn"]
             [] v.t = "list" -> VList(ProjSeq(v.l, 1, <<>>))
             [] v.t = "inst" -> [t |-> "inst", nm |-> v.nm, l |-> ProjSeq(v.l, 1, <<>>)]
             [] v.t = "dict" -> VDict(ProjDict(v.d, 1, <<>>), v.hd, IF v.hd THEN Proj(v.df) ELSE Null)
             [] OTHER -> v

(* text of print / str for the printable subset (ints, strings, null, lists of those) *)
RECURSIVE Show(_, _)
RECURSIVE ShowSeq(_, _, _)
ShowSeq(xs, i, acc) == IF i > Len(xs) \/ Len(acc) < 0 THEN acc
                       ELSE ShowSeq(xs, i + 1, acc \o (IF i > 1 THEN ", " ELSE "") \o Show(xs[i], TRUE))
Show(v, inner) == CASE v.t = "null" -> "null"
                    [] v.t = "int" -> ToString(v.i)
                    [] v.t = "str" -> IF inner THEN "\"" \o v.s \o "\"" ELSE v.s
                    [] v.t = "list" -> "[" \o ShowSeq(v.l, 1, "") \o "]"
                    [] OTHER -> "?"
RECURSIVE Printable(_)
Printable(v) == v.t \in {"null", "int", "str"} \/ (v.t = "list" /\ \A i \in 1..Len(v.l) : Printable(v.l[i]))

(* ------------------------------ indexing ------------------------------- *)
\* Python index of a sequence of length n: 0 when out of range
PyIdx(n, i) == IF i >= 0 /\ i < n THEN i + 1 ELSE IF i < 0 /\ i + n >= 0 THEN i + n + 1 ELSE 0
Clamp(n, i) == IF i < 0 THEN (IF i + n < 0 THEN 0 ELSE i + n) ELSE IF i > n THEN n ELSE i
\* slice bounds (0-based, half open) for optional lo / hi given as values (Null = omitted)
SliceLo(n, lo) == IF lo.t = "null" THEN 0 ELSE Clamp(n, lo.i)
SliceHi(n, lo, hi) == LET l == SliceLo(n, lo)
                          h == IF hi.t = "null" THEN n ELSE Clamp(n, hi.i)
                      IN IF h < l THEN l ELSE h

RECURSIVE DictFind(_, _, _)
DictFind(d, k, i) == IF i > Len(d) THEN 0 ELSE IF d[i].k = k THEN i ELSE DictFind(d, k, i + 1)
\* insert keeping integer keys sorted
RECURSIVE DictInsPos(_, _, _)
DictInsPos(d, k, i) == IF i > Len(d) THEN i ELSE IF d[i].k > k THEN i ELSE DictInsPos(d, k, i + 1)
DictPut(d, k, v) ==
    LET p == DictFind(d, k, 1)
    IN IF p > 0 THEN [d EXCEPT ![p] = [k |-> k, v |-> v]]
       ELSE LET q == DictInsPos(d, k, 1)
            IN SubSeq(d, 1, q - 1) \o <<[k |-> k, v |-> v]>> \o SubSeq(d, q, Len(d))
DictDel(d, p) == SubSeq(d, 1, p - 1) \o SubSeq(d, p + 1, Len(d))

\* read c[ix]: [ok, v]
GetIdx(c, ix) ==
    CASE c.t \in {"list", "vec", "bytes"} /\ ix.t = "int" ->
            LET p == PyIdx(Len(c.l), ix.i)
            IN IF p = 0 THEN [ok |-> FALSE, v |-> Null]
               ELSE [ok |-> TRUE, v |-> c.l[p]]
      [] c.t = "inst" /\ ix.t = "fld" ->
            IF ix.nm = c.nm THEN [ok |-> TRUE, v |-> c.l[ix.ix]] ELSE [ok |-> FALSE, v |-> Null]
      [] c.t = "str" /\ ix.t = "int" ->
            LET p == PyIdx(Len(c.s), ix.i)
            IN IF p = 0 THEN [ok |-> FALSE, v |-> Null] ELSE [ok |-> TRUE, v |-> VStr(SubSeq(c.s, p, p))]
      [] c.t = "dict" /\ ix.t = "int" ->
            LET p == DictFind(c.d, ix.i, 1)
            IN IF p > 0 THEN [ok |-> TRUE, v |-> c.d[p].v]
               ELSE IF c.hd THEN [ok |-> TRUE, v |-> c.df] ELSE [ok |-> FALSE, v |-> Null]
      [] OTHER -> [ok |-> FALSE, v |-> Null]

\* may w be stored as an element of container c ?
ElemOk(c, w) == c.t = "list" \/ c.t = "inst" \/ (w.t = "int" /\ (c.t = "vec" \/ (c.t = "bytes" /\ w.i >= 0 /\ w.i < 256)))
\* functional update c[ix] := w on one level (used by x{k = v}): [ok, v]
SetIdx(c, ix, w) ==
    CASE c.t \in {"list", "vec", "bytes"} /\ ix.t = "int" ->
            LET p == PyIdx(Len(c.l), ix.i)
            IN IF p = 0 \/ ~ElemOk(c, w) THEN [ok |-> FALSE, v |-> c] ELSE [ok |-> TRUE, v |-> [c EXCEPT !.l[p] = w]]
      [] c.t = "dict" /\ ix.t = "int" -> [ok |-> TRUE, v |-> [c EXCEPT !.d = DictPut(c.d, ix.i, w)]]
      [] c.t = "inst" /\ ix.t = "fld" /\ ix.nm = c.nm -> [ok |-> TRUE, v |-> [c EXCEPT !.l[ix.ix] = w]]
      [] OTHER -> [ok |-> FALSE, v |-> c]

\* read along a path of plain indices (a dict default is READ, not stored)
RECURSIVE GetPath(_, _, _)
GetPath(c, path, i) ==
    IF i > Len(path) THEN [ok |-> TRUE, v |-> c]
    ELSE IF path[i].t = "slice" THEN [ok |-> FALSE, v |-> Null]
    ELSE LET g == GetIdx(c, path[i]) IN IF ~g.ok THEN g ELSE GetPath(g.v, path, i + 1)

BoundOk(b) == b.t \in {"null", "int"}

(* Assignment along a path (the implementation's set_index).  drop = TRUE is the "null the slot" *)
(* step of an operator-assignment: a vector / bytes slot cannot hold null and is left alone.     *)
(* An intermediate dict key must exist (defaults are not consulted); the last key is inserted.   *)
(* With every = TRUE a slice of a list addresses each of its slots in turn and `d[:]` every      *)
(* value of a dict; a failure part-way leaves the slots already written (the second component    *)
(* is then the partially updated container).                                                     *)
RECURSIVE SetP(_, _, _, _, _, _)
RECURSIVE SetEach(_, _, _, _, _, _, _, _)
SetP(c, path, i, w, drop, every) ==
    IF i > Len(path) THEN [ok |-> TRUE, v |-> w]
    ELSE LET ix == path[i]
             last == i = Len(path)
             fail == [ok |-> FALSE, v |-> c]
         IN CASE ix.t = "slice" ->
                   IF ~every \/ ~BoundOk(ix.lo) \/ ~BoundOk(ix.hi) THEN fail
                   ELSE IF c.t = "list"
                        THEN LET n == Len(c.l) IN SetEach(c, path, i, w, drop, SliceLo(n, ix.lo) + 1, SliceHi(n, ix.lo, ix.hi), TRUE)
                   ELSE IF c.t = "dict" /\ last /\ ix.lo.t = "null" /\ ix.hi.t = "null"
                        THEN [ok |-> TRUE, v |-> [c EXCEPT !.d = [q \in 1..Len(c.d) |-> [k |-> c.d[q].k, v |-> w]]]]
                   ELSE fail
              [] ix.t = "int" /\ c.t = "list" ->
                   LET p == PyIdx(Len(c.l), ix.i)
                   IN IF p = 0 THEN fail
                      ELSE LET inner == SetP(c.l[p], path, i + 1, w, drop, every)
                           IN [ok |-> inner.ok, v |-> [c EXCEPT !.l[p] = inner.v]]
              [] ix.t = "int" /\ c.t = "dict" ->
                   IF last THEN [ok |-> TRUE, v |-> [c EXCEPT !.d = DictPut(c.d, ix.i, w)]]
                   ELSE LET p == DictFind(c.d, ix.i, 1)
                        IN IF p = 0 THEN fail
                           ELSE LET inner == SetP(c.d[p].v, path, i + 1, w, drop, every)
                                IN [ok |-> inner.ok, v |-> [c EXCEPT !.d[p].v = inner.v]]
              [] ix.t = "fld" /\ c.t = "inst" ->
                   IF ix.nm # c.nm THEN fail
                   ELSE LET inner == SetP(c.l[ix.ix], path, i + 1, w, drop, every)
                        IN [ok |-> inner.ok, v |-> [c EXCEPT !.l[ix.ix] = inner.v]]
              [] ix.t = "int" /\ c.t = "str" /\ last ->
                   \* one byte of a string is replaced by a one-byte string; a string slot cannot hold null
                   IF drop THEN [ok |-> TRUE, v |-> c]
                   ELSE LET p == PyIdx(Len(c.s), ix.i)
                        IN IF w.t # "str" THEN fail
                           ELSE IF Len(w.s) # 1 \/ p = 0 THEN fail
                           ELSE [ok |-> TRUE, v |-> VStr(SubSeq(c.s, 1, p - 1) \o w.s \o SubSeq(c.s, p + 1, Len(c.s)))]
              [] ix.t = "int" /\ c.t \in {"vec", "bytes"} /\ last ->
                   IF drop THEN [ok |-> TRUE, v |-> c]
                   ELSE LET p == PyIdx(Len(c.l), ix.i)
                        IN IF w.t # "int" THEN fail
                           ELSE IF p = 0 \/ ~ElemOk(c, w) THEN fail ELSE [ok |-> TRUE, v |-> [c EXCEPT !.l[p] = w]]
              [] OTHER -> fail
SetEach(c, path, i, w, drop, j, hi, every) ==
    IF j > hi THEN [ok |-> TRUE, v |-> c]
    ELSE LET inner == SetP(c.l[j], path, i + 1, w, drop, every)
             c2 == [c EXCEPT !.l[j] = inner.v]
         IN IF ~inner.ok THEN [ok |-> FALSE, v |-> c2] ELSE SetEach(c2, path, i, w, drop, j + 1, hi, every)

(* In-place modification at the end of a path (the implementation's modify_existing_index, used  *)
(* by pop / remove / consume): the path may only go through lists and dicts; an absent key of a  *)
(* dict WITH a default stores the default there first - and it stays stored even when the        *)
(* operation then fails.  f is the operation at the addressed value: [ok, v (new), r (result)].  *)
Leaf(f, c) ==
    CASE f.op = "pop" -> IF c.t = "list" /\ c.l # <<>>
                         THEN [ok |-> TRUE, v |-> VList(SubSeq(c.l, 1, Len(c.l) - 1)), r |-> c.l[Len(c.l)]]
                         ELSE [ok |-> FALSE, v |-> c, r |-> Null]
      [] f.op = "consume" -> [ok |-> TRUE, v |-> Null, r |-> c]
      [] f.op = "rmidx" ->
            IF c.t = "list" /\ f.ix.t = "int" /\ PyIdx(Len(c.l), f.ix.i) # 0
            THEN LET p == PyIdx(Len(c.l), f.ix.i)
                 IN [ok |-> TRUE, v |-> VList(SubSeq(c.l, 1, p - 1) \o SubSeq(c.l, p + 1, Len(c.l))), r |-> c.l[p]]
            ELSE IF c.t = "dict" /\ f.ix.t = "int" /\ DictFind(c.d, f.ix.i, 1) # 0
            THEN LET p == DictFind(c.d, f.ix.i, 1) IN [ok |-> TRUE, v |-> [c EXCEPT !.d = DictDel(c.d, p)], r |-> c.d[p].v]
            ELSE [ok |-> FALSE, v |-> c, r |-> Null]
      [] f.op = "rmslice" ->
            IF c.t = "list" /\ BoundOk(f.lo) /\ BoundOk(f.hi)
            THEN LET n == Len(c.l)  lo == SliceLo(n, f.lo)  hi == SliceHi(n, f.lo, f.hi)
                 IN [ok |-> TRUE, v |-> VList(SubSeq(c.l, 1, lo) \o SubSeq(c.l, hi + 1, n)), r |-> VList(SubSeq(c.l, lo + 1, hi))]
            ELSE [ok |-> FALSE, v |-> c, r |-> Null]
RECURSIVE ModP(_, _, _, _)
ModP(c, path, i, f) ==
    IF i > Len(path) THEN Leaf(f, c)
    ELSE LET ix == path[i]
             fail == [ok |-> FALSE, v |-> c, r |-> Null]
         IN IF ix.t = "fld" /\ c.t = "inst"
            THEN IF ix.nm # c.nm THEN fail
                 ELSE LET inner == ModP(c.l[ix.ix], path, i + 1, f)
                      IN [ok |-> inner.ok, v |-> [c EXCEPT !.l[ix.ix] = inner.v], r |-> inner.r]
            ELSE IF ix.t # "int" THEN fail
            ELSE IF c.t = "list"
            THEN LET p == PyIdx(Len(c.l), ix.i)
                 IN IF p = 0 THEN fail
                    ELSE LET inner == ModP(c.l[p], path, i + 1, f)
                         IN [ok |-> inner.ok, v |-> [c EXCEPT !.l[p] = inner.v], r |-> inner.r]
            ELSE IF c.t = "dict"
            THEN LET p == DictFind(c.d, ix.i, 1)
                 IN IF p = 0 /\ ~c.hd THEN fail
                    ELSE LET d2 == IF p = 0 THEN DictPut(c.d, ix.i, c.df) ELSE c.d     \* the default is materialised
                             q == DictFind(d2, ix.i, 1)
                             inner == ModP(d2[q].v, path, i + 1, f)
                         IN [ok |-> inner.ok, v |-> [c EXCEPT !.d = [d2 EXCEPT ![q].v = inner.v]], r |-> inner.r]
            ELSE fail

(* ------------------------------ builtins ------------------------------- *)
BinNames == {"+", "-", "*", "%", "==", "!=", "<", "<=", ">", ">=", "append", "++", ".+", "max", "min", "til", "to"}
FunNames == {"print", "len", "sum", "product", "count", "first", "last", "str", "id", "list", "reverse", "throw'"}
Builtins == BinNames \cup FunNames

RECURSIVE Range(_, _, _)
Range(a, b, acc) == IF a >= b \/ Len(acc) < 0 THEN acc ELSE Range(a + 1, b, Append(acc, VInt(a)))

RECURSIVE SumSeq(_, _, _)
SumSeq(xs, i, acc) == IF i > Len(xs) \/ acc < -1000000000 THEN acc ELSE SumSeq(xs, i + 1, acc + xs[i].i)
RECURSIVE ProdSeq(_, _, _)
ProdSeq(xs, i, acc) == IF i > Len(xs) \/ acc < -1000000000 THEN acc ELSE ProdSeq(xs, i + 1, acc * xs[i].i)
AllInts(xs) == \A i \in 1..Len(xs) : xs[i].t = "int"
RECURSIVE CountTruthy(_, _, _)
CountTruthy(xs, i, acc) == IF i > Len(xs) \/ acc < 0 THEN acc
                           ELSE CountTruthy(xs, i + 1, IF Truthy(xs[i]) THEN acc + 1 ELSE acc)
RECURSIVE Extremum(_, _, _, _)
Extremum(xs, i, best, wantMax) ==
    IF i > Len(xs) \/ best.i < -1000000000 THEN best
    ELSE Extremum(xs, i + 1, IF (wantMax /\ xs[i].i > best.i) \/ (~wantMax /\ xs[i].i < best.i) THEN xs[i] ELSE best, wantMax)
RECURSIVE RevSeq(_, _, _)
RevSeq(xs, i, acc) == IF i = 0 \/ Len(acc) < 0 THEN acc ELSE RevSeq(xs, i - 1, Append(acc, xs[i]))

AsList(v) == CASE v.t = "list" -> [ok |-> TRUE, l |-> v.l]
               [] v.t \in {"vec", "bytes"} -> [ok |-> TRUE, l |-> v.l]
               [] v.t = "dict" -> [ok |-> TRUE, l |-> [i \in 1..Len(v.d) |-> VInt(v.d[i].k)]]
               [] v.t = "str" -> [ok |-> TRUE, l |-> [i \in 1..Len(v.s) |-> VStr(SubSeq(v.s, i, i))]]
               [] OTHER -> [ok |-> FALSE, l |-> <<>>]

\* a pure binary builtin: [ok, v]
BinOp(op, a, b) ==
    LET ii == a.t = "int" /\ b.t = "int"
        bad == [ok |-> FALSE, v |-> Null]
        good(v) == [ok |-> TRUE, v |-> v]
        \* + - * act element-wise on vectors, scalars broadcast, different lengths are rejected
        ar(x, y) == CASE op = "+" -> x + y [] op = "-" -> x - y [] op = "*" -> x * y
        vecop == IF ii THEN good(VInt(ar(a.i, b.i)))
                 ELSE IF a.t = "vec" /\ b.t = "int" THEN good([a EXCEPT !.l = [q \in 1..Len(a.l) |-> VInt(ar(a.l[q].i, b.i))]])
                 ELSE IF a.t = "int" /\ b.t = "vec" THEN good([b EXCEPT !.l = [q \in 1..Len(b.l) |-> VInt(ar(a.i, b.l[q].i))]])
                 ELSE IF a.t = "vec" /\ b.t = "vec" /\ Len(a.l) = Len(b.l)
                      THEN good([a EXCEPT !.l = [q \in 1..Len(a.l) |-> VInt(ar(a.l[q].i, b.l[q].i))]])
                 ELSE bad
    IN CASE op \in {"+", "-", "*"} -> vecop
         [] op = "%" -> IF ii /\ b.i > 0 /\ a.i >= 0 THEN good(VInt(a.i % b.i)) ELSE bad
         [] op = "==" -> good(VInt(IF VEq(a, b) THEN 1 ELSE 0))
         [] op = "!=" -> good(VInt(IF VEq(a, b) THEN 0 ELSE 1))
         [] op = "<" -> IF ii THEN good(VInt(IF a.i < b.i THEN 1 ELSE 0)) ELSE bad
         [] op = "<=" -> IF ii THEN good(VInt(IF a.i <= b.i THEN 1 ELSE 0)) ELSE bad
         [] op = ">" -> IF ii THEN good(VInt(IF a.i > b.i THEN 1 ELSE 0)) ELSE bad
         [] op = ">=" -> IF ii THEN good(VInt(IF a.i >= b.i THEN 1 ELSE 0)) ELSE bad
         [] op = "max" -> IF ii THEN good(IF b.i > a.i THEN b ELSE a) ELSE bad
         [] op = "min" -> IF ii THEN good(IF b.i < a.i THEN b ELSE a) ELSE bad
         [] op = "append" -> IF a.t = "list" THEN good(VList(Append(a.l, b)))
                             ELSE IF a.t \in {"vec", "bytes"} /\ ElemOk(a, b) THEN good([a EXCEPT !.l = Append(a.l, b)]) ELSE bad
         [] op = ".+" -> IF b.t = "list" THEN good(VList(<<a>> \o b.l)) ELSE bad
         [] op = "++" -> IF a.t = b.t /\ a.t \in {"list", "vec", "bytes"} THEN good([a EXCEPT !.l = a.l \o b.l])
                         ELSE bad
         [] op = "til" -> IF ii /\ b.i - a.i < 64 THEN good(VList(Range(a.i, b.i, <<>>))) ELSE bad
         [] op = "to" -> IF ii /\ b.i - a.i < 64 THEN good(VList(Range(a.i, b.i + 1, <<>>))) ELSE bad
         [] OTHER -> bad

(* ------------------------------ scopes --------------------------------- *)
\* prec: the precedence the global operators carry NOW (`op::precedence = p` changes it; only the
\* operators that chains in the vocabulary use are tracked)
Prec0 == [o \in {"+", "-", "*"} |-> IF o = "*" THEN 5 ELSE 4]
St0 == [envs |-> <<[p |-> 0, vs |-> <<>>]>>, out |-> <<>>, clos |-> <<>>, prec |-> Prec0]

NewEnv(st, parent) == [st EXCEPT !.envs = Append(@, [p |-> parent, vs |-> <<>>])]
LastEnv(st) == Len(st.envs)

RECURSIVE VarPos(_, _, _)
VarPos(vs, x, i) == IF i > Len(vs) THEN 0 ELSE IF vs[i].x = x THEN i ELSE VarPos(vs, x, i + 1)
\* the scope in which x resolves, 0 if none
RECURSIVE Resolve(_, _, _)
Resolve(st, env, x) == IF env = 0 THEN 0
                       ELSE IF VarPos(st.envs[env].vs, x, 1) > 0 THEN env
                       ELSE Resolve(st, st.envs[env].p, x)
ReadVar(st, env, x) == LET e == Resolve(st, env, x)
                       IN IF e = 0 THEN (IF x \in Builtins THEN [ok |-> TRUE, v |-> BFn(x)] ELSE [ok |-> FALSE, v |-> Null])
                          ELSE [ok |-> TRUE, v |-> st.envs[e].vs[VarPos(st.envs[e].vs, x, 1)].v]
\* := declares in the CURRENT scope and refuses a name it already holds
DeclVar(st, env, x, v) ==
    IF VarPos(st.envs[env].vs, x, 1) > 0 THEN [ok |-> FALSE, st |-> st]
    ELSE [ok |-> TRUE, st |-> [st EXCEPT !.envs[env].vs = Append(@, [x |-> x, v |-> v])]]
\* = assigns to the nearest enclosing declaration and refuses undeclared names
SetVar(st, env, x, v) ==
    LET e == Resolve(st, env, x)
    IN IF e = 0 THEN [ok |-> FALSE, st |-> st]
       ELSE [ok |-> TRUE, st |-> [st EXCEPT !.envs[e].vs[VarPos(st.envs[e].vs, x, 1)].v = v]]

(* ------------------------------- freeze -------------------------------- *)
(* `freeze e` (C17): every FREE identifier of e - one that the evaluator's scoping rules above do   *)
(* not bind inside e - is resolved ONCE, now, and replaced by its value (node "frozen"); freezing   *)
(* fails (a thrown name error) when a free identifier is unbound or when e assigns to / mutates a   *)
(* variable it does not declare itself.  b is the sequence of names bound so far inside e.          *)
(* Binders follow the evaluator: a declaration binds for the rest of its scope (sequences, if       *)
(* branches and try bodies open no scope), loop clauses / while bodies / lambda parameters / catch  *)
(* variables bind inside a fresh scope, a declaration's own initialiser and a lambda's default      *)
(* expressions see the names bound before it.                                                       *)
InSeq(x, b) == \E q \in 1..Len(b) : b[q] = x
RECURSIVE LvNames(_)
RECURSIVE LvNamesSeq(_, _, _)
LvNamesSeq(xs, i, acc) == IF i > Len(xs) \/ Len(acc) < 0 THEN acc ELSE LvNamesSeq(xs, i + 1, acc \o LvNames(xs[i]))
LvNames(lv) == IF lv.k = "id" THEN <<lv.x>> ELSE IF lv.k \in {"ignore", "lit", "lity"} THEN <<>> ELSE LvNamesSeq(lv.xs, 1, <<>>)
\* names an expression declares in the scope it is evaluated in
RECURSIVE Decls(_)
RECURSIVE DeclsSeq(_, _, _)
DeclsSeq(es, i, acc) == IF i > Len(es) \/ Len(acc) < 0 THEN acc ELSE DeclsSeq(es, i + 1, acc \o Decls(es[i]))
Decls(e) == CASE e.n = "decl" -> LvNames(e.x)
              [] e.n = "struct" -> <<e.nm>> \o e.fs
              [] e.n = "seq" -> DeclsSeq(e.es, 1, <<>>)
              [] e.n = "if" -> Decls(e.a) \o (IF e.b.n = "none" THEN <<>> ELSE Decls(e.b))
              [] e.n \in {"try", "tryp"} -> Decls(e.b)
              [] e.n = "switch" -> Decls(e.e)
              [] OTHER -> <<>>

FzOk(e) == [ok |-> TRUE, e |-> e]
FzFail == [ok |-> FALSE, e |-> None]
RECURSIVE Frz(_, _, _, _)
RECURSIVE FrzList(_, _, _, _, _, _, _)
RECURSIVE FrzClauses(_, _, _, _, _, _)
RECURSIVE FrzParams(_, _, _, _, _, _)
RECURSIVE FrzLv(_, _, _, _)
RECURSIVE FrzLvSeq(_, _, _, _, _, _)
RECURSIVE FrzArms(_, _, _, _, _, _)
\* a list of expressions; thread = TRUE: each element's declarations are bound for the following ones
FrzList(st, env, es, i, b, acc, thread) ==
    IF i > Len(es) \/ Len(acc) < 0 THEN [ok |-> TRUE, es |-> acc, b |-> b]
    ELSE LET f == Frz(st, env, es[i], b)
         IN IF ~f.ok THEN [ok |-> FALSE, es |-> acc, b |-> b]
            ELSE FrzList(st, env, es, i + 1, IF thread THEN b \o Decls(es[i]) ELSE b, Append(acc, f.e), thread)
FrzOpt(st, env, e, b) == IF e.n = "none" THEN FzOk(e) ELSE Frz(st, env, e, b)
FrzIxs(st, env, ixs, b) ==
    \* index expressions / slices of a target
    LET flat == [q \in 1..Len(ixs) |-> IF ixs[q].n = "slice" THEN [n |-> "list", es |-> <<>>] ELSE ixs[q]]
        f == FrzList(st, env, flat, 1, b, <<>>, FALSE)
        los == FrzList(st, env, [q \in 1..Len(ixs) |-> IF ixs[q].n = "slice" /\ ixs[q].lo.n # "none" THEN ixs[q].lo ELSE [n |-> "list", es |-> <<>>]], 1, b, <<>>, FALSE)
        his == FrzList(st, env, [q \in 1..Len(ixs) |-> IF ixs[q].n = "slice" /\ ixs[q].hi.n # "none" THEN ixs[q].hi ELSE [n |-> "list", es |-> <<>>]], 1, b, <<>>, FALSE)
    IN IF ~f.ok \/ ~los.ok \/ ~his.ok THEN [ok |-> FALSE, ixs |-> ixs]
       ELSE [ok |-> TRUE, ixs |-> [q \in 1..Len(ixs) |->
                IF ixs[q].n = "slice" THEN [n |-> "slice", lo |-> IF ixs[q].lo.n = "none" THEN None ELSE los.es[q],
                                                           hi |-> IF ixs[q].hi.n = "none" THEN None ELSE his.es[q]]
                ELSE f.es[q]]]
FrzTarget(st, env, t, b) ==
    \* frozen code cannot write to a variable it does not declare itself
    IF ~InSeq(t.x, b) THEN [ok |-> FALSE, t |-> t]
    ELSE LET f == FrzIxs(st, env, t.ix, b) IN [ok |-> f.ok, t |-> [t EXCEPT !.ix = f.ixs]]
FrzClauses(st, env, cl, i, b, acc) ==
    IF i > Len(cl) \/ Len(acc) < 0 THEN [ok |-> TRUE, cl |-> acc, b |-> b]
    ELSE LET c == cl[i]
             f == Frz(st, env, c.e, b)          \* the iterated / declared / guard expression sees the names bound so far
         IN IF ~f.ok THEN [ok |-> FALSE, cl |-> acc, b |-> b]
            ELSE IF c.k = "guard" THEN FrzClauses(st, env, cl, i + 1, b, Append(acc, [c EXCEPT !.e = f.e]))
            ELSE FrzClauses(st, env, cl, i + 1, b \o LvNames(c.x), Append(acc, [c EXCEPT !.e = f.e]))
FrzParams(st, env, ps, i, b, acc) ==
    IF i > Len(ps) \/ Len(acc) < 0 THEN [ok |-> TRUE, ps |-> acc]
    ELSE LET f == FrzOpt(st, env, ps[i].d, b)
         IN IF ~f.ok THEN [ok |-> FALSE, ps |-> acc] ELSE FrzParams(st, env, ps, i + 1, b, Append(acc, [ps[i] EXCEPT !.d = f.e]))

\* a pattern: only `literally e` holds code; it runs BEFORE the pattern binds anything, so it sees b
FrzLv(st, env, lv, b) ==
    CASE lv.k = "lity" -> LET f == Frz(st, env, lv.e, b) IN IF f.ok THEN [ok |-> TRUE, lv |-> [lv EXCEPT !.e = f.e]] ELSE [ok |-> FALSE, lv |-> lv]
      [] lv.k = "tuple" -> LET f == FrzLvSeq(st, env, lv.xs, 1, b, <<>>) IN [ok |-> f.ok, lv |-> [lv EXCEPT !.xs = f.xs]]
      [] OTHER -> [ok |-> TRUE, lv |-> lv]
FrzLvSeq(st, env, xs, i, b, acc) ==
    IF i > Len(xs) \/ Len(acc) < 0 THEN [ok |-> TRUE, xs |-> acc]
    ELSE LET f == FrzLv(st, env, xs[i], b)
         IN IF ~f.ok THEN [ok |-> FALSE, xs |-> acc] ELSE FrzLvSeq(st, env, xs, i + 1, b, Append(acc, f.lv))
\* the arms of a switch: each is a scope of its own in which the pattern's names are bound
FrzArms(st, env, arms, i, b, acc) ==
    IF i > Len(arms) \/ Len(acc) < 0 THEN [ok |-> TRUE, arms |-> acc]
    ELSE LET p == FrzLv(st, env, arms[i].p, b)
             x == Frz(st, env, arms[i].b, b \o LvNames(arms[i].p))
         IN IF ~p.ok \/ ~x.ok THEN [ok |-> FALSE, arms |-> acc]
            ELSE FrzArms(st, env, arms, i + 1, b, Append(acc, [p |-> p.lv, b |-> x.e]))

Frz(st, env, e, b) ==
    CASE e.n \in {"lit", "frozen", "cont", "none", "struct", "eval"} -> FzOk(e)      \* (the argument of eval is data)
      [] e.n = "id" -> IF InSeq(e.x, b) THEN FzOk(e)
                       ELSE LET r == ReadVar(st, env, e.x) IN IF r.ok THEN FzOk([n |-> "frozen", v |-> r.v]) ELSE FzFail
      [] e.n \in {"list", "vec"} -> LET f == FrzList(st, env, e.es, 1, b, <<>>, FALSE) IN IF f.ok THEN FzOk([e EXCEPT !.es = f.es]) ELSE FzFail
      [] e.n = "dict" -> LET f == FrzList(st, env, e.kvs, 1, b, <<>>, FALSE)
                             d == FrzOpt(st, env, e.def, b)
                         IN IF f.ok /\ d.ok THEN FzOk([e EXCEPT !.kvs = f.es, !.def = d.e]) ELSE FzFail
      [] e.n = "idx" -> LET f == FrzList(st, env, <<e.e, e.i>>, 1, b, <<>>, FALSE)
                        IN IF f.ok THEN FzOk([e EXCEPT !.e = f.es[1], !.i = f.es[2]]) ELSE FzFail
      [] e.n = "slice" -> LET f == Frz(st, env, e.e, b)  lo == FrzOpt(st, env, e.lo, b)  hi == FrzOpt(st, env, e.hi, b)
                          IN IF f.ok /\ lo.ok /\ hi.ok THEN FzOk([e EXCEPT !.e = f.e, !.lo = lo.e, !.hi = hi.e]) ELSE FzFail
      [] e.n = "call" -> LET f == Frz(st, env, e.f, b)  a == FrzList(st, env, e.as, 1, b, <<>>, FALSE)
                         IN IF f.ok /\ a.ok THEN FzOk([e EXCEPT !.f = f.e, !.as = a.es]) ELSE FzFail
      [] e.n = "bin" -> LET f == FrzList(st, env, <<e.a, e.b>>, 1, b, <<>>, FALSE)
                        IN IF f.ok /\ (InSeq(e.op, b) \/ ReadVar(st, env, e.op).ok) THEN FzOk([e EXCEPT !.a = f.es[1], !.b = f.es[2]]) ELSE FzFail
      [] e.n \in {"and", "or", "coal"} -> LET f == FrzList(st, env, <<e.a, e.b>>, 1, b, <<>>, FALSE)
                                          IN IF f.ok THEN FzOk([e EXCEPT !.a = f.es[1], !.b = f.es[2]]) ELSE FzFail
      [] e.n = "seq" -> LET f == FrzList(st, env, e.es, 1, b, <<>>, TRUE) IN IF f.ok THEN FzOk([e EXCEPT !.es = f.es]) ELSE FzFail
      [] e.n = "if" -> LET c == Frz(st, env, e.c, b)  x == Frz(st, env, e.a, b)  y == FrzOpt(st, env, e.b, b)
                       IN IF c.ok /\ x.ok /\ y.ok THEN FzOk([e EXCEPT !.c = c.e, !.a = x.e, !.b = y.e]) ELSE FzFail
      [] e.n = "while" -> LET c == Frz(st, env, e.c, b)  x == Frz(st, env, e.b, b)
                          IN IF c.ok /\ x.ok THEN FzOk([e EXCEPT !.c = c.e, !.b = x.e]) ELSE FzFail
      [] e.n = "for" ->
            LET cs == FrzClauses(st, env, e.cl, 1, b, <<>>)
            IN IF ~cs.ok THEN FzFail
               ELSE IF e.body.k \in {"do", "yield"}
                    THEN LET x == Frz(st, env, e.body.e, cs.b)
                         IN IF x.ok THEN FzOk([e EXCEPT !.cl = cs.cl, !.body = [e.body EXCEPT !.e = x.e]]) ELSE FzFail
                    ELSE LET x == FrzList(st, env, <<e.body.ke, e.body.ve>>, 1, cs.b, <<>>, FALSE)
                         IN IF x.ok THEN FzOk([e EXCEPT !.cl = cs.cl, !.body = [e.body EXCEPT !.ke = x.es[1], !.ve = x.es[2]]]) ELSE FzFail
      [] e.n = "break" -> LET x == FrzOpt(st, env, e.e, b) IN IF x.ok THEN FzOk([e EXCEPT !.e = x.e]) ELSE FzFail
      [] e.n \in {"ret", "throw", "freeze"} -> LET x == Frz(st, env, e.e, b) IN IF x.ok THEN FzOk([e EXCEPT !.e = x.e]) ELSE FzFail
      [] e.n = "try" -> LET x == Frz(st, env, e.b, b)  h == Frz(st, env, e.h, Append(b \o Decls(e.b), e.x))
                        IN IF x.ok /\ h.ok THEN FzOk([e EXCEPT !.b = x.e, !.h = h.e]) ELSE FzFail
      [] e.n = "switch" -> LET x == Frz(st, env, e.e, b)  a == FrzArms(st, env, e.arms, 1, b \o Decls(e.e), <<>>)
                           IN IF x.ok /\ a.ok THEN FzOk([e EXCEPT !.e = x.e, !.arms = a.arms]) ELSE FzFail
      \* try with a catch PATTERN: the pattern's expressions see the body's declarations, the handler
      \* also the pattern's names (like a switch arm)
      [] e.n = "tryp" -> LET x == Frz(st, env, e.b, b)
                             a == FrzArms(st, env, <<[p |-> e.p, b |-> e.h]>>, 1, b \o Decls(e.b), <<>>)
                         IN IF x.ok /\ a.ok THEN FzOk([e EXCEPT !.b = x.e, !.p = a.arms[1].p, !.h = a.arms[1].b]) ELSE FzFail
      \* an operator chain: the operators are free variables like any other, and the value an operator
      \* name resolves to carries its precedence - so the grouping is fixed when the chain is frozen
      [] e.n = "chain" -> LET f == FrzList(st, env, <<e.a, e.b, e.c>>, 1, b, <<>>, FALSE)
                          IN IF ~f.ok \/ InSeq(e.o1, b) \/ InSeq(e.o2, b) THEN FzFail     \* (rebound operators: outside the vocabulary)
                             ELSE FzOk([n |-> "chainf", a |-> f.es[1], b |-> f.es[2], c |-> f.es[3], o1 |-> e.o1, o2 |-> e.o2,
                                        p1 |-> st.prec[e.o1], p2 |-> st.prec[e.o2]])
      [] e.n = "chainf" -> FzOk(e)
      [] e.n = "setprec" -> FzFail              \* frozen code cannot write to an outer variable
      [] e.n = "lam" -> LET ps == FrzParams(st, env, e.ps, 1, b, <<>>)
                            x == Frz(st, env, e.b, b \o [q \in 1..Len(e.ps) |-> e.ps[q].x])
                        IN IF ps.ok /\ x.ok THEN FzOk([e EXCEPT !.ps = ps.ps, !.b = x.e]) ELSE FzFail
      \* a declaration's initialiser runs BEFORE the name exists, so it sees the names bound so far - except
      \* that the body of a lambda it creates runs later, when the name does exist (a local recursive function)
      [] e.n = "decl" -> LET x == Frz(st, env, e.e, IF e.e.n = "lam" THEN b \o LvNames(e.x) ELSE b)
                         IN IF x.ok THEN FzOk([e EXCEPT !.e = x.e]) ELSE FzFail
      [] e.n = "asg" -> LET t == FrzTarget(st, env, e.x, b)  x == Frz(st, env, e.e, b)
                        IN IF t.ok /\ x.ok THEN FzOk([e EXCEPT !.x = t.t, !.e = x.e]) ELSE FzFail
      [] e.n = "opasg" -> LET t == FrzTarget(st, env, e.x, b)  x == Frz(st, env, e.e, b)
                          IN IF t.ok /\ x.ok /\ (InSeq(e.op, b) \/ ReadVar(st, env, e.op).ok) THEN FzOk([e EXCEPT !.x = t.t, !.e = x.e]) ELSE FzFail
      [] e.n \in {"pop", "remove", "consume"} -> LET t == FrzTarget(st, env, e.x, b) IN IF t.ok THEN FzOk([e EXCEPT !.x = t.t]) ELSE FzFail
      [] e.n = "swap" -> LET t == FrzTarget(st, env, e.a, b)  u == FrzTarget(st, env, e.b, b)
                         IN IF t.ok /\ u.ok THEN FzOk([e EXCEPT !.a = t.t, !.b = u.t]) ELSE FzFail
      [] e.n = "upd" -> LET f == FrzList(st, env, <<e.e, e.k, e.v>>, 1, b, <<>>, FALSE)
                        IN IF f.ok THEN FzOk([e EXCEPT !.e = f.es[1], !.k = f.es[2], !.v = f.es[3]]) ELSE FzFail

(* ----------------------------- evaluator ------------------------------- *)
RECURSIVE Ev(_, _, _)
RECURSIVE EvList(_, _, _, _, _)
RECURSIVE EvSeq(_, _, _, _)
RECURSIVE EvIxs(_, _, _, _, _)
RECURSIVE CallFn(_, _, _, _)
RECURSIVE EvDefaults(_, _, _, _, _)
RECURSIVE BindAll(_, _, _, _, _)
RECURSIVE ForRun(_, _, _, _, _, _)
RECURSIVE ForItems(_, _, _, _, _, _, _, _)
RECURSIVE WhileRun(_, _, _, _)
RECURSIVE ModEvery(_, _, _, _, _)
RECURSIVE ModEach(_, _, _, _, _, _, _)
RECURSIVE BindLv(_, _, _, _)
RECURSIVE BindTuple(_, _, _, _, _)
RECURSIVE EvLv(_, _, _)
RECURSIVE EvLvSeq(_, _, _, _, _)
RECURSIVE SwitchArms(_, _, _, _, _)
RECURSIVE EveryCall(_, _, _, _, _, _, _)

\* evaluate a list of expressions left to right; v of the result is the sequence of values
EvList(st, env, es, i, acc) ==
    IF i > Len(es) \/ Len(acc) < 0 THEN [st |-> st, k |-> "val", v |-> acc, lv |-> 0, hv |-> FALSE]
    ELSE LET r == Ev(st, env, es[i])
         IN IF ~IsVal(r) THEN r ELSE EvList(r.st, env, es, i + 1, Append(acc, r.v))

EvSeq(st, env, es, i) ==
    LET r == Ev(st, env, es[i])
    IN IF ~IsVal(r) \/ i = Len(es) THEN r ELSE EvSeq(r.st, env, es, i + 1)

\* index expressions of an lvalue: a sequence of index values or [t |-> "slice", lo, hi]
EvIxs(st, env, ixs, i, acc) ==
    IF i > Len(ixs) \/ Len(acc) < 0 THEN [st |-> st, k |-> "val", v |-> acc, lv |-> 0, hv |-> FALSE]
    ELSE IF ixs[i].n = "slice"
         THEN LET rl == IF ixs[i].lo.n = "none" THEN RVal(st, Null) ELSE Ev(st, env, ixs[i].lo)
              IN IF ~IsVal(rl) THEN rl
                 ELSE LET rh == IF ixs[i].hi.n = "none" THEN RVal(rl.st, Null) ELSE Ev(rl.st, env, ixs[i].hi)
                      IN IF ~IsVal(rh) THEN rh
                         ELSE EvIxs(rh.st, env, ixs, i + 1, Append(acc, [t |-> "slice", lo |-> rl.v, hi |-> rh.v]))
         ELSE LET r == Ev(st, env, ixs[i])
              IN IF ~IsVal(r) THEN r ELSE EvIxs(r.st, env, ixs, i + 1, Append(acc, r.v))

\* declare the names of a pattern in scope env (for-clauses, parameters, :=)
BindLv(st, env, lv, v) ==
    IF lv.k = "id" THEN DeclVar(st, env, lv.x, v)
    ELSE IF lv.k = "ignore" THEN [ok |-> TRUE, st |-> st]
    ELSE IF lv.k = "lit" THEN [ok |-> VEq(lv.v, v), st |-> st]      \* a literal pattern matches an equal value
    ELSE \* tuple: the value must be a sequence of exactly that many items
         LET xs == AsList(v)
         IN IF ~xs.ok \/ Len(xs.l) # Len(lv.xs) THEN [ok |-> FALSE, st |-> st]
            ELSE BindTuple(st, env, lv.xs, xs.l, 1)
BindTuple(st, env, lvs, vals, i) ==
    IF i > Len(lvs) THEN [ok |-> TRUE, st |-> st]
    ELSE LET b == BindLv(st, env, lvs[i], vals[i])
         IN IF ~b.ok THEN b ELSE BindTuple(b.st, env, lvs, vals, i + 1)

\* `every x[lo:hi] f= w` with a user function f: slots j..hi of the copy l, each replaced by f(slot, w)
EveryCall(st, env, f, l, w, j, hi) ==
    IF j > hi \/ Len(l) < 0 THEN [st |-> st, k |-> "val", v |-> l, lv |-> 0, hv |-> FALSE]
    ELSE LET r == CallFn(st, env, f, <<l[j], w>>)
         IN IF ~IsVal(r) THEN r ELSE EveryCall(r.st, env, f, [l EXCEPT ![j] = r.v], w, j + 1, hi)

(* A pattern is evaluated before it is matched (the implementation's eval_lvalue): `literally e`     *)
(* becomes the literal pattern of e's value; a throw in e leaves the whole statement.                 *)
EvLv(st, env, lv) ==
    CASE lv.k = "lity" -> LET r == Ev(st, env, lv.e) IN IF IsVal(r) THEN [r EXCEPT !.v = [k |-> "lit", v |-> r.v]] ELSE r
      [] lv.k = "tuple" -> LET r == EvLvSeq(st, env, lv.xs, 1, <<>>) IN IF IsVal(r) THEN [r EXCEPT !.v = [k |-> "tuple", xs |-> r.v]] ELSE r
      [] OTHER -> RVal(st, lv)
EvLvSeq(st, env, xs, i, acc) ==
    IF i > Len(xs) \/ Len(acc) < 0 THEN [st |-> st, k |-> "val", v |-> acc, lv |-> 0, hv |-> FALSE]
    ELSE LET r == EvLv(st, env, xs[i])
         IN IF ~IsVal(r) THEN r ELSE EvLvSeq(r.st, env, xs, i + 1, Append(acc, r.v))
(* switch: the arms are tried in order, each in a fresh scope in which its pattern is evaluated,    *)
(* then matched (declaring its names), then the body runs; a pattern that does not match - for      *)
(* whatever reason - passes to the next arm; no arm left is an error.                               *)
SwitchArms(st, env, arms, i, v) ==
    IF i > Len(arms) THEN RThr(st, "no case")
    ELSE LET st1 == NewEnv(st, env)
             ee == LastEnv(st1)
             rp == EvLv(st1, ee, arms[i].p)
         IN IF ~IsVal(rp) THEN rp
            ELSE LET m == BindLv(rp.st, ee, rp.v, v)
                 IN IF m.ok THEN Ev(m.st, ee, arms[i].b) ELSE SwitchArms(m.st, env, arms, i + 1, v)

(* Parameters (the implementation's assign_all): without a splat, missing trailing arguments are   *)
(* filled from the parameters' defaults, which are all evaluated in the new scope BEFORE any       *)
(* parameter is bound; with one splat (and no defaults) the splat takes what the others leave.     *)
EvDefaults(st, env, ps, i, acc) ==
    IF i > Len(ps) \/ Len(acc) < 0 THEN [st |-> st, k |-> "val", v |-> acc, lv |-> 0, hv |-> FALSE]
    ELSE IF ps[i].d.n = "none" THEN RThr(st, "arguments")
    ELSE LET r == Ev(st, env, ps[i].d)
         IN IF ~IsVal(r) THEN r ELSE EvDefaults(r.st, env, ps, i + 1, Append(acc, r.v))
BindAll(st, env, ps, vals, i) ==
    IF i > Len(ps) THEN [ok |-> TRUE, st |-> st]
    ELSE LET b == DeclVar(st, env, ps[i].x, vals[i])
         IN IF ~b.ok THEN b ELSE BindAll(b.st, env, ps, vals, i + 1)
SplatPos(ps) == IF \E i \in 1..Len(ps) : ps[i].sp THEN CHOOSE i \in 1..Len(ps) : ps[i].sp ELSE 0
BindParams(st, env, ps, args) ==
    LET n == Len(ps)  m == Len(args)  si == SplatPos(ps)
    IN IF si = 0
       THEN IF m > n THEN [ok |-> FALSE, r |-> RThr(st, "arguments")]
            ELSE LET rd == EvDefaults(st, env, ps, m + 1, <<>>)
                 IN IF ~IsVal(rd) THEN [ok |-> FALSE, r |-> rd]
                    ELSE LET b == BindAll(rd.st, env, ps, args \o rd.v, 1)
                         IN IF b.ok THEN [ok |-> TRUE, st |-> b.st] ELSE [ok |-> FALSE, r |-> RThr(rd.st, "declare")]
       ELSE IF m < n - 1 THEN [ok |-> FALSE, r |-> RThr(st, "arguments")]
            ELSE LET k == m - (n - 1)        \* number of arguments taken by the splat
                     vals == SubSeq(args, 1, si - 1) \o <<VList(SubSeq(args, si, si + k - 1))>> \o SubSeq(args, si + k, m)
                     b == BindAll(st, env, ps, vals, 1)
                 IN IF b.ok THEN [ok |-> TRUE, st |-> b.st] ELSE [ok |-> FALSE, r |-> RThr(st, "declare")]

\* call a function value with evaluated arguments
CallFn(st, env, f, args) ==
    IF f.t = "fn"
    THEN LET c == st.clos[f.id]
             st1 == NewEnv(st, c.env)          \* fresh scope, child of the DEFINING scope
             ee == LastEnv(st1)
             b == BindParams(st1, ee, c.ps, args)
         IN IF ~b.ok THEN b.r
            ELSE LET r == Ev(b.st, ee, c.b)
                 IN IF r.k = "ret" THEN RVal(r.st, r.v) ELSE r     \* a call absorbs return only
    ELSE IF f.t = "bfn"
    THEN CASE f.nm \in BinNames /\ Len(args) = 2 ->
                 LET o == BinOp(f.nm, args[1], args[2]) IN IF o.ok THEN RVal(st, o.v) ELSE RThr(st, "type")
           [] f.nm = "-" /\ Len(args) = 1 ->          \* prefix minus: `-e` is the call of whatever `-` names with one argument
                 IF args[1].t = "int" THEN RVal(st, VInt(-args[1].i)) ELSE RThr(st, "type")
           [] f.nm = "print" ->
                 IF \A i \in 1..Len(args) : Printable(args[i])
                 THEN RVal([st EXCEPT !.out = Append(@, [i \in 1..Len(args) |-> Show(args[i], FALSE)])], Null)
                 ELSE RVal([st EXCEPT !.out = Append(@, <<"?">>)], Null)
           [] f.nm = "len" /\ Len(args) = 1 ->
                 (CASE args[1].t \in {"list", "vec", "bytes"} -> RVal(st, VInt(Len(args[1].l)))
                    [] args[1].t = "dict" -> RVal(st, VInt(Len(args[1].d)))
                    [] args[1].t = "str" -> RVal(st, VInt(Len(args[1].s)))
                    [] OTHER -> RThr(st, "type"))
           [] f.nm = "id" /\ Len(args) = 1 -> RVal(st, args[1])
           [] f.nm = "throw'" /\ Len(args) = 1 -> RThr(st, "throw'")
           [] f.nm = "list" /\ Len(args) = 1 ->
                 LET xs == AsList(args[1]) IN IF xs.ok THEN RVal(st, VList(xs.l)) ELSE RThr(st, "type")
           [] f.nm = "reverse" /\ Len(args) = 1 /\ args[1].t \in {"list", "vec", "bytes"} ->
                 RVal(st, [args[1] EXCEPT !.l = RevSeq(args[1].l, Len(args[1].l), <<>>)])
           [] f.nm \in {"sum", "product", "count", "first", "last", "max", "min"} /\ Len(args) = 1 ->
                 LET xs == AsList(args[1])
                 IN IF ~xs.ok THEN RThr(st, "type")
                    ELSE (CASE f.nm = "sum" -> IF AllInts(xs.l) THEN RVal(st, VInt(SumSeq(xs.l, 1, 0))) ELSE RThr(st, "type")
                           [] f.nm = "product" -> IF AllInts(xs.l) THEN RVal(st, VInt(ProdSeq(xs.l, 1, 1))) ELSE RThr(st, "type")
                           [] f.nm = "count" -> RVal(st, VInt(CountTruthy(xs.l, 1, 0)))
                           [] f.nm = "first" -> IF xs.l = <<>> THEN RThr(st, "empty") ELSE RVal(st, xs.l[1])
                           [] f.nm = "last" -> IF xs.l = <<>> THEN RThr(st, "empty") ELSE RVal(st, xs.l[Len(xs.l)])
                           [] f.nm = "max" -> IF xs.l = <<>> \/ ~AllInts(xs.l) THEN RThr(st, "empty")
                                              ELSE RVal(st, Extremum(xs.l, 2, xs.l[1], TRUE))
                           [] f.nm = "min" -> IF xs.l = <<>> \/ ~AllInts(xs.l) THEN RThr(st, "empty")
                                              ELSE RVal(st, Extremum(xs.l, 2, xs.l[1], FALSE)))
           [] OTHER -> RThr(st, "arguments")
    ELSE IF f.t = "ctor" THEN (IF Len(args) = f.n THEN RVal(st, [t |-> "inst", nm |-> f.nm, l |-> args]) ELSE RThr(st, "arguments"))
    ELSE IF f.t = "fld" THEN (IF Len(args) = 1 /\ args[1].t = "inst" /\ args[1].nm = f.nm THEN RVal(st, args[1].l[f.ix])
                              ELSE RThr(st, "arguments"))
    ELSE RThr(st, "not callable")

\* iteration items of a value: elements, dict keys; pairs = TRUE gives [index / key, value] pairs
Items(v, pairs) ==
    CASE v.t = "list" -> [ok |-> TRUE, l |-> IF pairs THEN [i \in 1..Len(v.l) |-> VList(<<VInt(i - 1), v.l[i]>>)] ELSE v.l]
      [] v.t \in {"vec", "bytes"} ->
            [ok |-> TRUE, l |-> IF pairs THEN [i \in 1..Len(v.l) |-> VList(<<VInt(i - 1), v.l[i]>>)] ELSE v.l]
      [] v.t = "dict" -> [ok |-> TRUE, l |-> IF pairs THEN [i \in 1..Len(v.d) |-> VList(<<VInt(v.d[i].k), v.d[i].v>>)]
                                             ELSE [i \in 1..Len(v.d) |-> VInt(v.d[i].k)]]
      [] v.t = "str" -> [ok |-> TRUE, l |-> IF pairs THEN [i \in 1..Len(v.s) |-> VList(<<VInt(i - 1), VStr(SubSeq(v.s, i, i))>>)]
                                            ELSE [i \in 1..Len(v.s) |-> VStr(SubSeq(v.s, i, i))]]
      [] OTHER -> [ok |-> FALSE, l |-> <<>>]

(* One `for` statement: clauses cl[ci..], then the body callback.  acc collects the yielded  *)
(* values (or [k, v] pairs).  The result's v is the accumulator while k = "val"; a break /   *)
(* continue / return / throw carries acc in field `acc` so that the caller can finish it.    *)
FR(st, k, v, lv, hv, acc) == [st |-> st, k |-> k, v |-> v, lv |-> lv, hv |-> hv, acc |-> acc]
ForRun(st, env, cl, ci, body, acc) ==
    IF ci > Len(cl)
    THEN \* the body callback, run in the innermost scope
         IF body.k = "do"
         THEN LET r == Ev(st, env, body.e)
              IN IF IsVal(r) \/ (r.k = "cont" /\ r.lv = 0) THEN FR(r.st, "val", Null, 0, FALSE, acc)
                 ELSE FR(r.st, r.k, r.v, r.lv, r.hv, acc)
         ELSE IF body.k = "yield"
         THEN LET r == Ev(st, env, body.e)
              IN IF IsVal(r) THEN
                     \* catamorphisms fold as the loop runs: `first` stops it, a value the fold cannot take raises at once
                     (IF body.cata = "first" THEN FR(r.st, "brk", r.v, 0, TRUE, acc)
                      ELSE IF body.cata \in {"sum", "product"} /\ r.v.t # "int" THEN FR(r.st, "thr", VStr("type"), 0, FALSE, acc)
                      ELSE IF body.cata \in {"max", "min"} /\ acc # <<>> /\ ~(r.v.t = "int" /\ acc[1].t = "int")
                           THEN FR(r.st, "thr", VStr("type"), 0, FALSE, acc)     \* the second value is compared with the first
                      ELSE FR(r.st, "val", Null, 0, FALSE, Append(acc, r.v)))
                 ELSE IF r.k = "cont" /\ r.lv = 0 THEN FR(r.st, "val", Null, 0, FALSE, acc)
                 ELSE FR(r.st, r.k, r.v, r.lv, r.hv, acc)
         ELSE \* yieldkv: key first, then value
              LET rk == Ev(st, env, body.ke)
              IN IF ~IsVal(rk) THEN (IF rk.k = "cont" /\ rk.lv = 0 THEN FR(rk.st, "val", Null, 0, FALSE, acc)
                                     ELSE FR(rk.st, rk.k, rk.v, rk.lv, rk.hv, acc))
                 ELSE IF rk.v.t # "int" THEN FR(rk.st, "thr", VStr("key"), 0, FALSE, acc)
                 ELSE LET rv == Ev(rk.st, env, body.ve)
                      IN IF IsVal(rv) THEN FR(rv.st, "val", Null, 0, FALSE, Append(acc, [k |-> rk.v.i, v |-> rv.v]))
                         ELSE IF rv.k = "cont" /\ rv.lv = 0 THEN FR(rv.st, "val", Null, 0, FALSE, acc)
                         ELSE FR(rv.st, rv.k, rv.v, rv.lv, rv.hv, acc)
    ELSE LET c == cl[ci]
         IN IF c.k = "guard"
            THEN LET r == Ev(st, env, c.e)       \* a guard opens no scope
                 IN IF ~IsVal(r) THEN FR(r.st, r.k, r.v, r.lv, r.hv, acc)
                    ELSE IF Truthy(r.v) THEN ForRun(r.st, env, cl, ci + 1, body, acc)
                    ELSE FR(r.st, "val", Null, 0, FALSE, acc)
            ELSE LET r == Ev(st, env, c.e)       \* the iterated expression, in the enclosing scope
                 IN IF ~IsVal(r) THEN FR(r.st, r.k, r.v, r.lv, r.hv, acc)
                    ELSE IF c.k = "decl"
                    THEN LET st1 == NewEnv(r.st, env)
                             b == BindLv(st1, LastEnv(st1), c.x, r.v)
                         IN IF ~b.ok THEN FR(st1, "thr", VStr("bind"), 0, FALSE, acc)
                            ELSE ForRun(b.st, LastEnv(st1), cl, ci + 1, body, acc)
                    ELSE LET its == Items(r.v, c.k = "item")
                         IN IF ~its.ok THEN FR(r.st, "thr", VStr("not iterable"), 0, FALSE, acc)
                            ELSE ForItems(r.st, env, cl, ci, body, acc, its.l, 1)
ForItems(st, env, cl, ci, body, acc, items, j) ==
    IF j > Len(items) THEN FR(st, "val", Null, 0, FALSE, acc)
    ELSE LET st1 == NewEnv(st, env)              \* a fresh scope per iteration
             ee == LastEnv(st1)
             b == BindLv(st1, ee, cl[ci].x, items[j])
         IN IF ~b.ok THEN FR(st1, "thr", VStr("bind"), 0, FALSE, acc)
            ELSE LET r == ForRun(b.st, ee, cl, ci + 1, body, acc)
                 IN IF r.k # "val" THEN r
                    ELSE ForItems(r.st, env, cl, ci, body, r.acc, items, j + 1)

\* the value of a finished yield loop: a list, folded through the catamorphism when `into` names one
FinishYield(st, cata, acc) ==
    CASE cata = "" -> RVal(st, VList(acc))
      [] cata = "sum" -> IF AllInts(acc) THEN RVal(st, VInt(SumSeq(acc, 1, 0))) ELSE RThr(st, "type")
      [] cata = "product" -> IF AllInts(acc) THEN RVal(st, VInt(ProdSeq(acc, 1, 1))) ELSE RThr(st, "type")
      [] cata = "count" -> RVal(st, VInt(CountTruthy(acc, 1, 0)))
      [] cata = "first" -> RThr(st, "empty")
      [] cata = "last" -> IF acc = <<>> THEN RThr(st, "empty") ELSE RVal(st, acc[Len(acc)])
      [] cata = "max" -> IF acc = <<>> THEN RThr(st, "empty") ELSE IF ~AllInts(acc) THEN RVal(st, acc[1]) ELSE RVal(st, Extremum(acc, 2, acc[1], TRUE))
      [] cata = "min" -> IF acc = <<>> THEN RThr(st, "empty") ELSE IF ~AllInts(acc) THEN RVal(st, acc[1]) ELSE RVal(st, Extremum(acc, 2, acc[1], FALSE))
RECURSIVE KvToDict(_, _, _)
KvToDict(acc, i, d) == IF i > Len(acc) \/ Len(d) < 0 THEN d ELSE KvToDict(acc, i + 1, DictPut(d, acc[i].k, acc[i].v))

WhileRun(st, env, c, b) ==
    LET st1 == NewEnv(st, env)                   \* one scope per iteration, shared by condition and body
        ee == LastEnv(st1)
        rc == Ev(st1, ee, c)
    IN IF ~IsVal(rc) THEN rc
       ELSE IF ~Truthy(rc.v) THEN RVal(rc.st, Null)
       ELSE LET rb == Ev(rc.st, ee, b)
            IN CASE rb.k = "val" -> WhileRun(rb.st, env, c, b)
                 [] rb.k = "brk" /\ rb.lv = 0 -> RVal(rb.st, IF rb.hv THEN rb.v ELSE Null)
                 [] rb.k = "cont" /\ rb.lv = 0 -> WhileRun(rb.st, env, c, b)
                 [] rb.k = "brk" -> RBrk(rb.st, rb.lv - 1, rb.hv, rb.v)
                 [] rb.k = "cont" -> RCont(rb.st, rb.lv - 1)
                 [] OTHER -> rb

(* `every target op= w` (the implementation's modify_every): the operator is applied to every  *)
(* addressed slot; the path may go through lists (index or slice) and dicts (defaults are       *)
(* materialised); v of a failed result is the partly modified copy (which the caller discards).  *)
ModEvery(c, path, i, op, w) ==
    IF i > Len(path) THEN LET o == BinOp(op, c, w) IN IF o.ok THEN [ok |-> TRUE, v |-> o.v] ELSE [ok |-> FALSE, v |-> c]
    ELSE LET ix == path[i]
             fail == [ok |-> FALSE, v |-> c]
         IN CASE ix.t = "slice" ->
                   IF c.t # "list" \/ ~BoundOk(ix.lo) \/ ~BoundOk(ix.hi) THEN fail
                   ELSE LET n == Len(c.l) IN ModEach(c, path, i, op, w, SliceLo(n, ix.lo) + 1, SliceHi(n, ix.lo, ix.hi))
              [] ix.t = "int" /\ c.t = "list" ->
                   LET p == PyIdx(Len(c.l), ix.i)
                   IN IF p = 0 THEN fail
                      ELSE LET inner == ModEvery(c.l[p], path, i + 1, op, w)
                           IN [ok |-> inner.ok, v |-> [c EXCEPT !.l[p] = inner.v]]
              [] ix.t = "fld" /\ c.t = "inst" ->
                   IF ix.nm # c.nm THEN fail
                   ELSE LET inner == ModEvery(c.l[ix.ix], path, i + 1, op, w)
                        IN [ok |-> inner.ok, v |-> [c EXCEPT !.l[ix.ix] = inner.v]]
              [] ix.t = "int" /\ c.t = "dict" ->
                   LET p == DictFind(c.d, ix.i, 1)
                   IN IF p = 0 /\ ~c.hd THEN fail
                      ELSE LET d2 == IF p = 0 THEN DictPut(c.d, ix.i, c.df) ELSE c.d
                               q == DictFind(d2, ix.i, 1)
                               inner == ModEvery(d2[q].v, path, i + 1, op, w)
                           IN [ok |-> inner.ok, v |-> [c EXCEPT !.d = [d2 EXCEPT ![q].v = inner.v]]]
              [] OTHER -> fail
ModEach(c, path, i, op, w, j, hi) ==
    IF j > hi THEN [ok |-> TRUE, v |-> c]
    ELSE LET inner == ModEvery(c.l[j], path, i + 1, op, w)
             c2 == [c EXCEPT !.l[j] = inner.v]
         IN IF ~inner.ok THEN [ok |-> FALSE, v |-> c2] ELSE ModEach(c2, path, i, op, w, j + 1, hi)


Ev(st, env, e) ==
    CASE e.n = "lit" -> RVal(st, e.v)
      [] e.n = "frozen" -> RVal(st, e.v)
      [] e.n = "eval" -> Ev(st, env, e.e)      \* eval("<source of e.e>"): evaluated in the scope of the call
      [] e.n = "struct" ->
            \* declares the constructor and one accessor function per field in the current scope
            LET names == <<e.nm>> \o e.fs
                vals == <<[t |-> "ctor", nm |-> e.nm, n |-> Len(e.fs)]>> \o [q \in 1..Len(e.fs) |-> [t |-> "fld", nm |-> e.nm, ix |-> q]]
                b == BindAll(st, env, [q \in 1..Len(names) |-> [x |-> names[q]]], vals, 1)
            IN IF b.ok THEN RVal(b.st, Null) ELSE RThr(st, "declare")
      [] e.n = "freeze" -> LET f == Frz(st, env, e.e, <<>>) IN IF f.ok THEN Ev(st, env, f.e) ELSE RThr(st, "freeze")
      [] e.n = "id" -> LET r == ReadVar(st, env, e.x) IN IF r.ok THEN RVal(st, r.v) ELSE RThr(st, "name")
      [] e.n = "list" -> LET r == EvList(st, env, e.es, 1, <<>>) IN IF IsVal(r) THEN RVal(r.st, VList(r.v)) ELSE r
      [] e.n = "vec" -> LET r == EvList(st, env, e.es, 1, <<>>)
                        IN IF ~IsVal(r) THEN r
                           ELSE IF \A i \in 1..Len(r.v) : r.v[i].t = "int"
                                THEN RVal(r.st, [t |-> e.kind, l |-> r.v])
                                ELSE RThr(r.st, "type")
      [] e.n = "dict" ->
            LET rd == IF e.def.n = "none" THEN RVal(st, Null) ELSE Ev(st, env, e.def)
            IN IF ~IsVal(rd) THEN rd
               ELSE LET rk == EvList(rd.st, env, e.kvs, 1, <<>>)     \* k1, v1, k2, v2, ... in source order
                    IN IF ~IsVal(rk) THEN rk
                       ELSE IF \E i \in 1..(Len(rk.v) \div 2) : rk.v[2 * i - 1].t # "int" THEN RThr(rk.st, "key")
                       ELSE RVal(rk.st, VDict(KvToDict([i \in 1..(Len(rk.v) \div 2) |-> [k |-> rk.v[2 * i - 1].i, v |-> rk.v[2 * i]]], 1, <<>>),
                                             e.def.n # "none", rd.v))
      [] e.n = "idx" ->
            LET rc == Ev(st, env, e.e)
            IN IF ~IsVal(rc) THEN rc
               ELSE LET ri == Ev(rc.st, env, e.i)
                    IN IF ~IsVal(ri) THEN ri
                       ELSE LET g == GetIdx(rc.v, ri.v) IN IF g.ok THEN RVal(ri.st, g.v) ELSE RThr(ri.st, "index")
      [] e.n = "slice" ->
            LET rc == Ev(st, env, e.e)
            IN IF ~IsVal(rc) THEN rc
               ELSE LET rx == EvIxs(rc.st, env, <<[n |-> "slice", lo |-> e.lo, hi |-> e.hi]>>, 1, <<>>)
                    IN IF ~IsVal(rx) THEN rx
                       ELSE IF rc.v.t = "str" /\ rx.v[1].lo.t \in {"null", "int"} /\ rx.v[1].hi.t \in {"null", "int"}
                            THEN LET n == Len(rc.v.s)
                                     lo == SliceLo(n, rx.v[1].lo)
                                     hi == SliceHi(n, rx.v[1].lo, rx.v[1].hi)
                                 IN RVal(rx.st, VStr(SubSeq(rc.v.s, lo + 1, hi)))
                       ELSE IF ~IsSeqLike(rc.v) \/ (rx.v[1].lo.t \notin {"null", "int"}) \/ (rx.v[1].hi.t \notin {"null", "int"})
                            THEN RThr(rx.st, "type")
                            ELSE LET n == Len(rc.v.l)
                                     lo == SliceLo(n, rx.v[1].lo)
                                     hi == SliceHi(n, rx.v[1].lo, rx.v[1].hi)
                                 IN RVal(rx.st, [rc.v EXCEPT !.l = SubSeq(rc.v.l, lo + 1, hi)])
      [] e.n = "call" ->
            LET rf == Ev(st, env, e.f)
            IN IF ~IsVal(rf) THEN rf
               ELSE LET ra == EvList(rf.st, env, e.as, 1, <<>>)
                    IN IF ~IsVal(ra) THEN ra ELSE CallFn(ra.st, env, rf.v, ra.v)
      [] e.n = "bin" ->
            \* infix application: left operand, then the operator, then the right operand
            LET ra == Ev(st, env, e.a)
            IN IF ~IsVal(ra) THEN ra
               ELSE LET rf == Ev(ra.st, env, [n |-> "id", x |-> e.op])
                    IN IF ~IsVal(rf) THEN rf
                       ELSE LET rb == Ev(rf.st, env, e.b)
                            IN IF ~IsVal(rb) THEN rb ELSE CallFn(rb.st, env, rf.v, <<ra.v, rb.v>>)
      [] e.n = "and" -> LET ra == Ev(st, env, e.a)
                        IN IF ~IsVal(ra) THEN ra ELSE IF Truthy(ra.v) THEN Ev(ra.st, env, e.b) ELSE ra
      [] e.n = "or" -> LET ra == Ev(st, env, e.a)
                       IN IF ~IsVal(ra) THEN ra ELSE IF Truthy(ra.v) THEN ra ELSE Ev(ra.st, env, e.b)
      [] e.n = "coal" -> LET ra == Ev(st, env, e.a)
                         IN IF ~IsVal(ra) THEN ra ELSE IF ra.v.t # "null" THEN ra ELSE Ev(ra.st, env, e.b)
      [] e.n = "seq" -> LET r == EvSeq(st, env, e.es, 1)
                        IN IF IsVal(r) /\ e.semi THEN RVal(r.st, Null) ELSE r
      [] e.n = "if" -> LET rc == Ev(st, env, e.c)
                       IN IF ~IsVal(rc) THEN rc
                          ELSE IF Truthy(rc.v) THEN Ev(rc.st, env, e.a)
                          ELSE IF e.b.n = "none" THEN RVal(rc.st, Null) ELSE Ev(rc.st, env, e.b)
      [] e.n = "while" -> WhileRun(st, env, e.c, e.b)
      [] e.n = "for" ->
            \* a yield loop evaluates its `into` target first
            LET r == ForRun(st, env, e.cl, 1, e.body, <<>>)
                fin(s, acc) == IF e.body.k = "do" THEN RVal(s, Null)
                               ELSE IF e.body.k = "yield" THEN FinishYield(s, e.body.cata, acc)
                               ELSE RVal(s, VDict(KvToDict(acc, 1, <<>>), FALSE, Null))
                post(res) == \* an `into` function without catamorphism is applied to the finished value
                             IF e.body.k = "yield" /\ e.body.post # "" /\ IsVal(res)
                             THEN CallFn(res.st, env, BFn(e.body.post), <<res.v>>) ELSE res
            IN CASE r.k = "val" -> post(fin(r.st, r.acc))
                 [] r.k = "brk" /\ r.lv = 0 -> IF r.hv THEN post(RVal(r.st, r.v)) ELSE post(fin(r.st, r.acc))
                 [] r.k = "brk" -> RBrk(r.st, r.lv - 1, r.hv, r.v)
                 \* a level-0 continue never escapes the BODY (the iteration absorbs it); one that arrives here
                 \* was raised while a clause's iterated expression was evaluated and is passed on unchanged
                 \* (transcribed: `Err(NErr::Continue(n)) if n != 0 => n - 1`, anything else as it is)
                 [] r.k = "cont" /\ r.lv > 0 -> RCont(r.st, r.lv - 1)
                 [] OTHER -> [st |-> r.st, k |-> r.k, v |-> r.v, lv |-> r.lv, hv |-> r.hv]
      [] e.n = "break" -> IF e.e.n = "none" THEN RBrk(st, e.lv, FALSE, Null)
                          ELSE LET r == Ev(st, env, e.e) IN IF IsVal(r) THEN RBrk(r.st, e.lv, TRUE, r.v) ELSE r
      [] e.n = "cont" -> RCont(st, e.lv)
      [] e.n = "ret" -> LET r == Ev(st, env, e.e) IN IF IsVal(r) THEN RRet(r.st, r.v) ELSE r
      [] e.n = "throw" -> LET r == Ev(st, env, e.e) IN IF IsVal(r) THEN RThrV(r.st, r.v) ELSE r
      [] e.n = "try" ->
            LET r == Ev(st, env, e.b)            \* the body opens no scope; only a throw is intercepted
            IN IF r.k # "thr" THEN r
               ELSE LET st1 == NewEnv(r.st, env)  \* the catch clause opens one
                        b == DeclVar(st1, LastEnv(st1), e.x, r.v)
                    IN Ev(b.st, LastEnv(st1), e.h)
      [] e.n = "tryp" ->
            \* catch with a pattern: evaluated and matched in the clause's fresh scope; a handler whose
            \* pattern does not match is skipped and the ORIGINAL thrown value travels on
            LET r == Ev(st, env, e.b)
            IN IF r.k # "thr" THEN r
               ELSE LET st1 == NewEnv(r.st, env)
                        ee == LastEnv(st1)
                        rp == EvLv(st1, ee, e.p)
                    IN IF ~IsVal(rp) THEN rp
                       ELSE LET m == BindLv(rp.st, ee, rp.v, r.v)
                            IN IF m.ok THEN Ev(m.st, ee, e.h)
                               ELSE [st |-> m.st, k |-> "thr", v |-> r.v, lv |-> r.lv, hv |-> r.hv]
      [] e.n \in {"chain", "chainf"} ->
            \* a o1 b o2 c: operands left to right, then the tighter operator first (ties: the left one)
            LET ra == Ev(st, env, e.a)
            IN IF ~IsVal(ra) THEN ra
               ELSE LET rb == Ev(ra.st, env, e.b)
                    IN IF ~IsVal(rb) THEN rb
                       ELSE LET rc == Ev(rb.st, env, e.c)
                            IN IF ~IsVal(rc) THEN rc
                               ELSE LET p1 == IF e.n = "chainf" THEN e.p1 ELSE rc.st.prec[e.o1]
                                        p2 == IF e.n = "chainf" THEN e.p2 ELSE rc.st.prec[e.o2]
                                    IN IF p2 > p1
                                       THEN LET inner == BinOp(e.o2, rb.v, rc.v)
                                                outer == BinOp(e.o1, ra.v, inner.v)
                                            IN IF inner.ok /\ outer.ok THEN RVal(rc.st, outer.v) ELSE RThr(rc.st, "type")
                                       ELSE LET inner == BinOp(e.o1, ra.v, rb.v)
                                                outer == BinOp(e.o2, inner.v, rc.v)
                                            IN IF inner.ok /\ outer.ok THEN RVal(rc.st, outer.v) ELSE RThr(rc.st, "type")
      [] e.n = "setprec" ->
            LET r == Ev(st, env, e.e)
            IN IF ~IsVal(r) THEN r
               ELSE IF r.v.t # "int" THEN RThr(r.st, "type")
               ELSE RVal([r.st EXCEPT !.prec[e.op] = r.v.i], Null)
      [] e.n = "switch" ->
            LET rs == Ev(st, env, e.e)
            IN IF ~IsVal(rs) THEN rs ELSE SwitchArms(rs.st, env, e.arms, 1, rs.v)
      [] e.n = "lam" ->
            LET st1 == [st EXCEPT !.clos = Append(@, [ps |-> e.ps, b |-> e.b, env |-> env])]
            IN RVal(st1, [t |-> "fn", id |-> Len(st1.clos)])
      [] e.n = "decl" ->
            LET r == Ev(st, env, e.e)
            IN IF ~IsVal(r) THEN r
               ELSE LET b == BindLv(r.st, env, e.x, r.v) IN IF b.ok THEN RVal(b.st, Null) ELSE RThr(r.st, "declare")
      [] e.n = "asg" ->
            \* index expressions of the target first, then the right-hand side, then set_index; the
            \* part of an `every` assignment carried out before a failure stays
            LET rx == EvIxs(st, env, e.x.ix, 1, <<>>)
            IN IF ~IsVal(rx) THEN rx
               ELSE LET r == Ev(rx.st, env, e.e)
                    IN IF ~IsVal(r) THEN r
                       ELSE LET cur == ReadVar(r.st, env, e.x.x)
                            IN IF ~cur.ok \/ Resolve(r.st, env, e.x.x) = 0 THEN RThr(r.st, "name")
                               ELSE LET w == SetP(cur.v, rx.v, 1, r.v, FALSE, e.every)
                                        st2 == SetVar(r.st, env, e.x.x, w.v).st
                                    IN IF w.ok THEN RVal(st2, Null) ELSE RThr(st2, "index")
      [] e.n = "opasg" ->
            (* x[path] op= rhs: index expressions, old value, operator, right-hand side; the slot is  *)
            (* null while the operator runs and stays null if it raises                              *)
            LET rx == EvIxs(st, env, e.x.ix, 1, <<>>)
            IN IF ~IsVal(rx) THEN rx
               ELSE LET cur == ReadVar(rx.st, env, e.x.x)
                    IN IF ~cur.ok \/ Resolve(rx.st, env, e.x.x) = 0 THEN RThr(rx.st, "name")
                       ELSE IF e.every
                       THEN LET rf0 == Ev(rx.st, env, [n |-> "id", x |-> e.op])
                            IN IF ~IsVal(rf0) THEN rf0
                               ELSE LET r == Ev(rf0.st, env, e.e)
                                    IN IF ~IsVal(r) THEN r
                                       \* the operator works on a COPY of the variable's value, stored back only when
                                       \* every slot succeeded: a failure (and anything the operator does meanwhile)
                                       \* finds and leaves the variable as it was
                                       ELSE IF rf0.v.t = "fn"
                                       THEN \* a user function as operator: one call per slot, left to right (modelled for
                                            \* a path that is one slice of a list)
                                            LET cur2 == ReadVar(r.st, env, e.x.x)
                                            IN IF Len(rx.v) # 1 \/ rx.v[1].t # "slice" \/ cur2.v.t # "list"
                                                  \/ ~BoundOk(rx.v[1].lo) \/ ~BoundOk(rx.v[1].hi) THEN RThr(r.st, "every-unmodelled")
                                               ELSE LET n == Len(cur2.v.l)
                                                        c == EveryCall(r.st, env, rf0.v, cur2.v.l, r.v,
                                                                       SliceLo(n, rx.v[1].lo) + 1, SliceHi(n, rx.v[1].lo, rx.v[1].hi))
                                                    IN IF ~IsVal(c) THEN c
                                                       ELSE RVal(SetVar(c.st, env, e.x.x, [cur2.v EXCEPT !.l = c.v]).st, Null)
                                       ELSE IF rf0.v.t # "bfn" THEN RThr(r.st, "every")
                                       ELSE LET cur2 == ReadVar(r.st, env, e.x.x)
                                                m == ModEvery(cur2.v, rx.v, 1, e.op, r.v)
                                                st2 == SetVar(r.st, env, e.x.x, m.v).st
                                            IN IF m.ok THEN RVal(st2, Null) ELSE RThr(r.st, "every")
                       ELSE LET old == GetPath(cur.v, rx.v, 1)
                            IN IF ~old.ok THEN RThr(rx.st, "index")
                               ELSE LET rf == Ev(rx.st, env, [n |-> "id", x |-> e.op])
                                    IN IF ~IsVal(rf) THEN rf
                                       ELSE LET r == Ev(rf.st, env, e.e)
                                            IN IF ~IsVal(r) THEN r
                                               ELSE LET cur2 == ReadVar(r.st, env, e.x.x)
                                                        dropped == SetP(cur2.v, rx.v, 1, Null, TRUE, TRUE)
                                                        st2 == SetVar(r.st, env, e.x.x, dropped.v).st
                                                        rc == CallFn(st2, env, rf.v, <<old.v, r.v>>)
                                                    IN IF ~dropped.ok THEN RThr(st2, "drop")
                                                       ELSE IF ~IsVal(rc) THEN rc
                                                       ELSE LET cur3 == ReadVar(rc.st, env, e.x.x)
                                                                w == SetP(cur3.v, rx.v, 1, rc.v, FALSE, FALSE)
                                                                st3 == SetVar(rc.st, env, e.x.x, w.v).st
                                                            IN IF w.ok THEN RVal(st3, Null) ELSE RThr(st3, "index")
      [] e.n \in {"pop", "remove", "consume"} ->
            LET rx == EvIxs(st, env, e.x.ix, 1, <<>>)
            IN IF ~IsVal(rx) THEN rx
               ELSE LET cur == ReadVar(rx.st, env, e.x.x)
                        n == Len(rx.v)
                    IN IF ~cur.ok \/ Resolve(rx.st, env, e.x.x) = 0 THEN RThr(rx.st, "name")
                       ELSE IF e.n = "remove" /\ n = 0 THEN RThr(rx.st, "remove")
                       ELSE LET f == CASE e.n = "pop" -> [op |-> "pop"]
                                       [] e.n = "consume" -> [op |-> "consume"]
                                       [] rx.v[n].t = "slice" -> [op |-> "rmslice", lo |-> rx.v[n].lo, hi |-> rx.v[n].hi]
                                       [] OTHER -> [op |-> "rmidx", ix |-> rx.v[n]]
                                path == IF e.n = "remove" THEN SubSeq(rx.v, 1, n - 1) ELSE rx.v
                                m == ModP(cur.v, path, 1, f)
                                st2 == SetVar(rx.st, env, e.x.x, m.v).st
                            IN IF m.ok THEN RVal(st2, m.r) ELSE RThr(st2, "modify")
      [] e.n = "swap" ->
            \* both targets are read, then a is assigned, then b
            LET ra == EvIxs(st, env, e.a.ix, 1, <<>>)
            IN IF ~IsVal(ra) THEN ra
               ELSE LET rb == EvIxs(ra.st, env, e.b.ix, 1, <<>>)
                    IN IF ~IsVal(rb) THEN rb
                       ELSE LET ca == ReadVar(rb.st, env, e.a.x)
                                cb == ReadVar(rb.st, env, e.b.x)
                            IN IF ~ca.ok \/ ~cb.ok \/ Resolve(rb.st, env, e.a.x) = 0 \/ Resolve(rb.st, env, e.b.x) = 0
                               THEN RThr(rb.st, "name")
                               ELSE LET va == GetPath(ca.v, ra.v, 1)
                                        vb == GetPath(cb.v, rb.v, 1)
                                    IN IF ~va.ok \/ ~vb.ok THEN RThr(rb.st, "index")
                                       ELSE LET w1 == SetP(ca.v, ra.v, 1, vb.v, FALSE, FALSE)
                                                st1 == SetVar(rb.st, env, e.a.x, w1.v).st
                                                cb2 == ReadVar(st1, env, e.b.x)
                                                w2 == SetP(cb2.v, rb.v, 1, va.v, FALSE, FALSE)
                                            IN IF ~w1.ok THEN RThr(rb.st, "index")
                                               ELSE IF ~w2.ok THEN RThr(st1, "index")
                                               ELSE RVal(SetVar(st1, env, e.b.x, w2.v).st, Null)
      [] e.n = "upd" ->
            \* e{k = v}: a copy of e with one slot replaced; e itself is untouched
            LET rc == Ev(st, env, e.e)
            IN IF ~IsVal(rc) THEN rc
               ELSE LET rk == Ev(rc.st, env, e.k)
                    IN IF ~IsVal(rk) THEN rk
                       ELSE LET rv == Ev(rk.st, env, e.v)
                            IN IF ~IsVal(rv) THEN rv
                               ELSE LET w == SetP(rc.v, <<rk.v>>, 1, rv.v, FALSE, FALSE)      \* set_index on a copy
                                    IN IF w.ok THEN RVal(rv.st, w.v) ELSE RThr(rv.st, "index")

(* --------------------- one REPL statement of a session ------------------ *)
\* outcome classes observable at top level
OutClass(r) == CASE r.k = "val" -> "ok" [] r.k = "thr" -> "throw" [] OTHER -> "ctl"
Exec(st, stmt) == Ev(st, 1, stmt)
\* the value of a global variable, projected for comparison; undef when not declared
GlobalOf(st, x) == LET p == VarPos(st.envs[1].vs, x, 1)
                   IN IF p = 0 THEN [t |-> "undef"] ELSE Proj(st.envs[1].vs[p].v)
=============================================================================
