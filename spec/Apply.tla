------------------------------- MODULE Apply -------------------------------
(***************************************************************************)
(* C04 - operators are ordinary functions: all application forms agree.    *)
(*                                                                         *)
(* The module models call DISPATCH, not builtins.  Values:                 *)
(*   Data(id)                an opaque non-function value                  *)
(*   Prim(n, one)            a primitive callable (builtin or closure):    *)
(*                           applied to an argument vector it yields the   *)
(*                           opaque result  Call(n, args)  - except that a *)
(*                           primitive that declares itself partially      *)
(*                           applicable returns, for ONE argument x, the   *)
(*                           wrapper  PA2(self, x)  (one = "pa2") or       *)
(*                           PALast(self, x)  (one = "palast")             *)
(*   PA1(f, x)  PA2(f, x)  PALast(f, x)  Flip(f)   partial applications    *)
(*   CallSec(callee, slots)  a call with `_` holes (callee may be a hole)  *)
(*   ChainSec(l, f, r)       a one-operator chain with `_` holes           *)
(* and results  Call(n, args)  |  Err  |  Unknown (an opaque result was    *)
(* applied: the model cannot know).                                        *)
(*                                                                         *)
(* Run(fn, args) transcribes how an argument vector reaches a primitive    *)
(* through the wrappers; CallOrPartApply is the call-site rule (calling a  *)
(* non-function with exactly one function argument partially applies the   *)
(* ARGUMENT to the callee as its first argument).  The three entry points  *)
(* of a primitive (argument vector, one argument, two arguments) are ONE   *)
(* Call(n, args) here: that they are extensionally equal for every builtin *)
(* is exactly what the trace validation establishes per builtin.           *)
(*                                                                         *)
(* Den(form, f, a, b, c) is the denotation of each application form named  *)
(* by the property; FormsAgree is the property on this model.              *)
(***************************************************************************)
EXTENDS Integers, Sequences, IOUtils, TLC

\* negative control (environment variable C04_MUTANT): "juxta-always" makes the call-site rule partially
\* apply a function argument even when the callee is itself a function; "rsec-always" (Trace_Apply)
\* treats every one-argument call as a right section
Mutant == IF "C04_MUTANT" \in DOMAIN IOEnv THEN IOEnv.C04_MUTANT ELSE "none"

Data(id) == [k |-> "data", id |-> id]
Prim(n, one) == [k |-> "prim", n |-> n, one |-> one]
PA1(f, x) == [k |-> "pa1", f |-> f, x |-> x]
PA2(f, x) == [k |-> "pa2", f |-> f, x |-> x]
PALast(f, x) == [k |-> "palast", f |-> f, x |-> x]
Flip(f) == [k |-> "flip", f |-> f]
Hole == [k |-> "hole"]
CallSec(callee, slots) == [k |-> "callsec", callee |-> callee, slots |-> slots]
ChainSec(l, f, r) == [k |-> "chainsec", l |-> l, f |-> f, r |-> r]
Call(n, args) == [k |-> "call", n |-> n, args |-> args]
Err == [k |-> "err"]
Unknown == [k |-> "unknown"]

FuncKinds == {"prim", "pa1", "pa2", "palast", "flip", "callsec", "chainsec"}
IsFunc(v) == v.k \in FuncKinds
IsHole(v) == v.k = "hole"

RECURSIVE Run(_, _)
\* fill the holes of `slots` from `args` (in order); [ok, vals, rest]
RECURSIVE Fill(_, _, _)
Fill(slots, args, acc) ==
    IF slots = <<>> THEN [ok |-> TRUE, vals |-> acc, rest |-> args]
    ELSE IF IsHole(Head(slots))
         THEN IF args = <<>> THEN [ok |-> FALSE, vals |-> acc, rest |-> args]
              ELSE Fill(Tail(slots), Tail(args), Append(acc, Head(args)))
         ELSE Fill(Tail(slots), args, Append(acc, Head(slots)))

\* `call`: the callee must be a function
CallFn(callee, args) == IF IsFunc(callee) THEN Run(callee, args)
                        ELSE IF callee.k = "data" THEN Err ELSE Unknown

Run(fn, args) ==
    CASE fn.k = "prim" ->
           IF Len(args) = 1 /\ fn.one = "pa2" THEN PA2(fn, args[1])
           ELSE IF Len(args) = 1 /\ fn.one = "palast" THEN PALast(fn, args[1])
           ELSE Call(fn.n, args)
      [] fn.k = "pa1" -> IF Len(args) = 1 THEN Run(fn.f, <<fn.x, args[1]>>) ELSE Err
      [] fn.k = "pa2" -> IF Len(args) = 1 THEN Run(fn.f, <<args[1], fn.x>>) ELSE Err
      [] fn.k = "palast" -> Run(fn.f, Append(args, fn.x))
      [] fn.k = "flip" -> IF Len(args) = 1 THEN PA1(fn.f, args[1])
                          ELSE IF Len(args) = 2 THEN Run(fn.f, <<args[2], args[1]>>)
                          ELSE Err
      [] fn.k = "callsec" ->
           IF IsHole(fn.callee) /\ args = <<>> THEN Err
           ELSE LET callee == IF IsHole(fn.callee) THEN Head(args) ELSE fn.callee
                    rest == IF IsHole(fn.callee) THEN Tail(args) ELSE args
                    fl == Fill(fn.slots, rest, <<>>)
                IN IF ~fl.ok THEN Err ELSE CallFn(callee, fl.vals)      \* surplus arguments are ignored
      [] fn.k = "chainsec" ->
           LET fl == Fill(<<fn.l, fn.r>>, args, <<>>)
           IN IF ~fl.ok \/ fl.rest # <<>> THEN Err ELSE Run(fn.f, fl.vals)

\* the call-site rule
CallOrPartApply(callee, args) ==
    IF Mutant = "juxta-always" /\ IsFunc(callee) /\ Len(args) = 1 /\ IsFunc(args[1]) THEN PA1(args[1], callee)
    ELSE IF IsFunc(callee) THEN Run(callee, args)
    ELSE IF callee.k = "data"
         THEN (IF Len(args) = 1 /\ IsFunc(args[1]) THEN PA1(args[1], callee) ELSE Err)
    ELSE Unknown

\* applying the VALUE of an expression (possibly Err / Unknown) further
Then(v, args) == IF v.k = "err" THEN Err ELSE IF v.k \in {"unknown", "call"} THEN Unknown ELSE CallOrPartApply(v, args)

Forms2 == {"infix", "call", "bang", "backtick", "sec1", "sec2", "chsec1", "chsec2", "apply", "of",
           "juxta", "rsec", "opassign", "splat", "secsp1", "secsp2", "opself"}
Forms1 == {"call", "bang", "splat", "dot", "then", "sec"}
Forms3 == {"call", "bang", "splat", "sec1", "sec2", "sec3", "secall", "secsp1", "secsp3", "secspmid"}

\* two data arguments a, b
Den2(form, f, a, b) ==
    CASE form \in {"infix", "backtick", "opassign"} -> Run(f, <<a, b>>)            \* f.run2(a, b)
      [] form = "opself" -> Run(f, <<a, a>>)                                       \* x = a; x f= x  (the right-hand side reads x)
      [] form \in {"call", "bang", "splat"} -> CallOrPartApply(f, <<a, b>>)
      \* a splatted argument of a section is expanded when the section is BUILT, before or after a hole
      [] form \in {"sec1", "secsp1"} -> Then(CallSec(f, <<Hole, b>>), <<a>>)       \* f(_, b)(a),  f(_, ...[b])(a)
      [] form \in {"sec2", "secsp2"} -> Then(CallSec(f, <<a, Hole>>), <<b>>)       \* f(a, _)(b),  f(...[a], _)(b)
      [] form = "chsec1" -> Then(ChainSec(Hole, f, b), <<a>>)                      \* (_ f b)(a)
      [] form = "chsec2" -> Then(ChainSec(a, f, Hole), <<b>>)                      \* (a f _)(b)
      [] form \in {"apply", "of"} -> CallFn(f, <<a, b>>)                           \* [a, b] apply f,  f of [a, b]
      [] form = "juxta" -> Then(CallOrPartApply(a, <<f>>), <<b>>)                  \* (a f)(b)
      [] form = "rsec" -> Then(CallOrPartApply(f, <<b>>), <<a>>)                   \* f(b)(a)
Den1(form, f, a) ==
    CASE form \in {"call", "bang", "splat"} -> CallOrPartApply(f, <<a>>)
      [] form \in {"dot", "then"} -> CallFn(f, <<a>>)                              \* a.f,  a then f
      [] form = "sec" -> Then(CallSec(f, <<Hole>>), <<a>>)                         \* f(_)(a)
Den3(form, f, a, b, c) ==
    CASE form \in {"call", "bang", "splat"} -> CallOrPartApply(f, <<a, b, c>>)
      [] form \in {"sec1", "secsp1"} -> Then(CallSec(f, <<Hole, b, c>>), <<a>>)    \* f(_, ...[b, c])(a)
      [] form \in {"sec2", "secspmid"} -> Then(CallSec(f, <<a, Hole, c>>), <<b>>)  \* f(a, _, ...[c])(b)
      [] form \in {"sec3", "secsp3"} -> Then(CallSec(f, <<a, b, Hole>>), <<c>>)    \* f(...[a, b], _)(c)
      [] form = "secall" -> Then(CallSec(f, <<Hole, Hole, Hole>>), <<a, b, c>>)

(* ------------------------------ the property --------------------------- *)
\* forms that agree unconditionally
Always2 == Forms2 \ {"juxta", "rsec", "opself"}
FormsAgree2(f, a, b) ==
    /\ \A form \in Always2 : Den2(form, f, a, b) = Run(f, <<a, b>>)
    /\ ~IsFunc(a) => Den2("juxta", f, a, b) = Run(f, <<a, b>>)
    \* one-argument calls are right sections: whenever f(b) is a function, f(b)(a) is f(a, b)
    /\ IsFunc(CallOrPartApply(f, <<b>>)) => Den2("rsec", f, a, b) = Run(f, <<a, b>>)
FormsAgree1(f, a) == \A form \in Forms1 : Den1(form, f, a) = Run(f, <<a>>)
FormsAgree3(f, a, b, c) == \A form \in Forms3 : Den3(form, f, a, b, c) = Run(f, <<a, b, c>>)
=============================================================================
