------------------------------- MODULE Types -------------------------------
(***************************************************************************)
(* C12 -- the value universe used by the pattern specification, the type   *)
(* predicate  v is T  and  type(v).                                        *)
(*                                                                         *)
(* Values are tagged records (field t first tested, so that values of      *)
(* different kinds never meet in a TLC comparison of unlike shapes):       *)
(*   [t |-> "null"]                                                        *)
(*   [t |-> "int", i]               small integers                         *)
(*   [t |-> "rat", n, d]            d > 1, lowest terms                    *)
(*   [t |-> "float", n, d]          the double whose exact value is n / d  *)
(*   [t |-> "complex", n, d]        n/d + 2i  (one representative)         *)
(*   [t |-> "str", v]               v = sequence of one-character strings  *)
(*   [t |-> "list", v]  [t |-> "vec", v]  [t |-> "bytes", v]               *)
(*   [t |-> "stream", v]            a finite range                         *)
(*   [t |-> "dict", ks, vs]         at most one entry (no iteration order) *)
(*   [t |-> "inst", name, v]        struct instance                        *)
(*   [t |-> "func", name]  [t |-> "type", name]                            *)
(***************************************************************************)
EXTENDS Integers, Sequences, FiniteSets

Null == [t |-> "null"]
IntV(n) == [t |-> "int", i |-> n]
Rat(n, d) == [t |-> "rat", n |-> n, d |-> d]
Flt(n, d) == [t |-> "float", n |-> n, d |-> d]
Cpx(n, d) == [t |-> "complex", n |-> n, d |-> d]
Str(cs) == [t |-> "str", v |-> cs]
List(xs) == [t |-> "list", v |-> xs]
Vec(xs) == [t |-> "vec", v |-> xs]
Bytes(xs) == [t |-> "bytes", v |-> xs]
Stream(xs) == [t |-> "stream", v |-> xs]
Dict(ks, vs) == [t |-> "dict", ks |-> ks, vs |-> vs]
Inst(name, xs) == [t |-> "inst", name |-> name, v |-> xs]
Func(name) == [t |-> "func", name |-> name]
TypeV(name) == [t |-> "type", name |-> name]

NumKinds == {"int", "rat", "float", "complex"}
SeqKinds == {"str", "list", "vec", "bytes", "stream", "dict"}
IsNum(v) == v.t \in NumKinds
IsReal(v) == v.t \in {"int", "rat", "float"}
\* exact value of a real number as a fraction <<numerator, denominator>>, denominator > 0
Frac(v) == IF v.t = "int" THEN <<v.i, 1>> ELSE <<v.n, v.d>>
NumEq(x, y) == IF x.t = "complex" \/ y.t = "complex"
               THEN x.t = y.t /\ x.n * y.d = y.n * x.d
               ELSE Frac(x)[1] * Frac(y)[2] = Frac(y)[1] * Frac(x)[2]
NumLt(x, y) == Frac(x)[1] * Frac(y)[2] < Frac(y)[1] * Frac(x)[2]

\* the language's == : numbers by value across levels, everything else structurally within a kind
RECURSIVE ValEq(_, _)
ValEq(x, y) ==
    IF IsNum(x) /\ IsNum(y) THEN NumEq(x, y)
    ELSE IF x.t # y.t THEN FALSE
    ELSE CASE x.t \in {"str", "bytes"} -> x.v = y.v                   \* raw characters / byte values
           [] x.t \in {"list", "vec", "stream"} ->
                 Len(x.v) = Len(y.v) /\ \A j \in 1..Len(x.v) : ValEq(x.v[j], y.v[j])
           [] x.t = "dict" -> Len(x.ks) = Len(y.ks)
                              /\ \A j \in 1..Len(x.ks) : ValEq(x.ks[j], y.ks[j]) /\ ValEq(x.vs[j], y.vs[j])
           [] x.t = "inst" -> x.name = y.name /\ Len(x.v) = Len(y.v)
                              /\ \A j \in 1..Len(x.v) : ValEq(x.v[j], y.v[j])
           [] x.t \in {"func", "type"} -> x.name = y.name
           [] x.t = "null" -> TRUE

Truthy(v) ==
    CASE v.t = "null" -> FALSE
      [] v.t = "int" -> v.i # 0
      [] v.t \in {"rat", "float", "complex"} -> v.n # 0
      [] v.t \in {"str", "list", "vec", "bytes", "stream"} -> Len(v.v) > 0
      [] v.t = "dict" -> Len(v.ks) > 0
      [] OTHER -> TRUE

(* ------------------------------- types --------------------------------- *)
\* names of the builtin types as the language spells them
BuiltinTypes == {"nulltype", "int", "rational", "float", "complex", "number", "str", "list", "dict", "vector",
                 "bytes", "stream", "func", "type", "anything"}
StructNames == {"Foo", "Bar"}
StructArity(name) == IF name = "Foo" THEN 2 ELSE 1
\* named predicates for satisfying(p)
Preds == {"small", "nonempty"}
\* [ok, b]: the predicate may raise (comparison of unlike kinds, len of a number)
ApplyPred(p, v) ==
    CASE p = "small" -> IF IsReal(v) THEN [ok |-> TRUE, b |-> NumLt(v, IntV(3))]
                        \* complex numbers are ordered as (re, im) pairs; the model's complex values are n/d + 2i
                        ELSE IF v.t = "complex" THEN [ok |-> TRUE, b |-> v.n < 3 * v.d]
                        ELSE [ok |-> FALSE, b |-> FALSE]
      [] p = "nonempty" -> IF v.t \in {"str", "list", "vec", "bytes", "stream"} THEN [ok |-> TRUE, b |-> Len(v.v) > 0]
                           ELSE IF v.t = "dict" THEN [ok |-> TRUE, b |-> Len(v.ks) > 0]
                           ELSE [ok |-> FALSE, b |-> FALSE]

\* a type is [k |-> "builtin", name] / [k |-> "struct", name] / [k |-> "sat", name] / struct_instance
TBuiltin(name) == [k |-> "builtin", name |-> name]
TStruct(name) == [k |-> "struct", name |-> name]
TSat(p) == [k |-> "sat", name |-> p]
TAny == TBuiltin("anything")
TStructInstance == [k |-> "builtin", name |-> "struct_instance"]   \* only obtainable as type(instance)

\* TypeOf(v): what type(v) returns
TypeOf(v) ==
    CASE v.t = "null" -> TBuiltin("nulltype")
      [] v.t = "int" -> TBuiltin("int")
      [] v.t = "rat" -> TBuiltin("rational")
      [] v.t = "float" -> TBuiltin("float")
      [] v.t = "complex" -> TBuiltin("complex")
      [] v.t = "str" -> TBuiltin("str")
      [] v.t = "list" -> TBuiltin("list")
      [] v.t = "dict" -> TBuiltin("dict")
      [] v.t = "vec" -> TBuiltin("vector")
      [] v.t = "bytes" -> TBuiltin("bytes")
      [] v.t = "stream" -> TBuiltin("stream")
      [] v.t = "func" -> TBuiltin("func")
      [] v.t = "type" -> TBuiltin("type")
      [] v.t = "inst" -> TStructInstance

\* IsType(T, v):  v is T.  A satisfying-type whose predicate raises on v classifies nothing
\* (the check itself raises; every user of IsType treats that as "not of the type").
IsType(T, v) ==
    CASE T.k = "struct" -> v.t = "inst" /\ v.name = T.name
      [] T.k = "sat" -> LET r == ApplyPred(T.name, v) IN r.ok /\ r.b
      [] T.k = "builtin" ->
           CASE T.name = "anything" -> TRUE
             [] T.name = "nulltype" -> v.t = "null"
             [] T.name = "int" -> v.t = "int"
             [] T.name = "rational" -> v.t = "rat"
             [] T.name = "float" -> v.t = "float"
             [] T.name = "complex" -> v.t = "complex"
             [] T.name = "number" -> IsNum(v)
             [] T.name = "str" -> v.t = "str"
             [] T.name = "list" -> v.t = "list"
             [] T.name = "dict" -> v.t = "dict"
             [] T.name = "vector" -> v.t = "vec"
             [] T.name = "bytes" -> v.t = "bytes"
             [] T.name = "stream" -> v.t = "stream"
             [] T.name = "func" -> v.t \in {"func", "type"}       \* a type is callable
             [] T.name = "type" -> v.t = "type"
             [] T.name = "struct_instance" -> v.t = "inst"

\* the kind of value each conversion function produces when it succeeds
ConvKind(name) ==
    CASE name = "int" -> {"int"}
      [] name = "rational" -> {"rat"}
      [] name = "float" -> {"float"}
      [] name = "number" -> NumKinds
      [] name = "str" -> {"str"}
      [] name = "list" -> {"list"}
      [] name = "dict" -> {"dict"}
      [] name = "vector" -> {"vec"}
      [] name = "bytes" -> {"bytes"}
      [] name = "stream" -> {"stream"}
      [] name = "type" -> {"type"}
ConvNames == {"int", "rational", "float", "number", "str", "list", "dict", "vector", "bytes", "stream", "type"}

(* ----------------- theorems, checked by TLC over a value pool ---------- *)
TypeOfIsType(pool) == \A v \in pool : IsType(TypeOf(v), v) /\ IsType(TAny, v)
\* exactly one most specific builtin type per value: TypeOf(v) is the only non-umbrella builtin type of v
Umbrella == {"anything", "number", "func", "struct_instance"}
TypeOfUnique(pool) ==
    \A v \in pool : \A n \in BuiltinTypes \ Umbrella :
        IsType(TBuiltin(n), v) <=> (TypeOf(v) = TBuiltin(n))
\* whatever a conversion function returns is of the type it is named after
ConvAgrees(pool) ==
    \A name \in ConvNames : \A v \in pool : (v.t \in ConvKind(name)) => IsType(TBuiltin(name), v)
=============================================================================
