------------------------------- MODULE Trace_Cow -------------------------------
(***************************************************************************)
(* C02 trace validation.  Events (ndjson, env TRACE) recorded from the     *)
(* real interpreter, one per executed statement of a workload:             *)
(*   [ev |-> "reset"]                                                      *)
(*   [ev |-> "stmt", s |-> [op, v, w, i], n, r, bytes, growth, times]      *)
(*        op     flat | nested | alias | set | set2 | opassign | pop       *)
(*        n, r   the real size of the collection / number of rows          *)
(*        bytes  bytes requested from the allocator while it ran           *)
(*        growth the statement may legitimately grow a buffer (amortised)  *)
(*        times  1, or m for the bulk statement `for (i <- 1 to m) <step>` *)
(*   [ev |-> "end"]       the workload is over: check the amortised budget *)
(* The specification advances the Cow heap model on the same statement and *)
(* predicts the number of copied element slots.  One-sided bounds:         *)
(*   non-growing statement:  bytes <= 4 * ElemBytes * copied + Slack       *)
(*   whole workload:         sum bytes <= sum of those bounds + one        *)
(*                           doubling of the largest buffer                *)
(***************************************************************************)
EXTENDS Cow, Json, IOUtils

Rec == ndJsonDeserialize(IOEnv.TRACE)

\* eb = bytes per element slot of the collection kind at hand (list 48, dict 128, vector 32, bytes 1):
\* logged with the event, a property of the build's data layout, not of the protocol
Slack == 4096
LoopSlack == 1536       \* interpreter overhead of one loop iteration (measured: 450-850 bytes)
Bound(c, eb) == 4 * eb * c + Slack

VARIABLES l, heap, vars, used, allowed, maxn
tvars == <<l, heap, vars, used, allowed, maxn>>

Init == l = 1 /\ heap = <<>> /\ vars = [v \in Vars |-> 0] /\ used = 0 /\ allowed = 0 /\ maxn = 0

StepRes(ev) ==
    LET s == ev.s
    IN CASE s.op = "flat" -> InitFlat(heap, vars, s.v, ev.n)
         [] s.op = "nested" -> InitNested(heap, vars, s.v, ev.n, ev.r)
         [] s.op = "nestedd" -> InitNestedDistinct(heap, vars, s.v, ev.n, ev.r)
         [] s.op = "alias" -> Alias(heap, vars, s.v, s.w)
         [] s.op = "set" -> SetIndex(heap, vars, s.v)
         [] s.op = "set2" -> SetIndex2(heap, vars, s.v, s.i)
         [] s.op = "opassign" -> OpAssign(heap, vars, s.v)
         [] s.op = "opassign2" -> OpAssign2(heap, vars, s.v, s.i)
         [] s.op = "pop" -> Pop(heap, vars, s.v)

Next == /\ l <= Len(Rec)
        /\ LET ev == Rec[l]
           IN CASE ev.ev = "reset" ->
                     heap' = <<>> /\ vars' = [v \in Vars |-> 0] /\ used' = 0 /\ allowed' = 0 /\ maxn' = 0
                [] ev.ev = "end" ->
                     /\ IF used <= allowed + 8 * ev.eb * maxn THEN TRUE
                        ELSE PrintT("MISMATCH " \o ToJson([l |-> l, id |-> ev.id,
                                     exp |-> [kind |-> "workload", allowed |-> allowed + 8 * ev.eb * maxn, used |-> used]]))
                     /\ UNCHANGED <<heap, vars, used, allowed, maxn>>
                [] ev.ev = "stmt" ->
                     LET r == StepRes(ev)
                         ismut == ev.s.op \in Forms
                         \* a bulk statement (`for (i <- 1 to times) <step>`) is the step taken `times` times: only the
                         \* first can copy (RepeatIsFree); each iteration may cost the interpreter LoopSlack bytes, and a
                         \* growing one at most the doublings up to its final size.  It is judged on its own and kept
                         \* out of the workload's amortised budget, which stays tight for the single statements.
                         bulk == ev.times > 1
                         bulkBound == Bound(r.copied, ev.eb) + ev.times * LoopSlack
                                      + (IF ev.growth THEN 8 * ev.eb * (ev.n + ev.times) ELSE 0)
                     IN /\ IF ~ismut THEN TRUE
                           ELSE IF bulk
                           THEN (IF ev.bytes <= bulkBound THEN TRUE
                                 ELSE PrintT("MISMATCH " \o ToJson([l |-> l, id |-> ev.id,
                                        exp |-> [kind |-> "bulk", copied |-> r.copied, bound |-> bulkBound, bytes |-> ev.bytes]])))
                           ELSE IF ev.growth \/ ev.bytes <= Bound(r.copied, ev.eb) THEN TRUE
                           ELSE PrintT("MISMATCH " \o ToJson([l |-> l, id |-> ev.id,
                                        exp |-> [kind |-> "statement", copied |-> r.copied, bound |-> Bound(r.copied, ev.eb), bytes |-> ev.bytes]]))
                        /\ heap' = r.heap /\ vars' = r.vars
                        /\ used' = IF ismut /\ ~bulk THEN used + ev.bytes ELSE used
                        /\ allowed' = IF ismut /\ ~bulk THEN allowed + Bound(r.copied, ev.eb) ELSE allowed
                        /\ maxn' = IF ev.n > maxn THEN ev.n ELSE maxn
        /\ l' = l + 1
Done == l = Len(Rec) + 1 => PrintT("TRACE-END " \o ToString(Len(Rec)))
=============================================================================
