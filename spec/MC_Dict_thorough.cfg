SPECIFICATION Spec
CONSTANT NKeys = 12
CONSTANT Depth = 3
CONSTANT MemoLen = 4
CONSTANT Mutation = "none"
CONSTANT ListLen = 4
INVARIANT RepInv
INVARIANT LenInv
INVARIANT LookupInv
INVARIANT ListInv
VIEW View
CHECK_DEADLOCK FALSE
