----------------------------- MODULE Trace_Dict -----------------------------
(***************************************************************************)
(* Trace validation for C09.                                               *)
(*                                                                         *)
(* The trace (ndjson, path in env TRACE) is a sequence of events recorded  *)
(* from the real interpreter.  A history starts with an "init" event that  *)
(* carries the history's key pool; every following event is one operation  *)
(* with its arguments, its outcome class / result, and - for operations on *)
(* the dictionary variable - the observation made right after it:          *)
(*   obs.d       the dictionary itself (entries, default)                  *)
(*   obs.len / obs.keys / obs.values / obs.items                           *)
(*   obs.look[i] for EVERY key of the pool the results of the read paths   *)
(*               d[k] (g), d !? k (s), k in d (m), the section _[k] (x),   *)
(*               d !! k (i); g, x, i are <<>> when the read throws         *)
(* The validator keeps ITS OWN dictionary (st.d), re-executes the logged   *)
(* operation on it with the operators of Dict.tla and compares.  Stored    *)
(* keys compare up to KeyEq, values exactly, sequences of entries as       *)
(* multisets.                                                              *)
(*                                                                         *)
(* A disagreement is printed (MISMATCH, with the failing components and    *)
(* the pool index of the key concerned) and does not block.  The keys of   *)
(* the failing components are remembered (st.bad): later disagreements     *)
(* about a key of the same class, and about whole-dictionary observations  *)
(* (len, keys, ...), are consequences of the divergence already reported   *)
(* and are not reported again; a literal assignment (ev = "lit") replaces  *)
(* both dictionaries and ends the divergence.                              *)
(***************************************************************************)
EXTENDS Dict, Json, IOUtils, SequencesExt

Rec == ndJsonDeserialize(IOEnv.TRACE)

VARIABLES l, st
vars == <<l, st>>

(* JSON gives the entries of a dictionary as a sequence of pairs *)
RECURSIVE Imp(_)
Imp(v) == CASE v.t = "list" -> [t |-> "list", xs |-> [j \in 1..Len(v.xs) |-> Imp(v.xs[j])]]
            [] v.t = "dict" -> [t |-> "dict",
                                es |-> {<<Imp(v.es[j][1]), Imp(v.es[j][2])>> : j \in 1..Len(v.es)},
                                df |-> [j \in 1..Len(v.df) |-> Imp(v.df[j])]]
            [] OTHER -> v
ImpSeq(vs) == [j \in 1..Len(vs) |-> Imp(vs[j])]
ImpPairs(ps) == [j \in 1..Len(ps) |-> <<Imp(ps[j][1]), Imp(ps[j][2])>>]
\* a dictionary operand {pairs, df} is written as a literal
Operand(b) == Literal(ImpPairs(b.pairs), ImpSeq(b.df))

(* the numbers that occur in a value *)
RECURSIVE Nums(_)
Nums(v) == CASE v.t = "num" -> <<v.n>>
             [] v.t = "vec" -> v.ns
             [] v.t = "list" -> FlattenSeq([j \in 1..Len(v.xs) |-> Nums(v.xs[j])])
             [] v.t = "dict" -> FlattenSeq([j \in 1..Len(v.es) |-> Nums(v.es[j][1]) \o Nums(v.es[j][2])])
             [] OTHER -> <<>>

Init0 == [d |-> EmptyDict, pool |-> <<>>, bad |-> {}, sync |-> TRUE,
          c1 |-> EmptyDict, c2 |-> EmptyDict, calls |-> 0, badm |-> {}]

(* ------------------------------ expectations ---------------------------- *)
Opt(res) == IF res.out = "ok" THEN <<res.r>> ELSE <<>>
BoolVal(bb) == VInt(IF bb THEN 1 ELSE 0)
Exp(ev, d) ==
    CASE ev.ev = "lit" -> Res(Operand(ev.b), "ok", VNull)
      [] ev.ev = "set" -> SetKey(d, Imp(ev.k), Imp(ev.v))
      [] ev.ev = "opassign" -> OpAssign(d, Imp(ev.k), ev.f, Imp(ev.v))
      [] ev.ev = "opassign_dflt" -> OpAssignDflt(d, Imp(ev.k), Imp(ev.v0), ev.f, Imp(ev.v))
      [] ev.ev = "remove" -> RemoveKey(d, Imp(ev.k))
      [] ev.ev = "addkey" -> Res(AddKey(d, Imp(ev.k)), "ok", VNull)
      [] ev.ev = "discard" -> Res(Discard(d, Imp(ev.k)), "ok", VNull)
      [] ev.ev = "insert" -> Res(Insert(d, Imp(ev.k), Imp(ev.v)), "ok", VNull)
      [] ev.ev = "union" -> Res(Union(d, Operand(ev.b)), "ok", VNull)
      [] ev.ev = "inter" -> Res(Inter(d, Operand(ev.b)), "ok", VNull)
      [] ev.ev = "diff" -> Res(Diff(d, Operand(ev.b)), "ok", VNull)
      [] ev.ev = "unionplus" -> UnionPlus(d, Operand(ev.b))

(* ------------------------------ comparisons ----------------------------- *)
\* a failing component: name, pool index of the key concerned (0: whole dictionary / no pool key)
PoolIdx(k) == IF \E i \in 1..Len(st.pool) : st.pool[i] = k THEN CHOOSE i \in 1..Len(st.pool) : st.pool[i] = k ELSE 0
Fail(c, ks) == <<[c |-> c, ks |-> ks]>>      \* ks: sequence of the keys concerned (<<>>: global)
Cat(seqs) == FlattenSeq(seqs)

\* entries of the observed dictionary o against the expected dictionary e, class by class
StateFails(e, o) ==
    LET es == SetToSeq(e.es)
        os == SetToSeq(o.es)
    IN Cat([j \in 1..Len(es) |->
              LET qs == {q \in o.es : KeyEq(q[1], es[j][1])}
              IN IF Cardinality(qs) = 1 /\ (CHOOSE q \in qs : TRUE)[2] = es[j][2] THEN <<>>
                 ELSE Fail(IF Cardinality(qs) > 1 THEN "state.two-entries-in-one-class"
                           ELSE IF qs = {} THEN "state.entry-missing" ELSE "state.entry-value", <<es[j][1]>>)])
       \o Cat([j \in 1..Len(os) |-> IF Has(e, os[j][1]) THEN <<>> ELSE Fail("state.entry-unexpected", <<os[j][1]>>)])
       \o (IF e.df = o.df THEN <<>> ELSE Fail("state.default", <<>>))

\* len / keys / values / items against the expected dictionary (as multisets)
WholeFails(e, obs) ==
    LET n == Cardinality(e.es)
        ks == ImpSeq(obs.keys)
        vs == ImpSeq(obs.values)
        its == ImpSeq(obs.items)
    IN (IF obs.len = n THEN <<>> ELSE Fail("len", <<>>))
       \o (IF Len(ks) = n /\ \A p \in e.es : \E j \in 1..Len(ks) : KeyEq(ks[j], p[1]) THEN <<>> ELSE Fail("keys", <<>>))
       \o (IF Len(vs) = n /\ \A j \in 1..Len(vs) :
                Cardinality({h \in 1..Len(vs) : vs[h] = vs[j]}) = Cardinality({p \in e.es : p[2] = vs[j]})
           THEN <<>> ELSE Fail("values", <<>>))
       \o (IF Len(its) = n /\ \A p \in e.es : \E j \in 1..Len(its) :
                its[j].t = "list" /\ Len(its[j].xs) = 2 /\ KeyEq(its[j].xs[1], p[1]) /\ its[j].xs[2] = p[2]
           THEN <<>> ELSE Fail("items", <<>>))

\* every read path for every pool key
LookFails(e, look) ==
    Cat([i \in 1..Len(st.pool) |->
           LET k == st.pool[i]
               o == look[i]
               g == Opt(Get(e, k))
           IN (IF ImpSeq(o.g) = g THEN <<>> ELSE Fail("lookup.get", <<k>>))
              \o (IF Imp(o.s) = Safe(e, k) THEN <<>> ELSE Fail("lookup.safe", <<k>>))
              \o (IF o.m = (IF In(k, e) THEN 1 ELSE 0) THEN <<>> ELSE Fail("lookup.in", <<k>>))
              \o (IF ImpSeq(o.x) = g THEN <<>> ELSE Fail("lookup.section", <<k>>))
              \o (IF ImpSeq(o.i) = g THEN <<>> ELSE Fail("lookup.index", <<k>>))])

IsBad(k) == \E bk \in st.bad : KeyEq(bk, k)
(* what is left of a list of failing components after removing the consequences of earlier reports: *)
(* a whole-dictionary component (no key) counts only while no class diverges; the outcome / result  *)
(* of an operation only if NONE of its keys is in a diverged class; an entry or a lookup only if    *)
(* its key is not in a diverged class                                                               *)
Fresh(fs) == SelectSeq(fs, LAMBDA f : IF f.ks = <<>> THEN st.bad = {}
                                      ELSE \A j \in 1..Len(f.ks) : ~IsBad(f.ks[j]))
KeysOf(fs) == UNION {{f.ks[j] : j \in 1..Len(f.ks)} : f \in {fs[h] : h \in 1..Len(fs)}}
\* reported per failing component and key concerned: the component's name, the pool index of the
\* key (0: none / not a pool key) and the pool indices of all keys of that key's class
ClassOf(k) == SelectSeq([i \in 1..Len(st.pool) |-> i], LAMBDA i : KeyEq(st.pool[i], k))
FailsOut(fs) == FlattenSeq([j \in 1..Len(fs) |->
                   IF fs[j].ks = <<>> THEN <<[c |-> fs[j].c, ki |-> 0, cls |-> <<>>]>>
                   ELSE [h \in 1..Len(fs[j].ks) |->
                           [c |-> fs[j].c, ki |-> PoolIdx(fs[j].ks[h]), cls |-> ClassOf(fs[j].ks[h])]]])

Report(ev, fs) == PrintT("MISMATCH " \o ToJson([l |-> l, id |-> ev.id, exp |-> [fails |-> FailsOut(fs)]]))

(* ------------------------- dictionary operations ------------------------ *)
OpKeys(ev) == IF "k" \in DOMAIN ev THEN <<Imp(ev.k)>>
              ELSE IF "b" \in DOMAIN ev THEN [j \in 1..Len(ev.b.pairs) |-> Imp(ev.b.pairs[j][1])] ELSE <<>>
DictStep(ev) ==
    LET x == Exp(ev, st.d)
        okeys == OpKeys(ev)
        o == Imp(ev.obs.d)
        f1 == IF x.out = ev.out THEN <<>> ELSE Fail("outcome", okeys)
        f2 == IF x.out = "ok" /\ ev.out = "ok" /\ ev.ev = "remove" /\ Imp(ev.r) # x.r THEN Fail("result", okeys) ELSE <<>>
        f3 == IF o.t # "dict" THEN Fail("state.not-a-dict", <<>>) ELSE StateFails(x.d, o)
        f4 == IF f3 = <<>> THEN WholeFails(x.d, ev.obs) ELSE <<>>
        f5 == LookFails(x.d, ev.obs.look)
        \* when the outcome differs the entries / lookups of all keys of the operation differ as a
        \* consequence: only the outcome is reported, every key involved counts as diverged
        fs == IF f1 # <<>> THEN Fresh(f1) ELSE Fresh(f2 \o f3 \o f4 \o f5)
    IN IF x.out = "unspec" THEN st' = [st EXCEPT !.sync = FALSE]
       ELSE /\ IF fs = <<>> THEN TRUE ELSE Report(ev, fs)
            /\ st' = [st EXCEPT !.d = x.d,
                                !.bad = st.bad \cup KeysOf(f1 \o f2 \o f3 \o f5)]
\* a literal assignment re-synchronises (also after an operation the specification leaves open)
LitStep(ev) ==
    LET x == Exp(ev, st.d)
        o == Imp(ev.obs.d)
        f1 == IF ev.out = "ok" THEN <<>> ELSE Fail("outcome", <<>>)
        f3 == IF o.t # "dict" THEN Fail("state.not-a-dict", <<>>) ELSE StateFails(x.d, o)
        f4 == IF f3 = <<>> THEN WholeFails(x.d, ev.obs) ELSE <<>>
        f5 == LookFails(x.d, ev.obs.look)
        fs == f1 \o f3 \o f4 \o f5
    IN /\ IF fs = <<>> THEN TRUE ELSE Report(ev, fs)
       /\ st' = [st EXCEPT !.d = x.d, !.bad = KeysOf(fs), !.sync = TRUE]

(* pure expressions on the dictionary *)
EqStep(ev) ==
    LET want == IF ev.ev = "eq_roundtrip" THEN DictEq(st.d, st.d) ELSE DictEq(st.d, Operand(ev.b))
        fs == Fresh(IF ev.out = "ok" /\ Imp(ev.r) = BoolVal(want) THEN <<>> ELSE Fail("eq", <<>>))
    IN /\ IF fs = <<>> THEN TRUE ELSE Report(ev, fs)
       /\ UNCHANGED st
ConvStep(ev) ==
    LET want == IF ev.ev = "setd" THEN SetOfDict(st.d) ELSE [st.d EXCEPT !.df = <<>>]
        fs == Fresh(IF ev.out = "ok" /\ SameDict(want, Imp(ev.r)) THEN <<>> ELSE Fail(ev.ev, <<>>))
    IN /\ IF fs = <<>> THEN TRUE ELSE Report(ev, fs)
       /\ UNCHANGED st

(* ------------------------ functions of a list of keys ------------------- *)
KeyFn(name, x) == CASE name = "id" -> x [] name = "lst" -> VList(<<x>>) [] name = "const" -> VInt(0)
SameGroups(want, got) ==
    /\ got.t = "list" /\ Len(got.xs) = Len(want)
    /\ \A g \in 1..Len(want) : \E h \in 1..Len(got.xs) : got.xs[h] = VList(want[g])
ListOk(ev) ==
    LET xs == ImpSeq(ev.xs)
        r == Imp(ev.r)
    IN CASE ev.ev = "set" -> ev.out = "ok" /\ SameDict(SetOf(xs), r)
         [] ev.ev = "dict" -> LET w == DictOf(xs) IN IF w.out = "ok" THEN ev.out = "ok" /\ SameDict(w.r, r) ELSE ev.out = "throw"
         [] ev.ev = "unique" -> ev.out = "ok" /\ r = VList(UniqueVals(xs))
         [] ev.ev = "frequencies" -> ev.out = "ok" /\ SameDict(Frequencies(xs), r)
         [] ev.ev = "count_distinct" -> ev.out = "ok" /\ r = VInt(CountDistinct(xs))
         [] ev.ev = "group_all" -> ev.out = "ok" /\ SameGroups(GroupAll(xs, LAMBDA x : KeyFn(ev.fn, x)), r)
ListStep(ev) ==
    /\ IF ListOk(ev) THEN TRUE ELSE Report(ev, Fail("fn." \o ev.ev, <<>>))
    /\ UNCHANGED st

(* -------------------------------- memoize ------------------------------- *)
(* mf (one argument) and mg (two arguments) are memoized functions that     *)
(* share the run counter cnt and return [arguments..., cnt]                 *)
Body(args, n) == VList(args \o <<VInt(n)>>)
MemoStep(ev) ==
    LET args == ImpSeq(ev.args)
        cache == IF ev.fn = "mf" THEN st.c1 ELSE st.c2
        c == MemoCall([cache |-> cache, calls |-> st.calls], args, Body)
        key == VList(args)
        ok == ev.out = "ok" /\ Imp(ev.r) = c.r /\ ev.calls = c.m.calls
        tainted == \E bk \in st.badm : KeyEq(bk, key)
    IN /\ IF ok \/ tainted THEN TRUE ELSE Report(ev, Fail("memoize", args))
       \* after a disagreement follow the implementation's counter, so that one defect is one report
       /\ st' = [st EXCEPT !.c1 = IF ev.fn = "mf" THEN c.m.cache ELSE st.c1,
                           !.c2 = IF ev.fn = "mg" THEN c.m.cache ELSE st.c2,
                           !.calls = IF ok THEN c.m.calls ELSE ev.calls,
                           !.badm = IF ok THEN st.badm ELSE st.badm \cup {key}]

InitStep(ev) ==
    LET pool == ImpSeq(ev.pool)
        ns == FlattenSeq([j \in 1..Len(pool) |-> Nums(ev.pool[j])])
    IN /\ IF NumEqAgrees(ns) THEN TRUE ELSE Report(ev, Fail("spec.numeq", <<>>))
       /\ st' = [Init0 EXCEPT !.pool = pool]

Step(ev) ==
    CASE ev.ev = "init" -> InitStep(ev)
      [] ev.ev = "lit" /\ ev.on = "dd" -> LitStep(ev)
      [] ev.ev \in {"eq", "eq_roundtrip", "setd", "dict_items"} -> IF st.sync THEN (IF ev.ev \in {"eq", "eq_roundtrip"} THEN EqStep(ev) ELSE ConvStep(ev)) ELSE UNCHANGED st
      [] ev.ev \in {"set", "dict", "unique", "frequencies", "count_distinct", "group_all"} /\ ev.on = "xs" -> ListStep(ev)
      [] ev.ev = "memo" -> MemoStep(ev)
      [] OTHER -> IF st.sync THEN DictStep(ev) ELSE UNCHANGED st

Init == l = 1 /\ st = Init0
Next == /\ l <= Len(Rec)
        /\ Step(Rec[l])
        /\ l' = l + 1
Done == l = Len(Rec) + 1 => PrintT("TRACE-END " \o ToString(Len(Rec)))
=============================================================================
