SPECIFICATION Spec
CONSTANT MaxN = 4
CONSTANT AllOps = TRUE
CONSTANT NFam = 2
CONSTANT Pats = {"all", "first", "odd"}
CONSTANT PrintAll = FALSE
INVARIANT TreeAgrees
INVARIANT DeclAgrees
INVARIANT OperandsInOrder
INVARIANT LogOnceLeftToRight
INVARIANT FastPathAgrees
INVARIANT MergeIffTighterAndChains
CHECK_DEADLOCK FALSE
