SPECIFICATION Spec
CONSTANT Mode = "order"
CONSTANT Triples = FALSE
INVARIANT ArithLaws
INVARIANT OrderLaws
CHECK_DEADLOCK FALSE
