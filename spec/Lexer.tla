------------------------------- MODULE Lexer -------------------------------
(***************************************************************************)
(* C15 - noulith's lexer as a deterministic automaton over CHARACTER       *)
(* CLASSES, and the exact denotation of every literal.                     *)
(*                                                                         *)
(* Input is a sequence of Unicode code points.  Class(c) maps a code point *)
(* to its class; every transition of the automaton is selected by the      *)
(* current mode and the class of the next character only (a few guards     *)
(* also read the digit value of the character against the radix in force). *)
(* The automaton is ONLINE: Feed(st, c) consumes exactly one character,    *)
(* Finish(st) handles end of input.  One character of look-ahead of the    *)
(* implementation (peek) appears here as a re-dispatch of the same         *)
(* character in the mode reached after emitting a token; the number of     *)
(* re-dispatches per character is recorded in st.eps and bounded.          *)
(*                                                                         *)
(*   st.mode   automaton mode ("start", "int", "str", ...)                 *)
(*   st.s/t/u  accumulators (identifier / string code points; integer,     *)
(*             fraction and exponent digits of a number)                   *)
(*   st.n      small number: radix, first hex digit, \u accumulator,       *)
(*             comment nesting depth, "first letter is ASCII upper" flag   *)
(*   st.q      closing quote, st.kind  S|B|F (string, bytes, format),      *)
(*   st.cl     closing bracket expected by a \u escape (0: none)           *)
(*   st.toks   tokens emitted so far                                       *)
(*                                                                         *)
(* Tokens are records [k |-> kind, payload...]:                            *)
(*   IntLit v (natural, BigNum limbs)   RatLit n d    FloatLit f  (Flt of  *)
(*   NumTower)   ImaginaryFloatLit f    StringLit s (code points)          *)
(*   BytesLit b (bytes)   FormatString s   Ident s   Comment s   Invalid   *)
(*   and one kind per punctuation mark / keyword.                          *)
(*                                                                         *)
(* Literal denotations: digits are evaluated by Horner's rule on BigNum    *)
(* naturals in the radix the literal spells; a float literal denotes the   *)
(* correctly rounded double (nearest, ties to even) of the exact decimal   *)
(* rational its digits spell; escapes denote the code point they spell.    *)
(* Errors never stop the lexer: they become Invalid tokens.                *)
(***************************************************************************)
EXTENDS BigNum, Sequences, TLC

(* ------------------------------ classes -------------------------------- *)
InRange(c, lo, hi) == c >= lo /\ c <= hi

\* non-ASCII code points whose Unicode classification the specification transcribes;
\* anything else outside ASCII is class "unk" (the specification then predicts nothing
\* about the token list, only the protocol)
XAlpha(c) == \/ c \in {170, 181, 186} \/ InRange(c, 192, 214) \/ InRange(c, 216, 246)
             \/ InRange(c, 248, 591) \/ InRange(c, 913, 929) \/ InRange(c, 931, 969)
             \/ InRange(c, 1040, 1103) \/ InRange(c, 12353, 12438) \/ InRange(c, 19968, 40869)
XNum(c) == c \in {178, 179, 185, 188, 189, 190} \/ InRange(c, 1632, 1641)
XSpace(c) == c \in {9, 11, 12, 13, 133, 160, 5760, 8232, 8233, 8239, 8287, 12288} \/ InRange(c, 8192, 8202)
XOp(c) == c \in {215, 8712, 8713, 8715, 8716, 8728, 8800, 8804, 8805, 8853, 10746}
XInvalid(c) == \/ InRange(c, 0, 8) \/ InRange(c, 14, 31) \/ c = 127 \/ InRange(c, 128, 132)
               \/ InRange(c, 134, 159) \/ InRange(c, 161, 169) \/ c \in {171, 172, 174, 175, 176, 177}
               \/ c \in {180, 182, 183, 184, 187, 191, 247} \/ InRange(c, 8364, 8364)
               \/ InRange(c, 8592, 8703) \/ InRange(c, 128512, 128591)

Class(c) ==
    CASE c = 48 -> "d0" [] c = 49 -> "d1" [] InRange(c, 50, 55) -> "d27" [] InRange(c, 56, 57) -> "d89"
      [] c \in {97, 99, 100} -> "la" [] c = 98 -> "lb" [] c = 101 -> "le" [] c = 102 -> "lf"
      [] c \in {105, 106} -> "lij" [] c = 111 -> "lo" [] c = 113 -> "lq" [] c = 114 -> "lr"
      [] c = 120 -> "lx" [] c = 110 -> "ln" [] c = 116 -> "lt" [] c = 117 -> "lu"
      [] c \in {103, 104, 107, 108, 109, 112, 115, 118, 119, 121, 122} -> "lz"
      [] c \in {65, 67, 68} -> "uA" [] c = 66 -> "uB" [] c = 69 -> "uE" [] c = 70 -> "uF"
      [] c \in {73, 74} -> "uIJ" [] c = 79 -> "uO" [] c = 81 -> "uQ" [] c = 82 -> "uR" [] c = 88 -> "uX"
      [] c \in {71, 72, 75, 76, 77, 78, 80, 83, 84, 85, 86, 87, 89, 90} -> "uZ"
      [] c = 95 -> "us" [] c = 39 -> "sq" [] c = 34 -> "dq" [] c = 92 -> "bsl" [] c = 35 -> "hash"
      [] c = 40 -> "lpar" [] c = 41 -> "rpar" [] c = 91 -> "lbrk" [] c = 93 -> "rbrk"
      [] c = 123 -> "lbrc" [] c = 125 -> "rbrc" [] c = 96 -> "btick" [] c = 44 -> "comma"
      [] c = 59 -> "semi" [] c = 58 -> "colon" [] c = 32 -> "sp" [] c = 10 -> "nl"
      [] c = 46 -> "dot" [] c = 45 -> "minus" [] c = 61 -> "eq" [] c = 33 -> "bang" [] c = 63 -> "qm"
      [] c = 60 -> "less" [] c = 62 -> "greater" [] c = 43 -> "plus" [] c = 47 -> "slash"
      [] c \in {36, 37, 38, 42, 64, 94, 124, 126} -> "op"
      [] c = 8743 -> "uand" [] c = 8744 -> "uor" [] c = 128009 -> "dragon"
      [] XOp(c) -> "uop" [] XSpace(c) -> "ws" [] XAlpha(c) -> "xalpha" [] XNum(c) -> "xnum"
      [] XInvalid(c) -> "inv"
      [] OTHER -> "unk"

DigitCls == {"d0", "d1", "d27", "d89"}
LowerCls == {"la", "lb", "le", "lf", "lij", "lo", "lq", "lr", "lx", "ln", "lt", "lu", "lz"}
UpperCls == {"uA", "uB", "uE", "uF", "uIJ", "uO", "uQ", "uR", "uX", "uZ"}
AlphaCls == LowerCls \cup UpperCls \cup {"xalpha"}
IdentStartCls == AlphaCls \cup {"us", "dragon"}
IdentContCls == AlphaCls \cup DigitCls \cup {"xnum", "us", "sq", "qm"}
OpCls == {"dot", "minus", "eq", "bang", "qm", "less", "greater", "plus", "slash", "op", "uand", "uor", "uop"}
SkipCls == {"sp", "nl", "ws"}
AllCls == DigitCls \cup IdentStartCls \cup IdentContCls \cup OpCls \cup SkipCls
          \cup {"dq", "bsl", "hash", "lpar", "rpar", "lbrk", "rbrk", "lbrc", "rbrc", "btick", "comma",
                "semi", "colon", "inv"}

IsDigit(c) == Class(c) \in DigitCls
\* value of c as a digit in radix <= 36 (0-9, a-z, A-Z), 99 when it is none
DigitVal(c) == IF InRange(c, 48, 57) THEN c - 48
               ELSE IF InRange(c, 97, 122) THEN c - 87
               ELSE IF InRange(c, 65, 90) THEN c - 55 ELSE 99
\* value of c in the 64r alphabet  A-Z a-z 0-9 (+|-) (/|_)
B64Val(c) == IF InRange(c, 65, 90) THEN c - 65
             ELSE IF InRange(c, 97, 122) THEN c - 71
             ELSE IF InRange(c, 48, 57) THEN c + 4
             ELSE IF c \in {43, 45} THEN 62
             ELSE IF c \in {47, 95} THEN 63 ELSE 99

(* ------------------------------ decoding ------------------------------- *)
\* Long digit strings.  Radix 2^k: the digits are regrouped bit by bit into limbs (no arithmetic);
\* other radices: Horner by halves (the plain rule is quadratic in TLC's sequences).
Log2Of(base) == CASE base = 2 -> 1 [] base = 4 -> 2 [] base = 8 -> 3 [] base = 16 -> 4
                  [] base = 32 -> 5 [] base = 64 -> 6 [] OTHER -> 0
Pow2ToNat(ds, bits) ==
    LET n == Len(ds)
        T == n * bits
        Bit(p) == IF p >= T THEN 0 ELSE (ds[n - (p \div bits)] \div Pow2Small(p % bits)) % 2
        L == (T + BBits - 1) \div BBits
    IN NatNorm([j \in 1..L |->
                  LET o == BBits * (j - 1)
                  IN Bit(o) + 2 * Bit(o + 1) + 4 * Bit(o + 2) + 8 * Bit(o + 3) + 16 * Bit(o + 4) + 32 * Bit(o + 5)
                     + 64 * Bit(o + 6) + 128 * Bit(o + 7) + 256 * Bit(o + 8) + 512 * Bit(o + 9)])
RECURSIVE DigitsToNat(_, _)
DigitsToNat(ds, base) ==
    IF Len(ds) <= 24 THEN NatFromDigits(ds, base)
    ELSE IF Log2Of(base) > 0 THEN Pow2ToNat(ds, Log2Of(base))
    ELSE LET h == Len(ds) \div 2
             hi == DigitsToNat(SubSeq(ds, 1, Len(ds) - h), base)
             lo == DigitsToNat(SubSeq(ds, Len(ds) - h + 1, Len(ds)), base)
         IN NatAdd(NatMul(hi, NatPow(<<base>>, h)), lo)

DecVals(s) == [j \in 1..Len(s) |-> s[j] - 48]
RECURSIVE FirstNonZero(_, _)
FirstNonZero(ds, j) == IF j > Len(ds) THEN j ELSE IF ds[j] # 0 THEN j ELSE FirstNonZero(ds, j + 1)
StripZeros(ds) == SubSeq(ds, FirstNonZero(ds, 1), Len(ds))
RECURSIVE SmallDec(_, _, _)
SmallDec(ds, j, acc) == IF j > Len(ds) \/ acc < 0 THEN acc ELSE SmallDec(ds, j + 1, acc * 10 + ds[j])

LitZero == [c |-> "zero", sg |-> 0, m |-> <<>>, e |-> 0]
LitInf == [c |-> "inf", sg |-> 0, m |-> <<>>, e |-> 0]
\* n * 2^e with the factors of two moved into the exponent (n > 0; whole zero limbs first)
RECURSIVE OddPart(_, _)
OddPart(n, e) == IF n[1] = 0 THEN OddPart(Tail(n), e + BBits)
                 ELSE IF NatIsOdd(n) THEN [c |-> "fin", sg |-> 0, m |-> n, e |-> e]
                 ELSE OddPart(NatShr(n, 1), e + 1)

\* BigNum!NatDivMod for operands of similar length: the top Len(b) - 1 limbs of a are below b, so
\* the long division can start there (the quotient digits above are zero)
ShortDivMod(a, b) ==
    IF NatCmp(a, b) < 0 THEN <<(<<>>), a>>
    ELSE IF Len(b) = 1 THEN NatDivMod(a, b)
    ELSE LET k == Len(b) - 1
         IN NatDivModR(a, b, Len(a) - k, NatNorm(SubSeq(a, Len(a) - k + 1, Len(a))), <<>>)

\* n (the integer part of the scaled value, then rounded) times 2^ue as a double
Pack(n, ue) == IF n = <<>> THEN LitZero
               ELSE IF NatBitLen(n) + ue > 1024 THEN LitInf
               ELSE OddPart(n, ue)
RoundUp(q, more, half) == IF more \/ (half /\ NatIsOdd(q)) THEN NatAdd(q, <<1>>) ELSE q
\* bit k (0-based) of a natural
NatBit(a, k) == (Limb(a, k \div BBits + 1) \div Pow2Small(k % BBits)) % 2 = 1

\* the double nearest to N / D (naturals, both > 0), ties to even
RoundNatRatio(N, D) ==
    LET e0 == NatBitLen(N) - NatBitLen(D)
        ge == IF e0 >= 0 THEN NatCmp(N, NatShl(D, e0)) >= 0 ELSE NatCmp(NatShl(N, -e0), D) >= 0
        E == IF ge THEN e0 ELSE e0 - 1                  \* 2^E <= N/D < 2^(E+1)
        ue == IF E - 52 < -1074 THEN -1074 ELSE E - 52  \* exponent of the unit in the last place
    IN IF D = <<1>> /\ ue > 0
       THEN \* an integer: shift, the bit below the unit decides with the bits below it as tie-breaker
            LET hb == NatBit(N, ue - 1)
                sticky == NatLowBitsNonZero(N, ue - 1)
            IN Pack(RoundUp(NatShr(N, ue), hb /\ sticky, hb /\ ~sticky), ue)
       ELSE LET num == IF ue >= 0 THEN N ELSE NatShl(N, -ue)
                den == IF ue >= 0 THEN NatShl(D, ue) ELSE D
                qr == ShortDivMod(num, den)
                c2 == NatCmp(NatMulSmall(qr[2], 2), den)
            IN Pack(RoundUp(qr[1], c2 > 0, c2 = 0), ue)

\* the exact rational a decimal literal spells:  digits(is ++ fs) * 10^(+-es - Len(fs))
\* (far out of range literals are classified by magnitude bounds instead of being evaluated;
\*  assumes literals shorter than 900000 characters)
FloatOf(is, fs, neg, es) ==
    LET ds == StripZeros(DecVals(is) \o DecVals(fs))
        k == Len(ds)
        ev == StripZeros(DecVals(es))
    IN IF k = 0 THEN LitZero
       ELSE IF Len(ev) > 6 THEN (IF neg THEN LitZero ELSE LitInf)
       ELSE LET ex == SmallDec(ev, 1, 0)
                E == (IF neg THEN -ex ELSE ex) - Len(fs)
            IN IF k + E > 310 THEN LitInf
               ELSE IF k + E < -330 THEN LitZero
               ELSE LET D == DigitsToNat(ds, 10)
                    IN IF E >= 0 THEN RoundNatRatio(NatMul(D, NatPow(<<10>>, E)), <<1>>)
                       ELSE RoundNatRatio(D, NatPow(<<10>>, -E))
\* the same rational, for cross-checking RoundNatRatio against NumTower!CorrectlyRounded (MC_Lexer)
FloatExact(is, fs, neg, es) ==
    LET D == DigitsToNat(DecVals(is) \o DecVals(fs), 10)
        E == (IF neg THEN -1 ELSE 1) * SmallDec(DecVals(es), 1, 0) - Len(fs)
    IN IF E >= 0 THEN RatFromInt(IntMk(1, NatMul(D, NatPow(<<10>>, E)))) ELSE RatMk(IntMk(1, D), NatPow(<<10>>, -E))

\* a \u / \x escape denotes a Unicode scalar value
ValidScalar(x) == x <= 1114111 /\ ~InRange(x, 55296, 57343)
SatScalar(x) == IF x > 1114111 THEN 1114112 ELSE x

Utf8(c) == IF c < 128 THEN <<c>>
           ELSE IF c < 2048 THEN <<192 + (c \div 64), 128 + (c % 64)>>
           ELSE IF c < 65536 THEN <<224 + (c \div 4096), 128 + ((c \div 64) % 64), 128 + (c % 64)>>
           ELSE <<240 + (c \div 262144), 128 + ((c \div 4096) % 64), 128 + ((c \div 64) % 64), 128 + (c % 64)>>
RECURSIVE Utf8AllR(_, _, _)
Utf8AllR(s, j, acc) == IF j > Len(s) \/ Len(acc) < 0 THEN acc ELSE Utf8AllR(s, j + 1, acc \o Utf8(s[j]))
Utf8All(s) == Utf8AllR(s, 1, <<>>)

(* ------------------------------- tokens -------------------------------- *)
Tk(k) == [k |-> k]
TkInt(v) == [k |-> "IntLit", v |-> v]
TkRat(v) == [k |-> "RatLit", n |-> v, d |-> <<1>>]
TkFloat(f) == [k |-> "FloatLit", f |-> f]
TkImag(f) == [k |-> "ImaginaryFloatLit", f |-> f]
TkIdent(s) == [k |-> "Ident", s |-> s]
TkComment(s) == [k |-> "Comment", s |-> s]
TkInvalid == [k |-> "Invalid"]
TkStr(kind, s) == CASE kind = "S" -> [k |-> "StringLit", s |-> s]
                    [] kind = "B" -> [k |-> "BytesLit", b |-> Utf8All(s)]
                    [] kind = "F" -> [k |-> "FormatString", s |-> s]

InternalPrefix == <<95, 95, 105, 110, 116, 101, 114, 110, 97, 108, 95>>
Keywords == <<
    <<<<105, 102>>, "If">>,
    <<<<101, 108, 115, 101>>, "Else">>,
    <<<<119, 104, 105, 108, 101>>, "While">>,
    <<<<102, 111, 114>>, "For">>,
    <<<<121, 105, 101, 108, 100>>, "Yield">>,
    <<<<105, 110, 116, 111>>, "Into">>,
    <<<<115, 119, 105, 116, 99, 104>>, "Switch">>,
    <<<<99, 97, 115, 101>>, "Case">>,
    <<<<110, 117, 108, 108>>, "Null">>,
    <<<<97, 110, 100>>, "And">>,
    <<<<111, 114>>, "Or">>,
    <<<<99, 111, 97, 108, 101, 115, 99, 101>>, "Coalesce">>,
    <<<<98, 114, 101, 97, 107>>, "Break">>,
    <<<<116, 114, 121>>, "Try">>,
    <<<<99, 97, 116, 99, 104>>, "Catch">>,
    <<<<116, 104, 114, 111, 119>>, "Throw">>,
    <<<<99, 111, 110, 116, 105, 110, 117, 101>>, "Continue">>,
    <<<<114, 101, 116, 117, 114, 110>>, "Return">>,
    <<<<99, 111, 110, 115, 117, 109, 101>>, "Consume">>,
    <<<<112, 111, 112>>, "Pop">>,
    <<<<114, 101, 109, 111, 118, 101>>, "Remove">>,
    <<<<115, 119, 97, 112>>, "Swap">>,
    <<<<101, 118, 101, 114, 121>>, "Every">>,
    <<<<115, 116, 114, 117, 99, 116>>, "Struct">>,
    <<<<102, 114, 101, 101, 122, 101>>, "Freeze">>,
    <<<<105, 109, 112, 111, 114, 116>>, "Import">>,
    <<<<108, 105, 116, 101, 114, 97, 108, 108, 121>>, "Literally">>,
    <<<<95>>, "Underscore">>,
    <<InternalPrefix \o <<102, 114, 97, 109, 101>>, "InternalFrame">>,
    <<InternalPrefix \o <<112, 117, 115, 104>>, "InternalPush">>,
    <<InternalPrefix \o <<112, 111, 112>>, "InternalPop">>,
    <<InternalPrefix \o <<112, 101, 101, 107>>, "InternalPeek">>,
    <<InternalPrefix \o <<48>>, "InternalPeekN">>,
    <<InternalPrefix \o <<49>>, "InternalPeekN">>,
    <<InternalPrefix \o <<50>>, "InternalPeekN">>,
    <<InternalPrefix \o <<51>>, "InternalPeekN">>,
    <<InternalPrefix \o <<52>>, "InternalPeekN">>,
    <<InternalPrefix \o <<53>>, "InternalPeekN">>,
    <<InternalPrefix \o <<54>>, "InternalPeekN">>,
    <<InternalPrefix \o <<55>>, "InternalPeekN">>,
    <<InternalPrefix \o <<56>>, "InternalPeekN">>,
    <<InternalPrefix \o <<57>>, "InternalPeekN">>,
    <<InternalPrefix \o <<119, 104, 105, 108, 101>>, "InternalWhile">>,
    <<InternalPrefix \o <<102, 111, 114>>, "InternalFor">>,
    <<InternalPrefix \o <<99, 97, 108, 108>>, "InternalCall">>,
    <<InternalPrefix \o <<108, 97, 109, 98, 100, 97>>, "InternalLambda">> >>
RECURSIVE KwLookup(_, _)
KwLookup(s, j) == IF j > Len(Keywords) THEN TkIdent(s)
                  ELSE IF Keywords[j][1] = s THEN Tk(Keywords[j][2]) ELSE KwLookup(s, j + 1)
WordToken(s) == IF Len(s) > 17 THEN TkIdent(s) ELSE KwLookup(s, 1)

PunctKinds == {"LeftParen", "RightParen", "LeftBracket", "BLeftBracket", "RightBracket", "LeftBrace",
               "RightBrace", "Backtick", "Bang", "QuestionMark", "Colon", "LeftArrow", "RightArrow",
               "DoubleLeftArrow", "DoubleColon", "Semicolon", "Ellipsis", "Lambda", "LambdaEnd", "Comma",
               "Assign", "And", "Or"}
KeywordKinds == {Keywords[j][2] : j \in 1..Len(Keywords)}
LiteralKinds == {"IntLit", "RatLit", "FloatLit", "ImaginaryFloatLit", "StringLit", "BytesLit", "FormatString"}
Kinds == PunctKinds \cup KeywordKinds \cup LiteralKinds \cup {"Ident", "Comment", "Invalid"}

(* ------------------------------ automaton ------------------------------ *)
Modes == {"start", "bs", "colon", "hash", "lcomment", "rcomment", "str", "strerr", "esc", "hex1", "hex2",
          "u0", "udig", "raw", "F0", "R0", "B0", "ident", "int", "frac", "exp0", "exp", "radix", "r64",
          "op", "end", "unk"}

St0 == [mode |-> "start", s |-> <<>>, t |-> <<>>, u |-> <<>>, n |-> 0, q |-> 0, kind |-> "",
        cl |-> 0, neg |-> FALSE, toks |-> <<>>, eps |-> 0]

Emit(st, tok) == [st EXCEPT !.toks = Append(@, tok)]
Reset(st) == [st EXCEPT !.mode = "start", !.s = <<>>, !.t = <<>>, !.u = <<>>, !.n = 0, !.q = 0,
                        !.kind = "", !.cl = 0, !.neg = FALSE]
EmitR(st, tok) == Reset(Emit(st, tok))
Go(st, m) == [st EXCEPT !.mode = m]
Push(st, c) == [st EXCEPT !.s = Append(@, c)]
Undefined(st) == Go(st, "undefined")
Unknown(st) == Go(st, "unk")

IntToken(st) == TkInt(DigitsToNat(DecVals(st.s), 10))
FloatValue(st) == FloatOf(st.s, st.t, st.neg, st.u)
\* the accumulated text  digits [. digits] [e [-] digits]  is a float unless the exponent has no digit
FloatToken(st) == IF st.mode \in {"exp0", "exp"} /\ st.u = <<>> THEN TkInvalid ELSE TkFloat(FloatValue(st))

OpToken(s) == CASE s = <<33>> -> Tk("Bang")
                [] s = <<46, 46, 46>> -> Tk("Ellipsis")
                [] s = <<60, 45>> -> Tk("LeftArrow")
                [] s = <<45, 62>> -> Tk("RightArrow")
                [] s = <<60, 60, 45>> -> Tk("DoubleLeftArrow")
                [] OTHER -> TkIdent(s)
\* a maximal run of operator symbols; a trailing `=` is split off except in == != <= >=
EmitOp(st) ==
    LET L == Len(st.s)
        acc == SubSeq(st.s, 1, L - 1)
    IN IF st.s[L] = 61
       THEN IF acc \in {<<33>>, <<60>>, <<62>>, <<61>>} THEN EmitR(st, TkIdent(st.s))
            ELSE IF acc = <<>> THEN EmitR(st, Tk("Assign"))
            ELSE EmitR(Emit(st, TkIdent(acc)), Tk("Assign"))
       ELSE EmitR(st, OpToken(st.s))

\* the identifier is complete: B / F / R may introduce a literal, anything else is a word
EndIdent(st) ==
    CASE st.s = <<66>> -> Go(st, "B0")
      [] st.s = <<70>> -> Go(st, "F0")
      [] st.s = <<82>> -> Go(st, "R0")
      [] OTHER -> EmitR(st, WordToken(st.s))

StrToken(st) == TkStr(st.kind, st.s)
\* an error inside a string: Invalid is emitted, one more character is swallowed, the literal ends
StrErr(st) == Go(Emit(st, TkInvalid), "strerr")
\* end of a \u escape
UFinal(st) == IF ValidScalar(st.n) THEN [Push(st, st.n) EXCEPT !.mode = "str", !.n = 0, !.cl = 0]
              ELSE StrErr(st)

StartOn(st, c) ==
    LET cls == Class(c)
    IN CASE cls = "lpar" -> EmitR(st, Tk("LeftParen"))
         [] cls = "rpar" -> EmitR(st, Tk("RightParen"))
         [] cls = "lbrk" -> EmitR(st, Tk("LeftBracket"))
         [] cls = "rbrk" -> EmitR(st, Tk("RightBracket"))
         [] cls = "lbrc" -> EmitR(st, Tk("LeftBrace"))
         [] cls = "rbrc" -> EmitR(st, Tk("RightBrace"))
         [] cls = "btick" -> EmitR(st, Tk("Backtick"))
         [] cls = "bsl" -> Go(st, "bs")
         [] cls = "comma" -> EmitR(st, Tk("Comma"))
         [] cls = "semi" -> EmitR(st, Tk("Semicolon"))
         [] cls = "colon" -> Go(st, "colon")
         [] cls \in SkipCls -> st
         [] cls = "hash" -> Go(st, "hash")
         [] cls \in {"sq", "dq"} -> [st EXCEPT !.mode = "str", !.kind = "S", !.q = c]
         [] cls = "uand" -> EmitR(st, Tk("And"))
         [] cls = "uor" -> EmitR(st, Tk("Or"))
         [] cls = "qm" -> EmitR(st, Tk("QuestionMark"))
         [] cls \in DigitCls -> [st EXCEPT !.mode = "int", !.s = <<c>>]
         [] cls = "dragon" -> [st EXCEPT !.mode = "ident", !.s = InternalPrefix, !.n = 0]
         [] cls \in IdentStartCls -> [st EXCEPT !.mode = "ident", !.s = <<c>>,
                                                !.n = IF cls \in UpperCls THEN 1 ELSE 0]
         [] cls \in OpCls -> [st EXCEPT !.mode = "op", !.s = <<c>>]
         [] cls \in {"inv", "xnum"} -> EmitR(st, TkInvalid)
         [] cls = "unk" -> Unknown(st)
         [] OTHER -> Undefined(st)

RECURSIVE Feed(_, _)
Redo(st, c) == Feed([st EXCEPT !.eps = @ + 1], c)
Feed(st, c) ==
    LET m == st.mode
        cls == Class(c)
    IN CASE m = "start" -> StartOn(st, c)
         [] m = "bs" -> IF c = 92 THEN EmitR(st, Tk("LambdaEnd")) ELSE Redo(EmitR(st, Tk("Lambda")), c)
         [] m = "colon" -> IF c = 58 THEN EmitR(st, Tk("DoubleColon")) ELSE Redo(EmitR(st, Tk("Colon")), c)
         [] m = "hash" -> IF c = 10 THEN EmitR(st, TkComment(<<>>))
                          ELSE IF c = 40 THEN [st EXCEPT !.mode = "rcomment", !.n = 1]
                          ELSE [st EXCEPT !.mode = "lcomment", !.s = <<c>>]
         [] m = "lcomment" -> IF c = 10 THEN EmitR(st, TkComment(st.s)) ELSE Push(st, c)
         [] m = "rcomment" -> IF c = 40 THEN [Push(st, c) EXCEPT !.n = @ + 1]
                              ELSE IF c = 41 THEN (IF st.n = 1 THEN EmitR(st, TkComment(st.s))
                                                   ELSE [Push(st, c) EXCEPT !.n = @ - 1])
                              ELSE Push(st, c)
         [] m = "str" -> IF c = st.q THEN EmitR(st, StrToken(st))
                         ELSE IF c = 92 THEN Go(st, "esc")
                         ELSE Push(st, c)
         [] m = "strerr" -> EmitR(st, StrToken(st))
         [] m = "esc" -> CASE c = 110 -> Go(Push(st, 10), "str")
                           [] c = 114 -> Go(Push(st, 13), "str")
                           [] c = 116 -> Go(Push(st, 9), "str")
                           [] c = 48 -> Go(Push(st, 0), "str")
                           [] c \in {92, 39, 34} -> Go(Push(st, c), "str")
                           [] c = 120 -> Go(st, "hex1")
                           [] c = 117 -> [st EXCEPT !.mode = "u0", !.n = 0, !.cl = 0]
                           [] OTHER -> StrErr(st)
         [] m = "hex1" -> IF DigitVal(c) < 16 THEN [st EXCEPT !.mode = "hex2", !.n = DigitVal(c)] ELSE StrErr(st)
         [] m = "hex2" -> IF DigitVal(c) < 16 THEN [Push(st, st.n * 16 + DigitVal(c)) EXCEPT !.mode = "str", !.n = 0]
                          ELSE StrErr(st)
         [] m = "u0" -> CASE c = 123 -> [st EXCEPT !.mode = "udig", !.cl = 125]
                          [] c = 40 -> [st EXCEPT !.mode = "udig", !.cl = 41]
                          [] c = 91 -> [st EXCEPT !.mode = "udig", !.cl = 93]
                          [] c = 60 -> [st EXCEPT !.mode = "udig", !.cl = 62]
                          [] OTHER -> Redo(Go(st, "udig"), c)
         [] m = "udig" -> IF DigitVal(c) < 16 THEN [st EXCEPT !.n = SatScalar(16 * @ + DigitVal(c))]
                          ELSE IF st.cl # 0 THEN (IF c = st.cl THEN UFinal(st) ELSE Redo(StrErr(st), c))
                          ELSE Redo(UFinal(st), c)
         [] m = "raw" -> IF c = st.q THEN EmitR(st, TkStr("S", st.s)) ELSE Push(st, c)
         [] m = "F0" -> IF c \in {39, 34} THEN [st EXCEPT !.mode = "str", !.kind = "F", !.q = c, !.s = <<>>]
                        ELSE EmitR(st, TkInvalid)
         [] m = "R0" -> IF c \in {39, 34} THEN [st EXCEPT !.mode = "raw", !.q = c, !.s = <<>>]
                        ELSE EmitR(st, TkInvalid)
         [] m = "B0" -> IF c \in {39, 34} THEN [st EXCEPT !.mode = "str", !.kind = "B", !.q = c, !.s = <<>>]
                        ELSE IF c = 91 THEN EmitR(st, Tk("BLeftBracket"))
                        ELSE Redo(EmitR(st, TkIdent(<<66>>)), c)
         [] m = "ident" -> IF cls = "unk" THEN Unknown(st)
                           ELSE IF cls \in IdentContCls /\ ~(st.n = 1 /\ Len(st.s) = 1 /\ c = 39) THEN Push(st, c)
                           ELSE Redo(EndIdent(st), c)
         [] m = "int" ->
              CASE cls \in DigitCls -> Push(st, c)
                [] cls = "dot" -> Go(st, "frac")
                [] st.s = <<48>> /\ cls \in {"lx", "uX"} -> [st EXCEPT !.mode = "radix", !.n = 16, !.s = <<>>]
                [] st.s = <<48>> /\ cls \in {"lb", "uB"} -> [st EXCEPT !.mode = "radix", !.n = 2, !.s = <<>>]
                [] st.s = <<48>> /\ cls \in {"lo", "uO"} -> [st EXCEPT !.mode = "radix", !.n = 8, !.s = <<>>]
                [] cls \in {"lr", "uR"} ->
                     LET v == DigitsToNat(DecVals(st.s), 10)
                         r == IF NatFitsInt(v) THEN NatToInt(v) ELSE 0
                     IN IF r >= 2 /\ r <= 36 THEN [st EXCEPT !.mode = "radix", !.n = r, !.s = <<>>]
                        ELSE IF r = 64 THEN [st EXCEPT !.mode = "r64", !.s = <<>>]
                        ELSE Redo(EmitR(st, IntToken(st)), c)
                [] cls \in {"lij", "uIJ"} -> EmitR(st, TkImag(FloatValue(st)))
                [] cls \in {"lq", "uQ"} -> EmitR(st, TkRat(IntToken(st).v))
                [] cls \in {"lf", "uF"} -> EmitR(st, TkFloat(FloatValue(st)))
                [] cls \in {"le", "uE"} -> Go(st, "exp0")
                [] cls = "unk" -> Unknown(st)
                [] OTHER -> Redo(EmitR(st, IntToken(st)), c)
         [] m = "frac" ->
              CASE cls \in DigitCls -> [st EXCEPT !.t = Append(@, c)]
                [] cls \in {"lij", "uIJ"} -> EmitR(st, TkImag(FloatValue(st)))
                [] cls \in {"le", "uE"} -> Go(st, "exp0")
                [] cls \in {"lf", "uF"} -> EmitR(st, TkFloat(FloatValue(st)))
                [] cls = "unk" -> Unknown(st)
                [] OTHER -> Redo(EmitR(st, FloatToken(st)), c)
         [] m = "exp0" -> IF c = 45 THEN [st EXCEPT !.mode = "exp", !.neg = TRUE] ELSE Redo(Go(st, "exp"), c)
         [] m = "exp" -> IF cls \in DigitCls THEN [st EXCEPT !.u = Append(@, c)]
                         ELSE IF cls = "unk" THEN Unknown(st)
                         ELSE Redo(EmitR(st, FloatToken(st)), c)
         [] m = "radix" -> IF DigitVal(c) < st.n THEN Push(st, DigitVal(c))
                           ELSE IF cls = "unk" THEN Unknown(st)
                           ELSE Redo(EmitR(st, TkInt(DigitsToNat(st.s, st.n))), c)
         [] m = "r64" -> IF B64Val(c) < 64 THEN Push(st, B64Val(c))
                         ELSE IF cls = "unk" THEN Unknown(st)
                         ELSE Redo(EmitR(st, TkInt(DigitsToNat(st.s, 64))), c)
         [] m = "op" -> IF cls \in OpCls THEN Push(st, c)
                        ELSE IF cls = "unk" THEN Unknown(st)
                        ELSE Redo(EmitOp(st), c)
         [] m = "end" -> st          \* a runaway range comment ended the run: nothing more is read
         [] m = "unk" -> st
         [] OTHER -> Undefined(st)

\* one character
Step(st, c) == Feed([st EXCEPT !.eps = 0], c)

\* end of input
RECURSIVE Finish(_)
End(st) == Go(Reset(st), "end")
Finish(st) ==
    LET m == st.mode
    IN CASE m = "start" -> End(st)
         [] m = "bs" -> End(Emit(st, Tk("Lambda")))
         [] m = "colon" -> End(Emit(st, Tk("Colon")))
         [] m = "hash" -> End(Emit(st, TkComment(<<>>)))
         [] m = "lcomment" -> End(Emit(st, TkComment(st.s)))
         [] m = "rcomment" -> End(Emit(st, TkInvalid))
         [] m \in {"str", "esc", "hex1", "hex2"} -> End(Emit(Emit(st, TkInvalid), StrToken(st)))
         [] m = "strerr" -> End(Emit(st, StrToken(st)))
         [] m \in {"u0", "udig"} -> IF st.cl # 0 THEN End(Emit(Emit(st, TkInvalid), StrToken(st)))
                                    ELSE Finish(UFinal(st))
         [] m = "raw" -> End(Emit(Emit(st, TkInvalid), TkStr("S", st.s)))
         [] m \in {"F0", "R0"} -> End(Emit(st, TkInvalid))
         [] m = "B0" -> End(Emit(st, TkIdent(<<66>>)))
         [] m = "ident" -> Finish(EndIdent(st))
         [] m = "int" -> End(Emit(st, IntToken(st)))
         [] m \in {"frac", "exp0", "exp"} -> End(Emit(st, FloatToken(st)))
         [] m = "radix" -> End(Emit(st, TkInt(DigitsToNat(st.s, st.n))))
         [] m = "r64" -> End(Emit(st, TkInt(DigitsToNat(st.s, 64))))
         [] m = "op" -> End(EmitOp(st))
         [] m = "end" -> st
         [] m = "unk" -> st
         [] OTHER -> Undefined(st)

\* feed text[lo..hi]; by halves, so that the evaluation depth stays logarithmic in the length
RECURSIVE FeedRange(_, _, _, _)
FeedRange(st, text, lo, hi) ==
    IF lo > hi \/ st.eps < 0 THEN st
    ELSE IF lo = hi THEN Step(st, text[lo])
    ELSE LET mid == (lo + hi) \div 2
         IN FeedRange(FeedRange(st, text, lo, mid), text, mid + 1, hi)
FeedAll(st, text, j) == FeedRange(st, text, j, Len(text))
\* the whole lexer: final state; .mode = "end" and .toks the token list, or .mode = "unk"
Lex(text) == Finish(FeedAll(St0, text, 1))

(* --------------------- what follows from the token list ---------------- *)
NonComment(toks) == SelectSeq(toks, LAMBDA t : t.k # "Comment")
HasInvalid(toks) == \E j \in 1..Len(toks) : toks[j].k = "Invalid"
\* parse(text) is one of ok / parse_error / empty (never panic, abort, time-out):
\* empty exactly when nothing but comments was lexed, parse_error whenever a token is Invalid;
\* which of the remaining token lists are accepted (the grammar) is not specified here
ParseOutcomes == {"ok", "parse_error", "empty"}
ParseExpect(toks) == IF NonComment(toks) = <<>> THEN "empty"
                     ELSE IF HasInvalid(toks) THEN "parse_error" ELSE "ok-or-parse_error"
ParseAgrees(toks, o) ==
    LET e == ParseExpect(toks)
    IN IF e = "ok-or-parse_error" THEN o \in {"ok", "parse_error"} ELSE o = e

\* the value a program consisting of one literal token evaluates to
HasBrace(s) == \E j \in 1..Len(s) : s[j] \in {123, 125}
IsSingleLiteral(toks) ==
    LET nc == NonComment(toks)
    IN Len(nc) = 1 /\ nc[1].k \in LiteralKinds /\ (nc[1].k = "FormatString" => ~HasBrace(nc[1].s))
LiteralValue(tok) ==
    CASE tok.k = "IntLit" -> [t |-> "int", v |-> tok.v]
      [] tok.k = "RatLit" -> [t |-> "rat", n |-> tok.n, d |-> tok.d]
      [] tok.k = "FloatLit" -> [t |-> "float", f |-> tok.f]
      [] tok.k = "ImaginaryFloatLit" -> [t |-> "complex", re |-> LitZero, im |-> tok.f]
      [] tok.k \in {"StringLit", "FormatString"} -> [t |-> "str", s |-> tok.s]
      [] tok.k = "BytesLit" -> [t |-> "bytes", b |-> tok.b]
LiteralExpect(toks) == IF IsSingleLiteral(toks) THEN LiteralValue(NonComment(toks)[1]) ELSE [t |-> "none"]
=============================================================================
