------------------------------ MODULE MC_Dict ------------------------------
(***************************************************************************)
(* C09, bounded model: every history of at most Depth dictionary           *)
(* operations (literal construction first) over a small key pool that      *)
(* contains several members of the same `==` class at different numeric    *)
(* levels and representations; every sequence of at most MemoLen calls of  *)
(* a memoized function; every list of at most ListLen pool keys through    *)
(* set / dict / unique / frequencies / count_distinct / group_all.         *)
(*                                                                         *)
(* TLC checks OneEntryPerClass, LenIsCardinality and LookupTotalOnClass in *)
(* every reachable state and prints one line per transition:               *)
(*   REPLAY {ph, hist, op, out, r, post: {ents sorted by class, df, len},  *)
(*           look: for every pool key the result of d[k], d !? k, k in d}  *)
(* tools/c09mc.py re-executes history + operation in the real interpreter  *)
(* and compares.  Keys are referred to by their index in Pool; the line    *)
(* POOL gives source text, value and class index of every pool key.        *)
(*                                                                         *)
(* The VIEW identifies dictionaries that differ only in WHICH member of a  *)
(* class is stored (unspecified, see Dict.tla).                            *)
(***************************************************************************)
EXTENDS Dict, Json

CONSTANTS NKeys,      \* the first NKeys keys of PoolFull are used
          Depth,      \* operations per history, the literal included
          MemoLen,    \* calls of the memoized function per history
          ListLen     \* maximal length of the lists handed to set/unique/...

FOne == [c |-> "fin", sg |-> 0, m |-> <<1>>, e |-> 0]
FHalf == [c |-> "fin", sg |-> 0, m |-> <<1>>, e |-> -1]
FZ(sg) == [c |-> "zero", sg |-> sg, m |-> <<>>, e |-> 0]
FNaN == [c |-> "nan", sg |-> 0, m |-> <<>>, e |-> 0]
PoolFull == <<
    [src |-> "1",        val |-> VInt(1)],
    [src |-> "1.0",      val |-> VNum([k |-> "float", f |-> FOne])],
    [src |-> "(2/2)",    val |-> VNum([k |-> "rat", n |-> IntOne, d |-> <<1>>])],
    [src |-> "(1+0i)",   val |-> VNum([k |-> "complex", re |-> FOne, im |-> FZ(0)])],
    [src |-> "0.5",      val |-> VNum([k |-> "float", f |-> FHalf])],
    [src |-> "(1/2)",    val |-> VNum([k |-> "rat", n |-> IntOne, d |-> <<2>>])],
    [src |-> "(0.0/0.0)", val |-> VNum([k |-> "float", f |-> FNaN])],
    [src |-> "\"a\"",    val |-> VStr("a")],
    [src |-> "0.0",      val |-> VNum([k |-> "float", f |-> FZ(0)])],
    [src |-> "(-0.0)",   val |-> VNum([k |-> "float", f |-> FZ(1)])],
    \* the integer 1 held in big representation
    [src |-> "((2^70+1)-2^70)", val |-> VInt(1)],
    [src |-> "0",        val |-> VInt(0)] >>
Pool == SubSeq(PoolFull, 1, NKeys)
N == NKeys
K(i) == Pool[i].val
PKeys == [i \in 1..N |-> K(i)]
\* index of the first pool key in the class of pool key i
ClassIdx == [i \in 1..N |-> ClassRep(PKeys, i)]
\* the structural number equality used by the dictionary operations is NumTower's exact one
PoolNums == LET sel == SelectSeq(PKeys, LAMBDA v : v.t = "num") IN [j \in 1..Len(sel) |-> sel[j].n]
ASSUME NumEqAgrees(PoolNums)
ClassOfKey(k) == CHOOSE i \in 1..N : ClassIdx[i] = i /\ KeyEq(K(i), k)

VARIABLES phase, vd, vh, vm, vxs
vars == <<phase, vd, vh, vm, vxs>>

(* ------------------------------ operations ------------------------------ *)
OpRec(op, ki, v, f, v0, bk, bv, bdf) ==
    [op |-> op, ki |-> ki, v |-> v, f |-> f, v0 |-> v0, bk |-> bk, bv |-> bv, bdf |-> bdf]
KeyOp(op, i, v) == OpRec(op, i, v, "", VNull, <<>>, <<>>, <<>>)
DictOp(op, bk, bv, bdf) == OpRec(op, 0, VNull, "", VNull, bk, bv, bdf)
\* the dictionary operand written as a literal from pool keys
Operand(o) == Literal([j \in 1..Len(o.bk) |-> <<K(o.bk[j]), o.bv[j]>>], o.bdf)
BoolVal(bb) == VInt(IF bb THEN 1 ELSE 0)

Apply(d, o) ==
    CASE o.op = "lit" -> Res(Operand(o), "ok", VNull)
      [] o.op = "set" -> SetKey(d, K(o.ki), o.v)
      [] o.op = "opassign" -> OpAssign(d, K(o.ki), o.f, o.v)
      [] o.op = "opassign_dflt" -> OpAssignDflt(d, K(o.ki), o.v0, o.f, o.v)
      [] o.op = "remove" -> RemoveKey(d, K(o.ki))
      [] o.op = "addkey" -> Res(AddKey(d, K(o.ki)), "ok", VNull)
      [] o.op = "discard" -> Res(Discard(d, K(o.ki)), "ok", VNull)
      [] o.op = "insert" -> Res(Insert(d, K(o.ki), o.v), "ok", VNull)
      [] o.op = "union" -> Res(Union(d, Operand(o)), "ok", VNull)
      [] o.op = "inter" -> Res(Inter(d, Operand(o)), "ok", VNull)
      [] o.op = "diff" -> Res(Diff(d, Operand(o)), "ok", VNull)
      [] o.op = "unionplus" -> UnionPlus(d, Operand(o))
      [] o.op = "eq" -> Res(d, "ok", BoolVal(DictEq(d, Operand(o))))

LitOps ==
    {DictOp("lit", tpl[1], tpl[2], df) :
        tpl \in {<<<<>>, <<>>>>}
                \cup {<<<<i>>, <<VInt(1)>>>> : i \in 1..N}
                \cup {<<<<i, j>>, <<VInt(1), VInt(2)>>>> : i, j \in 1..N},
        df \in {<<>>, <<VInt(0)>>}}
RightOperands ==
    {<<<<i>>, <<VInt(50)>>, <<>>>> : i \in 1..N}
    \cup {<<<<1, N>>, <<VInt(50), VInt(60)>>, <<>>>>, <<<<2>>, <<VInt(50)>>, <<VInt(9)>>>>}
EqOperands == {<<<<i>>, <<VInt(1)>>, <<>>>> : i \in 1..N} \cup {<<<<>>, <<>>, <<>>>>}
StepOps ==
    {KeyOp("set", i, VInt(7)) : i \in 1..N}
    \cup {OpRec("opassign", i, VInt(100), "+", VNull, <<>>, <<>>, <<>>) : i \in 1..N}
    \cup {OpRec("opassign_dflt", i, VInt(100), "+", VInt(5), <<>>, <<>>, <<>>) : i \in 1..N}
    \cup {KeyOp("remove", i, VNull) : i \in 1..N}
    \cup {KeyOp("addkey", i, VNull) : i \in 1..N}
    \cup {KeyOp("discard", i, VNull) : i \in 1..N}
    \cup {KeyOp("insert", i, VInt(8)) : i \in 1..N}
    \cup {DictOp(op, b[1], b[2], b[3]) : op \in {"union", "inter", "diff", "unionplus"}, b \in RightOperands}
    \cup {DictOp("eq", b[1], b[2], b[3]) : b \in EqOperands}

(* ----------------------------- observations ----------------------------- *)
(* compact encodings for the REPLAY lines: a value is a native integer, "n"  *)
(* for null (the models' values are small integers and null); keys are pool  *)
(* indices; an operation is the tuple <<op, ki, v, f, v0, bk, bv, bdf>>      *)
Cv(v) == CASE v.t = "null" -> "n" [] IsIntVal(v) -> IntToInt(v.n.i) [] OTHER -> v
CvSeq(vs) == [j \in 1..Len(vs) |-> Cv(vs[j])]
OpOut(o) == <<o.op, o.ki, Cv(o.v), o.f, Cv(o.v0), o.bk, CvSeq(o.bv), CvSeq(o.bdf)>>
HistOut(h) == [j \in 1..Len(h) |-> OpOut(h[j])]
\* entries <<class index of the key, value>> sorted by class index
EntsOut(d) ==
    LET reps == SelectSeq([i \in 1..N |-> i], LAMBDA i : ClassIdx[i] = i /\ Has(d, K(i)))
    IN [j \in 1..Len(reps) |-> <<reps[j], Cv(Entry(d, K(reps[j]))[2])>>]
DictOut(d) == [ents |-> EntsOut(d), df |-> CvSeq(d.df), len |-> DLen(d)]
\* per pool key <<d[k] ("T" when it throws), d !? k, k in d>>
Look(d) == [i \in 1..N |-> LET g == Get(d, K(i))
                           IN <<IF g.out = "ok" THEN Cv(g.r) ELSE "T", Cv(Safe(d, K(i))), IF In(K(i), d) THEN 1 ELSE 0>>]

(* the VIEW: stored keys up to their class *)
AbsD(d) == [es |-> {<<ClassOfKey(p[1]), p[2]>> : p \in d.es}, df |-> d.df]
AbsM(m) == [es |-> {<<ClassOfKey(p[1].xs[1]), p[2]>> : p \in m.cache.es}, calls |-> m.calls]
View == <<phase, AbsD(vd), Len(vh), AbsM(vm), vxs>>

Init == /\ PrintT("POOL " \o ToJson([pool |-> Pool, cls |-> ClassIdx]))
        /\ phase = "start" /\ vd = EmptyDict /\ vh = <<>> /\ vm = MemoInit /\ vxs = <<>>

Emit(o, res) ==
    PrintT("REPLAY " \o ToJson([ph |-> "dict", hist |-> HistOut(vh), op |-> OpOut(o), out |-> res.out,
                                r |-> Cv(res.r), post |-> DictOut(res.d), look |-> Look(res.d)]))
Lit == /\ phase = "start"
       /\ \E o \in LitOps :
            LET res == Apply(vd, o)
            IN vd' = res.d /\ vh' = <<o>> /\ Emit(o, res)
       /\ phase' = "dict" /\ UNCHANGED <<vm, vxs>>
Step == /\ phase = "dict" /\ Len(vh) < Depth
        /\ \E o \in StepOps :
             LET res == Apply(vd, o)
             IN vd' = res.d /\ vh' = Append(vh, o) /\ Emit(o, res)
        /\ UNCHANGED <<phase, vm, vxs>>

(* memoize: the memoized function returns [argument, number of this run];  *)
(* reported as <<pool index of that argument, number>>                      *)
Body(args, n) == VList(<<args[1], VInt(n)>>)
HistKeys(h) == [j \in 1..Len(h) |-> h[j].ki]
Memo == /\ phase \in {"start", "memo"} /\ Len(vh) < MemoLen
        /\ \E i \in 1..N :
             LET c == MemoCall(vm, <<K(i)>>, Body)
             IN /\ vm' = c.m /\ vh' = Append(vh, KeyOp("memo", i, VNull))
                /\ PrintT("REPLAY " \o ToJson([ph |-> "memo", hist |-> HistKeys(vh), ki |-> i,
                                               r |-> <<CHOOSE j \in {i} \cup {vh[h].ki : h \in 1..Len(vh)} :
                                                          K(j) = c.r.xs[1], Cv(c.r.xs[2])>>,
                                               calls |-> c.m.calls]))
        /\ phase' = "memo" /\ UNCHANGED <<vd, vxs>>

(* functions of a list of keys *)
ListFns == {"set", "dict", "unique", "frequencies", "count_distinct", "group_all:id", "group_all:lst",
            "group_all:const"}
Xs == [j \in 1..Len(vxs) |-> K(vxs[j])]
\* unique / group_all return elements of the input: reported as positions in xs
ListResult(fn) ==
    CASE fn = "set" -> DictOut(SetOf(Xs))
      [] fn = "dict" -> DictOut(DictOf([j \in 1..Len(vxs) |-> VList(<<K(vxs[j]), VInt(j)>>)]).r)
      [] fn = "unique" -> UniquePos(Xs)
      [] fn = "frequencies" -> DictOut(Frequencies(Xs))
      [] fn = "count_distinct" -> CountDistinct(Xs)
      [] fn = "group_all:id" -> GroupAllPos(Xs, LAMBDA x : x)
      [] fn = "group_all:lst" -> GroupAllPos(Xs, LAMBDA x : VList(<<x>>))
      [] fn = "group_all:const" -> GroupAllPos(Xs, LAMBDA x : VInt(0))
ListPick == /\ phase \in {"start", "list"} /\ Len(vxs) < ListLen
            /\ \E i \in 1..N : vxs' = Append(vxs, i)
            /\ phase' = "list" /\ UNCHANGED <<vd, vh, vm>>
ListApply == /\ phase \in {"start", "list"}
             /\ \E fn \in ListFns :
                  PrintT("REPLAY " \o ToJson([ph |-> "list", xs |-> vxs, fn |-> fn, r |-> ListResult(fn)]))
             /\ phase' = "listdone" /\ UNCHANGED <<vd, vh, vm, vxs>>

Next == Lit \/ Step \/ Memo \/ ListPick \/ ListApply
Spec == Init /\ [][Next]_vars

(* ------------------------------ invariants ------------------------------ *)
RepInv == OneEntryPerClass(vd) /\ OneEntryPerClass(vm.cache)
\* (LenIsCardinality(vd, PKeys) with the class representatives taken from the cached table)
LenInv == DLen(vd) = Cardinality({ClassIdx[j] : j \in {h \in 1..N : Has(vd, K(h))}})
LookupInv == LookupTotalOnClass(vd, PKeys)
\* the list functions agree with the dictionary model: set / frequencies / unique have one
\* element per class of the input, count_distinct is their number
ListInv == LET u == UniqueVals(Xs)
           IN /\ DLen(SetOf(Xs)) = Len(u) /\ DLen(Frequencies(Xs)) = Len(u) /\ CountDistinct(Xs) = Len(u)
              /\ OneEntryPerClass(SetOf(Xs)) /\ OneEntryPerClass(Frequencies(Xs))
              /\ \A j \in 1..Len(Xs) : Has(SetOf(Xs), Xs[j])
              /\ UniqueVals(u) = u
=============================================================================
