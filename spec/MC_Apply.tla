------------------------------ MODULE MC_Apply ------------------------------
(***************************************************************************)
(* C04, bounded model: TLC checks FormsAgree of Apply.tla over every       *)
(* function value of the list below (primitives of the three one-argument  *)
(* behaviours, each wrapper around them, nested wrappers), a data or a     *)
(* function first argument, every application form and arity 1, 2, 3.      *)
(* Each case is printed ("REPLAY {json}": the function value, the form,    *)
(* its denotation and the denotation of the plain call) and executed in    *)
(* the real interpreter by tools/c04mc.py with real functions standing for *)
(* the primitives ( =>  for "pa2",  zip  for "palast", a variadic closure  *)
(* for "opaque").                                                          *)
(***************************************************************************)
EXTENDS Apply, Json

KV == Prim("kv", "pa2")
ZZ == Prim("zz", "palast")
GG == Prim("gg", "opaque")
HH == Prim("hh", "opaque")
D(i) == Data(i)
\* (only values that the surface syntax can construct from these primitives)
Funs == <<KV, ZZ, GG,
          PA1(KV, D(9)), PA1(GG, D(9)), PA1(ZZ, D(9)),
          PA2(KV, D(9)), PALast(ZZ, D(9)),
          Flip(KV), Flip(GG), Flip(ZZ), Flip(Flip(GG)), Flip(PA2(KV, D(9))), PA1(Flip(GG), D(9)),
          CallSec(GG, <<Hole, Hole>>), CallSec(GG, <<D(9), Hole, Hole>>), CallSec(KV, <<Hole, Hole>>),
          CallSec(GG, <<Hole>>), CallSec(GG, <<Hole, Hole, Hole>>), CallSec(ZZ, <<Hole, D(9), Hole>>),
          CallSec(Flip(KV), <<Hole, Hole>>), CallSec(Hole, <<Hole, D(9)>>),
          ChainSec(Hole, GG, Hole), ChainSec(Hole, KV, Hole), ChainSec(D(9), GG, Hole), ChainSec(Hole, Flip(GG), Hole)>>
Firsts == <<D(1), HH>>      \* the first argument: data, or itself a function

VARIABLES ph, ar, fi, ai, form
vars == <<ph, ar, fi, ai, form>>

Init == ph = "pick" /\ ar = 0 /\ fi = 1 /\ ai = 1 /\ form = ""
Pick == /\ ph = "pick"
        /\ ar' \in {1, 2, 3}
        /\ fi' \in 1..Len(Funs)
        /\ ai' \in 1..Len(Firsts)
        /\ form' \in (IF ar' = 1 THEN Forms1 ELSE IF ar' = 2 THEN Forms2 ELSE Forms3)
        /\ ph' = "show"

F == Funs[fi]
A == Firsts[ai]
Args == IF ar = 1 THEN <<A>> ELSE IF ar = 2 THEN <<A, D(2)>> ELSE <<A, D(2), D(3)>>
Den == IF ar = 1 THEN Den1(form, F, A) ELSE IF ar = 2 THEN Den2(form, F, A, D(2)) ELSE Den3(form, F, A, D(2), D(3))
\* does the property make a claim about this form here?
Judged == \/ ar # 2
          \/ form \in Always2
          \/ form = "juxta" /\ ~IsFunc(A)
          \/ form = "rsec" /\ IsFunc(CallOrPartApply(F, <<D(2)>>))
\* evaluated on the current state (never primed)
Show == /\ ph = "show"
        /\ PrintT("REPLAY " \o ToJson([ar |-> ar, fi |-> fi, f |-> F, a |-> A, form |-> form, judged |-> Judged,
                                       den |-> Den, plain |-> Run(F, Args)]))
        /\ ph' = "pick" /\ UNCHANGED <<ar, fi, ai, form>>
Next == Pick \/ Show
Spec == Init /\ [][Next]_vars

FormsAgree == ph = "show" =>
    /\ ar = 1 => FormsAgree1(F, A)
    /\ ar = 2 => FormsAgree2(F, A, D(2))
    /\ ar = 3 => FormsAgree3(F, A, D(2), D(3))
\* the per-case reading used by the replay
CaseAgrees == (ph = "show" /\ Judged) => Den = Run(F, Args)
=============================================================================
