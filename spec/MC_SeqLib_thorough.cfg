SPECIFICATION Spec
CONSTANT MaxLen = 4
INVARIANT Laws
CONSTANT SeqMutation = "none"
CHECK_DEADLOCK FALSE
