SPECIFICATION Spec
CONSTANT MaxLen = 4
INVARIANT Laws
CHECK_DEADLOCK FALSE
