SPECIFICATION Spec
CONSTANT Depth = 4
CONSTANT Wide = TRUE
INVARIANT MatchTyped
INVARIANT Typed
INVARIANT TypeTheorems
VIEW View
CHECK_DEADLOCK FALSE
