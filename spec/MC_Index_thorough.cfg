SPECIFICATION Spec
CONSTANT MaxLen = 7
CONSTANT Margin = 4
CONSTANT Tags = {"list", "s1", "s2", "s3", "s4", "vec", "bytes", "range", "wstream", "lmap"}
CONSTANT SliceTags = {"list", "s1", "s2", "s3", "s4", "vec", "bytes", "range", "wstream", "lmap"}
CONSTANT EveryTags = {"list", "range", "wstream", "lmap"}
INVARIANT CaseLemmas
CHECK_DEADLOCK FALSE
