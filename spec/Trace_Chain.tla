---------------------------- MODULE Trace_Chain ----------------------------
(***************************************************************************)
(* Trace validation for C03 over the DEFAULT global operator table.        *)
(*                                                                         *)
(* Each event (ndjson, path in env TRACE) records one infix chain          *)
(*   e0 f1 e1 ... fn en    (5-9 operators, literal operands)               *)
(* evaluated by the real interpreter:                                      *)
(*   names   the operator names f1..fn                                     *)
(*   precs   the precedence of each operator value read back at runtime    *)
(*           through  f::precedence  (scaled by 2; NaN flagged)            *)
(*   leaves  the operand values,  out / r  the outcome class and the value *)
(*   doc     TRUE when no precedence was reassigned in the session         *)
(* The specification takes associativity and chain class of every name     *)
(* from the table below (transcribed from the documentation: README        *)
(* precedence table, "comparison operators can be chained", zip and the    *)
(* cartesian product chain with themselves, til / to chain with by), groups*)
(* the chain with Chain!Climb using the LOGGED precedences, evaluates the  *)
(* resulting tree with exact arithmetic (NumTower!IntBin) and small list   *)
(* semantics, and compares with the observed value.  Applications outside  *)
(* the modelled fragment make the expected outcome "unspec" (accepted,     *)
(* counted).  With doc = TRUE the logged precedences must also equal the   *)
(* documented table.                                                       *)
(***************************************************************************)
EXTENDS Chain, NumTower, Json

Rec == ndJsonDeserialize(IOEnv.TRACE)
VARIABLE l

(* --------------------------- the operator table ------------------------ *)
Info(nm, doc, assoc, cmp, sf, pf, pn) ==
    [n |-> nm, doc |-> doc, assoc |-> assoc, cmp |-> cmp, sf |-> sf, pf |-> pf, pn |-> pn]
Table == {
    Info("^", 6, "R", FALSE, 0, 0, 0), Info("<<", 6, "L", FALSE, 0, 0, 0), Info(">>", 6, "L", FALSE, 0, 0, 0),
    Info("*", 5, "L", FALSE, 0, 0, 0), Info("//", 5, "L", FALSE, 0, 0, 0), Info("%%", 5, "L", FALSE, 0, 0, 0),
    Info("&", 5, "L", FALSE, 0, 0, 0), Info("**", 5, "L", FALSE, 1, 0, 0),
    Info("+", 4, "L", FALSE, 0, 0, 0), Info("-", 4, "L", FALSE, 0, 0, 0), Info("~", 4, "L", FALSE, 0, 0, 0),
    Info("++", 4, "L", FALSE, 0, 0, 0), Info(".+", 4, "R", FALSE, 0, 0, 0), Info("+.", 4, "L", FALSE, 0, 0, 0),
    Info("|", 3, "L", FALSE, 0, 0, 0),
    Info("==", 1, "L", TRUE, 0, 0, 0), Info("!=", 1, "L", TRUE, 0, 0, 0), Info("<", 1, "L", TRUE, 0, 0, 0),
    Info("<=", 1, "L", TRUE, 0, 0, 0), Info(">", 1, "L", TRUE, 0, 0, 0), Info(">=", 1, "L", TRUE, 0, 0, 0),
    Info("<=>", 1, "L", FALSE, 0, 0, 0), Info(">=<", 1, "L", FALSE, 0, 0, 0),
    Info("min", 0, "L", FALSE, 0, 0, 0), Info("max", 0, "L", FALSE, 0, 0, 0), Info("gcd", 0, "L", FALSE, 0, 0, 0),
    Info("lcm", 0, "L", FALSE, 0, 0, 0), Info("xor", 0, "L", FALSE, 0, 0, 0), Info("subtract", 0, "L", FALSE, 0, 0, 0),
    Info("prepend", 0, "R", FALSE, 0, 0, 0), Info("append", 0, "L", FALSE, 0, 0, 0),
    Info("to", 0, "L", FALSE, 0, 3, 0), Info("til", 0, "L", FALSE, 0, 3, 0), Info("by", 0, "L", FALSE, 0, 0, 3),
    Info("zip", 0, "L", FALSE, 2, 2, 0)}
InfoOf(nm) == CHOOSE r \in Table : r.n = nm
Scale == 2
Desc(nm, p) == LET r == InfoOf(nm)
               IN [prec |-> p, assoc |-> r.assoc, cmp |-> r.cmp, sf |-> r.sf, pf |-> r.pf, pn |-> r.pn, cls |-> nm]

(* ------------------------------- values -------------------------------- *)
IntV(x) == [t |-> "int", i |-> x]
ListV(v) == [t |-> "list", v |-> v]
StreamV(v) == [t |-> "stream", v |-> v]
RECURSIVE SameVal(_, _)
SameVal(x, y) ==
    /\ x.t = y.t
    /\ CASE x.t = "int" -> IntEq(x.i, y.i)
         [] x.t \in {"list", "stream"} -> Len(x.v) = Len(y.v) /\ \A j \in 1..Len(x.v) : SameVal(x.v[j], y.v[j])
         [] OTHER -> FALSE
RECURSIVE Modelled(_)
Modelled(x) == \/ x.t = "int"
               \/ x.t = "list" /\ \A j \in 1..Len(x.v) : Modelled(x.v[j])

(* --------------------------- applications ------------------------------ *)
IntOps == {"^", "<<", ">>", "*", "//", "%%", "&", "+", "-", "~", "|", "<=>", ">=<", "min", "max", "gcd", "lcm",
           "xor", "subtract"}
Bin(op, x, y) ==
    CASE op \in IntOps /\ x.t = "int" /\ y.t = "int" ->
           LET r == IntBin(op, x.i, y.i)
           IN IF r.out = "ok" THEN (IF r.r.k = "int" THEN Ok(IntV(r.r.i)) ELSE Unspec) ELSE r
      [] op = "++" /\ x.t = "list" /\ y.t = "list" -> Ok(ListV(x.v \o y.v))
      [] op \in {".+", "prepend"} /\ y.t = "list" /\ Modelled(x) -> Ok(ListV(<<x>> \o y.v))
      [] op \in {"+.", "append"} /\ x.t = "list" /\ Modelled(y) -> Ok(ListV(Append(x.v, y)))
      [] OTHER -> Unspec

\* "t" / "f" / "u"
CmpPair(op, x, y) ==
    IF x.t = "int" /\ y.t = "int"
    THEN (IF IntBin(op, x.i, y.i).r.i.s # 0 THEN "t" ELSE "f")
    ELSE IF op \in {"==", "!="} /\ Modelled(x) /\ Modelled(y)
    THEN (IF SameVal(x, y) = (op = "==") THEN "t" ELSE "f")
    ELSE "u"
RECURSIVE CmpChain(_, _, _)
\* an n-ary comparison holds iff every adjacent pair does; evaluation stops at the first that fails
CmpChain(ons, args, j) ==
    IF j > Len(ons) THEN Ok(IntV(IntOne))
    ELSE LET c == CmpPair(ons[j], args[j], args[j + 1])
         IN IF c = "u" THEN Unspec ELSE IF c = "f" THEN Ok(IntV(IntZero)) ELSE CmpChain(ons, args, j + 1)

Small(x) == x.t = "int" /\ IntFits(x.i) /\ NatCmp(x.i.m, <<1000>>) < 0
Nat2Int(x) == IF x.i.s < 0 THEN -NatToInt(x.i.m) ELSE NatToInt(x.i.m)
RECURSIVE RangeFrom(_, _, _, _, _)
RangeFrom(cur, stop, step, incl, acc) ==
    IF Len(acc) > 48 THEN acc
    ELSE IF (step > 0 /\ (cur > stop \/ (~incl /\ cur = stop))) \/ (step < 0 /\ (cur < stop \/ (~incl /\ cur = stop)))
    THEN acc
    ELSE RangeFrom(cur + step, stop, step, incl, Append(acc, IntV(IntFromInt(cur))))
Range(head, args) ==
    IF Len(args) \notin {2, 3} \/ \E j \in 1..Len(args) : ~Small(args[j]) THEN Unspec
    ELSE LET step == IF Len(args) = 3 THEN Nat2Int(args[3]) ELSE 1
         IN IF step = 0 THEN Unspec
            ELSE LET r == RangeFrom(Nat2Int(args[1]), Nat2Int(args[2]), step, head = "to", <<>>)
                 IN IF Len(r) > 48 THEN Unspec ELSE Ok(StreamV(r))

AllLists(args) == \A j \in 1..Len(args) : args[j].t = "list" /\ Modelled(args[j])
RECURSIVE CartFrom(_, _, _)
\* tuples <<x1, .., xk>> in lexicographic order of positions
CartFrom(args, j, prefixes) ==
    IF j > Len(args) \/ Len(prefixes) < 0 THEN prefixes
    ELSE CartFrom(args, j + 1,
           LET RECURSIVE Ext(_, _)
               Ext(pi, acc) == IF pi > Len(prefixes) \/ Len(acc) < 0 THEN acc
                               ELSE Ext(pi + 1, acc \o [e \in 1..Len(args[j].v) |-> Append(prefixes[pi], args[j].v[e])])
           IN Ext(1, <<>>))
RECURSIVE LenProduct(_, _, _)
LenProduct(args, j, acc) == IF j > Len(args) \/ acc > 256 THEN acc ELSE LenProduct(args, j + 1, acc * Len(args[j].v))
Cart(args) == IF ~AllLists(args) \/ LenProduct(args, 1, 1) > 256 THEN Unspec
              ELSE LET r == CartFrom(args, 1, <<<<>>>>)
                   IN Ok(ListV([e \in 1..Len(r) |-> ListV(r[e])]))
MinLen(args) == CHOOSE m \in {Len(args[j].v) : j \in 1..Len(args)} : \A j \in 1..Len(args) : m <= Len(args[j].v)
Zip(args) == IF ~AllLists(args) THEN Unspec
             ELSE Ok(ListV([e \in 1..MinLen(args) |-> ListV([j \in 1..Len(args) |-> args[j].v[e]])]))

\* one application of the (possibly merged) operators `ons` to `args`
ApplyN(ons, args) ==
    LET head == ons[1]
    IN CASE InfoOf(head).cmp -> CmpChain(ons, args, 1)
         [] head \in {"to", "til"} -> Range(head, args)
         [] head = "by" -> Throw                        \* a preposition that was not merged cannot be called
         [] head = "**" -> Cart(args)
         [] head = "zip" -> Zip(args)
         [] OTHER -> IF Len(ons) = 1 THEN Bin(head, args[1], args[2]) ELSE Unspec

RECURSIVE EvalTree(_, _, _)
EvalTree(t, names, leaves) ==
    IF t.k = "leaf" THEN Ok(leaves[t.i + 1])
    ELSE LET ks == [j \in 1..Len(t.kids) |-> EvalTree(t.kids[j], names, leaves)]
         IN IF \E j \in 1..Len(ks) : ks[j].out = "unspec" THEN Unspec
            ELSE IF \E j \in 1..Len(ks) : ks[j].out = "throw" THEN Throw
            ELSE ApplyN([j \in 1..Len(t.ops) |-> names[t.ops[j]]], [j \in 1..Len(ks) |-> ks[j].r])

(* ------------------------------ validation ----------------------------- *)
Report(ev, what, exp, tree) ==
    PrintT("MISMATCH " \o ToJson([l |-> l, id |-> ev.id, exp |-> [what |-> what, exp |-> exp, tree |-> tree]]))
DocOk(ev) == \A j \in 1..Len(ev.names) : ~ev.precs[j].nan /\ ev.precs[j].v = Scale * InfoOf(ev.names[j]).doc

Step(ev) ==
    LET ch == [j \in 1..Len(ev.names) |-> Desc(ev.names[j], ev.precs[j])]
        tree == Climb(ch)
        exp == EvalTree(tree, ev.names, ev.leaves)
        ok == CASE exp.out = "unspec" -> TRUE
                [] exp.out = "throw" -> ev.out = "throw"
                [] exp.out = "ok" -> ev.out = "ok" /\ SameVal(exp.r, ev.r)
    IN /\ IF ev.doc /\ ~DocOk(ev)
          THEN Report(ev, "default-precedence",
                      [out |-> "documented-table",
                       wrong |-> [j \in 1..Len(ev.names) |->
                                    IF ~ev.precs[j].nan /\ ev.precs[j].v = Scale * InfoOf(ev.names[j]).doc THEN ""
                                    ELSE ev.names[j]]], tree)
          ELSE TRUE
       /\ IF ok THEN TRUE ELSE Report(ev, "value", exp, tree)
       /\ IF exp.out = "unspec" THEN PrintT("UNSPEC " \o ToString(ev.id)) ELSE TRUE

Init == l = 1 /\ MIdle
Next == /\ l <= Len(Rec)
        /\ Step(Rec[l])
        /\ l' = l + 1
        /\ MStutter
TraceDone == l = Len(Rec) + 1 => PrintT("TRACE-END " \o ToString(Len(Rec)))
=============================================================================
