SPECIFICATION Spec
CONSTANT N = 300
CONSTANT Deep = FALSE
INVARIANT Laws
CHECK_DEADLOCK FALSE
