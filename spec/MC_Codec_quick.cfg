SPECIFICATION Spec
CONSTANT N = 600
CONSTANT Deep = FALSE
INVARIANT Laws
CHECK_DEADLOCK FALSE
