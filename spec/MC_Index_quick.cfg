SPECIFICATION Spec
CONSTANT MaxLen = 5
CONSTANT Margin = 3
CONSTANT Tags = {"list", "s1", "s2", "s3", "s4", "vec", "bytes", "range", "wstream", "lmap"}
CONSTANT SliceTags = {"list", "s1", "s2", "s3", "s4", "vec", "bytes", "range", "wstream", "lmap"}
CONSTANT EveryTags = {"list", "range"}
INVARIANT CaseLemmas
CHECK_DEADLOCK FALSE
