------------------------------- MODULE SeqLib -------------------------------
(***************************************************************************)
(* C13: the one-line definitions of noulith's sequence library (README.md  *)
(* "Sequence operators" / "Functional programming", BUILTINS.md) written   *)
(* out as TLA+ definitions on finite sequences.                            *)
(*                                                                         *)
(* Values (every kind has its own field names):                            *)
(*   [t |-> "i", n  |-> Int]      integer (booleans are the integers 0, 1) *)
(*   [t |-> "s", s  |-> STRING]   string                                   *)
(*   [t |-> "n"]                  null                                     *)
(*   [t |-> "l", xs |-> <<..>>]   list                                     *)
(*   [t |-> "v", vs |-> <<..>>]   vector (of integers)                     *)
(*   [t |-> "b", bs |-> <<..>>]   bytes  (of integers)                     *)
(*   [t |-> "d", es |-> <<<<k, v>>..>>, df |-> <<>> or <<v>>] dictionary   *)
(* An input sequence is a kind ("list" "str" "vec" "bytes" "dict" "stream")*)
(* and the sequence xs of its elements (str: one-character strings, dict:  *)
(* the keys - in an iteration order the documentation leaves open).        *)
(*                                                                         *)
(* A function application evaluates to [out |-> "ok", r |-> value],        *)
(* [out |-> "throw"], or [out |-> "unspec"] where the documentation does   *)
(* not determine the result.  Function arguments (predicates, keys,        *)
(* combiners) come from a small family whose members both sides know by    *)
(* NAME (App1 / App2 below give their meaning, tools/c13.py their text).   *)
(* Where a one-line definition is silent on a detail the rule of the       *)
(* implementation is transcribed and marked "(transcribed)".               *)
(***************************************************************************)
EXTENDS Integers, Sequences, FiniteSets, TLC, SequencesExt, FiniteSetsExt, Functions

(* Negative control of the bindings (tools/BUILDING.md): SeqMutation switches *)
(* ONE definition to a wrong one; the unchanged implementation must then be   *)
(* rejected (`C13_MUTANT=<name> ./check C13 quick`).  Every cfg sets "none".  *)
(*   scan_no_seed   scan ... from z omits the starting value                  *)
(*   unique_last    unique keeps the LAST occurrence of every element         *)
CONSTANT SeqMutation

I(n) == [t |-> "i", n |-> n]
S(s) == [t |-> "s", s |-> s]
Nul == [t |-> "n"]
L(xs) == [t |-> "l", xs |-> xs]
Vc(xs) == [t |-> "v", vs |-> xs]
By(xs) == [t |-> "b", bs |-> xs]
Dc(es, df) == [t |-> "d", es |-> es, df |-> df]
B01(bb) == I(IF bb THEN 1 ELSE 0)

ROk(r) == [out |-> "ok", r |-> r]
RThrow == [out |-> "throw"]
RUnspec == [out |-> "unspec"]

\* partial results: a function argument may throw
Y(v) == [ok |-> TRUE, v |-> v]
N == [ok |-> FALSE, v |-> Nul]

Truthy(v) == CASE v.t = "i" -> v.n # 0
               [] v.t = "s" -> v.s # ""
               [] v.t = "n" -> FALSE
               [] v.t = "l" -> v.xs # <<>>
               [] v.t = "v" -> v.vs # <<>>
               [] v.t = "b" -> v.bs # <<>>
               [] v.t = "d" -> v.es # <<>>

(* order of the language: integers numerically, strings lexicographically  *)
(* (one-character strings of this table are enough for the models), other  *)
(* combinations are not comparable (2)                                      *)
CharOrd == <<"\n", " ", ",", "-", "a", "b", "c", "d", "z">>
Rank(c) == CHOOSE j \in 1..Len(CharOrd) : CharOrd[j] = c
Sgn(k) == IF k < 0 THEN -1 ELSE IF k > 0 THEN 1 ELSE 0
Cmp(x, y) == IF x.t = "i" /\ y.t = "i" THEN Sgn(x.n - y.n)
             ELSE IF x.t = "s" /\ y.t = "s" THEN Sgn(Rank(x.s) - Rank(y.s))
             ELSE 2

(* ---------------------- the named function family ---------------------- *)
App1(f, x) ==
    CASE f = "id" -> Y(x)
      [] f = "even" -> IF x.t = "i" THEN Y(B01(x.n % 2 = 0)) ELSE N         \* \x -> x % 2 == 0
      [] f = "lt2" -> IF x.t = "i" THEN Y(B01(x.n < 2)) ELSE N              \* (<2)
      [] f = "mod2" -> IF x.t = "i" THEN Y(I(x.n % 2)) ELSE N               \* (%2)
      [] f = "isa" -> Y(B01(x = S("a")))                                    \* (== "a")
      [] f = "dup" -> Y(L(<<x, x>>))                                        \* \x -> [x, x]
      [] f = "const0" -> Y(I(0))                                            \* \x -> 0
App2(f, x, y) ==
    CASE f = "plus" -> IF x.t = "i" /\ y.t = "i" THEN Y(I(x.n + y.n)) ELSE N
      [] f = "sub" -> IF x.t = "i" /\ y.t = "i" THEN Y(I(x.n - y.n)) ELSE N
      [] f = "max" -> IF Cmp(x, y) = 2 THEN N ELSE Y(IF Cmp(x, y) > 0 THEN x ELSE y)
      [] f = "pair" -> Y(L(<<x, y>>))                                       \* \a, b -> [a, b]
      [] f = "lt" -> IF Cmp(x, y) = 2 THEN N ELSE Y(B01(Cmp(x, y) < 0))     \* <
      [] f = "eq" -> Y(B01(x = y))                                          \* ==
      [] f = "cmp" -> IF Cmp(x, y) = 2 THEN N ELSE Y(I(Cmp(x, y)))          \* <=>
      [] f = "rcmp" -> IF Cmp(x, y) = 2 THEN N ELSE Y(I(-Cmp(x, y)))        \* >=<

Idx(xs) == 1..Len(xs)
AllOk1(f, xs) == \A j \in Idx(xs) : App1(f, xs[j]).ok
Map1(f, xs) == [j \in Idx(xs) |-> App1(f, xs[j]).v]
Holds(p, x) == Truthy(App1(p, x).v)
Pick(xs, js) == [h \in 1..Len(js) |-> xs[js[h]]]
Where(xs, T(_)) == SelectSeq([j \in Idx(xs) |-> j], T)
\* first position where predicate p throws or has truth value `want`; 0 if there is none
\* (the functions with early exit never look beyond it)
FirstStop(p, xs, want) ==
    LET js == {j \in Idx(xs) : ~App1(p, xs[j]).ok \/ Holds(p, xs[j]) = want}
    IN IF js = {} THEN 0 ELSE Min(js)

(* ------------------------- map / filter family -------------------------- *)
\* map: (eagerly) the function over each element - always a list
LMap(f, xs) == IF AllOk1(f, xs) THEN ROk(L(Map1(f, xs))) ELSE RThrow
\* filter / reject: only the elements (not) satisfying the predicate, in order
LFilterSeq(p, xs, neg) == Pick(xs, Where(xs, LAMBDA j : Holds(p, xs[j]) # neg))
\* flatten: one level, producing a list; every element must itself be a sequence
ElemsOf(v) == CASE v.t = "l" -> Y(v.xs)
                [] v.t = "s" -> Y([j \in 1..Len(v.s) |-> S(SubSeq(v.s, j, j))])
                [] v.t = "v" -> Y(v.vs)
                [] v.t = "b" -> Y(v.bs)
                [] OTHER -> N
LFlatten(xs) == IF \A j \in Idx(xs) : ElemsOf(xs[j]).ok
                THEN ROk(L(FlattenSeq([j \in Idx(xs) |-> ElemsOf(xs[j]).v]))) ELSE RThrow
LFlatMap(f, xs) == IF AllOk1(f, xs) THEN LFlatten(Map1(f, xs)) ELSE RThrow
\* count: number of truthy elements / of elements satisfying the predicate / (transcribed) equal to a value
LCount(xs) == ROk(I(Cardinality({j \in Idx(xs) : Truthy(xs[j])})))
LCountP(p, xs) == IF AllOk1(p, xs) THEN ROk(I(Cardinality({j \in Idx(xs) : Holds(p, xs[j])}))) ELSE RThrow
LCountV(v, xs) == ROk(I(Cardinality({j \in Idx(xs) : xs[j] = v})))
\* any / all: 1 or 0, stop at the first deciding element
LAny(p, xs) == LET j == FirstStop(p, xs, TRUE)
               IN IF j = 0 THEN ROk(I(0)) ELSE IF App1(p, xs[j]).ok THEN ROk(I(1)) ELSE RThrow
LAll(p, xs) == LET j == FirstStop(p, xs, FALSE)
               IN IF j = 0 THEN ROk(I(1)) ELSE IF App1(p, xs[j]).ok THEN ROk(I(0)) ELSE RThrow
\* find / locate: first element (its index from 0) satisfying the predicate; soft: null instead of an error
LFindP(p, xs, soft, index) ==
    LET j == FirstStop(p, xs, TRUE)
    IN IF j = 0 THEN (IF soft THEN ROk(Nul) ELSE RThrow)
       ELSE IF ~App1(p, xs[j]).ok THEN RThrow
       ELSE ROk(IF index THEN I(j - 1) ELSE xs[j])
\* ... or equalling a value
LFindV(v, xs, soft, index) ==
    LET js == {j \in Idx(xs) : xs[j] = v}
    IN IF js = {} THEN (IF soft THEN ROk(Nul) ELSE RThrow)
       ELSE ROk(IF index THEN I(Min(js) - 1) ELSE xs[Min(js)])
\* take / drop while the predicate is satisfied
LTakeSeq(p, xs) == LET j == FirstStop(p, xs, FALSE) IN IF j = 0 THEN xs ELSE SubSeq(xs, 1, j - 1)
LDropSeq(p, xs) == LET j == FirstStop(p, xs, FALSE) IN IF j = 0 THEN <<>> ELSE SubSeq(xs, j, Len(xs))
TakeDropOk(p, xs) == LET j == FirstStop(p, xs, FALSE) IN j = 0 \/ App1(p, xs[j]).ok

(* -------------------------------- zipping ------------------------------- *)
ShortestLen(ss) == IF ss = <<>> THEN 0 ELSE Min({Len(ss[j]) : j \in 1..Len(ss)})
LongestLen(ss) == IF ss = <<>> THEN 0 ELSE Max({Len(ss[j]) : j \in 1..Len(ss)})
\* zip: rows of the i-th elements, as long as the shortest sequence
ZipRows(ss) == [i \in 1..ShortestLen(ss) |-> [j \in 1..Len(ss) |-> ss[j][i]]]
\* ziplongest: as long as the longest; a row holds the i-th elements of the sequences that have one
LongRows(ss) == [i \in 1..LongestLen(ss) |-> Pick([j \in 1..Len(ss) |-> ss[j][i]], Where(ss, LAMBDA j : Len(ss[j]) >= i))]
\* left fold of a non-empty row with a combiner
RECURSIVE FoldFrom(_, _, _, _)
FoldFrom(f, acc, xs, j) ==
    IF j > Len(xs) \/ ~acc.ok THEN acc ELSE FoldFrom(f, App2(f, acc.v, xs[j]), xs, j + 1)
Fold1(f, xs) == FoldFrom(f, Y(xs[1]), xs, 2)
\* zip with a function: the function gets all elements of a row (binary here)
LZipWith(f, a, b) ==
    LET rows == ZipRows(<<a, b>>)
        rs == [i \in 1..Len(rows) |-> App2(f, rows[i][1], rows[i][2])]
    IN IF \A i \in 1..Len(rs) : rs[i].ok THEN ROk(L([i \in 1..Len(rs) |-> rs[i].v])) ELSE RThrow
\* ziplongest with a function: each row is REDUCED with it, two elements at a time from the left
LZipLongestWith(f, ss) ==
    LET rows == LongRows(ss)
        rs == [i \in 1..Len(rows) |-> Fold1(f, rows[i])]
    IN IF \A i \in 1..Len(rs) : rs[i].ok THEN ROk(L([i \in 1..Len(rs) |-> rs[i].v])) ELSE RThrow
\* pairwise: zip a sequence with its own tail via a function
LPairwise(f, xs) ==
    LET rs == [i \in 1..(Len(xs) - 1) |-> App2(f, xs[i], xs[i + 1])]
    IN IF \A i \in 1..Len(rs) : rs[i].ok THEN ROk(L([i \in 1..Len(rs) |-> rs[i].v])) ELSE RThrow
\* transpose of a rectangular sequence of sequences (ragged input: left open)
LTranspose(rows) ==
    IF rows = <<>> THEN ROk(L(<<>>))
    ELSE IF ShortestLen(rows) # LongestLen(rows) THEN RUnspec
    ELSE ROk(L([i \in 1..Len(rows[1]) |-> L([j \in 1..Len(rows) |-> rows[j][i]])]))
\* enumerate: indexes counting from 0 zipped with the sequence
LEnumerate(xs) == ROk(L([j \in Idx(xs) |-> L(<<I(j - 1), xs[j]>>)]))

(* ---------------------------- folds and scans --------------------------- *)
\* fold: requires a non-empty sequence unless a starting value is given (from)
LFold(f, xs, z) ==      \* z: <<>> or <<start>>
    LET r == IF z = <<>> THEN Fold1(f, xs) ELSE FoldFrom(f, Y(z[1]), xs, 1)
    IN IF z = <<>> /\ xs = <<>> THEN RThrow ELSE IF r.ok THEN ROk(r.v) ELSE RThrow
\* scan: like fold, but all intermediate values (the start, or the first element, included)
LScan(f, xs, z) ==
    LET ys == z \o xs
        ps0 == [j \in 1..Len(ys) |-> FoldFrom(f, Y(ys[1]), SubSeq(ys, 1, j), 2)]
        ps == IF SeqMutation = "scan_no_seed" /\ z # <<>> THEN Tail(ps0) ELSE ps0
    IN IF \A j \in 1..Len(ps) : ps[j].ok THEN ROk(L([j \in 1..Len(ps) |-> ps[j].v])) ELSE RThrow
LSum(xs) == LFold("plus", xs, <<I(0)>>)
LProduct(xs) == IF \A j \in Idx(xs) : xs[j].t = "i"
                THEN ROk(I(FoldLeft(LAMBDA a, b : a * b, 1, [j \in Idx(xs) |-> xs[j].n]))) ELSE RThrow
Comparable(xs) == \A g, h \in Idx(xs) : Cmp(xs[g], xs[h]) # 2
\* min / max of a sequence: the first extremal element; empty or incomparable elements: error
LExtremum(xs, sign) ==
    IF xs = <<>> \/ ~Comparable(xs) THEN RThrow
    ELSE ROk(xs[Min({j \in Idx(xs) : \A h \in Idx(xs) : sign * Cmp(xs[h], xs[j]) >= 0})])

(* -------------------------------- sorting ------------------------------- *)
(* THE stable sorted arrangement under a three-valued comparison c(j, h) of  *)
(* positions: element j goes to place 1 + #smaller + #equal-and-earlier      *)
SortPos(n, c(_, _)) ==
    [j \in 1..n |-> 1 + Cardinality({h \in 1..n : c(h, j) < 0}) + Cardinality({h \in 1..(j - 1) : c(h, j) = 0})]
StableSort(xs, c(_, _)) ==
    LET pos == SortPos(Len(xs), c) IN [p \in Idx(xs) |-> xs[CHOOSE j \in Idx(xs) : pos[j] = p]]
LSortSeq(xs, sign) == StableSort(xs, LAMBDA g, h : sign * Cmp(xs[g], xs[h]))
\* sort_on: by key (Schwartzian), stable
LSortOnSeq(k, xs) == LET ks == Map1(k, xs) IN StableSort(xs, LAMBDA g, h : Cmp(ks[g], ks[h]))
IsOrdered(ys, sign) == \A j \in 1..(Len(ys) - 1) : sign * Cmp(ys[j], ys[j + 1]) <= 0
IsPermOf(ys, xs) == Len(ys) = Len(xs) /\ \A j \in Idx(xs) :
                       Cardinality({h \in Idx(xs) : xs[h] = xs[j]}) = Cardinality({h \in Idx(ys) : ys[h] = xs[j]})

(* --------------------------- unique and groups -------------------------- *)
\* unique: duplicates removed, elements ordered by their first appearance
LUniqueSeq(xs) == IF SeqMutation = "unique_last"
                  THEN Pick(xs, Where(xs, LAMBDA j : \A h \in (j + 1)..Len(xs) : xs[h] # xs[j]))
                  ELSE Pick(xs, Where(xs, LAMBDA j : \A h \in 1..(j - 1) : xs[h] # xs[j]))
\* group by a relation with the previous element: a new group starts where it does not hold
BreaksAfter(xs, R(_, _)) == {j \in 1..(Len(xs) - 1) : ~R(xs[j], xs[j + 1])}
GroupsAt(xs, brk) ==
    LET starts == SetToSortSeq({1} \cup {j + 1 : j \in brk}, <)
    IN IF xs = <<>> THEN <<>>
       ELSE [g \in 1..Len(starts) |->
               SubSeq(xs, starts[g], IF g < Len(starts) THEN starts[g + 1] - 1 ELSE Len(xs))]
LGroupEqSeqs(xs) == GroupsAt(xs, BreaksAfter(xs, LAMBDA a, b : a = b))
GroupByOk(f, xs) == \A j \in 1..(Len(xs) - 1) : App2(f, xs[j], xs[j + 1]).ok
LGroupBySeqs(f, xs) == GroupsAt(xs, BreaksAfter(xs, LAMBDA a, b : Truthy(App2(f, a, b).v)))
\* group n: chunks of n, the last one may be short
Ceil(a, b) == (a + b - 1) \div b
LChunks(xs, n) == [g \in 1..Ceil(Len(xs), n) |-> SubSeq(xs, (g - 1) * n + 1, IF g * n < Len(xs) THEN g * n ELSE Len(xs))]
\* group_all: like group, elements need not be adjacent - one group per key value, each in input
\* order; the order of the groups is left open (here: by first occurrence)
LGroupAllSeqs(k, xs) ==
    LET ks == Map1(k, xs)
        firsts == Where(xs, LAMBDA j : \A h \in 1..(j - 1) : ks[h] # ks[j])
    IN [g \in 1..Len(firsts) |-> Pick(xs, Where(xs, LAMBDA j : ks[j] = ks[firsts[g]]))]
\* window n: the slices of length n, in order
LWindows(xs, n) == [j \in 1..(IF Len(xs) - n + 1 > 0 THEN Len(xs) - n + 1 ELSE 0) |-> SubSeq(xs, j, j + n - 1)]
\* prefixes / suffixes by increasing length
LPrefixSeqs(xs) == [j \in 1..(Len(xs) + 1) |-> SubSeq(xs, 1, j - 1)]
LSuffixSeqs(xs) == [j \in 1..(Len(xs) + 1) |-> SubSeq(xs, Len(xs) - j + 2, Len(xs))]
\* frequencies: element -> how often it appears, default 0
LFrequencies(xs) ==
    LET u == LUniqueSeq(xs)
    IN ROk(Dc([j \in 1..Len(u) |-> <<u[j], I(Cardinality({h \in Idx(xs) : xs[h] = u[j]}))>>], <<I(0)>>))

(* ----------------------------- combinatorics ---------------------------- *)
\* Cartesian product of two sequences, row-major; Cartesian power
LProduct2(a, b) == [p \in 1..(Len(a) * Len(b)) |-> L(<<a[((p - 1) \div Len(b)) + 1], b[((p - 1) % Len(b)) + 1]>>)]
RECURSIVE PowerSeqs(_, _)
PowerSeqs(xs, n) == IF n = 0 THEN <<<<>>>>
                    ELSE LET r == PowerSeqs(xs, n - 1)
                         IN FlattenSeq([j \in Idx(xs) |-> [h \in 1..Len(r) |-> <<xs[j]>> \o r[h]]])
\* (transcribed order) permutations / combinations in lexicographic order of positions,
\* subsequences with the LAST element toggling fastest
RECURSIVE PermSeqs(_)
PermSeqs(xs) == IF xs = <<>> THEN <<<<>>>>
                ELSE FlattenSeq([j \in Idx(xs) |->
                        LET r == PermSeqs(RemoveAt(xs, j)) IN [h \in 1..Len(r) |-> <<xs[j]>> \o r[h]]])
RECURSIVE CombSeqs(_, _)
CombSeqs(xs, n) == IF n = 0 THEN <<<<>>>>
                   ELSE IF Len(xs) < n THEN <<>>
                   ELSE LET with == CombSeqs(Tail(xs), n - 1)
                        IN [h \in 1..Len(with) |-> <<Head(xs)>> \o with[h]] \o CombSeqs(Tail(xs), n)
RECURSIVE SubseqSeqs(_)
SubseqSeqs(xs) == IF xs = <<>> THEN <<<<>>>>
                  ELSE LET r == SubseqSeqs(Tail(xs)) IN r \o [h \in 1..Len(r) |-> <<Head(xs)>> \o r[h]]
ListOfLists(ss) == L([j \in 1..Len(ss) |-> L(ss[j])])

(* -------------------------------- strings ------------------------------- *)
RECURSIVE Concat(_)
Concat(strs) == IF strs = <<>> THEN "" ELSE Head(strs) \o Concat(Tail(strs))
Show(x) == CASE x.t = "i" -> ToString(x.n) [] x.t = "s" -> x.s
\* join: the elements (as displayed) joined by a string
LJoin(xs, sep) ==
    IF \E j \in Idx(xs) : xs[j].t \notin {"i", "s"} THEN RUnspec
    ELSE ROk(S(Concat([j \in 1..(2 * Len(xs) - 1) |-> IF j % 2 = 1 THEN Show(xs[(j + 1) \div 2]) ELSE sep])))
\* split a string (cs: its characters) by another, non-empty one: non-overlapping occurrences from the left
MatchAt(cs, sep, j) == j + Len(sep) - 1 <= Len(cs) /\ SubSeq(cs, j, j + Len(sep) - 1) = sep
RECURSIVE SplitSeqs(_, _)
SplitSeqs(cs, sep) ==
    LET hits == {j \in Idx(cs) : MatchAt(cs, sep, j)}
    IN IF hits = {} THEN <<cs>>
       ELSE <<SubSeq(cs, 1, Min(hits) - 1)>> \o SplitSeqs(SubSeq(cs, Min(hits) + Len(sep), Len(cs)), sep)
Chars(s) == [j \in 1..Len(s) |-> SubSeq(s, j, j)]
StrOf(cs) == S(Concat(cs))
LSplit(s, sep) == IF sep = "" THEN RUnspec
                  ELSE LET ps == SplitSeqs(Chars(s), Chars(sep)) IN ROk(L([j \in 1..Len(ps) |-> StrOf(ps[j])]))
\* words: split by runs of whitespace (no empty words); lines: split by newlines, a trailing newline is ignored
IsSpace(c) == c \in {" ", "\n", "\t"}
LWords(s) ==
    LET cs == Chars(s)
        starts == Where(cs, LAMBDA j : ~IsSpace(cs[j]) /\ (j = 1 \/ IsSpace(cs[j - 1])))
        endOf(j) == Min({h \in j..Len(cs) : h = Len(cs) \/ IsSpace(cs[h + 1])})
    IN ROk(L([g \in 1..Len(starts) |-> StrOf(SubSeq(cs, starts[g], endOf(starts[g])))]))
LLines(s) ==
    LET ps == SplitSeqs(Chars(s), <<"\n">>)
        qs == IF ps[Len(ps)] = <<>> THEN SubSeq(ps, 1, Len(ps) - 1) ELSE ps
    IN ROk(L([j \in 1..Len(qs) |-> StrOf(qs[j])]))

(* ---------------------------- kind preservation ------------------------- *)
(* "sequence of same type": list -> list, string -> string, vector ->      *)
(* vector, bytes -> bytes; a dictionary is treated as the list of its keys  *)
(* and a stream as the list of its elements                                 *)
Wrap(kind, xs) == CASE kind = "str" -> S(Concat([j \in Idx(xs) |-> xs[j].s]))
                    [] kind = "vec" -> Vc(xs)
                    [] kind = "bytes" -> By(xs)
                    [] OTHER -> L(xs)
WrapAll(kind, ss) == L([j \in 1..Len(ss) |-> Wrap(kind, ss[j])])
\* the value of the whole input, e.g. as an element of `x .. y`
Whole(kind, xs) == IF kind = "dict" THEN Dc([j \in Idx(xs) |-> <<xs[j], I(0)>>], <<>>) ELSE Wrap(kind, xs)

(* -------------------------------- dispatch ------------------------------ *)
(* par: [f |-> name from the family, n |-> integer, v |-> value,            *)
(*       o |-> elements of a second operand, s |-> separator string]        *)
Apply(fn, kind, xs, par) ==
    LET f == par.f  n == par.n  v == par.v  o == par.o
    IN CASE fn = "map" -> LMap(f, xs)
         [] fn = "filter" -> IF AllOk1(f, xs) THEN ROk(Wrap(kind, LFilterSeq(f, xs, FALSE))) ELSE RThrow
         [] fn = "reject" -> IF AllOk1(f, xs) THEN ROk(Wrap(kind, LFilterSeq(f, xs, TRUE))) ELSE RThrow
         \* partition: list of two sequences of same type, satisfying / the rest
         [] fn = "partition" -> IF AllOk1(f, xs)
                                THEN ROk(L(<<Wrap(kind, LFilterSeq(f, xs, FALSE)), Wrap(kind, LFilterSeq(f, xs, TRUE))>>))
                                ELSE RThrow
         [] fn = "flat_map" -> LFlatMap(f, xs)
         [] fn = "flatten" -> LFlatten(xs)
         \* each: call the function on each element (observed: the list of arguments it received)
         [] fn = "each" -> ROk(L(xs))
         [] fn = "count" -> LCount(xs)
         [] fn = "count_p" -> LCountP(f, xs)
         [] fn = "count_v" -> LCountV(v, xs)
         [] fn = "any" -> LAny("id", xs)
         [] fn = "all" -> LAll("id", xs)
         [] fn = "any_p" -> LAny(f, xs)
         [] fn = "all_p" -> LAll(f, xs)
         [] fn = "find" -> LFindP(f, xs, FALSE, FALSE)
         [] fn = "find?" -> LFindP(f, xs, TRUE, FALSE)
         [] fn = "locate" -> LFindP(f, xs, FALSE, TRUE)
         [] fn = "locate?" -> LFindP(f, xs, TRUE, TRUE)
         [] fn = "find_v" -> LFindV(v, xs, FALSE, FALSE)
         [] fn = "find?_v" -> LFindV(v, xs, TRUE, FALSE)
         [] fn = "locate_v" -> LFindV(v, xs, FALSE, TRUE)
         [] fn = "locate?_v" -> LFindV(v, xs, TRUE, TRUE)
         [] fn = "take" -> IF TakeDropOk(f, xs) THEN ROk(Wrap(kind, LTakeSeq(f, xs))) ELSE RThrow
         [] fn = "drop" -> IF TakeDropOk(f, xs) THEN ROk(Wrap(kind, LDropSeq(f, xs))) ELSE RThrow
         [] fn = "zip" -> ROk(ListOfLists(ZipRows(<<xs, o>>)))
         [] fn = "zip_with" -> LZipWith(f, xs, o)
         [] fn = "ziplongest" -> ROk(ListOfLists(LongRows(<<xs, o>>)))
         [] fn = "ziplongest_with" -> LZipLongestWith(f, <<xs, o>>)
         [] fn = "ziplongest3_with" -> LZipLongestWith(f, <<xs, o, <<I(100)>>>>)
         [] fn = "pairwise" -> LPairwise(f, xs)
         [] fn = "enumerate" -> LEnumerate(xs)
         [] fn = "fold" -> LFold(f, xs, <<>>)
         [] fn = "fold_from" -> LFold(f, xs, <<v>>)
         [] fn = "scan" -> LScan(f, xs, <<>>)
         [] fn = "scan_from" -> LScan(f, xs, <<v>>)
         [] fn = "sum" -> LSum(xs)
         [] fn = "product" -> LProduct(xs)
         [] fn = "min" -> LExtremum(xs, 1)
         [] fn = "max" -> LExtremum(xs, -1)
         [] fn = "sort" -> IF Len(xs) > 1 /\ ~Comparable(xs) THEN RThrow ELSE ROk(Wrap(kind, LSortSeq(xs, 1)))
         \* sort with a three-valued comparator ("cmp" is <=>, "rcmp" is >=<)
         [] fn = "sort_cmp" -> IF Len(xs) > 1 /\ ~Comparable(xs) THEN RThrow
                               ELSE ROk(Wrap(kind, LSortSeq(xs, IF f = "rcmp" THEN -1 ELSE 1)))
         [] fn = "sort_on" -> IF ~AllOk1(f, xs) \/ (Len(xs) > 1 /\ ~Comparable(Map1(f, xs))) THEN RThrow
                              ELSE ROk(Wrap(kind, LSortOnSeq(f, xs)))
         [] fn = "reverse" -> ROk(Wrap(kind, Reverse(xs)))
         [] fn = "unique" -> ROk(Wrap(kind, LUniqueSeq(xs)))
         [] fn = "group" -> ROk(WrapAll(kind, LGroupEqSeqs(xs)))
         [] fn = "group_by" -> IF GroupByOk(f, xs) THEN ROk(WrapAll(kind, LGroupBySeqs(f, xs))) ELSE RThrow
         \* group n / group' n: n must be positive; group' errors unless the length is divisible by n
         [] fn = "group_n" -> IF n <= 0 THEN RThrow ELSE ROk(WrapAll(kind, LChunks(xs, n)))
         [] fn = "group'_n" -> IF n <= 0 \/ Len(xs) % n # 0 THEN RThrow ELSE ROk(WrapAll(kind, LChunks(xs, n)))
         [] fn = "group_all" -> IF AllOk1(f, xs) THEN ROk(WrapAll(kind, LGroupAllSeqs(f, xs))) ELSE RThrow
         [] fn = "window" -> IF n <= 0 THEN RThrow ELSE ROk(WrapAll(kind, LWindows(xs, n)))
         [] fn = "prefixes" -> ROk(WrapAll(kind, LPrefixSeqs(xs)))
         [] fn = "suffixes" -> ROk(WrapAll(kind, LSuffixSeqs(xs)))
         [] fn = "frequencies" -> LFrequencies(xs)
         \* ++ : two lists or like sequences (list, vector, bytes with the same kind; anything else is left open)
         [] fn = "concat" -> IF kind \in {"list", "vec", "bytes"} THEN ROk(Wrap(kind, xs \o o)) ELSE RUnspec
         \* .+ / +. : prepend / append an element to a list; .. : a two-element list
         [] fn = "prepend" -> IF kind = "list" THEN ROk(L(<<v>> \o xs)) ELSE RUnspec
         [] fn = "append" -> IF kind = "list" THEN ROk(L(xs \o <<v>>)) ELSE RUnspec
         \* (a stream used as an ELEMENT stays a stream: outside this value universe)
         [] fn = "pair" -> IF kind = "stream" THEN RUnspec ELSE ROk(L(<<Whole(kind, xs), v>>))
         \* .* / *. : a list with n copies of something
         [] fn \in {"replicate", "replicate_r"} ->
                IF n < 0 \/ kind = "stream" THEN RUnspec ELSE ROk(L([j \in 1..n |-> Whole(kind, xs)]))
         \* seq ** n / n ** seq : the ELEMENTS of the sequence n times over, always as a list (nothing for n <= 0)
         [] fn \in {"repeat", "repeat_r"} ->
                ROk(L(IF n <= 0 \/ xs = <<>> THEN <<>> ELSE [j \in 1..(n * Len(xs)) |-> xs[((j - 1) % Len(xs)) + 1]]))
         [] fn = "product2" -> ROk(L(LProduct2(xs, o)))
         \* (the 0-th power of the EMPTY sequence: the documentation is silent, the implementation yields nothing
         \*  where the empty product would be one empty tuple - left open)
         [] fn = "power" -> IF n < 0 \/ (n = 0 /\ xs = <<>>) THEN RUnspec ELSE ROk(ListOfLists(PowerSeqs(xs, n)))
         [] fn = "permutations" -> ROk(ListOfLists(PermSeqs(xs)))
         [] fn = "combinations" -> IF n < 0 THEN RThrow ELSE ROk(ListOfLists(CombSeqs(xs, n)))
         [] fn = "subsequences" -> ROk(ListOfLists(SubseqSeqs(xs)))
         [] fn = "join" -> LJoin(xs, par.s)
         [] fn = "split" -> IF kind = "str" THEN LSplit(Concat([j \in Idx(xs) |-> xs[j].s]), par.s) ELSE RUnspec
         [] fn = "words" -> IF kind = "str" THEN LWords(Concat([j \in Idx(xs) |-> xs[j].s])) ELSE RUnspec
         [] fn = "lines" -> IF kind = "str" THEN LLines(Concat([j \in Idx(xs) |-> xs[j].s])) ELSE RUnspec
         \* flatten(xs group n) and transpose(xs group n): the library composed with itself
         [] fn = "flatten_group" -> IF n <= 0 THEN RThrow ELSE ROk(L(xs))
         [] fn = "transpose_group" -> IF n <= 0 THEN RThrow ELSE LTranspose(LChunks(xs, n))

(* the iteration order of a dictionary is not specified: every order of the  *)
(* keys gives an acceptable result                                           *)
Orders(kind, xs) == IF kind = "dict" THEN PermSeqs(xs) ELSE <<xs>>
Alts(fn, kind, xs, par) == LET os == Orders(kind, xs) IN [j \in 1..Len(os) |-> Apply(fn, kind, os[j], par)]
\* the result may list its groups / entries in any order
Unordered(fn) == fn \in {"group_all", "frequencies"}

(* ------------------------- self-checks of the spec ---------------------- *)
SortLaws(xs) == Comparable(xs) =>
    LET ys == LSortSeq(xs, 1)
    IN /\ IsOrdered(ys, 1) /\ IsPermOf(ys, xs)
       \* stable: elements that compare equal keep their input order (checked on position-tagged copies)
       /\ LET tagged == [j \in Idx(xs) |-> <<xs[j], j>>]
              st == StableSort(tagged, LAMBDA g, h : Cmp(xs[g], xs[h]))
          IN \A j \in 1..(Len(st) - 1) : Cmp(st[j][1], st[j + 1][1]) = 0 => st[j][2] < st[j + 1][2]
UniqueLaws(xs) == LET u == LUniqueSeq(xs)
                  IN LUniqueSeq(u) = u /\ ToSet(u) = ToSet(xs) /\ Len(u) = Cardinality(ToSet(xs))
GroupLaws(xs, n) == n > 0 =>
    /\ FlattenSeq(LChunks(xs, n)) = xs
    /\ \A g \in 1..(Len(LChunks(xs, n)) - 1) : Len(LChunks(xs, n)[g]) = n
WindowLaws(xs, n) == n > 0 =>
    /\ Len(LWindows(xs, n)) = (IF Len(xs) - n + 1 > 0 THEN Len(xs) - n + 1 ELSE 0)
    /\ \A j \in 1..Len(LWindows(xs, n)) : Len(LWindows(xs, n)[j]) = n
PrefixLaws(xs) == /\ Len(LPrefixSeqs(xs)) = Len(xs) + 1 /\ Len(LSuffixSeqs(xs)) = Len(xs) + 1
                  /\ \A j \in 1..(Len(xs) + 1) : LPrefixSeqs(xs)[j] \o LSuffixSeqs(xs)[Len(xs) + 2 - j] = xs
CombLaws(xs) == /\ Len(PermSeqs(xs)) = FoldLeft(LAMBDA a, b : a * b, 1, [j \in Idx(xs) |-> j])
                /\ Len(SubseqSeqs(xs)) = 2 ^ Len(xs)
                /\ \A k \in 0..Len(xs) : \A c \in ToSet(CombSeqs(xs, k)) : Len(c) = k
=============================================================================
