---------------------------- MODULE Trace_Apply ----------------------------
(***************************************************************************)
(* Trace validation for C04.  One event = one GROUP recorded from the real *)
(* interpreter: a global function f (every name bound to a function in the *)
(* global environment), an argument tuple drawn from all value kinds, and  *)
(* the outcome of EVERY application form the property names, evaluated in  *)
(* one session:                                                            *)
(*   f, ar (1, 2, 3), afunc (the first argument is itself a function),     *)
(*   fbfunc (the one-argument call f(b) succeeded and returned a function),*)
(*   forms = << [form, out ("ok" | "fail"), vid] >>   where vid identifies *)
(*   the canonical result value inside the group (equal canonical value    *)
(*   <=> equal vid).                                                       *)
(* The specification instantiates the dispatch model of Apply.tla with     *)
(* f = Prim(f, "pa2" if fbfunc else "opaque") - "one-argument calls are    *)
(* right sections" - computes the denotation of every logged form and      *)
(* requires every form whose denotation is the plain call Run(f, args) to  *)
(* have the same outcome as the explicit call f(args): equal value, or     *)
(* both fail.  The property's preconditions (a is not a function, f(b) is  *)
(* a function, f(a, b) succeeded) are read from the logged outcomes.  A    *)
(* form whose denotation is Unknown is not judged.                         *)
(***************************************************************************)
EXTENDS Apply, Json, IOUtils

Rec == ndJsonDeserialize(IOEnv.TRACE)
VARIABLE l

Entry(ev, form) == LET S == {j \in 1..Len(ev.forms) : ev.forms[j].form = form} IN ev.forms[CHOOSE j \in S : TRUE]
Has(ev, form) == \E j \in 1..Len(ev.forms) : ev.forms[j].form = form

Step(ev) ==
    LET f == Prim(ev.f, IF ev.fbfunc \/ Mutant = "rsec-always" THEN "pa2" ELSE "opaque")
        a == IF ev.afunc THEN Prim("#a", "opaque") ELSE Data(1)
        args == IF ev.ar = 1 THEN <<a>> ELSE IF ev.ar = 2 THEN <<a, Data(2)>> ELSE <<a, Data(2), Data(3)>>
        plain == Run(f, args)
        DenOf(form) == IF ev.ar = 1 THEN Den1(form, f, a)
                       ELSE IF ev.ar = 2 THEN Den2(form, f, a, Data(2))
                       ELSE Den3(form, f, a, Data(2), Data(3))
        ref == Entry(ev, "call")
        \* "whenever the two-argument call succeeds and f(b) is a function"
        Judged(form) == DenOf(form) = plain /\ (form = "rsec" => ref.out = "ok")
        Same(e) == e.out = ref.out /\ (e.out = "ok" => e.vid = ref.vid)
        bad == [j \in 1..Len(ev.forms) |->
                   IF Judged(ev.forms[j].form) /\ ~Same(ev.forms[j]) THEN ev.forms[j].form ELSE ""]
    IN IF \A j \in 1..Len(bad) : bad[j] = "" THEN TRUE
       ELSE PrintT("MISMATCH " \o ToJson([l |-> l, id |-> ev.id, exp |-> [disagree |-> bad, ref |-> ref]]))

Init == l = 1
Next == /\ l <= Len(Rec)
        /\ Step(Rec[l])
        /\ l' = l + 1
Done == l = Len(Rec) + 1 => PrintT("TRACE-END " \o ToString(Len(Rec)))
=============================================================================
