SPECIFICATION Spec
CONSTANT NKeys = 7
CONSTANT Depth = 4
CONSTANT MemoLen = 4
CONSTANT Mutation = "none"
CONSTANT ListLen = 3
INVARIANT RepInv
INVARIANT LenInv
INVARIANT LookupInv
INVARIANT ListInv
VIEW View
CHECK_DEADLOCK FALSE
