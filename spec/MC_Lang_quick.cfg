SPECIFICATION Spec
CONSTANT Depth = 3
INVARIANT Frame
INVARIANT Sane
VIEW View
CHECK_DEADLOCK FALSE
