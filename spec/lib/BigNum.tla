------------------------------ MODULE BigNum ------------------------------
(***************************************************************************)
(* Exact arithmetic on unbounded integers, rationals and dyadic numbers    *)
(* for TLC, whose native integers are 32 bit.                              *)
(*                                                                         *)
(* A natural is a little-endian sequence of limbs in base B = 2^10 without *)
(* a trailing zero limb (<<>> is 0).  The base is small so that a whole    *)
(* column of a schoolbook product (up to 2047 limb products < 2^20) fits   *)
(* a 32-bit integer.  A signed integer is [s |-> -1|0|1, m |-> natural].   *)
(* A rational is [n |-> integer, d |-> natural > 0] in lowest terms.       *)
(* A dyadic is an integer mantissa with a native exponent: m * 2^e.        *)
(*                                                                         *)
(* The module is self-checked by MC_BigNum against TLC's native arithmetic *)
(* and against algebraic laws before any other module relies on it.        *)
(***************************************************************************)
EXTENDS Integers, Sequences, Bitwise

B == 1024
BBits == 10

Max2(a, b) == IF a >= b THEN a ELSE b
Min2(a, b) == IF a <= b THEN a ELSE b

(* TLC passes operator arguments lazily; an accumulator that is only used   *)
(* at the end of a recursion becomes a chain of thunks whose forcing needs   *)
(* a Java stack quadratic in the operand length.  Every recursive operator   *)
(* below therefore tests its accumulators in the loop condition (`c < 0`,    *)
(* `Len(acc) < 0` are always false) purely to force them at each level.      *)
(* ------------------------------ naturals ------------------------------ *)
RECURSIVE NatNorm(_)
NatNorm(a) == IF a = <<>> THEN a
              ELSE IF a[Len(a)] = 0 THEN NatNorm(SubSeq(a, 1, Len(a) - 1)) ELSE a

Limb(a, i) == IF i >= 1 /\ i <= Len(a) THEN a[i] ELSE 0

RECURSIVE NatFromInt(_)
NatFromInt(n) == IF n = 0 THEN <<>> ELSE <<n % B>> \o NatFromInt(n \div B)

RECURSIVE NatToIntR(_, _)
NatToIntR(a, i) == IF i > Len(a) THEN 0 ELSE a[i] + B * NatToIntR(a, i + 1)
\* only meaningful when the value is < 2^30
NatFitsInt(a) == Len(a) <= 3
NatToInt(a) == NatToIntR(a, 1)

NatIsZero(a) == a = <<>>

RECURSIVE NatCmpR(_, _, _)
NatCmpR(a, b, i) == IF i = 0 THEN 0
                    ELSE IF a[i] < b[i] THEN -1
                    ELSE IF a[i] > b[i] THEN 1
                    ELSE NatCmpR(a, b, i - 1)
NatCmp(a, b) == IF Len(a) < Len(b) THEN -1
                ELSE IF Len(a) > Len(b) THEN 1
                ELSE NatCmpR(a, b, Len(a))

RECURSIVE NatAddR(_, _, _, _, _, _)
NatAddR(a, b, i, n, c, acc) ==
    IF i > n \/ c < 0 \/ Len(acc) < 0 THEN (IF c = 0 THEN acc ELSE Append(acc, c))
    ELSE LET s == Limb(a, i) + Limb(b, i) + c
         IN NatAddR(a, b, i + 1, n, s \div B, Append(acc, s % B))
NatAdd(a, b) == NatAddR(a, b, 1, Max2(Len(a), Len(b)), 0, <<>>)

\* requires a >= b
RECURSIVE NatSubR(_, _, _, _, _)
NatSubR(a, b, i, brw, acc) ==
    IF i > Len(a) \/ brw < 0 \/ Len(acc) < 0 THEN acc
    ELSE LET s == a[i] - Limb(b, i) - brw
         IN IF s < 0 THEN NatSubR(a, b, i + 1, 1, Append(acc, s + B))
                     ELSE NatSubR(a, b, i + 1, 0, Append(acc, s))
NatSub(a, b) == NatNorm(NatSubR(a, b, 1, 0, <<>>))

\* k < 2^20
RECURSIVE NatMulSmallR(_, _, _, _, _)
NatMulSmallR(a, k, i, c, acc) ==
    IF i > Len(a) \/ c < 0 \/ Len(acc) < 0
    THEN (IF c = 0 THEN acc ELSE NatMulSmallR(a, k, i, c \div B, Append(acc, c % B)))
    ELSE LET s == a[i] * k + c
         IN NatMulSmallR(a, k, i + 1, s \div B, Append(acc, s % B))
NatMulSmall(a, k) == IF k = 0 \/ a = <<>> THEN <<>> ELSE NatMulSmallR(a, k, 1, 0, <<>>)

\* schoolbook by columns: column k (1-based) = sum of a[i] * b[k - i + 1]
RECURSIVE ColSum(_, _, _, _, _, _)
ColSum(a, b, k, i, hi, acc) ==
    IF i > hi \/ acc < 0 THEN acc ELSE ColSum(a, b, k, i + 1, hi, acc + a[i] * b[k - i + 1])
RECURSIVE NatMulR(_, _, _, _, _, _)
NatMulR(a, b, k, n, c, acc) ==
    IF k > n \/ c < 0 \/ Len(acc) < 0
    THEN (IF c = 0 THEN acc ELSE NatMulR(a, b, k, n, c \div B, Append(acc, c % B)))
    ELSE LET lo == Max2(1, k - Len(b) + 1)
             hi == Min2(Len(a), k)
             s == ColSum(a, b, k, lo, hi, c)
         IN NatMulR(a, b, k + 1, n, s \div B, Append(acc, s % B))
NatMul(a, b) == IF a = <<>> \/ b = <<>> THEN <<>>
                ELSE IF Len(b) = 1 THEN NatMulSmall(a, b[1])
                ELSE IF Len(a) = 1 THEN NatMulSmall(b, a[1])
                ELSE NatNorm(NatMulR(a, b, 1, Len(a) + Len(b) - 1, 0, <<>>))

\* divide by a native k with 0 < k < 2^20; result <<quotient, remainder>>
RECURSIVE NatDivModSmallR(_, _, _, _, _)
NatDivModSmallR(a, k, i, r, acc) ==
    IF i = 0 \/ r < 0 \/ Len(acc) < 0 THEN <<NatNorm(acc), r>>
    ELSE LET cur == r * B + a[i]
         IN NatDivModSmallR(a, k, i - 1, cur % k, <<cur \div k>> \o acc)
NatDivModSmall(a, k) == NatDivModSmallR(a, k, Len(a), 0, <<>>)

NatShlLimbs(a, k) == IF a = <<>> THEN a ELSE [i \in 1..k |-> 0] \o a
NatShrLimbs(a, k) == IF k >= Len(a) THEN <<>> ELSE SubSeq(a, k + 1, Len(a))

Pow2Small(k) == CASE k = 0 -> 1 [] k = 1 -> 2 [] k = 2 -> 4 [] k = 3 -> 8 [] k = 4 -> 16
                  [] k = 5 -> 32 [] k = 6 -> 64 [] k = 7 -> 128 [] k = 8 -> 256 [] k = 9 -> 512
                  [] k = 10 -> 1024

NatShl(a, k) == NatShlLimbs(NatMulSmall(a, Pow2Small(k % BBits)), k \div BBits)
NatShr(a, k) == NatDivModSmall(NatShrLimbs(a, k \div BBits), Pow2Small(k % BBits))[1]
\* is any of the low k bits set?
RECURSIVE AnyNonZero(_, _, _)
AnyNonZero(a, i, hi) == IF i > hi THEN FALSE ELSE IF a[i] # 0 THEN TRUE ELSE AnyNonZero(a, i + 1, hi)
NatLowBitsNonZero(a, k) ==
    \/ AnyNonZero(a, 1, Min2(Len(a), k \div BBits))
    \/ Limb(a, k \div BBits + 1) % Pow2Small(k % BBits) # 0

\* number of significant bits
RECURSIVE BitLenSmall(_)
BitLenSmall(x) == IF x = 0 THEN 0 ELSE 1 + BitLenSmall(x \div 2)
NatBitLen(a) == IF a = <<>> THEN 0 ELSE (Len(a) - 1) * BBits + BitLenSmall(a[Len(a)])
NatIsOdd(a) == a # <<>> /\ a[1] % 2 = 1

(* long division, one limb of the dividend at a time; quotient digit from  *)
(* the top three limbs of the running remainder and the top two of b.      *)
Top3(r, nb) == Limb(r, nb + 1) * B * B + Limb(r, nb) * B + Limb(r, nb - 1)
Top2(b) == b[Len(b)] * B + b[Len(b) - 1]
RECURSIVE FixUp(_, _, _)
FixUp(rem, b, q) == IF q >= 0 /\ NatCmp(rem, b) >= 0 THEN FixUp(NatSub(rem, b), b, q + 1) ELSE <<q, rem>>
DivDigit(r, b) == \* r < b * B, Len(b) >= 2
    LET q0 == Top3(r, Len(b)) \div (Top2(b) + 1)
    IN FixUp(NatSub(r, NatMulSmall(b, q0)), b, q0)
RECURSIVE NatDivModR(_, _, _, _, _)
NatDivModR(a, b, i, r, acc) ==
    IF i = 0 \/ Len(r) < 0 \/ Len(acc) < 0 THEN <<NatNorm(acc), r>>
    ELSE LET cur == NatNorm(<<a[i]>> \o r)
             d == DivDigit(cur, b)
         IN NatDivModR(a, b, i - 1, d[2], <<d[1]>> \o acc)
\* b # 0; result <<quotient, remainder>>
NatDivMod(a, b) ==
    IF NatCmp(a, b) < 0 THEN <<(<<>>), a>>
    ELSE IF Len(b) = 1 THEN LET d == NatDivModSmall(a, b[1]) IN <<d[1], NatFromInt(d[2])>>
    ELSE NatDivModR(a, b, Len(a), <<>>, <<>>)

RECURSIVE NatGcd(_, _)
NatGcd(a, b) == IF b = <<>> THEN a ELSE NatGcd(b, NatDivMod(a, b)[2])

RECURSIVE NatPow(_, _)
NatPow(a, n) == IF n = 0 THEN <<1>>
                ELSE LET h == NatPow(a, n \div 2)
                         h2 == NatMul(h, h)
                     IN IF n % 2 = 1 THEN NatMul(h2, a) ELSE h2

\* limb-wise boolean operations on naturals
NatAnd(a, b) == NatNorm([i \in 1..Min2(Len(a), Len(b)) |-> a[i] & b[i]])
NatOr(a, b) == [i \in 1..Max2(Len(a), Len(b)) |-> Limb(a, i) | Limb(b, i)]
NatXor(a, b) == NatNorm([i \in 1..Max2(Len(a), Len(b)) |-> Limb(a, i) ^^ Limb(b, i)])
NatAndNot(a, b) == NatNorm([i \in 1..Len(a) |-> a[i] - (a[i] & Limb(b, i))])

\* Horner evaluation of a big-endian digit sequence in a small base, and its inverse
RECURSIVE NatFromDigitsR(_, _, _, _)
NatFromDigitsR(ds, base, i, acc) ==
    IF i > Len(ds) \/ Len(acc) < 0 THEN acc
    ELSE NatFromDigitsR(ds, base, i + 1, NatAdd(NatMulSmall(acc, base), NatFromInt(ds[i])))
NatFromDigits(ds, base) == NatFromDigitsR(ds, base, 1, <<>>)
RECURSIVE NatToDigitsR(_, _, _)
NatToDigitsR(a, base, acc) ==
    IF a = <<>> \/ Len(acc) < 0 THEN acc
    ELSE LET d == NatDivModSmall(a, base) IN NatToDigitsR(d[1], base, <<d[2]>> \o acc)
\* big-endian digits; zero is <<0>>
NatToDigits(a, base) == IF a = <<>> THEN <<0>> ELSE NatToDigitsR(a, base, <<>>)

(* ------------------------------ integers ------------------------------ *)
IntMk(s, m) == IF m = <<>> THEN [s |-> 0, m |-> <<>>] ELSE [s |-> s, m |-> m]
IntZero == [s |-> 0, m |-> <<>>]
IntOne == [s |-> 1, m |-> <<1>>]
IntFromInt(n) == IF n = 0 THEN IntZero
                 ELSE IF n > 0 THEN [s |-> 1, m |-> NatFromInt(n)]
                 ELSE [s |-> -1, m |-> NatFromInt(-n)]
IntFits(a) == NatFitsInt(a.m)
IntToInt(a) == a.s * NatToInt(a.m)
IntNeg(a) == [s |-> -a.s, m |-> a.m]
IntAbs(a) == [s |-> IF a.s = 0 THEN 0 ELSE 1, m |-> a.m]
IntSign(a) == a.s
IntCmp(a, b) ==
    IF a.s # b.s THEN (IF a.s < b.s THEN -1 ELSE 1)
    ELSE IF a.s = 0 THEN 0
    ELSE a.s * NatCmp(a.m, b.m)
IntEq(a, b) == a.s = b.s /\ a.m = b.m
IntAdd(a, b) ==
    IF a.s = 0 THEN b ELSE IF b.s = 0 THEN a
    ELSE IF a.s = b.s THEN [s |-> a.s, m |-> NatAdd(a.m, b.m)]
    ELSE LET c == NatCmp(a.m, b.m)
         IN IF c = 0 THEN IntZero
            ELSE IF c > 0 THEN [s |-> a.s, m |-> NatSub(a.m, b.m)]
            ELSE [s |-> b.s, m |-> NatSub(b.m, a.m)]
IntSub(a, b) == IntAdd(a, IntNeg(b))
IntMul(a, b) == IF a.s = 0 \/ b.s = 0 THEN IntZero ELSE [s |-> a.s * b.s, m |-> NatMul(a.m, b.m)]
\* truncating division (quotient toward zero, remainder has the dividend's sign); b # 0
IntDivRemTrunc(a, b) ==
    LET d == NatDivMod(a.m, b.m)
    IN <<IntMk(a.s * b.s, d[1]), IntMk(a.s, d[2])>>
\* flooring division (remainder has the divisor's sign); b # 0
IntDivModFloor(a, b) ==
    LET d == NatDivMod(a.m, b.m)
    IN IF a.s * b.s >= 0 \/ d[2] = <<>>
       THEN <<IntMk(a.s * b.s, d[1]), IntMk(b.s, d[2])>>
       ELSE <<IntMk(-1, NatAdd(d[1], <<1>>)), IntMk(b.s, NatSub(b.m, d[2]))>>
IntPow(a, n) == IF n = 0 THEN IntOne
                ELSE IntMk(IF a.s < 0 /\ n % 2 = 1 THEN -1 ELSE IF a.s = 0 THEN 0 ELSE 1, NatPow(a.m, n))
IntGcd(a, b) == IntMk(1, NatGcd(a.m, b.m))
IntIsOdd(a) == NatIsOdd(a.m)
\* ~a = -a - 1
IntNot(a) == IntSub(IntNeg(a), IntOne)
\* infinite two's complement via the complement of negative operands
IntAnd(a, b) ==
    LET na == IntNot(a).m  nb == IntNot(b).m
    IN IF a.s >= 0 /\ b.s >= 0 THEN IntMk(1, NatAnd(a.m, b.m))
       ELSE IF a.s >= 0 THEN IntMk(1, NatAndNot(a.m, nb))
       ELSE IF b.s >= 0 THEN IntMk(1, NatAndNot(b.m, na))
       ELSE IntNot(IntMk(1, NatNorm(NatOr(na, nb))))
IntOr(a, b) ==
    LET na == IntNot(a).m  nb == IntNot(b).m
    IN IF a.s >= 0 /\ b.s >= 0 THEN IntMk(1, NatNorm(NatOr(a.m, b.m)))
       ELSE IF a.s >= 0 THEN IntNot(IntMk(1, NatAndNot(nb, a.m)))
       ELSE IF b.s >= 0 THEN IntNot(IntMk(1, NatAndNot(na, b.m)))
       ELSE IntNot(IntMk(1, NatAnd(na, nb)))
IntXor(a, b) ==
    LET na == IntNot(a).m  nb == IntNot(b).m
    IN IF a.s >= 0 /\ b.s >= 0 THEN IntMk(1, NatXor(a.m, b.m))
       ELSE IF a.s >= 0 THEN IntNot(IntMk(1, NatXor(a.m, nb)))
       ELSE IF b.s >= 0 THEN IntNot(IntMk(1, NatXor(na, b.m)))
       ELSE IntMk(1, NatXor(na, nb))
\* exact multiplication by 2^k / floor division by 2^k, k a native natural
IntShl(a, k) == IntMk(a.s, NatShl(a.m, k))
IntShr(a, k) ==
    IF a.s >= 0 THEN IntMk(1, NatShr(a.m, k))
    ELSE LET q == NatShr(a.m, k)
         IN IntMk(-1, IF NatLowBitsNonZero(a.m, k) THEN NatAdd(q, <<1>>) ELSE q)

(* ------------------------------ rationals ----------------------------- *)
\* d a natural > 0
RatMk(n, d) == LET g == NatGcd(n.m, d)
               IN IF n.s = 0 THEN [n |-> IntZero, d |-> <<1>>]
                  ELSE [n |-> IntMk(n.s, NatDivMod(n.m, g)[1]), d |-> NatDivMod(d, g)[1]]
RatFromInt(a) == [n |-> a, d |-> <<1>>]
RatIsInt(q) == q.d = <<1>>
\* integer / integer, b # 0
RatDivInt(a, b) == RatMk(IntMk(a.s * b.s, a.m), b.m)
RatCmp(p, q) == IntCmp(IntMul(p.n, IntMk(1, q.d)), IntMul(q.n, IntMk(1, p.d)))
RatAdd(p, q) == RatMk(IntAdd(IntMul(p.n, IntMk(1, q.d)), IntMul(q.n, IntMk(1, p.d))), NatMul(p.d, q.d))
RatNeg(p) == [n |-> IntNeg(p.n), d |-> p.d]
RatSub(p, q) == RatAdd(p, RatNeg(q))
RatMul(p, q) == RatMk(IntMul(p.n, q.n), NatMul(p.d, q.d))
\* q # 0
RatDiv(p, q) == RatMk(IntMk(p.n.s * q.n.s, NatMul(p.n.m, q.d)), NatMul(p.d, q.n.m))
RatFloor(p) == IntDivModFloor(p.n, IntMk(1, p.d))[1]
RatCeil(p) == IntNeg(IntDivModFloor(IntNeg(p.n), IntMk(1, p.d))[1])
RatTrunc(p) == IntDivRemTrunc(p.n, IntMk(1, p.d))[1]
\* half away from zero
RatRound(p) ==
    LET f == RatFloor([n |-> IntAdd(IntMul(IntAbs(p.n), IntFromInt(2)), IntMk(1, p.d)), d |-> NatMulSmall(p.d, 2)])
    IN IF p.n.s >= 0 THEN f ELSE IntNeg(f)
RatPow(p, n) == [n |-> IntPow(p.n, n), d |-> NatPow(p.d, n)]

(* ------------------------------- dyadics ------------------------------ *)
\* the exact value m * 2^e (m an integer, e a native integer) as a rational
DyadToRat(m, e) == IF e >= 0 THEN RatFromInt(IntShl(m, e)) ELSE RatMk(m, NatShl(<<1>>, -e))
\* compare m * 2^e with the rational p exactly
DyadCmpRat(m, e, p) == RatCmp(DyadToRat(m, e), p)
=============================================================================
