SPECIFICATION Spec
INVARIANT FormsAgree
INVARIANT CaseAgrees
CHECK_DEADLOCK FALSE
