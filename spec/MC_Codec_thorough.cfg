SPECIFICATION Spec
CONSTANT N = 5000
CONSTANT Deep = TRUE
INVARIANT Laws
CHECK_DEADLOCK FALSE
