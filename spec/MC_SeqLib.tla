------------------------------ MODULE MC_SeqLib ------------------------------
(***************************************************************************)
(* C13, bounded model: every input sequence of length 0..MaxLen over a     *)
(* small alphabet (integers 1..3, strings "a" "b"; " " and newline for the *)
(* text functions) x every input kind (list, string, vector, bytes,        *)
(* dictionary keys, stream) x every function of the sequence library x     *)
(* every numeric parameter of {0, 1, 2, len, len+1} x every predicate /    *)
(* key / combiner of the named family.  One line per case:                 *)
(*   REPLAY {kind, xs, fn, par, alts: acceptable results, uno}             *)
(* (several acceptable results only for dictionaries, whose iteration      *)
(* order is open).  tools/c13.py evaluates the case in the interpreter.    *)
(* The invariants are the self-checks of the specification: sort output    *)
(* ordered + permutation + stable, unique idempotent, flatten . group n =  *)
(* identity, number and size of windows, prefixes ++ suffixes, counts of   *)
(* permutations / subsequences / combinations.                             *)
(***************************************************************************)
EXTENDS SeqLib, Json

CONSTANT MaxLen

Kinds == {"list", "str", "text", "vec", "bytes", "dict", "stream"}
Alphabet(kind) ==
    \* (0: the falsy, absorbing, neutral number)
    CASE kind \in {"list", "stream", "dict"} -> <<I(1), I(2), I(3), S("a"), S("b"), I(0)>>
      [] kind = "str" -> <<S("a"), S("b")>>
      [] kind = "text" -> <<S("a"), S(" "), S("\n")>>
      [] kind \in {"vec", "bytes"} -> <<I(1), I(2), I(3), I(0)>>
\* "text" inputs are strings, too
KindOf(kind) == IF kind = "text" THEN "str" ELSE kind

VARIABLES phase, vkind, vix
vars == <<phase, vkind, vix>>
\* vix: indices into the alphabet (a dictionary's keys are distinct: strictly increasing indices)
Xs == [j \in 1..Len(vix) |-> Alphabet(vkind)[vix[j]]]

Par0 == [f |-> "", n |-> 0, v |-> Nul, o |-> <<>>, s |-> ""]
PF(f) == [Par0 EXCEPT !.f = f]
PN(n) == [Par0 EXCEPT !.n = n]
PV(v) == [Par0 EXCEPT !.v = v]
Ten20 == <<I(10), I(20)>>
Ns == {0, 1, 2, Len(vix), Len(vix) + 1}
Preds == {"even", "lt2", "id", "isa"}
KeyFs == {"id", "mod2", "isa", "const0"}
Combs == {"plus", "max", "sub"}
Pow(b, e) == IF e = 0 THEN 1 ELSE FoldLeft(LAMBDA x, y : x * y, 1, [j \in 1..e |-> b])

Cases ==
    LET k == KindOf(vkind)
        len == Len(vix)
    IN {<<fn, PF(f)>> : fn \in {"filter", "reject", "partition", "count_p", "any_p", "all_p", "find", "find?",
                                "locate", "locate?", "take"}, f \in Preds}
       \* (drop with a predicate on a stream does not terminate in the implementation once the predicate
       \*  fails - a known C14 finding; it is not replayed here)
       \cup {<<"drop", PF(f)>> : f \in IF k = "stream" THEN {} ELSE Preds}
       \cup {<<fn, PF(f)>> : fn \in {"map", "sort_on", "group_all"}, f \in KeyFs}
       \cup {<<"flat_map", PF(f)>> : f \in {"dup", "id"}}
       \cup {<<fn, PF(f)>> : fn \in {"fold", "scan", "pairwise"}, f \in Combs}
       \cup {<<fn, [PF(f) EXCEPT !.v = I(10)]>> : fn \in {"fold_from", "scan_from"}, f \in Combs}
       \cup {<<fn, [PF(f) EXCEPT !.o = Ten20]>> : fn \in {"zip_with", "ziplongest_with", "ziplongest3_with"}, f \in Combs}
       \cup {<<"group_by", PF(f)>> : f \in {"lt", "eq"}}
       \cup {<<"sort_cmp", PF(f)>> : f \in {"cmp", "rcmp"}}
       \cup {<<fn, Par0>> : fn \in {"flatten", "each", "count", "any", "all", "enumerate", "sum", "product", "min",
                                   "max", "sort", "reverse", "unique", "group", "prefixes", "suffixes",
                                   "frequencies", "subsequences"}}
       \cup {<<"permutations", Par0>> : z \in IF len <= 4 THEN {0} ELSE {}}
       \cup {<<fn, PN(n)>> : fn \in {"group_n", "group'_n", "window", "replicate", "replicate_r", "repeat", "repeat_r", "combinations",
                                    "flatten_group", "transpose_group"}, n \in Ns}
       \cup {<<"power", PN(n)>> : n \in {m \in Ns : Pow(len, m) <= 40}}
       \cup {<<fn, PV(v)>> : fn \in {"count_v", "find_v", "find?_v", "locate_v", "locate?_v", "append", "prepend",
                                    "pair"}, v \in {I(1), S("a")}}
       \cup {<<fn, [Par0 EXCEPT !.o = Ten20]>> : fn \in {"zip", "ziplongest", "product2"}}
       \cup {<<"concat", [Par0 EXCEPT !.o = Xs]>>}
       \cup {<<"join", [Par0 EXCEPT !.s = s]>> : s \in {"", ","}}
       \cup {<<"split", [Par0 EXCEPT !.s = s]>> : s \in IF k = "str" THEN {"a", "ab", " "} ELSE {}}
       \cup {<<fn, Par0>> : fn \in IF k = "str" THEN {"words", "lines"} ELSE {}}

Init == phase = "start" /\ vkind = "list" /\ vix = <<>>
PickKind == /\ phase = "start"
            /\ vkind' \in Kinds /\ phase' = "input" /\ UNCHANGED vix
PickElem == /\ phase = "input" /\ Len(vix) < MaxLen
            /\ \E i \in 1..Len(Alphabet(vkind)) :
                 /\ IF vkind = "dict" /\ vix # <<>> THEN vix[Len(vix)] < i ELSE TRUE
                 /\ vix' = Append(vix, i)
            /\ UNCHANGED <<phase, vkind>>
ApplyAll == /\ phase = "input"
            /\ \E c \in Cases :
                 PrintT("REPLAY " \o ToJson([kind |-> vkind, xs |-> Xs, fn |-> c[1], par |-> c[2],
                                             alts |-> Alts(c[1], KindOf(vkind), Xs, c[2]), uno |-> Unordered(c[1])]))
            /\ phase' = "done" /\ UNCHANGED <<vkind, vix>>
Next == PickKind \/ PickElem \/ ApplyAll
Spec == Init /\ [][Next]_vars

Laws == phase = "input" =>
    /\ SortLaws(Xs) /\ UniqueLaws(Xs) /\ PrefixLaws(Xs)
    /\ \A n \in Ns : GroupLaws(Xs, n) /\ WindowLaws(Xs, n)
    /\ Len(vix) <= 4 => CombLaws(Xs)
=============================================================================
