SPECIFICATION Spec
CONSTANT RNeg = 2
CONSTANT RPos = 3
CONSTANT SMax = 3
CONSTANT MaxBase = 4
CONSTANT MaxPerm = 4
CONSTANT MaxPow = 3
CONSTANT MaxDropInf = 3
INVARIANT Coherent
INVARIANT ObsDefined
CHECK_DEADLOCK FALSE
