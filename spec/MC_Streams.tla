----------------------------- MODULE MC_Streams -----------------------------
(***************************************************************************)
(* C11, bounded model.  TLC enumerates every stream constructor with all    *)
(* small parameter combinations and, by the action Advance (one `next`),    *)
(* every cursor position reachable by dropping a prefix.  At every such     *)
(* state it checks                                                          *)
(*   DeclAgreesOp  the cursor machine yields exactly the declarative        *)
(*                 denotation of what is still to come                      *)
(*   LenAgrees     the closed-form length equals the number of elements     *)
(*                 iteration yields                                         *)
(*   NextAgrees    one step is head / tail of the denotation                *)
(*   InfAgrees     infinite streams: prefixes obey the defining recurrence  *)
(* and prints (action ObserveAll, which changes nothing: observing a stream    *)
(* has no post-state) the expected result of every observation of that      *)
(* state together with the ordered pairs of observations to be exercised    *)
(* on one and the same variable.  tools/c11mc.py replays them.              *)
(***************************************************************************)
EXTENDS Streams, Json

CONSTANTS RNeg, RPos,     \* range bounds a, b in -RNeg..RPos
          SMax,           \* range steps in -SMax..SMax
          MaxBase,        \* base lists of length 0..MaxBase (combinations, subsequences, wrapped)
          MaxPerm,        \* permutations of 1..MaxPerm elements
          MaxPow,         \* cartesian powers: base 0..MaxPow, exponent 0..MaxPow
          MaxDropInf      \* drop positions explored on infinite streams

RVals == (-RNeg)..RPos
RSteps == (-SMax)..SMax
Nat2Big(x) == IntFromInt(x)
Base(n) == [j \in 1..n |-> VInt(j)]
Pow2(e) == IntMk(1, NatShl(<<1>>, e))

RangeCtors == {[c |-> kd, a |-> Nat2Big(x), b |-> Nat2Big(y), s |-> Nat2Big(z)] :
                  kd \in {"til", "to"}, x \in RVals, y \in RVals, z \in RSteps}
\* around +-2^63, both directions
BigRangeCtors ==
    {[c |-> kd, a |-> IntAdd(w, Nat2Big(x)), b |-> IntAdd(w, Nat2Big(y)), s |-> Nat2Big(z)] :
        kd \in {"til", "to"}, w \in {Pow2(63), IntNeg(Pow2(63))}, x \in {-2, 1}, y \in {-2, 2}, z \in {-2, -1, 1, 3}}
CombCtors == {[c |-> "permutations", xs |-> Base(n)] : n \in 1..MaxPerm}
             \cup {[c |-> "permutations", xs |-> <<VInt(5), VInt(5), VInt(6)>>]}
             \cup {[c |-> "combinations", xs |-> Base(n), k |-> k] : n \in 0..MaxBase, k \in 0..(MaxBase + 1)}
             \cup {[c |-> "subsequences", xs |-> Base(n)] : n \in 0..MaxBase}
             \cup {[c |-> "cpow", xs |-> Base(n), k |-> k] : n \in 0..MaxPow, k \in 0..MaxPow}
             \cup {[c |-> "wrapped", xs |-> Base(n)] : n \in 0..MaxBase}
Til(x, y, z) == [c |-> "til", a |-> Nat2Big(x), b |-> Nat2Big(y), s |-> Nat2Big(z)]
To(x, y, z) == [c |-> "to", a |-> Nat2Big(x), b |-> Nat2Big(y), s |-> Nat2Big(z)]
SmallSrc == {Til(0, n, 1) : n \in 0..4} \cup {To(5, 1, -2), Til(-3, 4, 2), [c |-> "wrapped", xs |-> Base(3)]}
IotaC(x) == [c |-> "iota", a |-> Nat2Big(x)]
LazyCtors ==
    {[c |-> "map", f |-> f, src |-> src] : f \in {"inc", "dbl", "sq"}, src \in SmallSrc}
    \cup {[c |-> "filter", f |-> f, src |-> src] : f \in {"even", "odd", "lt3", "false"}, src \in SmallSrc}
    \cup {[c |-> "zip", f |-> f, srcs |-> <<s1, s2>>] :
             f \in {"none", "+"}, s1 \in {Til(0, 3, 1), Til(1, 1, 1), To(5, 1, -2)}, s2 \in {Til(0, 2, 1), To(1, 4, 1), IotaC(7)}}
    \cup {[c |-> "zip", f |-> "none", srcs |-> <<Til(0, 4, 1), To(9, 1, -1), Til(2, 5, 1)>>],
          [c |-> "map", f |-> "inc", src |-> [c |-> "filter", f |-> "even", src |-> Til(0, 6, 1)]],
          [c |-> "filter", f |-> "lt3", src |-> [c |-> "map", f |-> "half", src |-> To(-2, 9, 1)]],
          [c |-> "map", f |-> "neg", src |-> [c |-> "map", f |-> "sq", src |-> To(-2, 2, 1)]],
          [c |-> "zip", f |-> "+", srcs |-> <<[c |-> "map", f |-> "dbl", src |-> Til(0, 3, 1)],
                                              [c |-> "filter", f |-> "odd", src |-> Til(0, 9, 1)]>>]}
InfCtors ==
    {[c |-> "repeat", x |-> VInt(7)], [c |-> "repeat", x |-> VList(<<VInt(1)>>)],
     [c |-> "iterate", x |-> VInt(1), f |-> "dbl"], [c |-> "iterate", x |-> VInt(0), f |-> "inc"],
     [c |-> "iterate", x |-> VInt(3), f |-> "neg"],
     IotaC(-1), IotaC(0), [c |-> "iota", a |-> IntSub(Pow2(63), Nat2Big(2))],
     Til(1, 5, 0), To(2, 2, 0),
     [c |-> "map", f |-> "sq", src |-> IotaC(0)],
     [c |-> "zip", f |-> "none", srcs |-> <<IotaC(1), [c |-> "cycle", xs |-> Base(2)]>>],
     [c |-> "zip", f |-> "+", srcs |-> <<IotaC(1), [c |-> "iterate", x |-> VInt(1), f |-> "dbl"]>>]}
    \cup {[c |-> "cycle", xs |-> Base(n)] : n \in 1..3}
Ctors == RangeCtors \cup BigRangeCtors \cup CombCtors \cup LazyCtors \cup InfCtors

VARIABLES vctor, vk, vst, vxs
vars == <<vctor, vk, vst, vxs>>

Cache(st) == IF IsFinite(st) THEN Elems(st) ELSE <<>>
Init == /\ vctor \in Ctors
        /\ vk = 0
        /\ vst = Make(vctor)
        /\ vxs = Cache(vst)
\* one `next`: the drop position grows by one
Advance == /\ (IsFinite(vst) \/ vk < MaxDropInf)
           /\ LET h == StepS(vst)
              IN /\ h.some
                 /\ vst' = h.nx
                 /\ vxs' = Cache(h.nx)
           /\ vk' = vk + 1
           /\ UNCHANGED vctor

(* -------------------------- observations ------------------------------- *)
Ob(o) == [o |-> o, a1 |-> IxOmit, a2 |-> IxOmit, x |-> VNull]
ObI(o, p) == [o |-> o, a1 |-> IxN(p), a2 |-> IxOmit, x |-> VNull]
ObS(p, q) == [o |-> "slice", a1 |-> p, a2 |-> q, x |-> VNull]
ObIn(x) == [o |-> "in", a1 |-> IxOmit, a2 |-> IxOmit, x |-> x]
Absent == VInt(-777)
SetToSeq(S) == LET RECURSIVE T(_)
                   T(R) == IF R = {} THEN <<>> ELSE LET x == CHOOSE y \in R : TRUE IN <<x>> \o T(R \ {x})
               IN T(S)
\* the observations whose mutual orders are exercised come first (PairCount of them)
FinPairObs(n) == <<Ob("len"), Ob("list"), ObI("index", -1), ObS(IxN(1), IxOmit), ObS(IxOmit, IxN(-1)),
                   Ob("reverse"), Ob("last"), ObIn(IF n > 0 THEN vxs[n] ELSE Absent), Ob("for"), Ob("unpack"),
                   Ob("first"), Ob("truthy")>>
FinObs(n) ==
    FinPairObs(n)
    \o <<Ob("splat"), Ob("second"), Ob("tail"), Ob("butlast"), Ob("uncons"), Ob("unsnoc"), Ob("only"),
         Ob("unpack2"), ObIn(Absent), ObIn(IF n > 0 THEN vxs[1] ELSE VList(<<>>))>>
    \o SetToSeq({ObI("index", p) : p \in {-n - 1, -n, -2, 0, 1, 2, n - 1, n}})
    \o SetToSeq({ObI(o, p) : o \in {"take", "drop"}, p \in {-1, 0, 1, n, n + 1}})
    \o SetToSeq({ObS(p, q) : p \in {IxOmit, IxN(0), IxN(2), IxN(-2), IxN(n)},
                             q \in {IxOmit, IxN(0), IxN(1), IxN(-1), IxN(n + 1)}} \ {ObS(IxOmit, IxN(-1))})
InfPairObs == <<Ob("len"), ObI("index", 3), ObS(IxN(1), IxN(5)), Ob("first"), ObI("take", 3),
                [o |-> "dropindex", a1 |-> IxN(2), a2 |-> IxN(1), x |-> VNull], Ob("truthy")>>
InfObs ==
    InfPairObs
    \o <<Ob("second")>>
    \o SetToSeq({ObI("index", p) : p \in {0, 1, 2, 5}})
    \o SetToSeq({ObS(p, q) : p \in {IxOmit, IxN(0), IxN(3)}, q \in {IxN(0), IxN(2), IxN(4)}})
    \o SetToSeq({[o |-> "dropindex", a1 |-> IxN(p), a2 |-> IxN(q), x |-> VNull] : p \in {0, 3}, q \in {0, 2}})
    \o <<ObI("take", 0)>>

WithExp(obs, Exp(_)) == [j \in 1..Len(obs) |-> [ob |-> obs[j], exp |-> Exp(obs[j])]]
\* observing changes nothing
ObserveAll ==
    /\ LET fin == IsFinite(vst)
           obs == IF fin THEN FinObs(Len(vxs)) ELSE InfObs
           np == IF fin THEN Len(FinPairObs(0)) ELSE Len(InfPairObs)
           ExpFin(ob) == ObserveOn(vxs, ob)
           ExpInf(ob) == ObserveInf(vst, ob)
       IN PrintT("REPLAY " \o ToJson([ctor |-> vctor, k |-> vk, fin |-> fin, n |-> Len(vxs),
                                      obs |-> IF fin THEN WithExp(obs, ExpFin) ELSE WithExp(obs, ExpInf),
                                      pairs |-> SetToSeq({<<p, q>> : p \in 1..np, q \in 1..np})]))
    /\ UNCHANGED vars

Next == Advance \/ ObserveAll
Spec == Init /\ [][Next]_vars

Coherent ==
    /\ DeclAgreesOp(vst)
    /\ LenAgrees(vst)
    /\ NextAgrees(vst)
    /\ InfAgrees(vst, 7)
    /\ IsFinite(vst) => vxs = ForceOp(vst)
\* every observation is defined (never unspecified) on the states enumerated here
ObsDefined ==
    IF IsFinite(vst) THEN \A j \in 1..Len(FinObs(Len(vxs))) :
                             ObserveOn(vxs, FinObs(Len(vxs))[j]).out # "unspec"
                             \/ (FinObs(Len(vxs))[j].o = "unpack" /\ Len(vxs) < 2)
    ELSE \A j \in 1..Len(InfObs) : ObserveInf(vst, InfObs[j]).out # "unspec"
                                    \/ (InfObs[j].o \in {"len", "truthy"} /\ vst.ty \in {"map", "zip"})
=============================================================================
