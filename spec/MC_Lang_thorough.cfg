SPECIFICATION Spec
CONSTANT Depth = 4
INVARIANT Frame
INVARIANT Sane
VIEW View
CHECK_DEADLOCK FALSE
