SPECIFICATION Spec
CONSTANT Which = "num2"
CONSTANT MaxLen = 5
INVARIANT Total
INVARIANT BoundedDispatch
INVARIANT PosOk
INVARIANT EndsInTokens
INVARIANT FinishExtends
INVARIANT FloatsRounded
PROPERTY Progress
PROPERTY TokensGrow
CHECK_DEADLOCK FALSE
