---------------------------- MODULE MC_BigNum ----------------------------
(* Self-check of lib/BigNum against TLC's native arithmetic (operands small *)
(* enough that native results fit 31 bits) and against algebraic laws on    *)
(* multi-limb operands.  One state per operand pair; every law is an        *)
(* invariant.                                                               *)
EXTENDS BigNum, TLC

Small == {0, 1, 2, 3, 7, 9, 10, 31, 32, 33, 100, 511, 512, 1023, 1024, 1025, 2047, 2048,
          4095, 12345, 32767, 32768, 32769, 40000, 46340}
Signed == Small \cup {-x : x \in Small}
\* multi-limb operands built without trusting the operations under test more than once
BigPool == <<NatPow(<<3>>, 40), NatAdd(NatPow(<<2>>, 64), <<1>>), NatSub(NatPow(<<2>>, 63), <<1>>),
             NatPow(<<7>>, 90), NatShl(<<1>>, 200), NatSub(NatShl(<<1>>, 130), <<1>>),
             NatFromDigits(<<1,2,3,4,5,6,7,8,9,0,1,2,3,4,5,6,7,8,9,0,1,2,3,4,5,6,7,8,9>>, 10),
             <<5>>, <<1023, 1023, 1023>>, <<0, 0, 1>>, <<1>>, NatPow(<<10>>, 30)>>
NB == Len(BigPool)

VARIABLES va, vb, vi, vj
vars == <<va, vb, vi, vj>>
\* one initial state; operands are chosen one per step so that TLC's workers share the work
Init == va = 0 /\ vb = 0 /\ vi = -2 /\ vj = -2
Next == \/ /\ vi = -2
           /\ \/ va' \in Signed /\ vi' = -1 /\ UNCHANGED <<vb, vj>>
              \/ vi' \in 1..NB /\ vj' = -1 /\ UNCHANGED <<va, vb>>
        \/ /\ vi = -1 /\ vb' \in Signed /\ vi' = 0 /\ vj' = 0 /\ UNCHANGED va
        \/ /\ vi > 0 /\ vj = -1 /\ vj' \in 1..NB /\ UNCHANGED <<va, vb, vi>>
Spec == Init /\ [][Next]_vars

A == IntFromInt(va)
Bb == IntFromInt(vb)
X == BigPool[vi]
Y == BigPool[vj]
Signs == {-1, 1}

NativeAgree == vi = 0 =>
    /\ IntToInt(A) = va
    /\ IntToInt(IntAdd(A, Bb)) = va + vb
    /\ IntToInt(IntSub(A, Bb)) = va - vb
    /\ IntToInt(IntMul(A, Bb)) = va * vb
    /\ IntCmp(A, Bb) = (IF va < vb THEN -1 ELSE IF va > vb THEN 1 ELSE 0)
    /\ vb # 0 => /\ IntToInt(IntDivModFloor(A, Bb)[1]) = va \div vb
                /\ (vb < 0 \/ IntToInt(IntDivModFloor(A, Bb)[2]) = va % vb)
                /\ LET qr == IntDivModFloor(A, Bb) IN
                     /\ IntToInt(qr[1]) * vb + IntToInt(qr[2]) = va
                     /\ (qr[2].s = 0 \/ qr[2].s = Bb.s)
                     /\ NatCmp(qr[2].m, Bb.m) < 0
                /\ LET qt == IntDivRemTrunc(A, Bb) IN
                     /\ IntToInt(qt[1]) * vb + IntToInt(qt[2]) = va
                     /\ (qt[2].s = 0 \/ qt[2].s = A.s)
                     /\ NatCmp(qt[2].m, Bb.m) < 0
    /\ (va >= 0 /\ vb >= 0) => /\ IntToInt(IntAnd(A, Bb)) = (va & vb)
                             /\ IntToInt(IntOr(A, Bb)) = (va | vb)
                             /\ IntToInt(IntXor(A, Bb)) = (va ^^ vb)
    /\ IntToInt(IntNot(A)) = -va - 1
    \* two's complement identities for mixed signs
    /\ IntEq(IntAdd(IntAnd(A, Bb), IntOr(A, Bb)), IntAdd(A, Bb))
    /\ IntEq(IntXor(A, Bb), IntSub(IntOr(A, Bb), IntAnd(A, Bb)))
    /\ IntEq(IntNot(IntAnd(A, Bb)), IntOr(IntNot(A), IntNot(Bb)))
    /\ IntEq(IntAnd(A, IntFromInt(-1)), A)
    /\ IntEq(IntOr(A, IntZero), A)
    /\ (va # 0 \/ vb # 0) => LET g == IntGcd(A, Bb) IN
          /\ g.s = 1
          /\ IntDivRemTrunc(A, g)[2].s = 0 /\ IntDivRemTrunc(Bb, g)[2].s = 0
          /\ IntGcd(IntDivRemTrunc(A, g)[1], IntDivRemTrunc(Bb, g)[1]) = IntOne
    /\ \A k \in {0, 1, 9, 10, 11, 25} :
          /\ IntEq(IntShr(IntShl(A, k), k), A)
          /\ IntEq(IntShl(A, k), IntMul(A, IntMk(1, NatPow(<<2>>, k))))
          /\ IntEq(IntShr(A, k), IntDivModFloor(A, IntMk(1, NatPow(<<2>>, k)))[1])
    /\ (vb >= 0 /\ vb <= 12 /\ va * va < 40000) =>
          IntEq(IntPow(A, vb), IF vb = 0 THEN IntOne ELSE IntMul(IntPow(A, vb - 1), A))
    /\ NatFromDigits(NatToDigits(A.m, 10), 10) = A.m
    /\ NatFromDigits(NatToDigits(A.m, 7), 7) = A.m

BigLaws == (vi > 0 /\ vj > 0) =>
    /\ NatSub(NatAdd(X, Y), Y) = X
    /\ NatCmp(NatAdd(X, Y), X) = 1
    /\ NatMul(X, Y) = NatMul(Y, X)
    /\ NatMul(X, NatAdd(Y, <<1>>)) = NatAdd(NatMul(X, Y), X)
    /\ LET d == NatDivMod(NatAdd(NatMul(X, Y), NatSub(Y, <<1>>)), Y)
       IN d[1] = X /\ d[2] = NatSub(Y, <<1>>)
    /\ LET d == NatDivMod(X, Y) IN NatAdd(NatMul(d[1], Y), d[2]) = X /\ NatCmp(d[2], Y) < 0
    /\ NatFromDigits(NatToDigits(X, 10), 10) = X
    /\ NatFromDigits(NatToDigits(X, 36), 36) = X
    /\ NatShr(NatShl(X, 37), 37) = X
    /\ NatShl(X, 23) = NatMul(X, NatPow(<<2>>, 23))
    /\ NatBitLen(NatShl(<<1>>, 77)) = 78
    /\ LET g == NatGcd(NatMul(X, Y), NatMul(X, NatAdd(Y, <<1>>))) IN g = X
    /\ \A sx \in Signs, sy \in Signs :
         LET p == IntMk(sx, X)  q == IntMk(sy, Y)  fl == IntDivModFloor(p, q)  tr == IntDivRemTrunc(p, q)
         IN /\ IntEq(IntAdd(IntMul(fl[1], q), fl[2]), p)
            /\ (fl[2].s = 0 \/ fl[2].s = q.s) /\ NatCmp(fl[2].m, q.m) < 0
            /\ IntEq(IntAdd(IntMul(tr[1], q), tr[2]), p)
            /\ (tr[2].s = 0 \/ tr[2].s = p.s) /\ NatCmp(tr[2].m, q.m) < 0
            /\ IntEq(IntAdd(IntAnd(p, q), IntOr(p, q)), IntAdd(p, q))
            /\ IntEq(IntXor(p, q), IntSub(IntOr(p, q), IntAnd(p, q)))
            /\ IntEq(IntNot(IntOr(p, q)), IntAnd(IntNot(p), IntNot(q)))
            /\ IntEq(IntXor(IntXor(p, q), q), p)
            /\ IntEq(IntShr(IntShl(p, 45), 45), p)
            /\ IntEq(IntShr(p, 33), IntDivModFloor(p, IntMk(1, NatPow(<<2>>, 33)))[1])
            /\ IntEq(IntSub(IntAdd(p, q), q), p)
            /\ IntCmp(p, q) = -IntCmp(q, p)
            /\ LET r == RatMk(p, Y) IN
                 /\ NatGcd(r.n.m, r.d) = <<1>>
                 /\ IntEq(IntMul(r.n, IntMk(1, Y)), IntMul(p, IntMk(1, r.d)))
                 /\ LET f == RatFloor(r) IN
                      /\ RatCmp(RatFromInt(f), r) <= 0
                      /\ RatCmp(RatFromInt(IntAdd(f, IntOne)), r) > 0
                 /\ RatCmp(RatSub(RatAdd(r, RatDivInt(q, p)), RatDivInt(q, p)), r) = 0
                 /\ RatCmp(RatDiv(RatMul(r, RatDivInt(q, p)), RatDivInt(q, p)), r) = 0
=============================================================================
