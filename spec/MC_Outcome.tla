------------------------------ MODULE MC_Outcome ------------------------------
(***************************************************************************)
(* C14, bounded model of the session protocol (Outcome.tla).               *)
(*                                                                         *)
(* TLC explores every session of MaxLen statements over the abstract       *)
(* statement alphabet Outcome!Stmts (value / assignment to xa or xb /      *)
(* failing statement naming any subset of {xa, xb} / top-level break /     *)
(* malformed text, each bare and wrapped in try-catch) and checks the      *)
(* protocol invariants OneOutcome, Containment, NoEscape,                  *)
(* OnlyThrowIsCaught, Transparent, Frame, Usable.                          *)
(*                                                                         *)
(* Every complete session is printed ("REPLAY {json}": the statements with *)
(* the outcome class, value and store the specification assigns after      *)
(* each); tools/c14.py renders each abstract statement by several concrete *)
(* noulith statements of that nature, runs the session in the real         *)
(* interpreter and compares outcome classes, values and the variables the  *)
(* frame condition fixes (store entries -1 are unconstrained).             *)
(***************************************************************************)
EXTENDS Outcome, Json, TLC

CONSTANT MaxLen

Init == OInit
Emit(h) == PrintT("REPLAY " \o ToJson([steps |-> h]))
\* (the REPLAY line is computed from the current state, never from primed variables)
Next == \/ /\ Len(hist) < MaxLen
           /\ \E s \in Stmts : Begin(s)
        \/ /\ Finish
           /\ IF phase = "evaluating" /\ Len(hist) + 1 = MaxLen THEN Emit(Append(hist, Completed)) ELSE TRUE
Spec == Init /\ [][Next]_ovars
=============================================================================
