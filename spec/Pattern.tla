------------------------------ MODULE Pattern ------------------------------
(***************************************************************************)
(* C12 -- patterns, destructuring, switch and runtime type annotations.    *)
(*                                                                         *)
(* Match(p, v, rt): binding value v to pattern p where rt is the declared  *)
(* type in force (anything for  :=, switch arms, lambda parameters, for    *)
(* clauses and catch; the annotation's type below an annotation).  The     *)
(* result is either the bindings, in binding order, each with the type the *)
(* name is declared with, or failure (the construct raises / the switch    *)
(* arm does not match).                                                    *)
(*                                                                         *)
(* Patterns (field k):                                                     *)
(*   var n | wild | lit v (literals and `literally e`: match by ==)        *)
(*   seq items delim   sequence pattern; delim = written with [ ]          *)
(*   splat p           only as an item:  ...p  takes the middle as a list  *)
(*   dflt p dv         only as an item:  (p = dv), bare  p = dv  in a       *)
(*                     lambda parameter list: takes dv when no value is    *)
(*                     left for it                                         *)
(*   or a b | and a b                                                      *)
(*   ann p T           p: T  (covers every name of p unless p is [..])     *)
(*   struct name items     Foo(a, b)                                       *)
(*   op o items        h .+ t | xs +. x | n + k | k + n | -x | a / b |     *)
(*                     a * k | k * a : invert the constructor              *)
(*   cmp ops items     1 < x < 9 : bind the non-literal slots, then the    *)
(*                     chain must hold                                     *)
(*                                                                         *)
(* The second half is the annotated-variable machine: vars[x] = [ty, val], *)
(* actions Assign / OpAssign / IndexAssign / EveryAssign / EveryOp / Swap  *)
(* / Destructure, each either completing (then the assigned variables      *)
(* satisfy their declared type) or raising; invariant Typed.               *)
(***************************************************************************)
EXTENDS Types, IOUtils

\* named specification mutant for the negative control (environment NV_SPEC_MUTANT)
Mutant == IF "NV_SPEC_MUTANT" \in DOMAIN IOEnv THEN IOEnv.NV_SPEC_MUTANT ELSE ""

(* ------------------------------ patterns ------------------------------- *)
PVar(n) == [k |-> "var", n |-> n]
PWild == [k |-> "wild"]
PLit(v) == [k |-> "lit", v |-> v]
PSeq(items, delim) == [k |-> "seq", items |-> items, delim |-> delim]
PSplat(p) == [k |-> "splat", p |-> p]
PDflt(p, dv) == [k |-> "dflt", p |-> p, dv |-> dv]
POr(a, b) == [k |-> "or", a |-> a, b |-> b]
PAnd(a, b) == [k |-> "and", a |-> a, b |-> b]
PAnn(p, T) == [k |-> "ann", p |-> p, ty |-> T]
PStruct(name, items) == [k |-> "struct", name |-> name, items |-> items]
POp(o, items) == [k |-> "op", o |-> o, items |-> items]
PCmp(ops, items) == [k |-> "cmp", ops |-> ops, items |-> items]

Fail == [ok |-> FALSE, u |-> FALSE, b |-> <<>>]
Unspec == [ok |-> FALSE, u |-> TRUE, b |-> <<>>]      \* the property does not say (not replayed)
Ok(b) == [ok |-> TRUE, u |-> FALSE, b |-> b]
Bind(n, v, T) == [n |-> n, v |-> v, ty |-> T]

\* what a sequence pattern sees of a value
Iterable(v) == v.t \in SeqKinds
Elems(v) ==
    CASE v.t \in {"list", "vec", "stream"} -> v.v
      [] v.t = "str" -> [j \in 1..Len(v.v) |-> Str(<<v.v[j]>>)]
      [] v.t = "bytes" -> [j \in 1..Len(v.v) |-> IntV(v.v[j])]
      [] v.t = "dict" -> v.ks
      [] OTHER -> <<>>

(* ------------- inverting constructors (operator patterns) -------------- *)
Inv(ok, vs) == [ok |-> ok, u |-> FALSE, vs |-> vs]
InvFail == Inv(FALSE, <<>>)
InvUnspec == [ok |-> FALSE, u |-> TRUE, vs |-> <<>>]
IsLitP(p) == p.k = "lit"
\* first element and the rest, of the same kind (uncons); last and the rest (unsnoc)
Uncons(v) ==
    IF v.t \notin {"list", "str", "vec", "bytes"} THEN (IF Iterable(v) THEN InvUnspec ELSE InvFail)
    ELSE IF Len(v.v) = 0 THEN InvFail
    ELSE Inv(TRUE, <<Elems(v)[1], [v EXCEPT !.v = Tail(v.v)]>>)
Unsnoc(v) ==
    IF v.t \notin {"list", "str", "vec", "bytes"} THEN (IF Iterable(v) THEN InvUnspec ELSE InvFail)
    ELSE IF Len(v.v) = 0 THEN InvFail
    ELSE Inv(TRUE, <<[v EXCEPT !.v = SubSeq(v.v, 1, Len(v.v) - 1)], Elems(v)[Len(v.v)]>>)
\* n + k / k + n with a literal k: the other operand is v - k and must not be negative
InvPlus(items, v) ==
    IF Len(items) # 2 THEN InvFail
    ELSE LET l1 == IsLitP(items[1])  l2 == IsLitP(items[2])
         IN IF l1 = l2 THEN InvFail
            ELSE LET kk == IF l1 THEN items[1].v ELSE items[2].v
                 IN IF ~IsNum(v) \/ ~IsNum(kk) THEN InvFail
                    ELSE IF v.t # "int" \/ kk.t # "int" THEN InvUnspec
                    ELSE IF v.i - kk.i < 0 THEN InvFail
                    ELSE IF l1 THEN Inv(TRUE, <<kk, IntV(v.i - kk.i)>>) ELSE Inv(TRUE, <<IntV(v.i - kk.i), kk>>)
InvTimes(items, v) ==
    IF Len(items) # 2 THEN InvFail
    ELSE LET l1 == IsLitP(items[1])  l2 == IsLitP(items[2])
         IN IF l1 = l2 THEN InvFail
            ELSE LET kk == IF l1 THEN items[1].v ELSE items[2].v
                 IN IF ~IsNum(v) \/ ~IsNum(kk) THEN InvFail
                    ELSE IF v.t # "int" \/ kk.t # "int" THEN InvUnspec
                    ELSE IF kk.i = 0 THEN InvFail                 \* nothing times 0 gives v... except 0: raise either way
                    ELSE IF kk.i < 0 THEN InvUnspec
                    ELSE IF v.i % kk.i # 0 THEN InvFail
                    ELSE IF l1 THEN Inv(TRUE, <<kk, IntV(v.i \div kk.i)>>) ELSE Inv(TRUE, <<IntV(v.i \div kk.i), kk>>)
InvNeg(items, v) ==
    IF Len(items) # 1 THEN InvFail
    ELSE CASE v.t = "int" -> Inv(TRUE, <<IntV(-v.i)>>)
           [] v.t \in {"rat", "float"} -> Inv(TRUE, <<[v EXCEPT !.n = -v.n]>>)
           [] v.t \in {"complex", "vec"} -> InvUnspec
           [] OTHER -> InvFail
InvDiv(items, v) ==
    CASE v.t = "int" -> Inv(TRUE, <<v, IntV(1)>>)
      [] v.t = "rat" -> Inv(TRUE, <<IntV(v.n), IntV(v.d)>>)
      [] v.t \in {"float", "complex"} -> InvFail
      [] OTHER -> InvFail
Invert(o, items, v) ==
    CASE o = ".+" -> Uncons(v)
      [] o = "+." -> Unsnoc(v)
      [] o = "+" -> InvPlus(items, v)
      [] o = "*" -> InvTimes(items, v)
      [] o = "-" -> InvNeg(items, v)
      [] o = "/" -> InvDiv(items, v)
      [] OTHER -> InvUnspec

\* comparison chains: fill the non-literal slots, then every link must hold
CmpHolds(o, x, y) ==
    CASE o = "<" -> NumLt(x, y)
      [] o = "<=" -> ~NumLt(y, x)
      [] o = ">" -> NumLt(y, x)
      [] o = ">=" -> ~NumLt(x, y)
      [] o = "==" -> NumEq(x, y)
      [] o = "!=" -> ~NumEq(x, y)
      [] OTHER -> FALSE
RECURSIVE Fill(_, _)
Fill(items, vs) ==            \* literal items keep their value, the others take the next of vs
    IF Len(items) = 0 THEN <<>>
    ELSE IF IsLitP(Head(items)) THEN <<Head(items).v>> \o Fill(Tail(items), vs)
    ELSE <<Head(vs)>> \o Fill(Tail(items), Tail(vs))
InvCmp(ops, items, v) ==
    LET slots == Cardinality({j \in 1..Len(items) : ~IsLitP(items[j])})
        src == IF slots = 1 THEN <<v>> ELSE Elems(v)
    IN IF Len(ops) + 1 # Len(items) \/ slots = 0 THEN InvFail
       ELSE IF slots > 1 /\ ~Iterable(v) THEN InvFail
       ELSE IF Len(src) # slots THEN InvFail
       ELSE LET full == Fill(items, src)
            IN IF \E j \in 1..Len(full) : ~IsReal(full[j])
               THEN (IF \E j \in 1..Len(full) : full[j].t \in {"str", "list", "vec", "bytes", "complex"}
                     THEN InvUnspec ELSE InvFail)
               ELSE IF \A j \in 1..Len(ops) : CmpHolds(ops[j], full[j], full[j + 1])
               THEN Inv(TRUE, full) ELSE InvFail

(* ------------------------------- Match --------------------------------- *)
RECURSIVE Match(_, _, _), MatchAll(_, _, _), MatchSeq(_, _, _)

Join(r1, r2) == IF r1.u \/ (r1.ok /\ r2.u) THEN Unspec
                ELSE IF ~r1.ok \/ ~r2.ok THEN Fail
                ELSE Ok(r1.b \o r2.b)

\* items and values pairwise, left to right
MatchAll(items, vs, rt) ==
    IF Len(items) = 0 THEN Ok(<<>>)
    ELSE LET r == Match(Head(items), Head(vs), rt)
         IN IF ~r.ok THEN r ELSE Join(r, MatchAll(Tail(items), Tail(vs), rt))

\* a sequence of item patterns against a sequence of values: equal length, except that one
\* ...splat takes what the others leave, and trailing defaulted items may stay without a value.
\* Which defaults are used is decided from the number m of values alone: the defaulted item j
\* uses its default iff m does not exceed the number of NON-SPLAT items before it (no value is
\* left for its position); the defaults used are appended to the values, then the items before
\* the splat take the first values, the items after it the last ones, the splat the middle.
\*   \a, ...b, c = 5 :  (1) -> a=1 b=[] c=5 ;  (1, 2) -> a=1 b=[] c=2 ;  (1, 2, 3) -> a=1 b=[2] c=3
MatchSeq(items, vs, rt) ==
    LET n == Len(items)
        m == Len(vs)
        splats == {j \in 1..n : items[j].k = "splat"}
        si == IF splats = {} THEN 0 ELSE CHOOSE j \in splats : TRUE
        before(j) == (j - 1) - (IF si # 0 /\ si < j THEN 1 ELSE 0)     \* non-splat items before item j
        inplay == {j \in 1..n : items[j].k = "dflt" /\ m <= before(j)}
        dfl == [j \in 1..n |-> IF j \in inplay THEN <<items[j].dv>> ELSE <<>>]
        RECURSIVE Cat(_)
        Cat(j) == IF j > n THEN <<>> ELSE dfl[j] \o Cat(j + 1)
        vs2 == vs \o Cat(1)
        m2 == Len(vs2)
    IN IF Cardinality(splats) > 1 THEN Fail
       ELSE IF \E j \in 1..n : j \notin inplay /\ items[j].k # "splat" /\ \E j2 \in inplay : j2 < j THEN Fail
       ELSE IF si = 0 THEN (IF n = m2 THEN MatchAll(items, vs2, rt) ELSE Fail)
       ELSE IF m2 < n - 1 THEN Fail
       ELSE LET tail == n - si                                        \* items after the splat
                r1 == MatchAll(SubSeq(items, 1, si - 1), SubSeq(vs2, 1, si - 1), rt)
                r2 == Match(items[si].p, List(SubSeq(vs2, si, m2 - tail)), rt)
                r3 == MatchAll(SubSeq(items, si + 1, n), SubSeq(vs2, m2 - tail + 1, m2), rt)
            IN Join(r1, Join(r2, r3))

Match(p, v, rt) ==
    CASE p.k = "wild" -> IF IsType(rt, v) THEN Ok(<<>>) ELSE Fail
      [] p.k = "var" -> IF IsType(rt, v) THEN Ok(<<Bind(p.n, v, rt)>>) ELSE Fail
      [] p.k = "lit" -> IF ValEq(p.v, v) THEN Ok(<<>>) ELSE Fail
      [] p.k = "seq" ->
            IF p.delim /\ ~IsType(rt, v) THEN Fail
            ELSE IF ~Iterable(v) THEN Fail
            ELSE IF v.t = "dict" /\ Len(v.ks) > 1 THEN Unspec         \* iteration order of a dict
            ELSE MatchSeq(p.items, Elems(v), IF p.delim THEN TAny ELSE rt)
      [] p.k = "dflt" -> Match(p.p, v, rt)
      [] p.k = "splat" -> Fail                                        \* a bare splat is not a pattern
      [] p.k = "or" -> LET first == IF Mutant = "or-reversed" THEN p.b ELSE p.a       \* alternatives in order
                           second == IF Mutant = "or-reversed" THEN p.a ELSE p.b
                           r == Match(first, v, rt)
                       IN IF r.ok \/ r.u THEN r ELSE Match(second, v, rt)
      [] p.k = "and" -> Join(Match(p.a, v, rt), Match(p.b, v, rt))
      [] p.k = "ann" -> Match(p.p, v, p.ty)
      [] p.k = "struct" ->
            IF v.t = "inst" /\ v.name = p.name THEN MatchSeq(p.items, v.v, rt) ELSE Fail
      [] p.k = "op" ->
            LET d == Invert(p.o, p.items, v)
            IN IF d.u THEN Unspec
               ELSE IF ~d.ok \/ Len(d.vs) # Len(p.items) THEN Fail
               ELSE MatchSeq(p.items, d.vs, rt)
      [] p.k = "cmp" ->
            LET d == InvCmp(p.ops, p.items, v)
            IN IF d.u THEN Unspec ELSE IF ~d.ok THEN Fail ELSE MatchSeq(p.items, d.vs, rt)
      [] OTHER -> Unspec

\* switch: the first arm whose pattern matches (0 = none: the switch raises)
RECURSIVE FirstArm(_, _, _)
FirstArm(arms, v, j) ==
    IF j > Len(arms) THEN [arm |-> 0, r |-> Fail]
    ELSE LET r == Match(arms[j], v, TAny)
         IN IF r.u THEN [arm |-> -1, r |-> Unspec]
            ELSE IF r.ok THEN [arm |-> j, r |-> r]
            ELSE FirstArm(arms, v, j + 1)
Switch(arms, v) == FirstArm(arms, v, 1)

\* names a pattern binds, in order (for rendering and for the no-duplicates side condition)
RECURSIVE Names(_), NamesAll(_)
NamesAll(items) == IF Len(items) = 0 THEN <<>> ELSE Names(Head(items)) \o NamesAll(Tail(items))
Names(p) ==
    CASE p.k = "var" -> <<p.n>>
      [] p.k \in {"seq", "struct", "op", "cmp"} -> NamesAll(p.items)
      [] p.k \in {"splat", "dflt", "ann"} -> Names(p.p)
      [] p.k = "or" -> Names(p.a)             \* alternatives bind the same names
      [] p.k = "and" -> Names(p.a) \o Names(p.b)
      [] OTHER -> <<>>
\* every binding a successful match makes respects the declared type (checked by TLC)
BindingsTyped(r) == r.ok => \A j \in 1..Len(r.b) : IsType(r.b[j].ty, r.b[j].v)

(* -------------------- annotated variables as a machine ----------------- *)
(* vars[x] = [ty, val]; broken = variables left null by an operator        *)
(* assignment that raised (documented: the slot is null while the operator *)
(* runs and stays null if it raises) or changed by a late index check.     *)
VarNames == {"xa", "xb"}

NumNorm(n, d) == IF d = 2 /\ n % 2 = 0 THEN <<n \div 2, 1>> ELSE <<n, d>>
\* a + b on int / float operands (floats of the pool are multiples of 1/2)
NumAdd(x, y) ==
    IF x.t = "int" /\ y.t = "int" THEN IntV(x.i + y.i)
    ELSE LET fx == Frac(x)  fy == Frac(y)
             s == NumNorm(fx[1] * (2 \div fx[2]) + fy[1] * (2 \div fy[2]), 2)
         IN Flt(s[1], s[2])
\* the operators the machine uses: [ok, v]
ApplyOp(o, x, y) ==
    CASE o = "+" -> IF x.t \in {"int", "float"} /\ y.t \in {"int", "float"} THEN [ok |-> TRUE, v |-> NumAdd(x, y)]
                    ELSE IF IsNum(x) /\ IsNum(y) THEN [ok |-> FALSE, v |-> Null, u |-> TRUE]
                    ELSE IF x.t = "vec" \/ y.t = "vec" THEN [ok |-> FALSE, v |-> Null, u |-> TRUE]
                    ELSE [ok |-> FALSE, v |-> Null]
      [] o = "append" -> IF x.t = "list" THEN [ok |-> TRUE, v |-> List(Append(x.v, y))]
                         ELSE IF x.t \in {"vec", "bytes", "str", "stream", "dict"} THEN [ok |-> FALSE, v |-> Null, u |-> TRUE]
                         ELSE [ok |-> FALSE, v |-> Null]
      [] OTHER -> [ok |-> FALSE, v |-> Null, u |-> TRUE]
OpUnspec(r) == "u" \in DOMAIN r

Res(out, vs, br) == [out |-> out, vars |-> vs, broken |-> br]
SetVal(vs, x, w) == [vs EXCEPT ![x].val = w]

\* x = w   (and  every x = w)
DoAssign(vs, br, x, w) ==
    IF IsType(vs[x].ty, w) THEN Res("ok", SetVal(vs, x, w), br \ {x}) ELSE Res("raise", vs, br)
\* x o= w : the slot is dropped first; raises (operator or type check) leave it null
DoOpAssign(vs, br, x, o, w) ==
    LET r == ApplyOp(o, vs[x].val, w)
    IN IF OpUnspec(r) THEN Res("unspec", vs, br)
       ELSE IF r.ok /\ IsType(vs[x].ty, r.v) THEN Res("ok", SetVal(vs, x, r.v), br \ {x})
       ELSE Res("raise", SetVal(vs, x, Null), br \cup {x})
\* every x o= w : computed first, checked, then stored; a raise changes nothing
DoEveryOp(vs, br, x, o, w) ==
    LET r == ApplyOp(o, vs[x].val, w)
    IN IF OpUnspec(r) \/ vs[x].val.t \in SeqKinds THEN Res("unspec", vs, br)
       ELSE IF r.ok /\ IsType(vs[x].ty, r.v) THEN Res("ok", SetVal(vs, x, r.v), br \ {x})
       ELSE Res("raise", vs, br)
\* x[i] = w on a list value (0-based i); the declared type is checked after the update
DoIndexAssign(vs, br, x, i, w) ==
    LET cur == vs[x].val
    IN IF cur.t \in {"str", "vec", "bytes", "dict", "inst"} THEN Res("unspec", vs, br)
       \* a stream is forced into a list by the update (so a variable declared `stream` cannot keep it:
       \* the late check refuses); what a failing update leaves of the stream is not specified
       ELSE IF cur.t = "stream" /\ (i >= Len(cur.v) \/ i < -Len(cur.v)) THEN Res("unspec", vs, br)
       ELSE IF cur.t \notin {"list", "stream"} \/ i >= Len(cur.v) \/ i < -Len(cur.v) THEN Res("raise", vs, br)
       ELSE LET j == IF i < 0 THEN Len(cur.v) + i + 1 ELSE i + 1
                new == List([cur.v EXCEPT ![j] = w])
            IN IF IsType(vs[x].ty, new) THEN Res("ok", SetVal(vs, x, new), br \ {x})
               ELSE Res("raise", SetVal(vs, x, new), br \cup {x})     \* late check: the update happened
\* swap x, y : x takes y's value (checked), then y takes x's old value (checked)
DoSwap(vs, br, x, y) ==
    LET ox == vs[x].val  oy == vs[y].val
        r1 == DoAssign(vs, br, x, oy)
    IN IF r1.out # "ok" THEN r1 ELSE DoAssign(r1.vars, r1.broken, y, ox)
\* x, y = w1, w2 : left to right
DoDestructure(vs, br, x, y, w1, w2) ==
    LET r1 == DoAssign(vs, br, x, w1)
    IN IF r1.out # "ok" THEN r1 ELSE DoAssign(r1.vars, r1.broken, y, w2)

Act(k, x, y, o, i, w, w2) == [k |-> k, x |-> x, y |-> y, o |-> o, i |-> i, w |-> w, w2 |-> w2]
Apply(vs, br, a) ==
    CASE a.k = "assign" -> DoAssign(vs, br, a.x, a.w)
      [] a.k = "every" -> DoAssign(vs, br, a.x, a.w)
      [] a.k = "opassign" -> DoOpAssign(vs, br, a.x, a.o, a.w)
      [] a.k = "everyop" -> DoEveryOp(vs, br, a.x, a.o, a.w)
      [] a.k = "index" -> DoIndexAssign(vs, br, a.x, a.i, a.w)
      [] a.k = "swap" -> DoSwap(vs, br, a.x, a.y)
      [] a.k = "destructure" -> DoDestructure(vs, br, a.x, a.y, a.w, a.w2)

\* every variable that was not left broken by a raising statement satisfies its declared type
TypedState(vs, br) == \A x \in VarNames \ br : IsType(vs[x].ty, vs[x].val)
=============================================================================
