----------------------------- MODULE Trace_Codec -----------------------------
(***************************************************************************)
(* Trace validation for C16.  Each event logs the ARGUMENTS of a group of  *)
(* conversions evaluated in one interpreter session and everything the     *)
(* implementation produced: the intermediate text / bytes and the value    *)
(* read back.  The specification (Codec.tla) recomputes the encoding from  *)
(* the arguments alone and compares it with the logged text - it is an     *)
(* independent oracle for the encoding, not only for the round trip - and  *)
(* checks the inverse-pair law on the logged pair.                         *)
(*                                                                         *)
(*   int      n (rep S|B is an input dimension only)                       *)
(*            str $ print F"{n}" F"{n #d}" = decimal text;  #x #X #b #o    *)
(*            text;  int(str n) = n;  number(str n) = n                    *)
(*   radix    n, b:  str_radix(n, b) text;  int_radix(that, b) = n (n>=0)  *)
(*   iradix   s, b:  int_radix(s, b)                                       *)
(*   ipars    s:     int(s)                                                *)
(*   rat      s:     rational(s)                                           *)
(*   bytes    b:     hex / base64 text and decodes, utf8_decode outcome    *)
(*            and value, utf8_encode of it, decompress(compress b)         *)
(*   hexdec / b64dec   s: decoding of arbitrary text                       *)
(*   str      s:     utf8_encode bytes and decode, chr o ord per code point*)
(*   chr      n:     chr(n) outcome and value, ord of it                   *)
(*   json     v:     json_encode text (read by JsonParse), json_decode of   *)
(*            it, the text evaluated as a Noulith literal (when it is in   *)
(*            literal syntax and the strings are printable), repr text     *)
(*            (read by LitParse), eval of it                               *)
(* Outcomes are ok / throw (any other outcome is a mismatch); a field that *)
(* could not be observed carries out # "ok".                               *)
(***************************************************************************)
EXTENDS Codec, Json, IOUtils

Rec == ndJsonDeserialize(IOEnv.TRACE)

VARIABLE l
vars == <<l>>

Report(ev, exp) == PrintT("MISMATCH " \o ToJson([l |-> l, id |-> ev.id, exp |-> exp]))
Bad(what, want) == [what |-> what, want |-> want]
Good == [what |-> "", want |-> <<>>]

\* observed text field: [out |-> "ok", s |-> code points]
TextIs(o, s) == o.out = "ok" /\ o.s = s
IntIs(o, i) == o.out = "ok" /\ o.t = "int" /\ IntEq(o.i, i)
BytesIs(o, b) == o.out = "ok" /\ o.t = "bytes" /\ o.b = b
ValIs(o, v) == o.out = "ok" /\ Match(o.v, v) /\ Match(v, o.v)

\* does the partial function result r explain the observation o (a value of the given tag)?
Explains(r, o, same(_, _)) ==
    CASE r.out = "unspec" -> o.out \in {"ok", "throw"}
      [] r.out = "throw" -> o.out = "throw"
      [] r.out = "ok" -> o.out = "ok" /\ same(r.v, o)

RECURSIVE AllPrintable(_)
AllPrintable(v) ==
    CASE v.t = "str" -> Printable(v.s)
      [] v.t = "list" -> \A j \in 1..Len(v.v) : AllPrintable(v.v[j])
      [] v.t = "dict" -> \A j \in 1..Len(v.v) : Printable(v.v[j][1]) /\ AllPrintable(v.v[j][2])
      [] OTHER -> TRUE

\* first failing check of an event: <<name, expected>> pairs are tested in order
RECURSIVE FirstBad(_, _)
FirstBad(checks, j) == IF j > Len(checks) THEN Good
                       ELSE IF checks[j][1] THEN FirstBad(checks, j + 1) ELSE Bad(checks[j][2], checks[j][3])

Judge(ev) ==
    CASE ev.ev = "int" ->
           LET dec == IntStr(ev.n)
           IN FirstBad(<< <<TextIs(ev.str, dec), "str", dec>>, <<TextIs(ev.dollar, dec), "$", dec>>,
                          <<TextIs(ev.pr, dec \o <<10>>), "print", dec>>, <<TextIs(ev.f, dec), "F{}", dec>>,
                          <<TextIs(ev.fd, dec), "F{#d}", dec>>,
                          <<TextIs(ev.fx, IntRender(ev.n, "x")), "F{#x}", IntRender(ev.n, "x")>>,
                          <<TextIs(ev.fX, IntRender(ev.n, "X")), "F{#X}", IntRender(ev.n, "X")>>,
                          <<TextIs(ev.fb, IntRender(ev.n, "b")), "F{#b}", IntRender(ev.n, "b")>>,
                          <<TextIs(ev.fo, IntRender(ev.n, "o")), "F{#o}", IntRender(ev.n, "o")>>,
                          <<IntIs(ev.back, ev.n), "int(str)", dec>>, <<IntIs(ev.nback, ev.n), "number(str)", dec>> >>, 1)
      [] ev.ev = "radix" ->
           LET s == StrRadix(ev.n, ev.b)
           IN FirstBad(<< <<TextIs(ev.s, s), "str_radix", s>>,
                          <<ev.n.s < 0 \/ ev.s.out # "ok" \/ ev.s.s = <<>> \/ IntIs(ev.back, ev.n), "int_radix(str_radix)", s>> >>, 1)
      [] ev.ev = "iradix" ->
           LET r == IntRadix(ev.s, ev.b)
           IN FirstBad(<< <<Explains(r, ev.r, LAMBDA v, o : o.t = "int" /\ IntEq(o.i, v)), "int_radix",
                            IF r.out = "ok" THEN IntStr(r.v) ELSE <<>> >> >>, 1)
      [] ev.ev = "ipars" ->
           LET r == ParseInt(ev.s)
           IN FirstBad(<< <<Explains(r, ev.r, LAMBDA v, o : o.t = "int" /\ IntEq(o.i, v)), "int(text)",
                            IF r.out = "ok" THEN IntStr(r.v) ELSE <<>> >> >>, 1)
      [] ev.ev = "rat" ->
           LET r == ParseRational(ev.s)
           IN FirstBad(<< <<Explains(r, ev.r, LAMBDA v, o : o.t = "rat" /\ o.d # <<>> /\ RatCmp(v, [n |-> o.n, d |-> o.d]) = 0
                                                            /\ (NatGcd(o.n.m, o.d) = <<1>> \/ o.n.s = 0)),
                            "rational(text)", IF r.out = "ok" THEN IntStr(r.v.n) \o <<47>> \o IntStr(IntMk(1, r.v.d)) ELSE <<>> >> >>, 1)
      [] ev.ev = "bytes" ->
           LET u == Utf8Dec(ev.b)
           IN FirstBad(<< <<TextIs(ev.hex, HexEnc(ev.b)), "hex_encode", HexEnc(ev.b)>>,
                          <<BytesIs(ev.hexdec, ev.b), "hex_decode(hex_encode)", <<>> >>,
                          <<TextIs(ev.b64, B64Enc(ev.b)), "base64_encode", B64Enc(ev.b)>>,
                          <<BytesIs(ev.b64dec, ev.b), "base64_decode(base64_encode)", <<>> >>,
                          <<Explains(u, ev.u8, LAMBDA v, o : o.s = v), "utf8_decode", IF u.out = "ok" THEN u.v ELSE <<>> >>,
                          <<u.out # "ok" \/ BytesIs(ev.u8enc, ev.b), "utf8_encode(utf8_decode)", <<>> >>,
                          <<BytesIs(ev.gz, ev.b), "decompress(compress)", <<>> >> >>, 1)
      \* bulk payloads (built inside the interpreter, n bytes, never shipped): each inverse pair gives the
      \* payload back - reported as [equal to the payload, length of the result]
      [] ev.ev = "bulk" ->
           FirstBad(<< <<ev.hex = <<1, ev.n>>, "bulk hex_decode(hex_encode)", <<>> >>,
                       <<ev.b64 = <<1, ev.n>>, "bulk base64_decode(base64_encode)", <<>> >>,
                       <<ev.gz = <<1, ev.n>>, "bulk decompress(compress)", <<>> >> >>, 1)
      [] ev.ev = "hexdec" ->
           LET r == HexDec(ev.s)
           IN FirstBad(<< <<Explains(r, ev.r, LAMBDA v, o : o.t = "bytes" /\ o.b = v), "hex_decode",
                            IF r.out = "ok" THEN r.v ELSE <<>> >> >>, 1)
      [] ev.ev = "b64dec" ->
           LET r == B64Dec(ev.s)
           IN FirstBad(<< <<Explains(r, ev.r, LAMBDA v, o : o.t = "bytes" /\ o.b = v), "base64_decode",
                            IF r.out = "ok" THEN r.v ELSE <<>> >> >>, 1)
      [] ev.ev = "str" ->
           FirstBad(<< <<BytesIs(ev.enc, Utf8Enc(ev.s)), "utf8_encode", Utf8Enc(ev.s)>>,
                       <<TextIs(ev.dec, ev.s), "utf8_decode(utf8_encode)", ev.s>>,
                       <<ev.ords.out = "ok" /\ ev.ords.v = ev.s, "ord", ev.s>>,
                       <<TextIs(ev.chrs, ev.s), "chr(ord)", ev.s>> >>, 1)
      [] ev.ev = "chr" ->
           LET r == Chr(ev.n)
           IN FirstBad(<< <<Explains(r, ev.r, LAMBDA v, o : o.s = v), "chr", IF r.out = "ok" THEN r.v ELSE <<>> >>,
                          <<r.out # "ok" \/ IntIs(ev.back, ev.n), "ord(chr)", <<>> >> >>, 1)
      [] ev.ev = "json" ->
           LET jp == IF ev.jt.out = "ok" THEN JsonParse(ev.jt.s) ELSE PFail
               lp == IF ev.rt.out = "ok" THEN LitParse(ev.rt.s) ELSE PFail
               \* the JSON text is also Noulith literal syntax (it is not when a float shows "e+")
               jl == IF ev.jt.out = "ok" THEN LitParse(ev.jt.s) ELSE PFail
           IN FirstBad(<< <<jp.ok /\ Match(jp.v, ev.v) /\ Match(ev.v, jp.v), "json_encode", <<>> >>,
                          <<ValIs(ev.jd, ev.v), "json_decode(json_encode)", <<>> >>,
                          <<~AllPrintable(ev.v) \/ ~jl.ok \/ ValIs(ev.je, ev.v), "json text as literal", <<>> >>,
                          <<lp.ok /\ Match(lp.v, ev.v) /\ Match(ev.v, lp.v), "repr", <<>> >>,
                          <<ValIs(ev.re, ev.v), "eval(repr)", <<>> >> >>, 1)

Check(ev) == LET j == Judge(ev) IN IF j.what = "" THEN TRUE ELSE Report(ev, j)

Init == l = 1
Next == /\ l <= Len(Rec)
        /\ Check(Rec[l])
        /\ l' = l + 1
Done == l = Len(Rec) + 1 => PrintT("TRACE-END " \o ToString(Len(Rec)))
=============================================================================
