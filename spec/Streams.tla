------------------------------ MODULE Streams ------------------------------
(***************************************************************************)
(* C11 - lazy streams are coherent.                                         *)
(*                                                                         *)
(* A stream VALUE is a record: constructor parameters plus a cursor.  Two   *)
(* independent definitions are given for every stream type:                 *)
(*   StepS(st)   the cursor state machine: what one `next` yields and the   *)
(*               value afterwards (mirrors the design of the iterators)     *)
(*   Elems(st)   the declarative denotation of what is still to come:       *)
(*               range  = the arithmetic progression from the cursor that   *)
(*                        stays strictly before the bound (any step sign)   *)
(*               permutations / combinations / cartesian power =            *)
(*                        the injective / strictly increasing / all index   *)
(*                        vectors in lexicographic order, from the cursor   *)
(*               subsequences = all flag vectors in big-endian binary order *)
(*               wrapped = the suffix of the sequence                       *)
(*               map / filter / zip = pointwise on the denotations          *)
(*   DeclAt(st, j)  for infinite streams: element j of the defining         *)
(*               recurrence (repeat, cycle, iterate, iota, step-0 range)    *)
(* plus the closed-form lengths ClosedLen(st).  TLC checks at every         *)
(* reachable cursor that they agree (MC_Streams: DeclAgreesOp, LenAgrees,   *)
(* NextAgrees, InfAgrees).                                                  *)
(*                                                                         *)
(* Every observation of a stream variable (len, list, index, slice,         *)
(* reverse, last, first, in, truthiness, unpacking, for loop, take, drop)   *)
(* is DEFINED on the list Elems(st) through Index.tla, and never changes    *)
(* the stream: Observe(st, ob) has no post-state.                           *)
(***************************************************************************)
EXTENDS Index, FiniteSets

\* specification mutant for the negative control: C11_SPEC_MUTANT=1 drops the sign case of the
\* closed-form range length (the defect class of Range::len), =2 makes `reverse` the identity
StreamMutant == IF "C11_SPEC_MUTANT" \in DOMAIN IOEnv THEN atoi(IOEnv.C11_SPEC_MUTANT) ELSE 0

(* ------------------------------ elements ------------------------------- *)
\* an integer element: native when small, exact otherwise
VBig(x) == [t |-> "bigint", bi |-> x]
MkIntVal(x) == IF Len(x.m) <= 2 THEN VInt(IntToInt(x)) ELSE VBig(x)

\* the small pure function family used by lazy_map / iterate, predicates of lazy_filter
ApplyF(f, e) ==
    CASE f = "inc" -> VInt(e.n + 1)
      [] f = "dbl" -> VInt(e.n * 2)
      [] f = "neg" -> VInt(-e.n)
      [] f = "sq" -> VInt(e.n * e.n)
      [] f = "half" -> VInt(e.n \div 2)
      [] f = "id" -> e
ApplyP(p, e) ==
    CASE p = "even" -> e.n % 2 = 0
      [] p = "odd" -> e.n % 2 = 1
      [] p = "pos" -> e.n > 0
      [] p = "lt3" -> e.n < 3
      [] p = "true" -> TRUE
      [] p = "false" -> FALSE
RECURSIVE SumVals(_, _)
SumVals(es, j) == IF j > Len(es) THEN 0 ELSE es[j].n + SumVals(es, j + 1)
\* lazy_zip: a list of the arguments, or the function applied to them
ZipCombine(f, es) == IF f = "none" THEN VList(es) ELSE VInt(SumVals(es, 1))

(* ------------------------- index vectors ------------------------------- *)
\* all vectors of length k over 0..n-1 in lexicographic order: vector number r (from 0) spells r in
\* base n with k digits, most significant first
RECURSIVE IPow(_, _)
IPow(x, e) == IF e = 0 THEN 1 ELSE x * IPow(x, e - 1)
AllVecs(k, n) == [r \in 1..IPow(n, k) |-> [p \in 1..k |-> ((r - 1) \div IPow(n, k - p)) % n]]

RECURSIVE LexCmp(_, _, _)
LexCmp(u, v, j) == IF j > Len(u) THEN 0
                   ELSE IF u[j] < v[j] THEN -1 ELSE IF u[j] > v[j] THEN 1 ELSE LexCmp(u, v, j + 1)
Injective(v) == \A p, q \in 1..Len(v) : p # q => v[p] # v[q]
Increasing(v) == \A p \in 1..(Len(v) - 1) : v[p] < v[p + 1]
Pick(xs, v) == VList([j \in 1..Len(v) |-> xs[v[j] + 1]])
RECURSIVE PickFlags(_, _, _)
PickFlags(xs, v, j) == IF j > Len(v) THEN <<>>
                       ELSE (IF v[j] = 1 THEN <<xs[j]>> ELSE <<>>) \o PickFlags(xs, v, j + 1)
MapSeq(Op(_), vs, j) == [q \in 1..Len(vs) |-> Op(vs[q])]
FilterSeq(Tst(_), vs, j) == SelectSeq(vs, Tst)
RevSeq(xs) == [j \in 1..Len(xs) |-> xs[Len(xs) + 1 - j]]

(* --------------------------- constructors ------------------------------ *)
(* ctor descriptors (also the JSON form of the trace):                      *)
(*  [c "til"|"to", a, b, s]  [c "iota", a]                                   *)
(*  [c "permutations", xs]  [c "combinations", xs, k]  [c "subsequences", xs]*)
(*  [c "cpow", xs, k]  [c "wrapped", xs]                                      *)
(*  [c "map", f, src]  [c "filter", f, src]  [c "zip", f, srcs]             *)
(*  [c "repeat", x]  [c "cycle", xs]  [c "iterate", x, f]                    *)
Zeros(k) == [j \in 1..k |-> 0]
RECURSIVE Make(_)
RECURSIVE MakeAll(_, _)
MakeAll(cs, j) == IF j > Len(cs) THEN <<>> ELSE <<Make(cs[j])>> \o MakeAll(cs, j + 1)
Make(c) ==
    CASE c.c = "til" -> [ty |-> "range", a |-> c.a, b |-> c.b, s |-> c.s, inf |-> FALSE]
      \* inclusive: the bound moves one past the end in the direction of travel
      [] c.c = "to" -> [ty |-> "range", a |-> c.a, s |-> c.s, inf |-> FALSE,
                        b |-> IF c.s.s < 0 THEN IntSub(c.b, IntOne) ELSE IntAdd(c.b, IntOne)]
      [] c.c = "iota" -> [ty |-> "range", a |-> c.a, b |-> IntZero, s |-> IntOne, inf |-> TRUE]
      [] c.c = "permutations" -> [ty |-> "perm", xs |-> c.xs, cur |-> [j \in 1..Len(c.xs) |-> j - 1], done |-> FALSE]
      [] c.c = "combinations" -> [ty |-> "comb", xs |-> c.xs, cur |-> [j \in 1..c.k |-> j - 1], done |-> FALSE]
      [] c.c = "subsequences" -> [ty |-> "subseq", xs |-> c.xs, cur |-> Zeros(Len(c.xs)), done |-> FALSE]
      \* named rule EmptyBasePower: a power of the empty list has no element, whatever the exponent
      [] c.c = "cpow" -> [ty |-> "cpow", xs |-> c.xs, cur |-> Zeros(c.k), done |-> Len(c.xs) = 0]
      [] c.c = "wrapped" -> [ty |-> "wrapped", xs |-> c.xs, pos |-> 0]
      [] c.c = "map" -> [ty |-> "map", f |-> c.f, src |-> Make(c.src)]
      [] c.c = "filter" -> [ty |-> "filter", f |-> c.f, src |-> Make(c.src)]
      [] c.c = "zip" -> [ty |-> "zip", f |-> c.f, srcs |-> MakeAll(c.srcs, 1)]
      [] c.c = "repeat" -> [ty |-> "repeat", x |-> c.x]
      [] c.c = "cycle" -> [ty |-> "cycle", xs |-> c.xs, pos |-> 0]
      [] c.c = "iterate" -> [ty |-> "iterate", x |-> c.x, f |-> c.f]

(* ------------------------ finiteness, by structure --------------------- *)
RangeBefore(x, st) == IF st.s.s < 0 THEN IntCmp(x, st.b) > 0 ELSE IntCmp(x, st.b) < 0
RECURSIVE IsFinite(_)
RECURSIVE AnyFinite(_, _)
AnyFinite(ss, j) == IF j > Len(ss) THEN FALSE ELSE IsFinite(ss[j]) \/ AnyFinite(ss, j + 1)
IsFinite(st) ==
    CASE st.ty = "range" -> ~st.inf /\ ~(st.s.s = 0 /\ RangeBefore(st.a, st))
      [] st.ty \in {"perm", "comb", "subseq", "cpow", "wrapped"} -> TRUE
      [] st.ty \in {"map", "filter"} -> IsFinite(st.src)
      [] st.ty = "zip" -> AnyFinite(st.srcs, 1)
      [] st.ty \in {"repeat", "cycle", "iterate"} -> FALSE

(* ---------------------- the cursor state machine ----------------------- *)
NoElem == [some |-> FALSE, e |-> VNull]
MaxIdx(S) == CHOOSE x \in S : \A y \in S : y <= x
\* standard next permutation of an index vector (1-based positions p, q)
NextPerm(v) ==
    LET n == Len(v)
        asc == {p \in 1..(n - 1) : v[p] < v[p + 1]}
    IN IF asc = {} THEN [done |-> TRUE, cur |-> v]
       ELSE LET p == MaxIdx(asc)
                q == MaxIdx({r \in (p + 1)..n : v[r] > v[p]})
                sw == [v EXCEPT ![p] = v[q], ![q] = v[p]]
            IN [done |-> FALSE,
                cur |-> [j \in 1..n |-> IF j <= p THEN sw[j] ELSE sw[n + p + 1 - j]]]
\* next k-combination of 0..n-1
NextComb(v, n) ==
    LET k == Len(v)
        movable == {p \in 1..k : v[p] + 1 < n - (k - p)}
    IN IF movable = {} THEN [done |-> TRUE, cur |-> v]
       ELSE LET p == MaxIdx(movable)
            IN [done |-> FALSE, cur |-> [j \in 1..k |-> IF j < p THEN v[j] ELSE v[p] + 1 + (j - p)]]
\* binary increment, most significant flag first
NextFlags(v) ==
    LET zeros == {p \in 1..Len(v) : v[p] = 0}
    IN IF zeros = {} THEN [done |-> TRUE, cur |-> v]
       ELSE LET p == MaxIdx(zeros)
            IN [done |-> FALSE, cur |-> [j \in 1..Len(v) |-> IF j < p THEN v[j] ELSE IF j = p THEN 1 ELSE 0]]
\* odometer increment over 0..n-1
NextOdo(v, n) ==
    LET notmax == {p \in 1..Len(v) : v[p] + 1 < n}
    IN IF notmax = {} THEN [done |-> TRUE, cur |-> v]
       ELSE LET p == MaxIdx(notmax)
            IN [done |-> FALSE, cur |-> [j \in 1..Len(v) |-> IF j < p THEN v[j] ELSE IF j = p THEN v[p] + 1 ELSE 0]]

RECURSIVE StepS(_)
RECURSIVE StepAll(_, _)
\* next of every source in order; stops at the first exhausted one
StepAll(ss, j) ==
    IF j > Len(ss) THEN [some |-> TRUE, es |-> <<>>, nxs |-> <<>>]
    ELSE LET h == StepS(ss[j])
         IN IF ~h.some THEN [some |-> FALSE, es |-> <<>>, nxs |-> <<>>]
            ELSE LET r == StepAll(ss, j + 1)
                 IN IF ~r.some THEN r ELSE [some |-> TRUE, es |-> <<h.e>> \o r.es, nxs |-> <<h.nx>> \o r.nxs]
StepS(st) ==
    CASE st.ty = "range" ->
           IF ~st.inf /\ ~RangeBefore(st.a, st) THEN NoElem
           ELSE [some |-> TRUE, e |-> MkIntVal(st.a), nx |-> [st EXCEPT !.a = IntAdd(st.a, st.s)]]
      [] st.ty = "perm" ->
           IF st.done THEN NoElem
           ELSE LET r == NextPerm(st.cur)
                IN [some |-> TRUE, e |-> Pick(st.xs, st.cur), nx |-> [st EXCEPT !.cur = r.cur, !.done = r.done]]
      [] st.ty = "comb" ->
           IF st.done \/ Len(st.cur) > Len(st.xs) THEN NoElem
           ELSE LET r == NextComb(st.cur, Len(st.xs))
                IN [some |-> TRUE, e |-> Pick(st.xs, st.cur), nx |-> [st EXCEPT !.cur = r.cur, !.done = r.done]]
      [] st.ty = "subseq" ->
           IF st.done THEN NoElem
           ELSE LET r == NextFlags(st.cur)
                IN [some |-> TRUE, e |-> VList(PickFlags(st.xs, st.cur, 1)),
                    nx |-> [st EXCEPT !.cur = r.cur, !.done = r.done]]
      [] st.ty = "cpow" ->
           IF st.done THEN NoElem
           ELSE LET r == NextOdo(st.cur, Len(st.xs))
                IN [some |-> TRUE, e |-> Pick(st.xs, st.cur), nx |-> [st EXCEPT !.cur = r.cur, !.done = r.done]]
      [] st.ty = "wrapped" ->
           IF st.pos >= Len(st.xs) THEN NoElem
           ELSE [some |-> TRUE, e |-> st.xs[st.pos + 1], nx |-> [st EXCEPT !.pos = st.pos + 1]]
      [] st.ty = "map" ->
           LET h == StepS(st.src)
           IN IF ~h.some THEN NoElem
              ELSE [some |-> TRUE, e |-> ApplyF(st.f, h.e), nx |-> [st EXCEPT !.src = h.nx]]
      [] st.ty = "filter" ->
           LET h == StepS(st.src)
           IN IF ~h.some THEN NoElem
              ELSE IF ApplyP(st.f, h.e) THEN [some |-> TRUE, e |-> h.e, nx |-> [st EXCEPT !.src = h.nx]]
              ELSE StepS([st EXCEPT !.src = h.nx])
      [] st.ty = "zip" ->
           LET r == StepAll(st.srcs, 1)
           IN IF ~r.some THEN NoElem
              ELSE [some |-> TRUE, e |-> ZipCombine(st.f, r.es), nx |-> [st EXCEPT !.srcs = r.nxs]]
      [] st.ty = "repeat" -> [some |-> TRUE, e |-> st.x, nx |-> st]
      [] st.ty = "cycle" -> [some |-> TRUE, e |-> st.xs[st.pos + 1], nx |-> [st EXCEPT !.pos = (st.pos + 1) % Len(st.xs)]]
      [] st.ty = "iterate" -> [some |-> TRUE, e |-> st.x, nx |-> [st EXCEPT !.x = ApplyF(st.f, st.x)]]

\* operationally: the first cnt elements (fewer if the stream ends); acc forced in the condition
RECURSIVE TakeOp(_, _, _)
TakeOp(st, cnt, acc) ==
    IF cnt <= 0 \/ Len(acc) < 0 THEN acc
    ELSE LET h == StepS(st) IN IF ~h.some THEN acc ELSE TakeOp(h.nx, cnt - 1, Append(acc, h.e))
\* everything (finite streams only); Fuel bounds a specification error, never a legal stream
Fuel == 100000
ForceOp(st) == TakeOp(st, Fuel, <<>>)
\* the stream after k calls of next
RECURSIVE DropOp(_, _)
DropOp(st, k) == IF k <= 0 THEN st ELSE LET h == StepS(st) IN IF ~h.some THEN st ELSE DropOp(h.nx, k - 1)

(* ------------------------ declarative denotation ----------------------- *)
\* number of elements of a range, as a count of terms: the largest m such that the first m terms
\* a, a+s, .. all lie strictly before the bound (m is small in every generated case)
MaxRangeLen == 64
RangeTerm(st, j) == IntAdd(st.a, IntMul(IntFromInt(j), st.s))
RangeCount(st) == CHOOSE m \in 0..MaxRangeLen :
                     /\ \A j \in 0..(m - 1) : RangeBefore(RangeTerm(st, j), st)
                     /\ (m = MaxRangeLen \/ ~RangeBefore(RangeTerm(st, m), st))
\* closed form: ceil(|b - a| / |s|) when the bound lies ahead, else 0
RangeClosedLen(st) ==
    LET dist == IF st.s.s < 0 /\ StreamMutant # 1 THEN IntSub(st.a, st.b) ELSE IntSub(st.b, st.a)
        step == IntAbs(st.s)
    IN IF dist.s <= 0 THEN 0
       ELSE IntToInt(IntDivModFloor(IntSub(IntAdd(dist, step), IntOne), step)[1])

RECURSIVE Elems(_)
RECURSIVE ElemsAll(_, _)
ElemsAll(ss, j) == IF j > Len(ss) THEN <<>> ELSE <<Elems(ss[j])>> \o ElemsAll(ss, j + 1)
RECURSIVE DeclAt(_, _)
RECURSIVE DeclAtAll(_, _, _)
DeclAtAll(ss, j, p) == IF p > Len(ss) THEN <<>> ELSE <<DeclAt(ss[p], j)>> \o DeclAtAll(ss, j, p + 1)
RECURSIVE IterF(_, _, _)
IterF(f, x, j) == IF j = 0 THEN x ELSE IterF(f, ApplyF(f, x), j - 1)
MinLen(ls) == CHOOSE m \in {Len(ls[p]) : p \in 1..Len(ls)} : \A p \in 1..Len(ls) : m <= Len(ls[p])

\* element j (0-based) of a stream, by the defining recurrence; total on infinite streams, and on a
\* finite stream for j < its length
DeclAt(st, j) ==
    CASE st.ty = "range" -> MkIntVal(RangeTerm(st, j))
      [] st.ty = "repeat" -> st.x
      [] st.ty = "cycle" -> st.xs[((st.pos + j) % Len(st.xs)) + 1]
      [] st.ty = "iterate" -> IterF(st.f, st.x, j)
      [] st.ty = "map" -> ApplyF(st.f, DeclAt(st.src, j))
      [] st.ty = "zip" -> ZipCombine(st.f, DeclAtAll(st.srcs, j, 1))
      [] OTHER -> Elems(st)[j + 1]

\* what a finite stream still yields
Elems(st) ==
    CASE st.ty = "range" -> [j \in 1..RangeCount(st) |-> MkIntVal(RangeTerm(st, j - 1))]
      [] st.ty = "perm" ->
           IF st.done THEN <<>>
           ELSE LET n == Len(st.xs)
                    Keep(v) == Injective(v) /\ LexCmp(v, st.cur, 1) >= 0
                    El(v) == Pick(st.xs, v)
                IN MapSeq(El, FilterSeq(Keep, AllVecs(n, n), 1), 1)
      [] st.ty = "comb" ->
           IF st.done THEN <<>>
           ELSE LET n == Len(st.xs)
                    Keep(v) == Increasing(v) /\ LexCmp(v, st.cur, 1) >= 0
                    El(v) == Pick(st.xs, v)
                IN MapSeq(El, FilterSeq(Keep, AllVecs(Len(st.cur), n), 1), 1)
      [] st.ty = "subseq" ->
           IF st.done THEN <<>>
           ELSE LET Keep(v) == LexCmp(v, st.cur, 1) >= 0
                    El(v) == VList(PickFlags(st.xs, v, 1))
                IN MapSeq(El, FilterSeq(Keep, AllVecs(Len(st.xs), 2), 1), 1)
      [] st.ty = "cpow" ->
           IF st.done THEN <<>>
           ELSE LET Keep(v) == LexCmp(v, st.cur, 1) >= 0
                    El(v) == Pick(st.xs, v)
                IN MapSeq(El, FilterSeq(Keep, AllVecs(Len(st.cur), Len(st.xs)), 1), 1)
      [] st.ty = "wrapped" -> SubSeq(st.xs, st.pos + 1, Len(st.xs))
      [] st.ty = "map" -> LET El(e) == ApplyF(st.f, e) IN MapSeq(El, Elems(st.src), 1)
      [] st.ty = "filter" -> LET Keep(e) == ApplyP(st.f, e) IN FilterSeq(Keep, Elems(st.src), 1)
      [] st.ty = "zip" ->
           \* as long as the shortest FINITE source; infinite sources contribute by their recurrence
           LET fin == {p \in 1..Len(st.srcs) : IsFinite(st.srcs[p])}
               m == CHOOSE x \in {Len(Elems(st.srcs[p])) : p \in fin} :
                       \A p \in fin : x <= Len(Elems(st.srcs[p]))
           IN [j \in 1..m |-> ZipCombine(st.f, DeclAtAll(st.srcs, j - 1, 1))]

(* --------------------------- closed-form lengths ----------------------- *)
RECURSIVE Fact(_)
Fact(x) == IF x <= 1 THEN 1 ELSE x * Fact(x - 1)
RECURSIVE Pow(_, _)
Pow(x, e) == IF e = 0 THEN 1 ELSE x * Pow(x, e - 1)
RECURSIVE SumTo(_, _, _)
SumTo(Term(_), lo, hi) == IF lo > hi THEN 0 ELSE Term(lo) + SumTo(Term, lo + 1, hi)
HasClosedLen(st) == st.ty \in {"range", "perm", "subseq", "cpow", "wrapped"}
ClosedLen(st) ==
    CASE st.ty = "range" -> RangeClosedLen(st)
      \* 1 + sum over i = 1..n-1 of i! * #{ positions after n-i holding something larger than v[n-i] }
      [] st.ty = "perm" ->
           IF st.done THEN 0
           ELSE LET v == st.cur  n == Len(v)
                    Term(i) == Fact(i) * Cardinality({q \in (n - i + 1)..n : v[q] > v[n - i]})
                IN 1 + SumTo(Term, 1, n - 1)
      \* 1 + value of the complement flags read as a binary number
      [] st.ty = "subseq" ->
           IF st.done THEN 0
           ELSE LET v == st.cur  n == Len(v)
                    Term(p) == IF v[p] = 0 THEN Pow(2, n - p) ELSE 0
                IN 1 + SumTo(Term, 1, n)
      [] st.ty = "cpow" ->
           IF st.done THEN 0
           ELSE LET v == st.cur  k == Len(v)  n == Len(st.xs)
                    Term(p) == (n - 1 - v[p]) * Pow(n, k - p)
                IN 1 + SumTo(Term, 1, k)
      [] st.ty = "wrapped" -> Len(st.xs) - st.pos

(* ----------------------------- observations ---------------------------- *)
(* ob = [o |-> kind, a1, a2 (index classes of Index.tla), x (a value)]       *)
VInf == [t |-> "inf"]
AsSeq(xs) == [k |-> "stream", xs |-> xs]
Member(x, xs) == \E j \in 1..Len(xs) : SameVal(xs[j], x) /\ SameVal(x, xs[j])
\* xs: the list of what the stream still yields
ObserveOn(xs, ob) ==
    LET S == AsSeq(xs)
    IN CASE ob.o = "len" -> ROk(VInt(Len(xs)))
         [] ob.o \in {"list", "splat", "for"} -> ROk(VList(xs))
         [] ob.o = "reverse" -> ROk(VSeq(IF StreamMutant = 2 THEN xs ELSE RevSeq(xs)))
         [] ob.o = "index" -> Access("index", S, ob.a1, IxOmit)
         [] ob.o = "slice" -> Access("slice", S, ob.a1, ob.a2)
         [] ob.o \in {"first", "second", "last", "tail", "butlast", "uncons", "unsnoc", "only"} ->
               Access(ob.o, S, IxOmit, IxOmit)
         [] ob.o \in {"take", "drop"} -> Access(ob.o, S, ob.a1, IxOmit)
         [] ob.o = "in" -> ROk(VInt(IF Member(ob.x, xs) THEN 1 ELSE 0))
         [] ob.o = "truthy" -> ROk(VInt(IF Len(xs) > 0 THEN 1 ELSE 0))
         \* hd, ...tl = t.  Named rule SplatUnpackShort: with fewer than two elements the splat pattern is
         \* left to C14 / C05 (the pinned tree computes the splat length with an underflowing subtraction)
         [] ob.o = "unpack" -> IF Len(xs) < 2 THEN RUnspec ELSE ROk(VList(<<xs[1], VSeq(Tail(xs))>>))
         \* x1, x2 = t : exactly two elements
         [] ob.o = "unpack2" -> IF Len(xs) # 2 THEN RThrow ELSE ROk(VList(xs))
         [] OTHER -> RUnspec

ObserveFin(st, ob) == ObserveOn(Elems(st), ob)

\* infinite streams: finite prefixes / indices / slices by the recurrence, len is infinity;
\* anything that would need the end of the stream is outside the property
NatIx(a) == a.c = "int" /\ a.i.s >= 0 /\ IntFits(a.i)
PrefixDecl(st, m) == [j \in 1..m |-> DeclAt(st, j - 1)]
\* named rule LazyOverInfinite: the property lists iota, repeat, cycle, iterate as the infinite streams;
\* length / truthiness of a lazy map or zip OVER an infinite stream is left open (it cannot be
\* determined without consuming the stream)
ObserveInf(st, ob) ==
    CASE ob.o \in {"len", "truthy"} /\ st.ty \in {"map", "zip"} -> RUnspec
      [] ob.o = "len" -> ROk(VInf)
      [] ob.o = "truthy" -> ROk(VInt(1))
      [] ob.o = "first" -> ROk(DeclAt(st, 0))
      [] ob.o = "second" -> ROk(DeclAt(st, 1))
      [] ob.o = "index" /\ NatIx(ob.a1) -> ROk(DeclAt(st, IntToInt(ob.a1.i)))
      \* repeat and cycle are indexed in O(1): any non-negative index that fits a machine word addresses
      \* element (cursor + i) mod n of the cycle, however large i is
      [] ob.o = "index" /\ ob.a1.c = "int" /\ ob.a1.i.s >= 0 /\ st.ty \in {"repeat", "cycle"}
         /\ IntCmp(ob.a1.i, IntMk(1, NatShl(<<1>>, 63))) < 0 ->
            IF st.ty = "repeat" THEN ROk(st.x)
            ELSE LET n == Len(st.xs)
                     r == IntDivModFloor(ob.a1.i, IntFromInt(n))[2]
                 IN ROk(st.xs[((st.pos + IntToInt(r)) % n) + 1])
      [] ob.o = "slice" /\ (ob.a1.c = "omit" \/ NatIx(ob.a1)) /\ NatIx(ob.a2) ->
            LET lo == IF ob.a1.c = "omit" THEN 0 ELSE IntToInt(ob.a1.i)
                hi == IntToInt(ob.a2.i)
            IN ROk(VSeq(IF hi <= lo THEN <<>> ELSE SubSeq(PrefixDecl(st, hi), lo + 1, hi)))
      [] ob.o = "take" /\ NatIx(ob.a1) -> ROk(VSeq(PrefixDecl(st, IntToInt(ob.a1.i))))
      \* t[a:][b] : a suffix is again a stream
      [] ob.o = "dropindex" /\ NatIx(ob.a1) /\ NatIx(ob.a2) -> ROk(DeclAt(st, IntToInt(ob.a1.i) + IntToInt(ob.a2.i)))
      [] OTHER -> RUnspec
Observe(st, ob) == IF IsFinite(st) THEN ObserveFin(st, ob) ELSE ObserveInf(st, ob)

\* agreement of an observed outcome with the expected one (the variable itself is re-observed by
\* later observations: every observation of a trace refers to the SAME stream value)
ObsAgrees(exp, out, r) ==
    CASE exp.out = "unspec" -> TRUE
      [] exp.out = "throw" -> out = "throw"
      [] exp.out = "ok" -> out = "ok" /\ SameVal(exp.r, r)
      [] exp.out = "either" -> out = "throw" \/ (out = "ok" /\ SameVal(exp.r, r))

(* ------------------------------ invariants ------------------------------ *)
\* the cursor machine and the denotation agree on everything still to come
DeclAgreesOp(st) == IsFinite(st) => Elems(st) = ForceOp(st)
\* the closed forms count what iteration yields
LenAgrees(st) == (IsFinite(st) /\ HasClosedLen(st)) => ClosedLen(st) = Len(ForceOp(st))
\* one step of the machine is head / tail of the denotation
NextAgrees(st) ==
    IsFinite(st) =>
      LET h == StepS(st)  xs == Elems(st)
      IN IF xs = <<>> THEN ~h.some
         ELSE h.some /\ h.e = xs[1] /\ Elems(h.nx) = Tail(xs)
\* infinite streams: every finite prefix obeys the recurrence, and a step shifts it by one
InfAgrees(st, m) ==
    ~IsFinite(st) =>
      /\ TakeOp(st, m, <<>>) = PrefixDecl(st, m)
      /\ LET h == StepS(st) IN h.some /\ PrefixDecl(h.nx, m - 1) = Tail(PrefixDecl(st, m))
=============================================================================
