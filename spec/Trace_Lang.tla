------------------------------ MODULE Trace_Lang ------------------------------
(***************************************************************************)
(* Trace validation against the reference interpreter Lang (C01, C05, C17) *)
(*                                                                         *)
(* Events (ndjson, env TRACE), recorded from the real interpreter running  *)
(* one top-level statement at a time in a fresh session per case:          *)
(*   [ev |-> "reset"]                      a new session starts            *)
(*   [ev |-> "exec", ast, out, v, printed, vars]                           *)
(*        ast      the statement (the same AST the source text was         *)
(*                 rendered from)                                          *)
(*        out      outcome class: ok | throw | ctl | panic | timeout ...   *)
(*        v        the value (projected), when out = ok                    *)
(*        printed  the text written to the output stream by this statement *)
(*        vars     <<name, value>> for every tracked global AFTER it       *)
(* The specification re-executes the statement on ITS OWN state and        *)
(* compares outcome class, value, printed text and every tracked global.   *)
(* On disagreement it reports and continues from the specification's state *)
(* so that the rest of the history is still checked.                       *)
(***************************************************************************)
EXTENDS Lang, Json, IOUtils

Rec == ndJsonDeserialize(IOEnv.TRACE)

VARIABLES l, st
vars == <<l, st>>

RECURSIVE JoinArgs(_, _, _)
JoinArgs(xs, i, acc) == IF i > Len(xs) \/ Len(acc) < 0 THEN acc
                        ELSE JoinArgs(xs, i + 1, acc \o (IF i > 1 THEN " " ELSE "") \o xs[i])
RECURSIVE OutText(_, _, _)
OutText(lines, i, acc) == IF i > Len(lines) \/ Len(acc) < 0 THEN acc
                          ELSE OutText(lines, i + 1, acc \o JoinArgs(lines[i], 1, "") \o "\n")

VarsOk(s, vs) == \A i \in 1..Len(vs) : GlobalOf(s, vs[i][1]) = vs[i][2]
Expected(r, vs) == [out |-> OutClass(r),
                    v |-> IF r.k = "val" THEN Proj(r.v) ELSE VStr("-"),
                    printed |-> OutText(r.st.out, 1, ""),
                    vars |-> [i \in 1..Len(vs) |-> <<vs[i][1], GlobalOf(r.st, vs[i][1])>>]]
Agrees(r, ev) ==
    /\ OutClass(r) = ev.out
    /\ r.k = "val" => Proj(r.v) = ev.v
    /\ OutText(r.st.out, 1, "") = ev.printed
    /\ VarsOk(r.st, ev.vars)

Init == l = 1 /\ st = St0
Next == /\ l <= Len(Rec)
        /\ LET ev == Rec[l]
           IN IF ev.ev = "reset" THEN st' = St0
              ELSE LET r == Exec([st EXCEPT !.out = <<>>], ev.ast)
                   IN /\ IF Agrees(r, ev) THEN TRUE
                         ELSE PrintT("MISMATCH " \o ToJson([l |-> l, id |-> ev.id, exp |-> Expected(r, ev.vars)]))
                      /\ st' = r.st
        /\ l' = l + 1
Done == l = Len(Rec) + 1 => PrintT("TRACE-END " \o ToString(Len(Rec)))
=============================================================================
