------------------------------- MODULE Index -------------------------------
(***************************************************************************)
(* C10 - indexing and slicing follow Python semantics on every sequence    *)
(* kind; the accessor builtins and every form of write addressing are      *)
(* DEFINED by reduction to the same two functions PyIndex / PySlice.       *)
(*                                                                         *)
(* A sequence under test is  [k |-> kind, xs |-> raw]  with                *)
(*   k = "list" | "stream"   raw = sequence of values                      *)
(*   k = "vec"               raw = sequence of (native) integers           *)
(*   k = "bytes"             raw = sequence of 0..255                      *)
(*   k = "str"               raw = the UTF-8 BYTES of the string: strings  *)
(*                           are indexed by byte, and a result that is not *)
(*                           valid UTF-8 on its own is a bytes value       *)
(* Values (disjoint field names per tag, so that TLC never compares        *)
(* incomparable things):                                                   *)
(*   [t "int", n]  [t "null"]  [t "str", sb]  [t "bytes", bb]              *)
(*   [t "list", l]  [t "vec", vv]                                          *)
(*   [t "seq", l]    "a list or a stream with exactly these elements"      *)
(*                   (slices of streams: the property fixes the elements,  *)
(*                   not whether the result is still lazy)                 *)
(* An index / slice bound is a class record: [c "int", i |-> BigNum int]   *)
(* (exact, of any size), [c "float"], [c "rat"], [c "str"], [c "null"],    *)
(* and for slice bounds [c "omit"].                                        *)
(*                                                                         *)
(* Results: [out "ok", r] | [out "throw"] | [out "either", r] (the         *)
(* property allows a throw or the value r: slice bounds beyond a machine   *)
(* word) | [out "unspec"] (outside the property; judged by C14 only).      *)
(***************************************************************************)
EXTENDS BigNum, TLC, IOUtils

VInt(x) == [t |-> "int", n |-> x]
VNull == [t |-> "null"]
VStr(bs) == [t |-> "str", sb |-> bs]
VBytes(bs) == [t |-> "bytes", bb |-> bs]
VList(xs) == [t |-> "list", l |-> xs]
VVec(xs) == [t |-> "vec", vv |-> xs]
VSeq(xs) == [t |-> "seq", l |-> xs]

IxInt(x) == [c |-> "int", i |-> x]          \* x a BigNum integer
IxN(x) == IxInt(IntFromInt(x))               \* x a native integer
IxOmit == [c |-> "omit"]

ROk(r) == [out |-> "ok", r |-> r]
RThrow == [out |-> "throw"]
REither(r) == [out |-> "either", r |-> r]
RUnspec == [out |-> "unspec"]

(* ----------------------- the two addressing functions ------------------ *)
WordMax == IntMk(1, NatSub(NatShl(<<1>>, 63), <<1>>))
WordMin == IntMk(-1, NatShl(<<1>>, 63))
FitsWord(x) == IntCmp(x, WordMin) >= 0 /\ IntCmp(x, WordMax) <= 0

\* specification mutant switch for the negative controls (0 = the specification); taken from the
\* environment so that the registered cfg files never change: C10_SPEC_MUTANT=1 makes index -len
\* out of range, =2 clamps a too-negative slice bound to len instead of 0, =3 drops the bytes fallback of
\* string indexing
SpecMutant == IF "C10_SPEC_MUTANT" \in DOMAIN IOEnv THEN atoi(IOEnv.C10_SPEC_MUTANT) ELSE 0

NoPos == [ok |-> FALSE, p |-> 0]
AtPos(p) == [ok |-> TRUE, p |-> p]

\* 0-based position addressed by index ix in a sequence of length len
PyIndex(len, ix) ==
    IF ix.c # "int" THEN NoPos
    ELSE IF ix.i.s >= 0
         THEN (IF IntCmp(ix.i, IntFromInt(len)) < 0 THEN AtPos(IntToInt(ix.i)) ELSE NoPos)
         ELSE LET j == IntAdd(ix.i, IntFromInt(len))
              IN IF j.s >= 0 /\ ~(SpecMutant = 1 /\ j.s = 0) THEN AtPos(IntToInt(j)) ELSE NoPos

\* Python's clamping of one slice bound into 0..len
ClampBound(len, x) ==
    IF x.s >= 0 THEN (IF IntCmp(x, IntFromInt(len)) >= 0 THEN len ELSE IntToInt(x))
    ELSE LET j == IntAdd(x, IntFromInt(len))
         IN IF j.s <= 0 THEN (IF SpecMutant = 2 THEN len ELSE 0) ELSE IntToInt(j)

BadBound(bd) == bd.c \in {"float", "rat", "str"}
\* a bound for which the property lets the implementation either clamp or raise
LooseBound(bd) == bd.c = "null" \/ (bd.c = "int" /\ ~FitsWord(bd.i))

\* [out, lo, hi] with 0 <= lo <= hi <= len : the half-open range of positions selected
PySlice(len, lo, hi) ==
    IF BadBound(lo) \/ BadBound(hi) THEN [out |-> "throw", lo |-> 0, hi |-> 0]
    ELSE LET clo == IF lo.c = "int" THEN ClampBound(len, lo.i) ELSE 0
             chi == IF hi.c = "int" THEN ClampBound(len, hi.i) ELSE len
         IN [out |-> IF LooseBound(lo) \/ LooseBound(hi) THEN "either" ELSE "ok",
             lo |-> clo, hi |-> IF chi < clo THEN clo ELSE chi]

(* --------------------------- UTF-8 validity ---------------------------- *)
RECURSIVE Utf8From(_, _)
Utf8From(bs, p) ==
    IF p > Len(bs) THEN TRUE
    ELSE LET b0 == bs[p]
             Cont(q, lo, hi) == q <= Len(bs) /\ bs[q] >= lo /\ bs[q] <= hi
         IN CASE b0 < 128 -> Utf8From(bs, p + 1)
              [] b0 >= 194 /\ b0 <= 223 -> Cont(p + 1, 128, 191) /\ Utf8From(bs, p + 2)
              [] b0 = 224 -> Cont(p + 1, 160, 191) /\ Cont(p + 2, 128, 191) /\ Utf8From(bs, p + 3)
              [] (b0 >= 225 /\ b0 <= 236) \/ b0 = 238 \/ b0 = 239 ->
                    Cont(p + 1, 128, 191) /\ Cont(p + 2, 128, 191) /\ Utf8From(bs, p + 3)
              [] b0 = 237 -> Cont(p + 1, 128, 159) /\ Cont(p + 2, 128, 191) /\ Utf8From(bs, p + 3)
              [] b0 = 240 -> Cont(p + 1, 144, 191) /\ Cont(p + 2, 128, 191) /\ Cont(p + 3, 128, 191)
                             /\ Utf8From(bs, p + 4)
              [] b0 >= 241 /\ b0 <= 243 -> Cont(p + 1, 128, 191) /\ Cont(p + 2, 128, 191)
                                           /\ Cont(p + 3, 128, 191) /\ Utf8From(bs, p + 4)
              [] b0 = 244 -> Cont(p + 1, 128, 143) /\ Cont(p + 2, 128, 191) /\ Cont(p + 3, 128, 191)
                             /\ Utf8From(bs, p + 4)
              [] OTHER -> FALSE
Utf8Valid(bs) == Utf8From(bs, 1)
\* text when the bytes are valid UTF-8 on their own, else a bytes value
SoftStr(bs) == IF Utf8Valid(bs) \/ SpecMutant = 3 THEN VStr(bs) ELSE VBytes(bs)

(* ------------------------ per-kind extraction -------------------------- *)
SeqLen(s) == Len(s.xs)
ElemAt(s, p) ==
    CASE s.k \in {"list", "stream"} -> s.xs[p + 1]
      [] s.k \in {"vec", "bytes"} -> VInt(s.xs[p + 1])
      [] s.k = "str" -> SoftStr(<<s.xs[p + 1]>>)
SubOf(s, lo, hi) ==
    LET sub == SubSeq(s.xs, lo + 1, hi)
    IN CASE s.k = "list" -> VList(sub)
         [] s.k = "stream" -> VSeq(sub)
         [] s.k = "vec" -> VVec(sub)
         [] s.k = "bytes" -> VBytes(sub)
         [] s.k = "str" -> SoftStr(sub)
\* the sequence itself as a value
ToVal(s) ==
    CASE s.k = "list" -> VList(s.xs)
      [] s.k = "stream" -> VSeq(s.xs)
      [] s.k = "vec" -> VVec(s.xs)
      [] s.k = "bytes" -> VBytes(s.xs)
      [] s.k = "str" -> VStr(s.xs)

Index(s, ix) == LET q == PyIndex(SeqLen(s), ix) IN IF q.ok THEN ROk(ElemAt(s, q.p)) ELSE RThrow
Slice(s, lo, hi) ==
    LET q == PySlice(SeqLen(s), lo, hi)
    IN CASE q.out = "throw" -> RThrow
         [] q.out = "ok" -> ROk(SubOf(s, q.lo, q.hi))
         [] q.out = "either" -> REither(SubOf(s, q.lo, q.hi))

(* ------------- accessor builtins, by reduction to Index / Slice -------- *)
(* Named rules beyond the plain reduction (DESIGN Appendix A):             *)
(*  SafeIndexNonWrapping   s !? i  is s[i] for 0 <= i < len and null for   *)
(*                         every other integer (negative i is a sentinel,  *)
(*                         not a wrap-around); non-integer i: unspecified  *)
(*  CyclicIndex            s !% i  is s[i mod len] (floored), error on an  *)
(*                         empty s or a non-integer i; for i beyond a      *)
(*                         machine word an error is tolerated as well      *)
(*  !? and !% on streams   not part of the property (unspecified)          *)
UnOps == {"first", "second", "third", "last", "tail", "butlast", "uncons", "unsnoc", "only"}
ArgOps == {"index", "!!", "!?", "!%", "take", "drop"}
Access(op, s, a1, a2) ==
    LET len == SeqLen(s)
    IN CASE op \in {"index", "!!"} -> Index(s, a1)
         [] op = "slice" -> Slice(s, a1, a2)
         [] op = "first" -> Index(s, IxN(0))
         [] op = "second" -> Index(s, IxN(1))
         [] op = "third" -> Index(s, IxN(2))
         [] op = "last" -> Index(s, IxN(-1))
         [] op = "tail" -> Slice(s, IxN(1), IxOmit)
         [] op = "butlast" -> Slice(s, IxOmit, IxN(-1))
         [] op = "take" -> Slice(s, IxOmit, a1)
         [] op = "drop" -> Slice(s, a1, IxOmit)
         [] op = "!?" -> IF s.k = "stream" \/ a1.c # "int" THEN RUnspec
                         ELSE IF a1.i.s >= 0 /\ PyIndex(len, a1).ok THEN Index(s, a1) ELSE ROk(VNull)
         [] op = "!%" -> IF s.k = "stream" THEN RUnspec
                         ELSE IF a1.c # "int" \/ len = 0 THEN RThrow
                         ELSE LET r == Index(s, IxInt(IntDivModFloor(a1.i, IntFromInt(len))[2]))
                              IN IF FitsWord(a1.i) THEN r ELSE REither(r.r)
         \* uncons(s) = [first(s), tail(s)], unsnoc(s) = [butlast(s), last(s)]; they fail when first / last do
         [] op = "uncons" -> IF Index(s, IxN(0)).out # "ok" THEN RThrow
                             ELSE ROk(VList(<<Index(s, IxN(0)).r, Slice(s, IxN(1), IxOmit).r>>))
         [] op = "unsnoc" -> IF Index(s, IxN(-1)).out # "ok" THEN RThrow
                             ELSE ROk(VList(<<Slice(s, IxOmit, IxN(-1)).r, Index(s, IxN(-1)).r>>))
         [] op = "only" -> IF len = 1 THEN Index(s, IxN(0)) ELSE RThrow
         [] OTHER -> RUnspec

(* ------------------------- write addressing ---------------------------- *)
(* A statement on the variable x holding s.  Result [out, r, post]: r the   *)
(* value of the statement where it has one (pop / remove return what they  *)
(* removed, |.. the updated copy), post the value of x afterwards.  A      *)
(* stream variable is forced to a list by an indexed write (its elements   *)
(* are what the property fixes: post is then a "seq" value).               *)
WOk(r, post) == [out |-> "ok", r |-> r, post |-> ToVal(post)]
WThrow(s) == [out |-> "throw", r |-> VNull, post |-> ToVal(s)]
WEither(r, post, s) == [out |-> "either", r |-> r, post |-> ToVal(post), pre |-> ToVal(s)]
WUnspec == [out |-> "unspec"]

RemoveAt(xs, p) == SubSeq(xs, 1, p) \o SubSeq(xs, p + 2, Len(xs))
RemoveRange(xs, lo, hi) == SubSeq(xs, 1, lo) \o SubSeq(xs, hi + 1, Len(xs))

\* w: the new element in the raw form of the kind (a value for list / stream, an integer for
\*    vec / bytes, one byte < 128 for str); for "opadd" / "everyadd" the native integer added
WSet(s, a1, w) ==
    LET q == PyIndex(SeqLen(s), a1)
        xs2 == [s.xs EXCEPT ![q.p + 1] = w]
    IN IF ~q.ok THEN WThrow(s)
       ELSE IF s.k = "str" /\ ~Utf8Valid(xs2) THEN WUnspec
       ELSE WOk(VNull, [s EXCEPT !.xs = xs2])
WOpAdd(s, a1, w) ==
    LET q == PyIndex(SeqLen(s), a1)
    IN IF ~q.ok THEN WThrow(s)
       ELSE WOk(VNull, [s EXCEPT !.xs = [s.xs EXCEPT ![q.p + 1] = VInt(s.xs[q.p + 1].n + w)]])
\* pop x  is  remove x[-1]
WRemove(s, a1) ==
    LET q == PyIndex(SeqLen(s), a1)
    IN IF ~q.ok THEN WThrow(s)
       ELSE WOk(ElemAt(s, q.p), [s EXCEPT !.xs = RemoveAt(s.xs, q.p)])
WRemoveSlice(s, a1, a2) ==
    LET q == PySlice(SeqLen(s), a1, a2)
        post == [s EXCEPT !.xs = RemoveRange(s.xs, q.lo, q.hi)]
    IN IF q.out = "throw" THEN WThrow(s)
       ELSE IF q.out = "ok" THEN WOk(SubOf(s, q.lo, q.hi), post)
       ELSE WEither(SubOf(s, q.lo, q.hi), post, s)
\* x |.. [i, w] is an expression: its value is the updated copy, x is unchanged; x |..= [i, w] assigns.
\* Named rule OpAssignDropsLhs (README "while the operator is being called, the LHS variable will be
\* null"; DESIGN 2.4): when the operator of an op-assignment fails the variable is left null.
WUpsert(s, a1, w, assign) ==
    LET q == PyIndex(SeqLen(s), a1)
        upd == [s EXCEPT !.xs = [s.xs EXCEPT ![q.p + 1] = w]]
    IN IF ~q.ok THEN (IF assign THEN [out |-> "throw", r |-> VNull, post |-> VNull] ELSE WThrow(s))
       ELSE IF assign THEN WOk(VNull, upd) ELSE WOk(ToVal(upd), s)
WEvery(s, a1, a2, f(_)) ==
    LET q == PySlice(SeqLen(s), a1, a2)
        post == [s EXCEPT !.xs = [j \in 1..SeqLen(s) |-> IF j > q.lo /\ j <= q.hi THEN f(s.xs[j]) ELSE s.xs[j]]]
    IN IF q.out = "throw" THEN WThrow(s)
       ELSE IF q.out = "ok" THEN WOk(VNull, post)
       ELSE WEither(VNull, post, s)
\* two-level paths into a list of lists: x[a1][a2] = w  and  pop x[a1]
WSet2(s, a1, a2, w) ==
    LET q == PyIndex(SeqLen(s), a1)
        inner == s.xs[q.p + 1].l
        q2 == PyIndex(Len(inner), a2)
    IN IF ~q.ok THEN WThrow(s)
       ELSE IF ~q2.ok THEN WThrow(s)
       ELSE WOk(VNull, [s EXCEPT !.xs = [s.xs EXCEPT ![q.p + 1] = VList([inner EXCEPT ![q2.p + 1] = w])]])
WPop1(s, a1) ==
    LET q == PyIndex(SeqLen(s), a1)
        inner == s.xs[q.p + 1].l
        q2 == PyIndex(Len(inner), IxN(-1))
    IN IF ~q.ok THEN WThrow(s)
       ELSE IF ~q2.ok THEN WThrow(s)
       ELSE WOk(inner[q2.p + 1], [s EXCEPT !.xs = [s.xs EXCEPT ![q.p + 1] = VList(RemoveAt(inner, q2.p))]])

Write(op, s, a1, a2, w) ==
    LET SetW(e) == w
        AddW(e) == VInt(e.n + w)
    IN CASE op = "set" -> WSet(s, a1, w)
         [] op = "opadd" /\ s.k \in {"list", "stream"} -> WOpAdd(s, a1, w)
         [] op = "pop" /\ s.k = "list" -> WRemove(s, IxN(-1))
         [] op = "remove" /\ s.k = "list" -> WRemove(s, a1)
         [] op = "removeslice" /\ s.k = "list" -> WRemoveSlice(s, a1, a2)
         [] op = "upsert" /\ s.k = "list" -> WUpsert(s, a1, w, FALSE)
         [] op = "upsert=" /\ s.k = "list" -> WUpsert(s, a1, w, TRUE)
         [] op = "everyset" /\ s.k \in {"list", "stream"} -> WEvery(s, a1, a2, SetW)
         [] op = "everyadd" /\ s.k \in {"list", "stream"} -> WEvery(s, a1, a2, AddW)
         [] op = "set2" /\ s.k = "list" -> WSet2(s, a1, a2, w)
         [] op = "pop1" /\ s.k = "list" -> WPop1(s, a1)
         [] OTHER -> WUnspec

(* ------------------ agreement of an observation with a result ---------- *)
RECURSIVE SameVal(_, _)
SameVal(e, o) ==
    CASE e.t = "seq" -> \/ /\ o.t \in {"list", "stream"} /\ Len(e.l) = Len(o.l)
                           /\ \A j \in 1..Len(e.l) : SameVal(e.l[j], o.l[j])
                        \* the harness shows only a prefix of a long stream value ("streamcut")
                        \/ /\ o.t = "streamcut" /\ Len(e.l) > Len(o.l)
                           /\ \A j \in 1..Len(o.l) : SameVal(e.l[j], o.l[j])
      [] e.t = "list" -> /\ o.t = "list" /\ Len(e.l) = Len(o.l)
                         /\ \A j \in 1..Len(e.l) : SameVal(e.l[j], o.l[j])
      [] e.t = "int" -> o.t = "int" /\ e.n = o.n
      [] e.t = "null" -> o.t = "null"
      [] e.t = "str" -> o.t = "str" /\ e.sb = o.sb
      [] e.t = "bytes" -> o.t = "bytes" /\ e.bb = o.bb
      [] e.t = "vec" -> o.t = "vec" /\ e.vv = o.vv
      \* (used by Streams.tla) integers too large for a native element, and the infinite length
      [] e.t = "bigint" -> o.t = "bigint" /\ IntEq(e.bi, o.bi)
      [] e.t = "inf" -> o.t = "inf"
      [] OTHER -> FALSE

\* observation of a read: outcome class, value, and the variable afterwards (must be untouched)
ReadAgrees(exp, s, out, r, post) ==
    /\ CASE exp.out = "unspec" -> TRUE
         [] exp.out = "throw" -> out = "throw"
         [] exp.out = "ok" -> out = "ok" /\ SameVal(exp.r, r)
         [] exp.out = "either" -> out = "throw" \/ (out = "ok" /\ SameVal(exp.r, r))
    /\ (out \in {"ok", "throw"} => SameVal(ToVal(s), post))

\* observation of a write statement; cmpr: the statement has a value that the property fixes
HasValue(op) == op \in {"pop", "remove", "removeslice", "upsert", "pop1"}
WriteAgrees(exp, op, out, r, post) ==
    CASE exp.out = "unspec" -> TRUE
      [] exp.out = "throw" -> out = "throw" /\ SameVal(exp.post, post)
      [] exp.out = "ok" -> out = "ok" /\ SameVal(exp.post, post) /\ (HasValue(op) => SameVal(exp.r, r))
      [] exp.out = "either" -> \/ out = "throw" /\ SameVal(exp.pre, post)
                               \/ out = "ok" /\ SameVal(exp.post, post) /\ (HasValue(op) => SameVal(exp.r, r))

(* ------------------------------ lemmas --------------------------------- *)
(* Checked by TLC (MC_Index: ASSUME over the bounded domain LemLens x      *)
(* LemInts, and per enumerated case including the extreme indices).        *)
\* an index is in range iff -len <= i < len, and then addresses i or len + i
IndexLemma(len, x) ==
    LET q == PyIndex(len, IxN(x))
    IN /\ q.ok <=> (-len <= x /\ x < len)
       /\ q.ok => q.p \in 0..(len - 1) /\ q.p = (IF x >= 0 THEN x ELSE len + x)
\* the same for an exact integer of any size, stated with exact comparisons only
IndexLemmaBig(len, x) ==
    LET q == PyIndex(len, IxInt(x))
        inrange == IntCmp(IntNeg(IntFromInt(len)), x) <= 0 /\ IntCmp(x, IntFromInt(len)) < 0
    IN /\ q.ok <=> inrange
       /\ q.ok => /\ q.p \in 0..(len - 1)
                  /\ IntEq(IntFromInt(q.p), IF x.s >= 0 THEN x ELSE IntAdd(x, IntFromInt(len)))
\* clamped bounds are ordered and within the sequence
SliceLemma(len, lo, hi) ==
    LET q == PySlice(len, lo, hi)
    IN q.out # "throw" => 0 <= q.lo /\ q.lo <= q.hi /\ q.hi <= len
\* a slice selects exactly the positions p with N(lo) <= p < N(hi), N(i) = i for i >= 0 and
\* len + i for i < 0, an omitted bound being the respective end: Python's definition WITHOUT
\* any clamping, so the clamping rule is a consequence that TLC checks
NormBound(len, x) == IF x.s >= 0 THEN x ELSE IntAdd(x, IntFromInt(len))
SelectedDecl(len, lo, hi, p) ==
    /\ lo.c = "int" => IntCmp(NormBound(len, lo.i), IntFromInt(p)) <= 0
    /\ hi.c = "int" => IntCmp(IntFromInt(p), NormBound(len, hi.i)) < 0
SliceDeclLemma(len, lo, hi) ==
    LET q == PySlice(len, lo, hi)
    IN (q.out # "throw" /\ lo.c \in {"int", "omit", "null"} /\ hi.c \in {"int", "omit", "null"}) =>
          \A p \in 0..(len - 1) : (q.lo <= p /\ p < q.hi) <=> SelectedDecl(len, lo, hi, p)
\* s[a:b] ++ s[b:c] = s[a:c] when the clamped bounds are ordered
Iota(len) == [k |-> "list", xs |-> [j \in 1..len |-> VInt(j)]]
ConcatLemma(len, x, y, z) ==
    LET s == Iota(len)
        ca == ClampBound(len, IntFromInt(x))  cb == ClampBound(len, IntFromInt(y))
        cc == ClampBound(len, IntFromInt(z))
    IN (ca <= cb /\ cb <= cc) =>
          Slice(s, IxN(x), IxN(y)).r.l \o Slice(s, IxN(y), IxN(z)).r.l = Slice(s, IxN(x), IxN(z)).r.l
\* read / write address agreement: x[i] = w succeeds exactly when x[i] can be read, afterwards
\* x[i] reads w and every other position is unchanged
ReadWriteLemma(s, ix, w) ==
    LET wr == Write("set", s, ix, IxOmit, w)
        rd == Index(s, ix)
    IN wr.out # "unspec" =>
         /\ (wr.out = "throw") <=> (rd.out = "throw")
         /\ wr.out = "ok" =>
              LET post == [s EXCEPT !.xs = IF s.k \in {"list", "stream"} THEN wr.post.l
                                           ELSE IF s.k = "vec" THEN wr.post.vv
                                           ELSE IF s.k = "bytes" THEN wr.post.bb ELSE wr.post.sb]
                  q == PyIndex(SeqLen(s), ix)
              IN /\ SeqLen(post) = SeqLen(s)
                 /\ post.xs[q.p + 1] = w
                 /\ \A j \in 1..SeqLen(s) : j # q.p + 1 => post.xs[j] = s.xs[j]
\* remove x[i] / remove x[a:b] / pop take out exactly what the corresponding read returns and
\* keep the rest in order
RemoveLemma(s, op, a1, a2) ==
    LET wr == Write(op, s, a1, a2, 0)
        rd == CASE op = "remove" -> Index(s, a1) [] op = "pop" -> Index(s, IxN(-1))
                [] op = "removeslice" -> Slice(s, a1, a2)
    IN /\ wr.out = rd.out
       /\ wr.out \in {"ok", "either"} =>
            /\ wr.r = rd.r
            /\ Len(wr.post.l) + (IF op = "removeslice" THEN Len(wr.r.l) ELSE 1) = SeqLen(s)
=============================================================================
