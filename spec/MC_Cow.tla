-------------------------------- MODULE MC_Cow --------------------------------
(***************************************************************************)
(* C02, bounded model: every workload of at most Depth statements over two *)
(* variables - create a flat or a nested collection, alias it, mutate it   *)
(* through either variable in every in-place-eligible form.  Invariants:   *)
(*   InPlaceWhenUnique   a mutation whose target payload(s) have strong    *)
(*                       count 1 copies nothing;                           *)
(*   CopyBounded         a mutation copies at most the payloads on its     *)
(*                       path that were shared;                            *)
(*   RepeatIsFree        repeating the same mutation through the same      *)
(*                       variable copies nothing the second time (after    *)
(*                       one copy per additional holder, mutation is in    *)
(*                       place again);                                     *)
(*   RcSane              no live payload is unreferenced, no reference to  *)
(*                       a dead payload.                                   *)
(* Every transition is printed with the predicted number of copied slots;  *)
(* tools/c02.py replays it at a large size N and compares the bytes the    *)
(* interpreter requested from the allocator with the prediction.           *)
(***************************************************************************)
EXTENDS Cow, Json

CONSTANT Depth

VARIABLES heap, vars, hist, phase, pick, copied, uniq, shared
mvars == <<heap, vars, hist, phase, pick, copied, uniq, shared>>
View == <<heap, vars, phase, pick, copied, uniq, shared, Len(hist), IF hist = <<>> THEN <<>> ELSE hist[Len(hist)]>>

N == 4    \* abstract size of a flat collection / a row (the replay scales it up)
R == 3    \* rows of a nested collection

Stmts == {[op |-> "flat", v |-> x] : x \in Vars} \cup {[op |-> "nested", v |-> x] : x \in Vars}
         \cup {[op |-> "nestedd", v |-> "x"]}
         \cup {[op |-> "alias", v |-> "y", w |-> "x"], [op |-> "alias", v |-> "x", w |-> "y"]}
         \cup {[op |-> f, v |-> x] : f \in Forms, x \in Vars}

Init == heap = <<>> /\ vars = [v \in Vars |-> 0] /\ hist = <<>> /\ phase = "pick" /\ pick = [op |-> "none", v |-> "x"]
        /\ copied = 0 /\ uniq = FALSE /\ shared = 0

Enabled(s) ==
    CASE s.op \in {"flat", "nested"} -> TRUE
      [] s.op = "alias" -> vars[s.w] # 0
      [] s.op \in {"set2", "opassign2"} -> IsNested(heap, vars[s.v])
      [] s.op = "pop" -> vars[s.v] # 0
      [] OTHER -> vars[s.v] # 0

Pick == /\ phase = "pick" /\ Len(hist) < Depth
        /\ pick' \in {s \in Stmts : Enabled(s)}
        /\ phase' = "run"
        /\ UNCHANGED <<heap, vars, hist, copied, uniq, shared>>

\* strong counts on the mutation path BEFORE the statement
PathShared(s) ==
    LET p == vars[s.v]
        top == IF Rc(heap, vars, <<>>, p) > 1 THEN heap[p].n ELSE 0
        row == IF s.op \in {"set2", "opassign2"} /\ (Rc(heap, vars, <<>>, heap[p].kids[1]) > 1 \/ Rc(heap, vars, <<>>, p) > 1)
               THEN heap[heap[p].kids[1]].n ELSE 0
    IN top + row
PathUnique(s) ==
    LET p == vars[s.v]
    IN Rc(heap, vars, <<>>, p) = 1 /\ (s.op \in {"set2", "opassign2"} => Rc(heap, vars, <<>>, heap[p].kids[1]) = 1)

Run == /\ phase = "run"
       /\ LET s == pick
              r == CASE s.op = "flat" -> InitFlat(heap, vars, s.v, N)
                     [] s.op = "nested" -> InitNested(heap, vars, s.v, N, R)
                     [] s.op = "nestedd" -> InitNestedDistinct(heap, vars, s.v, N, R)
                     [] s.op = "alias" -> Alias(heap, vars, s.v, s.w)
                     [] OTHER -> Apply(s.op, heap, vars, s.v)
              ismut == s.op \in Forms
          IN /\ heap' = r.heap /\ vars' = r.vars /\ copied' = r.copied
             /\ uniq' = (ismut /\ PathUnique(s))
             /\ shared' = IF ismut THEN PathShared(s) ELSE 0
             /\ PrintT("REPLAY " \o ToJson([hist |-> hist, stmt |-> s, copied |-> r.copied]))
       /\ hist' = Append(hist, pick)
       /\ phase' = "pick"
       /\ UNCHANGED pick
Next == Pick \/ Run
Spec == Init /\ [][Next]_mvars

InPlaceWhenUnique == uniq => copied = 0
CopyBounded == copied <= shared
RepeatIsFree ==
    (phase = "pick" /\ Len(hist) >= 2 /\ hist[Len(hist)] = hist[Len(hist) - 1] /\ hist[Len(hist)].op \in Forms) => copied = 0
RcSane ==
    /\ \A p \in 1..Len(heap) : heap[p].live => Rc(heap, vars, <<>>, p) > 0
    /\ \A v \in Vars : vars[v] # 0 => heap[vars[v]].live
    /\ \A p \in 1..Len(heap) : heap[p].live => \A i \in 1..Len(heap[p].kids) : heap[p].kids[i] = 0 \/ heap[heap[p].kids[i]].live
=============================================================================
