------------------------------ MODULE MC_Tower ------------------------------
(***************************************************************************)
(* C07 / C08, bounded model: all pairs (and triples) of a pool of numbers  *)
(* drawn from every level of the tower (pool file: env POOL, one record    *)
(* per line, written by the orchestrator from the values it intends to     *)
(* render as source).  TLC                                                 *)
(*   - evaluates every arithmetic operator of the exact levels and every   *)
(*     comparison operator on every pair with the specification            *)
(*     (NumTower) and prints the expected outcome - each line is replayed  *)
(*     in the real interpreter;                                            *)
(*   - checks the laws the properties state as invariants of the           *)
(*     specification itself: division identity and sign of %%, lowest      *)
(*     terms, result level = higher operand level; trichotomy, == is an    *)
(*     equivalence, < is transitive and compatible with ==, <=> is         *)
(*     antisymmetric, chained comparison = conjunction of its links.       *)
(***************************************************************************)
EXTENDS NumTower, Json, IOUtils, Sequences

CONSTANT Mode      \* "arith" (C07) or "order" (C08)
CONSTANT Triples   \* TRUE: also explore triples (chained comparisons, transitivity)

Pool == ndJsonDeserialize(IOEnv.POOL)
N == Len(Pool)

ArithOps == {"+", "-", "*", "/", "%", "//", "%%"}
PowExps == {-2, -1, 0, 1, 2, 3}
OrderOps == {"==", "!=", "<", "<=", ">", ">=", "<=>", ">=<", "min", "max"}

VARIABLES vi, vj, vk, phase
vars == <<vi, vj, vk, phase>>
Init == vi = 0 /\ vj = 0 /\ vk = 0 /\ phase = "start"

X == Pool[vi].v
Y == Pool[vj].v
Z == Pool[vk].v

IsExact(x) == x.k \in {"int", "rat"}
Res(op, x, y) == NumBin(op, x, y)
Out(r) == IF r.out = "ok" THEN [out |-> "ok", r |-> r.r] ELSE [out |-> r.out, r |-> [k |-> "none"]]

EmitPair ==
    IF Mode = "arith"
    THEN (IsExact(X) /\ IsExact(Y)) =>
           /\ \A op \in ArithOps :
                PrintT("REPLAY " \o ToJson([kind |-> "bin", i |-> vi, j |-> vj, op |-> op, exp |-> Out(Res(op, X, Y))]))
           /\ (Y.k = "int" /\ IntFits(Y.i) /\ IntToInt(Y.i) \in PowExps) =>
                PrintT("REPLAY " \o ToJson([kind |-> "bin", i |-> vi, j |-> vj, op |-> "^", exp |-> Out(Res("^", X, Y))]))
    ELSE \A op \in OrderOps :
           PrintT("REPLAY " \o ToJson([kind |-> "bin", i |-> vi, j |-> vj, op |-> op, exp |-> Out(Res(op, X, Y))]))

\* a chained comparison  x op1 y op2 z  is the conjunction of its links, evaluated left to right
Link(op, x, y) == CmpBin(op, x, y)
Chain3(op1, op2, x, y, z) ==
    LET r1 == Link(op1, x, y)
    IN IF r1.out # "ok" THEN r1
       ELSE IF r1.r.i.s = 0 THEN r1
       ELSE Link(op2, y, z)
ChainOps == {"<", "<=", "==", ">"}
EmitTriple ==
    Mode = "order" =>
      \A op1 \in ChainOps, op2 \in ChainOps :
        PrintT("REPLAY " \o ToJson([kind |-> "chain", i |-> vi, j |-> vj, k |-> vk, op1 |-> op1, op2 |-> op2,
                                    exp |-> Out(Chain3(op1, op2, X, Y, Z))]))

\* (the reports are printed by separate steps on the CURRENT state: evaluating a primed copy of a
\* large expression disables TLC's caching of lazy values and is orders of magnitude slower)
PickI == phase = "start" /\ vi' \in 1..N /\ phase' = "i" /\ UNCHANGED <<vj, vk>>
PickJ == phase = "i" /\ vj' \in 1..N /\ phase' = "ij" /\ UNCHANGED <<vi, vk>>
ReportPair == phase = "ij" /\ EmitPair /\ phase' = "ij-done" /\ UNCHANGED <<vi, vj, vk>>
PickK == Triples /\ phase = "ij-done" /\ vk' \in 1..N /\ phase' = "ijk" /\ UNCHANGED <<vi, vj>>
ReportTriple == phase = "ijk" /\ EmitTriple /\ phase' = "ijk-done" /\ UNCHANGED <<vi, vj, vk>>
Next == PickI \/ PickJ \/ ReportPair \/ PickK \/ ReportTriple
Spec == Init /\ [][Next]_vars

(* ------------------------------- laws ---------------------------------- *)
Val(r) == r.r
IsTrue(r) == r.out = "ok" /\ r.r.i.s # 0
RatOf(x) == AsRat(x)
ArithLaws ==
    (phase = "ij" /\ Mode = "arith" /\ IsExact(X) /\ IsExact(Y)) =>
      /\ \A op \in {"+", "-", "*", "%", "//", "%%"} :
            LET r == Res(op, X, Y)
            IN r.out = "ok" => /\ Level(r.r) = Max2(Level(X), Level(Y))
                               /\ RatOk(r.r)
      /\ LET d == Res("/", X, Y) IN IF RatOf(Y).n.s # 0 THEN d.out = "ok" /\ d.r.k = "rat" /\ RatOk(d.r)
                                       ELSE d.out = "ok" /\ d.r.k = "float" /\ ~FltIsFinite(d.r.f)
      /\ (RatOf(Y).n.s # 0) =>
           LET q == RatOf(Val(Res("//", X, Y)))
               m == RatOf(Val(Res("%%", X, Y)))
               t == RatOf(Val(Res("%", X, Y)))
           IN /\ RatCmp(RatAdd(RatMul(q, RatOf(Y)), m), RatOf(X)) = 0       \* (a // b) * b + (a %% b) = a
              /\ RatIsInt(q)                                                 \* // floors to an integer value
              /\ (m.n.s = 0 \/ m.n.s = RatOf(Y).n.s)                          \* %% takes the divisor's sign
              /\ RatCmp(RatAbs(m), RatAbs(RatOf(Y))) < 0
              /\ (t.n.s = 0 \/ t.n.s = RatOf(X).n.s)                          \* % takes the dividend's sign
              /\ RatCmp(RatAbs(t), RatAbs(RatOf(Y))) < 0
      /\ (RatOf(Y).n.s = 0) => Res("//", X, Y).out = "throw" /\ Res("%%", X, Y).out = "throw"

Real(x) == x.k # "complex" /\ ~IsNaN(x)
OrderLaws ==
    /\ (phase \in {"ij", "ijk"} /\ Mode = "order") =>
         /\ (Real(X) /\ Real(Y)) =>
              \* exactly one of <, ==, >
              /\ (IF IsTrue(Res("<", X, Y)) THEN 1 ELSE 0) + (IF IsTrue(Res("==", X, Y)) THEN 1 ELSE 0)
                   + (IF IsTrue(Res(">", X, Y)) THEN 1 ELSE 0) = 1
              /\ IsTrue(Res("<=", X, Y)) = (IsTrue(Res("<", X, Y)) \/ IsTrue(Res("==", X, Y)))
              /\ IsTrue(Res(">=", X, Y)) = ~IsTrue(Res("<", X, Y))
         /\ IsTrue(Res("==", X, Y)) = IsTrue(Res("==", Y, X))
         /\ IsTrue(Res("!=", X, Y)) = ~IsTrue(Res("==", X, Y))
         /\ (Res("<=>", X, Y).out = "ok") =>
              /\ Res("<=>", Y, X).out = "ok"
              /\ IntEq(Val(Res("<=>", X, Y)).i, IntNeg(Val(Res("<=>", Y, X)).i))
              /\ IntEq(Val(Res(">=<", X, Y)).i, Val(Res("<=>", Y, X)).i)
         /\ ~IsNaN(X) /\ X.k # "complex" => IsTrue(Res("==", X, X))
         \* a comparison involving NaN is an error, never an arbitrary answer
         /\ (IsNaN(X) \/ IsNaN(Y)) => Res("<", X, Y).out = "throw" /\ ~IsTrue(Res("==", X, Y))
    /\ (phase = "ijk" /\ Mode = "order") =>
         /\ (IsTrue(Res("==", X, Y)) /\ IsTrue(Res("==", Y, Z))) => IsTrue(Res("==", X, Z))
         /\ (IsTrue(Res("<", X, Y)) /\ IsTrue(Res("<", Y, Z))) => IsTrue(Res("<", X, Z))
         /\ (IsTrue(Res("<", X, Y)) /\ IsTrue(Res("==", Y, Z))) => IsTrue(Res("<", X, Z))
         /\ (IsTrue(Res("==", X, Y)) /\ IsTrue(Res("<", Y, Z))) => IsTrue(Res("<", X, Z))
=============================================================================
