----------------------------- MODULE MC_Pattern -----------------------------
(***************************************************************************)
(* C12, bounded model.  Four explorations share this module (variable      *)
(* mode):                                                                  *)
(*                                                                         *)
(* "match"  every pattern of the shape family below (depth <= 2, width     *)
(*          <= 3: names, _, literals, annotations of every builtin /       *)
(*          struct / satisfying type, sequences with a splat at each       *)
(*          position, trailing defaults, [..]-delimited sequences, or /    *)
(*          and, struct patterns, operator patterns, comparison chains)    *)
(*          against every value of the pool.  TLC checks BindingsTyped     *)
(*          (what a successful match binds is of the declared type) and    *)
(*          the Types theorems over the pool, and prints one REPLAY line   *)
(*          per (pattern, value) with the bindings or failure the          *)
(*          specification computes; tools/c12.py replays each as  p := v,  *)
(*          as a switch arm and as a lambda parameter.                     *)
(*                                                                         *)
(* "switch" two-arm (thorough: three-arm) switches over representative arm  *)
(*          patterns: the arm that runs.  "types": v is T for every type   *)
(*          name and value, type(v), conversion results.                   *)
(*                                                                         *)
(* "vars"   the annotated-variable machine of Pattern.tla: two variables   *)
(*          with declared types, every action (assign, operator assign,    *)
(*          index assign, every-assign, every-operator, swap, destructure) *)
(*          up to Depth steps; invariant Typed; one REPLAY line per        *)
(*          transition with the path that leads to its source state.       *)
(***************************************************************************)
EXTENDS Pattern, Json, TLC

CONSTANTS Depth,        \* length of annotated-variable histories
          Wide          \* FALSE: quick shape family and pool; TRUE: thorough

(* ------------------------------ value pool ----------------------------- *)
I1 == IntV(1)
I2 == IntV(2)
PoolQuick == {
    IntV(1), IntV(5), IntV(-3), Flt(1, 1), Rat(1, 2), Str(<<"a", "b">>), Null,
    List(<<>>), List(<<I1>>), List(<<I1, I2>>), List(<<IntV(5), I2>>), List(<<I1, I2, IntV(3)>>),
    List(<<I1, I2, IntV(3), IntV(4)>>),
    List(<<List(<<I1, I2>>), IntV(3)>>), List(<<I1, Str(<<"x">>)>>),
    Vec(<<I1, I2>>), Inst("Foo", <<I1, I2>>), Inst("Bar", <<I1>>)}
PoolWide == PoolQuick \cup {
    IntV(0), IntV(6), Flt(3, 2), Str(<<>>), Str(<<"a">>), List(<<Str(<<"a">>), I1>>), List(<<I1, I2, IntV(3), IntV(4), IntV(5)>>),
    Dict(<<I1>>, <<I2>>), Bytes(<<97, 98>>), Stream(<<I1, I2>>), Func("len"), TypeV("int"),
    Inst("Foo", <<List(<<I1, I2>>), Str(<<"a">>)>>), Cpx(1, 1)}
Pool == IF Wide THEN PoolWide ELSE PoolQuick

(* ---------------------------- pattern shapes --------------------------- *)
AllTypes == {TBuiltin(n) : n \in BuiltinTypes} \cup {TStruct(n) : n \in StructNames} \cup {TSat(q) : q \in Preds}
SomeTypes == {TBuiltin("int"), TBuiltin("str")} \cup (IF Wide THEN {TBuiltin("list"), TBuiltin("number"), TStruct("Foo")} ELSE {})
V(q) == PVar("p" \o q)
\* leaves at path q
Tiny(q) == {V(q), PLit(I1)}
Small(q) == {V(q), PWild, PLit(I1)} \cup {PAnn(V(q), T) : T \in SomeTypes}
         \cup (IF Wide THEN {PLit(Str(<<"a", "b">>)), PLit(Null)} ELSE {})
Leaf(q) == {V(q), PWild, PLit(I1), PLit(IntV(5)), PLit(Str(<<"a", "b">>)), PLit(Null), PLit(Flt(1, 1)), PLit(Rat(1, 2)),
            PLit(List(<<I1, I2>>)), PLit(Inst("Foo", <<I1, I2>>))}
           \cup {PAnn(V(q), T) : T \in AllTypes} \cup {PAnn(PWild, T) : T \in AllTypes}

Seq1(q, delim) == {PSeq(<<a>>, delim) : a \in Small(q \o "1")}
Seq2(q, delim) == {PSeq(<<a, b>>, delim) : a \in Small(q \o "1"), b \in Small(q \o "2")}
Seq3(q) == {PSeq(<<a, b, c>>, FALSE) : a \in Small(q \o "1"), b \in Small(q \o "2"), c \in Small(q \o "3")}
Sp(q) == {PSplat(V(q)), PSplat(PWild)}
Splats(q) ==
    {PSeq(<<s>>, FALSE) : s \in Sp(q \o "1")}
    \cup {PSeq(<<s, b>>, FALSE) : s \in Sp(q \o "1"), b \in Small(q \o "2")}
    \cup {PSeq(<<a, s>>, d) : a \in Small(q \o "1"), s \in Sp(q \o "2"), d \in BOOLEAN}
    \cup {PSeq(<<s, b, c>>, FALSE) : s \in Sp(q \o "1"), b \in Tiny(q \o "2"), c \in Small(q \o "3")}
    \cup {PSeq(<<a, s, c>>, FALSE) : a \in Small(q \o "1"), s \in Sp(q \o "2"), c \in Tiny(q \o "3")}
    \cup {PSeq(<<a, b, s>>, FALSE) : a \in Tiny(q \o "1"), b \in Small(q \o "2"), s \in Sp(q \o "3")}
    \cup {PSeq(<<s, t>>, FALSE) : s \in Sp(q \o "1"), t \in Sp(q \o "2")}              \* two splats: never matches
D7 == IntV(7)
D8 == IntV(8)
\* defaulted items on either side of a splat (the boundary lengths are where "which defaults are in
\* play" matters), alone, typed, [..]-delimited, and inside struct patterns
Dq(q, dv) == PDflt(V(q), dv)
Defaults(q) ==
    {PSeq(<<Dq(q \o "1", D7)>>, FALSE),
     PSeq(<<V(q \o "1"), Dq(q \o "2", D7)>>, FALSE),
     PSeq(<<V(q \o "1"), Dq(q \o "2", D7)>>, TRUE),
     PSeq(<<V(q \o "1"), Dq(q \o "2", D7), Dq(q \o "3", D8)>>, FALSE),
     PSeq(<<Dq(q \o "1", D7), Dq(q \o "2", D8)>>, FALSE),
     PSeq(<<V(q \o "1"), PDflt(PAnn(V(q \o "2"), TBuiltin("int")), D7)>>, FALSE),
     PSeq(<<V(q \o "1"), PDflt(PAnn(V(q \o "2"), TBuiltin("str")), D7)>>, FALSE),   \* the default is not a str
     PSeq(<<Dq(q \o "1", D7), V(q \o "2")>>, FALSE),                                  \* no-default after default
     \* splat after the defaults
     PSeq(<<V(q \o "1"), Dq(q \o "2", D7), PSplat(V(q \o "3"))>>, FALSE),
     PSeq(<<Dq(q \o "1", D7), PSplat(V(q \o "2"))>>, FALSE),
     PSeq(<<Dq(q \o "1", D7), Dq(q \o "2", D8), PSplat(V(q \o "3"))>>, FALSE),
     \* splat before the defaults
     PSeq(<<PSplat(V(q \o "1")), Dq(q \o "2", D7)>>, FALSE),
     PSeq(<<PSplat(V(q \o "1")), Dq(q \o "2", D7)>>, TRUE),
     PSeq(<<V(q \o "1"), PSplat(V(q \o "2")), Dq(q \o "3", D7)>>, FALSE),
     PSeq(<<V(q \o "1"), PSplat(PWild), Dq(q \o "3", D7)>>, FALSE),
     PSeq(<<PSplat(V(q \o "1")), Dq(q \o "2", D7), Dq(q \o "3", D8)>>, FALSE),
     PSeq(<<V(q \o "1"), PSplat(V(q \o "2")), Dq(q \o "3", D7), Dq(q \o "4", D8)>>, FALSE),
     PSeq(<<PSplat(V(q \o "1")), V(q \o "2"), Dq(q \o "3", D7)>>, FALSE),
     PSeq(<<V(q \o "1"), PSplat(V(q \o "2")), V(q \o "3"), Dq(q \o "4", D7)>>, FALSE),
     PSeq(<<V(q \o "1"), PSplat(V(q \o "2")), PDflt(PAnn(V(q \o "3"), TBuiltin("int")), D7)>>, FALSE),
     \* splat between defaults / before a plain item
     PSeq(<<Dq(q \o "1", D7), PSplat(V(q \o "2")), Dq(q \o "3", D8)>>, FALSE),
     PSeq(<<Dq(q \o "1", D7), PSplat(V(q \o "2")), V(q \o "3")>>, FALSE),
     PSeq(<<V(q \o "1"), Dq(q \o "2", D7), PSplat(V(q \o "3")), Dq(q \o "4", D8)>>, FALSE),
     PSeq(<<V(q \o "1"), Dq(q \o "2", D7), PSplat(V(q \o "3")), V(q \o "4")>>, FALSE),
     \* the same rule inside struct patterns, and one level down
     PStruct("Foo", <<V(q \o "1"), V(q \o "2"), Dq(q \o "3", D7)>>),
     PStruct("Foo", <<V(q \o "1"), Dq(q \o "2", D7)>>),
     PStruct("Bar", <<V(q \o "1"), Dq(q \o "2", D7)>>),
     PStruct("Bar", <<PSplat(V(q \o "1")), Dq(q \o "2", D7)>>),
     PStruct("Foo", <<V(q \o "1"), PSplat(V(q \o "2")), Dq(q \o "3", D7)>>),
     PSeq(<<V(q \o "1"), PSeq(<<V(q \o "21"), PSplat(V(q \o "22")), Dq(q \o "23", D7)>>, FALSE)>>, FALSE),
     PSeq(<<PSeq(<<PSplat(V(q \o "11")), Dq(q \o "12", D7)>>, TRUE), V(q \o "2")>>, FALSE)}
Ors(q) ==
    {POr(a, b) : a \in Small(q), b \in Small(q)}
    \cup {POr(PSeq(<<a, b>>, FALSE), PSeq(<<c, d>>, FALSE)) :
             a \in Tiny(q \o "1"), b \in Tiny(q \o "2"), c \in Tiny(q \o "1"), d \in Tiny(q \o "2")}
    \cup {POr(PSeq(<<a>>, FALSE), PSeq(<<c, d>>, FALSE)) : a \in Tiny(q \o "1"), c \in Tiny(q \o "1"), d \in Tiny(q \o "2")}
Ands(q) == {PAnd(a, b) : a \in Small(q \o "1"), b \in Small(q \o "2")}
           \cup {PAnd(V(q \o "1"), PSeq(<<b, c>>, FALSE)) : b \in Tiny(q \o "2"), c \in Tiny(q \o "3")}
Structs(q) ==
    {PStruct("Foo", <<a, b>>) : a \in Small(q \o "1"), b \in Small(q \o "2")}
    \cup {PStruct("Bar", <<a>>) : a \in Small(q \o "1")}
    \cup {PStruct("Foo", <<a>>) : a \in Tiny(q \o "1")}
    \cup {PStruct("Foo", <<V(q \o "1"), PSplat(V(q \o "2"))>>)}
Ops(q) ==
    {POp(o, <<a, b>>) : o \in {".+", "+."}, a \in {V(q \o "1"), PWild, PLit(I1)}, b \in {V(q \o "2"), PWild, PLit(I1)}}
    \cup {POp("+", <<V(q \o "1"), PLit(kk)>>) : kk \in {I1, D7}}
    \cup {POp("+", <<PLit(kk), V(q \o "2")>>) : kk \in {I1, D7}}
    \cup {POp("+", <<V(q \o "1"), V(q \o "2")>>), POp("-", <<V(q \o "1")>>), POp("-", <<PLit(IntV(3))>>),
          POp("/", <<V(q \o "1"), V(q \o "2")>>), POp("/", <<V(q \o "1"), PLit(I2)>>),
          POp("*", <<V(q \o "1"), PLit(I2)>>), POp("*", <<PLit(I2), V(q \o "2")>>), POp("*", <<V(q \o "1"), PLit(IntV(0))>>)}
Cmps(q) ==
    {PCmp(<<"<", "<">>, <<PLit(I1), V(q \o "2"), PLit(IntV(9))>>),
     PCmp(<<"<", "<">>, <<PLit(I1), PWild, PLit(IntV(9))>>),
     PCmp(<<"<=", "<">>, <<PLit(IntV(0)), V(q \o "2"), PLit(IntV(3))>>),
     \* mixed chains whose bounds are pool values: every link is checked with its OWN operator
     PCmp(<<"<=", "<">>, <<PLit(I1), V(q \o "2"), PLit(IntV(5))>>),
     PCmp(<<"<", "<=">>, <<PLit(I1), V(q \o "2"), PLit(IntV(5))>>),
     PCmp(<<">=", ">">>, <<PLit(IntV(5)), V(q \o "2"), PLit(I1)>>),
     PCmp(<<"<">>, <<V(q \o "1"), PLit(IntV(5))>>),
     PCmp(<<">=">>, <<V(q \o "1"), PLit(IntV(5))>>),
     PCmp(<<"<">>, <<V(q \o "1"), V(q \o "2")>>),
     PCmp(<<"==">>, <<V(q \o "1"), PLit(IntV(5))>>)}
\* depth 1
D1(q) == Seq1(q, FALSE) \cup Seq2(q, FALSE) \cup Seq2(q, TRUE) \cup Seq3(q) \cup Splats(q) \cup Defaults(q)
         \cup Ors(q) \cup Ands(q) \cup Structs(q) \cup Ops(q) \cup Cmps(q)
\* representative depth-1 patterns used as items of depth-2 patterns
Rep(q) == {V(q), PLit(I1),
           PSeq(<<V(q \o "1"), V(q \o "2")>>, FALSE), PSeq(<<V(q \o "1"), V(q \o "2")>>, TRUE),
           PSeq(<<V(q \o "1"), PSplat(V(q \o "2"))>>, FALSE),
           POr(PLit(I1), V(q)), PAnn(V(q), TBuiltin("int")),
           PStruct("Foo", <<V(q \o "1"), V(q \o "2")>>), POp(".+", <<V(q \o "1"), V(q \o "2")>>),
           PCmp(<<"<">>, <<V(q), PLit(IntV(5))>>)}
D2(q) ==
    {PSeq(<<a, b>>, d) : a \in Rep(q \o "1"), b \in Rep(q \o "2"), d \in BOOLEAN}
    \cup {PSeq(<<a, PSplat(V(q \o "2"))>>, FALSE) : a \in Rep(q \o "1")}
    \cup {PAnn(s, T) : s \in {PSeq(<<V(q \o "1"), V(q \o "2")>>, FALSE), PSeq(<<V(q \o "1"), V(q \o "2")>>, TRUE),
                              PSeq(<<V(q \o "1"), PSplat(V(q \o "2"))>>, FALSE)},
                       T \in {TBuiltin("int"), TBuiltin("list"), TBuiltin("anything")}}
    \cup {PStruct("Foo", <<a, b>>) : a \in Rep(q \o "1"), b \in Tiny(q \o "2")}
    \cup {POp(".+", <<a, b>>) : a \in Rep(q \o "1"), b \in Rep(q \o "2")}
    \cup {POr(a, b) : a \in Rep(q), b \in Rep(q)}
    \cup (IF Wide THEN {PSeq(<<a, b, c>>, FALSE) : a \in Rep(q \o "1"), b \in Tiny(q \o "2"), c \in Rep(q \o "3")} ELSE {})
Classes == <<Leaf(""), Seq1("", FALSE) \cup Seq2("", FALSE) \cup Seq2("", TRUE), Seq3(""), Splats("") \cup Defaults(""),
             Ors("") \cup Ands(""), Structs("") \cup Ops("") \cup Cmps(""), D2("")>>

(* switches: two- and three-arm switches over representative arm patterns *)
ArmPats == {PLit(I1), PLit(IntV(5)), PAnn(PWild, TBuiltin("int")), PAnn(PWild, TBuiltin("str")),
            PSeq(<<V("1"), V("2")>>, FALSE), PSeq(<<V("1"), PSplat(V("2"))>>, FALSE),
            PStruct("Foo", <<V("1"), V("2")>>), PStruct("Bar", <<V("1")>>),
            POr(PSeq(<<V("1"), PLit(I1)>>, FALSE), PSeq(<<V("1"), V("2")>>, FALSE)),
            PCmp(<<"<", "<">>, <<PLit(I1), V("2"), PLit(IntV(9))>>), V("1"), PWild}
Switches == {<<a, b>> : a \in ArmPats, b \in ArmPats} \cup
            (IF Wide THEN {<<a, b, c>> : a \in ArmPats, b \in ArmPats, c \in ArmPats} ELSE {})

(* --------------------------- annotated variables ----------------------- *)
VTypes == <<TBuiltin("int"), TBuiltin("number"), TBuiltin("list"), TBuiltin("str"), TAny, TSat("small"), TBuiltin("stream")>>
InitVal(T) ==
    CASE T = TBuiltin("int") -> IntV(3)
      [] T = TBuiltin("number") -> Flt(3, 2)
      [] T = TBuiltin("list") -> List(<<I1, I2>>)
      [] T = TBuiltin("str") -> Str(<<"a">>)
      [] T = TAny -> Null
      [] T = TSat("small") -> I1
      [] T = TBuiltin("stream") -> Stream(<<I1, I2>>)
Configs == IF Wide THEN {<<a, b>> : a \in 1..7, b \in {1, 3, 5}}
           ELSE {<<1, 2>>, <<2, 1>>, <<3, 5>>, <<4, 1>>, <<5, 3>>, <<6, 1>>, <<1, 1>>, <<3, 4>>, <<7, 5>>}
AVals == {I1, IntV(5), Flt(3, 2), Str(<<"a">>), List(<<I1>>), Null, Stream(<<I1, I2>>)}
Actions ==
    {Act("assign", x, "", "", 0, w, Null) : x \in VarNames, w \in AVals}
    \cup {Act("every", x, "", "", 0, w, Null) : x \in VarNames, w \in {I1, Flt(3, 2), List(<<I1>>)}}
    \cup {Act("opassign", x, "", o, 0, w, Null) : x \in VarNames, o \in {"+", "append"}, w \in {I1, Flt(3, 2), Str(<<"a">>)}}
    \cup {Act("everyop", x, "", "+", 0, w, Null) : x \in VarNames, w \in {I1, Flt(3, 2)}}
    \cup {Act("index", x, "", "", i, w, Null) : x \in VarNames, i \in {0, -1, 5}, w \in {IntV(5), Str(<<"a">>)}}
    \cup {Act("swap", "xa", "xb", "", 0, Null, Null), Act("swap", "xb", "xa", "", 0, Null, Null)}
    \cup {Act("destructure", "xa", "xb", "", 0, w, w2) : w \in {I1, Flt(3, 2), List(<<I1>>)}, w2 \in {I1, Str(<<"a">>)}}

(* -------------------------------- model -------------------------------- *)
VARIABLES mode, phase, val, pat, vars, broken, act, path, depth
mvars == <<mode, phase, val, pat, vars, broken, act, path, depth>>
View == <<mode, phase, val, pat, vars, broken, act, depth>>     \* path only records how a state was reached

NoPat == PWild
NoAct == Act("none", "", "", "", 0, Null, Null)
NoVars == [x \in VarNames |-> [ty |-> TAny, val |-> Null]]

Init == /\ mode \in {"match", "switch", "vars", "types"}
        /\ phase = "start" /\ val = Null /\ pat = <<NoPat>> /\ vars = NoVars /\ broken = {} /\ act = NoAct
        /\ path = <<>> /\ depth = 0

\* ---- match: pick a value, pick a pattern, evaluate (on the current state) and print
PickVal == /\ mode \in {"match", "switch", "types"} /\ phase = "start"
           /\ val' \in Pool /\ phase' = "val"
           /\ UNCHANGED <<mode, pat, vars, broken, act, path, depth>>
PickPat == /\ mode = "match" /\ phase = "val"
           /\ \E c \in 1..Len(Classes) : \E p \in Classes[c] : pat' = <<p>>
           /\ phase' = "pat"
           /\ UNCHANGED <<mode, val, vars, broken, act, path, depth>>
EvalPat == /\ mode = "match" /\ phase = "pat"
           /\ LET r == Match(pat[1], val, TAny)
              IN PrintT("REPLAY " \o ToJson([kind |-> "match", p |-> pat[1], v |-> val, r |-> r, names |-> Names(pat[1])]))
           /\ phase' = "done"
           /\ UNCHANGED <<mode, val, pat, vars, broken, act, path, depth>>
PickArms == /\ mode = "switch" /\ phase = "val"
            /\ pat' \in Switches /\ phase' = "pat"
            /\ UNCHANGED <<mode, val, vars, broken, act, path, depth>>
EvalSwitch == /\ mode = "switch" /\ phase = "pat"
              /\ LET s == Switch(pat, val)
                 IN PrintT("REPLAY " \o ToJson([kind |-> "switch", arms |-> pat, v |-> val, arm |-> s.arm, r |-> s.r,
                                                 names |-> [j \in 1..Len(pat) |-> Names(pat[j])]]))
              /\ phase' = "done"
              /\ UNCHANGED <<mode, val, pat, vars, broken, act, path, depth>>

\* ---- types: v is T for every type name, type(v), and what the conversion functions may return
TName(T) == IF T.k = "sat" THEN "sat-" \o T.name ELSE T.name
EvalTypes == /\ mode = "types" /\ phase = "val"
             /\ PrintT("REPLAY " \o ToJson([kind |-> "types", v |-> val, typeof |-> TypeOf(val),
                                            is |-> {[name |-> TName(T), ty |-> T, is |-> IsType(T, val)] : T \in AllTypes},
                                            conv |-> {[name |-> n, kinds |-> ConvKind(n)] : n \in ConvNames}]))
             /\ phase' = "done"
             /\ UNCHANGED <<mode, val, pat, vars, broken, act, path, depth>>

\* ---- vars: pick a configuration of declared types, then actions
PickConfig == /\ mode = "vars" /\ phase = "start"
              /\ \E c \in Configs :
                    vars' = [x \in VarNames |-> LET T == VTypes[IF x = "xa" THEN c[1] ELSE c[2]]
                                                IN [ty |-> T, val |-> InitVal(T)]]
              /\ phase' = "idle"
              /\ UNCHANGED <<mode, val, pat, broken, act, path, depth>>
PickAct == /\ mode = "vars" /\ phase = "idle" /\ depth < Depth
           /\ act' \in Actions /\ phase' = "acting"
           /\ UNCHANGED <<mode, val, pat, vars, broken, path, depth>>
DoAct == /\ mode = "vars" /\ phase = "acting"
         /\ LET r == Apply(vars, broken, act)
            IN /\ PrintT("REPLAY " \o ToJson([kind |-> "vars", init |-> vars, path |-> path, a |-> act, out |-> r.out,
                                              after |-> r.vars, broken |-> r.broken,
                                              isty |-> [x \in VarNames |-> IsType(r.vars[x].ty, r.vars[x].val)]]))
               /\ IF r.out = "unspec" THEN phase' = "done" /\ UNCHANGED <<vars, broken, path, depth>>
                  ELSE /\ vars' = r.vars /\ broken' = r.broken /\ phase' = "idle"
                       /\ path' = Append(path, act) /\ depth' = depth + 1
         /\ UNCHANGED <<mode, val, pat, act>>
Next == PickVal \/ PickPat \/ EvalPat \/ PickArms \/ EvalSwitch \/ EvalTypes \/ PickConfig \/ PickAct \/ DoAct
Spec == Init /\ [][Next]_mvars

(* ------------------------------ invariants ----------------------------- *)
\* what a successful match binds is of the type the name is declared with
MatchTyped == (mode = "match" /\ phase = "pat") => BindingsTyped(Match(pat[1], val, TAny))
\* annotated variables: every variable not broken by a raising statement is of its declared type
Typed == (mode = "vars" /\ phase \in {"idle", "acting"}) => TypedState(vars, broken)
\* Types theorems over the pool (checked in the initial states)
TypeTheorems == phase = "start" => (TypeOfIsType(PoolWide) /\ TypeOfUnique(PoolWide) /\ ConvAgrees(PoolWide))
=============================================================================
