SPECIFICATION Spec
INVARIANT NativeAgree
INVARIANT BigLaws
CHECK_DEADLOCK FALSE
