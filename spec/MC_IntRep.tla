------------------------------ MODULE MC_IntRep ------------------------------
(***************************************************************************)
(* C06, design level: integers live in one of two representations, a       *)
(* machine word ("S", -2^63 .. 2^63-1) or a big integer ("B", which may    *)
(* hold a value that would fit a word, because results of the fallback     *)
(* path are not normalised).  Every operator is a small state machine:     *)
(* checked fast path on two words with fallback to big arithmetic          *)
(* (+ - * %), word-wise two's complement on two words else infinite two's  *)
(* complement (& | xor), always-big (// %% /! gcd lcm ^ << >>),            *)
(* normalising (neg), representation-blind comparison.                     *)
(*                                                                         *)
(* TLC explores every (operator, operand value, operand representation)    *)
(* over the word-boundary pool and checks                                  *)
(*   RepIndependent  the value produced by the machine equals the exact    *)
(*                   value NumTower!IntBin / IntUn assigns to the operand  *)
(*                   VALUES, whatever their representations;               *)
(*   RepSound        a word never holds an out-of-range value.             *)
(* Every transition is printed ("REPLAY {json}") and replayed in the real  *)
(* interpreter by tools/c06mc.py, operands forced into the representation  *)
(* the model chose.                                                        *)
(***************************************************************************)
EXTENDS NumTower, Json, Sequences

CONSTANT Depth          \* 1: single applications; 2: the (un-normalised) result feeds a second one

Ks == <<31, 32, 62, 63, 64>>
Ds == <<-1, 0, 1>>
Near(k, d, sg) == LET v == IntAdd(IntMk(1, NatShl(<<1>>, k)), IntFromInt(d)) IN IF sg = 1 THEN v ELSE IntNeg(v)
SmallVals == {-2, -1, 0, 1, 2, 3, 5, 63, 64, 65}
ExpVals == {0, 1, 2, 3, 5, 63, 64, 65}
PoolVals == {IntFromInt(n) : n \in SmallVals}
            \cup {Near(Ks[ki], Ds[di], sg) : ki \in 1..Len(Ks), di \in 1..Len(Ds), sg \in {0, 1}}

MaxWord == IntMk(1, NatSub(NatShl(<<1>>, 63), <<1>>))
MinWord == IntMk(-1, NatShl(<<1>>, 63))
Fits(v) == IntCmp(v, MinWord) >= 0 /\ IntCmp(v, MaxWord) <= 0
Operands == {[v |-> v, rep |-> rp] : v \in PoolVals, rp \in {"S", "B"}}
Legal(x) == x.rep = "S" => Fits(x.v)

Word64 == NatShl(<<1>>, 64)
Half64 == NatShl(<<1>>, 63)
ToU64(v) == IF v.s >= 0 THEN v.m ELSE NatSub(Word64, v.m)
FromU64(n) == IF NatCmp(n, Half64) >= 0 THEN IntMk(-1, NatSub(Word64, n)) ELSE IntMk(1, n)

CheckedOps == {"+", "-", "*", "%"}
BitOps == {"&", "|", "xor"}
BigOps == {"//", "%%", "/!", "gcd", "lcm"}
ExpOps == {"^", "<<", ">>"}
WordCmpOps == {"==", "!=", "<", "<=", ">", ">=", "<=>", ">=<"}
PickOps == {"min", "max"}
BinOps == CheckedOps \cup BitOps \cup BigOps \cup ExpOps \cup WordCmpOps \cup PickOps
UnOps == {"neg", "~", "abs", "signum", "even", "odd", "is_prime"}     \* (is_prime where NumTower specifies it: native-sized values)

IsExp(x) == x.rep = "S" /\ \E n \in ExpVals : IntEq(x.v, IntFromInt(n))
SpecBin(op, x, y) == IntBin(op, x.v, y.v)
SpecUn(op, x) == IntUn(op, x.v)

\* the machine: value AND representation of the result, following the implementation's design
MachBin(op, x, y) ==
    LET exact == SpecBin(op, x, y).r.i
    IN CASE op \in CheckedOps ->
              IF x.rep = "S" /\ y.rep = "S" /\ Fits(exact) THEN [v |-> exact, rep |-> "S"]
              ELSE [v |-> exact, rep |-> "B"]
         [] op \in BitOps ->
              IF x.rep = "S" /\ y.rep = "S"
              THEN LET ux == ToU64(x.v)  uy == ToU64(y.v)
                       w == CASE op = "&" -> NatAnd(ux, uy)
                              [] op = "|" -> NatNorm(NatOr(ux, uy))
                              [] op = "xor" -> NatXor(ux, uy)
                   IN [v |-> FromU64(w), rep |-> "S"]
              ELSE [v |-> exact, rep |-> "B"]
         [] op \in BigOps \cup ExpOps -> [v |-> exact, rep |-> "B"]
         [] op \in WordCmpOps -> [v |-> exact, rep |-> "S"]
         [] op = "min" -> IF IntCmp(y.v, x.v) < 0 THEN y ELSE x
         [] op = "max" -> IF IntCmp(y.v, x.v) > 0 THEN y ELSE x
MachUn(op, x) ==
    LET exact == SpecUn(op, x).r.i
    IN CASE op = "neg" -> [v |-> exact, rep |-> IF Fits(exact) THEN "S" ELSE "B"]
         [] op = "~" -> [v |-> IF x.rep = "S" THEN FromU64(NatSub(NatSub(Word64, <<1>>), ToU64(x.v))) ELSE exact,
                        rep |-> x.rep]
         [] op = "abs" -> IF x.rep = "S" /\ Fits(exact) THEN [v |-> exact, rep |-> "S"] ELSE [v |-> exact, rep |-> "B"]
         [] OTHER -> [v |-> exact, rep |-> "S"]

VARIABLES phase, a, b, op, r, depth, prev
vars == <<phase, a, b, op, r, depth, prev>>
\* prev only records how a chained left operand was produced (for the replay); hidden by the VIEW
View == <<phase, a, b, op, r, depth>>
None == [v |-> IntZero, rep |-> "S"]

NoPrev == [op |-> "", a |-> None, b |-> None]
Init == phase = "start" /\ a = None /\ b = None /\ op = "" /\ r = None /\ depth = 1 /\ prev = NoPrev

PickA == /\ phase = "start"
         /\ a' \in {x \in Operands : Legal(x)}
         /\ phase' = "a" /\ UNCHANGED <<b, op, r, depth, prev>>
PickB == /\ phase = "a"
         /\ b' \in {x \in Operands : Legal(x)}
         /\ phase' = "ab" /\ UNCHANGED <<a, op, r, depth, prev>>
Emit(o, x, y, res, arity) ==
    PrintT("REPLAY " \o ToJson([op |-> o, arity |-> arity, depth |-> depth,
                                a |-> x, b |-> y, r |-> res.v, prev |-> prev]))
ApplyUn == /\ phase = "a"
           /\ \E o \in UnOps :
                /\ SpecUn(o, a).out = "ok"
                /\ op' = o /\ r' = MachUn(o, a)
                /\ Emit(o, a, None, r', 1)
           /\ phase' = "done" /\ UNCHANGED <<a, b, depth, prev>>
ApplyBin == /\ phase = "ab"
            /\ \E o \in BinOps :
                 /\ o \in ExpOps => IsExp(b)
                 /\ SpecBin(o, a, b).out = "ok"
                 /\ op' = o /\ r' = MachBin(o, a, b)
                 /\ Emit(o, a, b, r', 2)
            /\ phase' = "done" /\ UNCHANGED <<a, b, depth, prev>>
\* the result, in whatever representation the machine left it, becomes the next left operand
\* (only UN-NORMALISED results - a value that fits a machine word left in big representation - are
\*  chained: a normalised result is an operand the pool already covers up to its value, and the full
\*  product of depth 2 is ~10^8 transitions)
Chain == /\ phase = "done" /\ depth < Depth
         /\ r.rep = "B" /\ Fits(r.v)
         /\ Len(r.v.m) <= 14
         /\ a' = r /\ phase' = "a" /\ depth' = depth + 1
         /\ prev' = [op |-> op, a |-> a, b |-> b]
         /\ UNCHANGED <<b, op, r>>
Next == PickA \/ PickB \/ ApplyUn \/ ApplyBin \/ Chain
Spec == Init /\ [][Next]_vars

RepIndependent ==
    phase = "done" =>
       IF op \in UnOps THEN IntEq(r.v, SpecUn(op, a).r.i) ELSE IntEq(r.v, SpecBin(op, a, b).r.i)
RepSound == Legal(r) /\ Legal(a) /\ Legal(b)
=============================================================================
