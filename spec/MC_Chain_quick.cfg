SPECIFICATION Spec
CONSTANT MaxN = 3
CONSTANT AllOps = FALSE
CONSTANT NFam = 2
CONSTANT Pats = {"odd"}
CONSTANT PrintAll = FALSE
INVARIANT TreeAgrees
INVARIANT DeclAgrees
INVARIANT OperandsInOrder
INVARIANT LogOnceLeftToRight
INVARIANT FastPathAgrees
INVARIANT MergeIffTighterAndChains
CHECK_DEADLOCK FALSE
