---------------------------- MODULE Trace_Streams ----------------------------
(***************************************************************************)
(* Trace validation for C11.  The trace (ndjson, path in env TRACE) was     *)
(* recorded from the real interpreter:                                      *)
(*   ev = "mk"   ctor, k     a stream variable was bound:  t := <ctor>[k:]   *)
(*   ev = "obs"  ob, out, r  one observation of that same variable           *)
(* The validator keeps the specification's stream value for the variable    *)
(* (cur, with its denotation cached in cxs).  "mk" builds it with the       *)
(* cursor machine (Make, then k steps); every "obs" must be explained by    *)
(* Streams!ObserveOn / ObserveInf on that value - which no observation ever *)
(* changes (UNCHANGED cur): observations in any order, any number of times, *)
(* see the same stream.  A mismatch is printed and validation goes on.      *)
(***************************************************************************)
EXTENDS Streams, Json, Sequences

Rec == ndJsonDeserialize(IOEnv.TRACE)

VARIABLES l, cur, cxs
vars == <<l, cur, cxs>>

Report(ev, exp) == PrintT("MISMATCH " \o ToJson([l |-> l, id |-> ev.id, exp |-> exp]))
Chk(ok, ev, exp) == IF ok THEN TRUE ELSE Report(ev, exp)

NoStream == [ty |-> "wrapped", xs |-> <<>>, pos |-> 0]
Init == l = 1 /\ cur = NoStream /\ cxs = <<>>

Mk(ev) == LET st == DropOp(Make(ev.ctor), ev.k)
          IN /\ cur' = st
             /\ cxs' = IF IsFinite(st) THEN Elems(st) ELSE <<>>
             \* the two definitions of the stream must agree on the recorded constructor as well
             /\ Chk(DeclAgreesOp(st) /\ LenAgrees(st), ev, [out |-> "spec-incoherent"])
Obs(ev) == LET exp == IF IsFinite(cur) THEN ObserveOn(cxs, ev.ob) ELSE ObserveInf(cur, ev.ob)
           IN /\ Chk(ObsAgrees(exp, ev.out, ev.r), ev, exp)
              /\ UNCHANGED <<cur, cxs>>

Next == /\ l <= Len(Rec)
        /\ IF Rec[l].ev = "mk" THEN Mk(Rec[l]) ELSE Obs(Rec[l])
        /\ l' = l + 1
Done == l = Len(Rec) + 1 => PrintT("TRACE-END " \o ToString(Len(Rec)))
=============================================================================
