SPECIFICATION Spec
CONSTANT Depth = 3
CONSTANT Wide = FALSE
INVARIANT MatchTyped
INVARIANT Typed
INVARIANT TypeTheorems
VIEW View
CHECK_DEADLOCK FALSE
