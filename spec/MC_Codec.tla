------------------------------ MODULE MC_Codec ------------------------------
(***************************************************************************)
(* C16, bounded model: the inverse-pair laws of Codec.tla as theorems      *)
(* checked by TLC over exhaustive small domains, and one REPLAY line per   *)
(* case carrying the inputs and the encoding the specification computed    *)
(* (tools/c16.py compares the implementation's actual text / bytes with    *)
(* it - an independent oracle for the intermediate encoding, not only for  *)
(* the round trip).                                                        *)
(*                                                                         *)
(*   bytes   every byte string of length <= 1, and of length 2..3 over the *)
(*           UTF-8 boundary bytes (Deep: every 2-byte string):             *)
(*           HexDec(HexEnc b) = b (either case), B64Dec(B64Enc b) = b,     *)
(*           Utf8Dec b = ok s  =>  Utf8Enc s = b                           *)
(*   cp      code points at the UTF-8 length boundaries, surrogates, the   *)
(*           ends of the range, and pairs of them:                         *)
(*           Utf8Dec(Utf8Enc s) = s, Ord(Chr c) = c, Chr defined exactly   *)
(*           on scalar values                                              *)
(*   radix   -N..N and word-boundary / big integers x every base 2..36:    *)
(*           IntRadix(StrRadix(n, b), b) = n (n >= 0, either digit case)   *)
(*   fmt     integers x {d, x, X, b, o}: the rendering is sign + digits    *)
(*           and reads back to the value                                   *)
(*   rat     a grid of decimal / scientific / fraction texts: sign law     *)
(*           ParseRational(-s) = -ParseRational(s), exponent law           *)
(*           ParseRational(s e2) = 100 * ParseRational(s)                  *)
(*   json    nested JSON-shaped values: JsonParse(Render v) = v and        *)
(*           LitParse(Render v) = v (up to dict order)                     *)
(* Cases are generated in two levels (section part, then case) so that     *)
(* TLC's workers share them; everything is computed from unprimed values.  *)
(***************************************************************************)
EXTENDS Codec, Json

CONSTANTS N,        \* radix: integers -N..N
          Deep      \* TRUE: every 2-byte string (thorough)

ByteAlpha == {0, 1, 65, 127, 128, 143, 144, 159, 160, 191, 192, 194, 223, 224, 237, 239, 240, 244, 245, 255}
CpPool == {0, 1, 65, 127, 128, 233, 2047, 2048, 55295, 57344, 65533, 65535, 65536, 128009, 1114111}
BadCps == {-1, 55296, 56320, 57343, 1114112, 2097152}
BigPool == {IntMk(1, NatShl(<<1>>, 31)), IntMk(1, NatSub(NatShl(<<1>>, 63), <<1>>)), IntMk(1, NatShl(<<1>>, 63)),
            IntMk(-1, NatShl(<<1>>, 63)), IntMk(-1, NatAdd(NatShl(<<1>>, 63), <<1>>)), IntMk(1, NatShl(<<1>>, 64)),
            IntMk(1, NatSub(NatPow(<<36>>, 20), <<1>>)), IntMk(-1, NatPow(<<10>>, 30)), IntMk(1, NatPow(<<7>>, 77))}
Flags == <<"d", "x", "X", "b", "o">>
FmtPool == {IntFromInt(n) : n \in {0, 1, 7, 8, 9, 10, 15, 16, 255, 256, 1000, 65535, -1, -2, -8, -10, -16, -255, -256, -4096}} \cup BigPool

Upper(s) == [j \in 1..Len(s) |-> IF s[j] >= 97 /\ s[j] <= 122 THEN s[j] - 32 ELSE s[j]]

(* --------------------------------- rat grid ---------------------------- *)
Signs == <<(<<>>), (<<45>>), (<<43>>)>>
IPs == <<(<<48>>), (<<49>>), (<<49, 50>>), (<<48, 48, 55>>), (<<>>)>>
None == <<-1>>
\* the fraction part (None: no point at all)
FPs == <<None, (<<>>), (<<53>>), (<<48, 53>>), (<<50, 53>>)>>
\* the exponent (None: no exponent)
EXs == <<None, (<<48>>), (<<51>>), (<<45, 50>>), (<<43, 49>>)>>
DecText(si, ii, fi, ei) ==
    Signs[si] \o IPs[ii] \o (IF FPs[fi] = None THEN <<>> ELSE <<46>> \o FPs[fi])
    \o (IF EXs[ei] = None THEN <<>> ELSE <<101>> \o EXs[ei])
FracNums == <<(<<51>>), (<<45, 51>>), (<<49, 46, 53>>), (<<45, 48, 46, 53>>), (<<32, 55, 32>>)>>
FracDens == <<(<<52>>), (<<45, 52>>), (<<48, 46, 53>>), (<<48>>), (<<32, 50, 101, 49, 32>>)>>

(* -------------------------------- json universe ------------------------ *)
F15 == FloatOf(<<49>>, <<53>>, FALSE, <<>>)
F025 == FltNeg(FloatOf(<<48>>, <<50, 53>>, FALSE, <<>>))
F1e5 == FloatOf(<<49>>, <<>>, FALSE, <<53>>)
F1em3 == FloatOf(<<49>>, <<>>, TRUE, <<51>>)
FTab == << <<F15, (<<49, 46, 53>>)>>, <<F025, (<<45, 48, 46, 50, 53>>)>>, <<F1e5, (<<49, 101, 53>>)>>,
           <<F1em3, (<<49, 101, 45, 51>>)>> >>
Atoms == <<VNull, VInt(IntZero), VInt(IntFromInt(-1)), VInt(IntFromInt(7)), VInt(MaxI64), VInt(MinI64),
           VFloat(F15), VFloat(F025), VFloat(F1e5), VFloat(F1em3),
           VStr(<<>>), VStr(<<97>>), VStr(<<233, 34, 92, 32, 128009, 39>>)>>
NA == Len(Atoms)
KeyA == <<97>>
KeyB == <<98, 34, 233>>
\* part 1: atoms and one-level containers of one atom; parts 2..NA+1: two-element containers whose
\* first element is atom (part - 1)
\* (sequences, not sets: TLC cannot order values of different shapes)
JsonCases(part) ==
    IF part = 1
    THEN Atoms \o <<VList(<<>>), VDict(<<>>)>>
         \o [j \in 1..NA |-> VList(<<Atoms[j]>>)] \o [j \in 1..NA |-> VDict(<< <<KeyA, Atoms[j]>> >>)]
         \o [j \in 1..NA |-> VList(<<VList(<<Atoms[j]>>), VDict(<< <<KeyB, Atoms[j]>> >>)>>)]
         \o [j \in 1..NA |-> VDict(<< <<KeyB, VList(<<Atoms[j], VDict(<<>>)>>)>> >>)]
    ELSE LET a == Atoms[part - 1]
         IN [j \in 1..NA |-> VList(<<a, Atoms[j]>>)] \o [j \in 1..NA |-> VDict(<< <<KeyA, a>>, <<KeyB, Atoms[j]>> >>)]

(* ---------------------------------- cases ------------------------------ *)
Sections == {"bytes", "cp", "radix", "fmt", "rat", "json"}
Parts(sec) ==
    CASE sec = "bytes" -> {0, 1} \cup {100 + x : x \in ByteAlpha} \cup (IF Deep THEN {1000 + x : x \in 0..255} ELSE {})
      [] sec = "cp" -> {0} \cup {1 + c : c \in CpPool}
      [] sec = "radix" -> 2..36
      [] sec = "fmt" -> 1..Len(Flags)
      [] sec = "rat" -> 0..(Len(Signs) * Len(IPs))
      [] sec = "json" -> 1..(NA + 1)

Cases(sec, part) ==
    CASE sec = "bytes" ->
           IF part = 0 THEN {<<>>}
           ELSE IF part = 1 THEN {<<x>> : x \in 0..255}
           ELSE IF part >= 1000 THEN {<<part - 1000, y>> : y \in 0..255}
           ELSE {<<part - 100, y>> : y \in ByteAlpha} \cup {<<part - 100, y, z>> : y \in ByteAlpha, z \in ByteAlpha}
      [] sec = "cp" -> IF part = 0 THEN {<<c>> : c \in CpPool \cup BadCps}
                       ELSE {<<part - 1, c>> : c \in CpPool}
      [] sec = "radix" -> {IntFromInt(n) : n \in (-N)..N} \cup BigPool
      [] sec = "fmt" -> FmtPool
      [] sec = "rat" ->
           IF part = 0 THEN {<<0, a, b>> : a \in 1..Len(FracNums), b \in 1..Len(FracDens)}
           ELSE {<<1, ((part - 1) \div Len(IPs)) + 1, ((part - 1) % Len(IPs)) + 1, fi, ei>> : fi \in 1..Len(FPs), ei \in 1..Len(EXs)}
      [] sec = "json" -> 1..Len(JsonCases(part))

RatOut(r) == IF r.out = "ok" THEN [out |-> "ok", n |-> r.v.n, d |-> r.v.d] ELSE [out |-> r.out, n |-> IntZero, d |-> <<1>>]
SameRat(x, y) == x.out = y.out /\ (x.out = "ok" => RatCmp(x.v, y.v) = 0)

\* the record of one case: inputs, the specification's encodings, and whether the laws hold
Eval(sec, part, c) ==
    CASE sec = "bytes" ->
           LET hex == HexEnc(c)
               b64 == B64Enc(c)
               u == Utf8Dec(c)
           IN [kind |-> sec, b |-> c, hex |-> hex, b64 |-> b64, utf8 |-> u.out,
               s |-> IF u.out = "ok" THEN u.v ELSE <<>>,
               law |-> /\ HexDec(hex) = Okv(c) /\ HexDec(Upper(hex)) = Okv(c)
                       /\ B64Dec(b64) = Okv(c)
                       /\ u.out = "ok" => Utf8Enc(u.v) = c]
      [] sec = "cp" ->
           IF Len(c) = 1
           THEN LET ch == Chr(IntFromInt(c[1]))
                    valid == c[1] >= 0 /\ ValidScalar(c[1])
                IN [kind |-> sec, cps |-> c, valid |-> valid, enc |-> IF valid THEN Utf8Enc(c) ELSE <<>>,
                    law |-> /\ (ch.out = "ok") = valid
                            /\ valid => /\ Ord(ch.v) = Okv(IntFromInt(c[1]))
                                        /\ Utf8Dec(Utf8Enc(c)) = Okv(c)]
           ELSE [kind |-> sec, cps |-> c, valid |-> TRUE, enc |-> Utf8Enc(c),
                 law |-> Utf8Dec(Utf8Enc(c)) = Okv(c) /\ Ord(c).out = "throw"]
      [] sec = "radix" ->
           LET s == StrRadix(c, part)
               digs == IF c.s < 0 THEN Tail(s) ELSE s
           IN [kind |-> sec, n |-> c, b |-> part, s |-> s,
               law |-> /\ IntRadix(digs, part) = Okv(IntAbs(c))
                       /\ IntRadix(Upper(digs), part) = Okv(IntAbs(c))
                       /\ c.s < 0 <=> s[1] = 45
                       /\ Len(digs) >= 1 /\ (Len(digs) > 1 => digs[1] # 48)]
      [] sec = "fmt" ->
           LET flag == Flags[part]
               s == IntRender(c, flag)
               digs == IF c.s < 0 THEN Tail(s) ELSE s
           IN [kind |-> sec, n |-> c, flag |-> flag, s |-> s,
               law |-> /\ IntRadix(digs, FlagBase(flag)) = Okv(IntAbs(c))
                       /\ flag = "d" => ParseInt(s) = Okv(c)
                       /\ flag = "x" => s = StrRadix(c, 16)
                       /\ flag = "X" => s = Upper(StrRadix(c, 16))]
      [] sec = "rat" ->
           IF c[1] = 0
           THEN LET s == FracNums[c[2]] \o <<47>> \o FracDens[c[3]]
                    r == ParseRational(s)
                    nn == ParseRational(FracNums[c[2]])
                    dd == ParseRational(FracDens[c[3]])
                IN [kind |-> sec, s |-> s, r |-> RatOut(r),
                    law |-> IF dd.v.n.s = 0 THEN r.out = "throw"
                            ELSE r.out = "ok" /\ RatCmp(RatMul(r.v, dd.v), nn.v) = 0]
           ELSE LET s == DecText(c[2], c[3], c[4], c[5])
                    r == ParseRational(s)
                    unsigned == DecText(1, c[3], c[4], c[5])
                    noexp == DecText(c[2], c[3], c[4], 1)
                IN [kind |-> sec, s |-> s, r |-> RatOut(r),
                    law |-> /\ r.out \in {"ok", "throw"} \/ (c[2] # 1 /\ c[3] = 5)
                            /\ (c[2] = 2 /\ r.out = "ok") =>
                                   SameRat(r, Okv(RatNeg(ParseRational(unsigned).v)))
                            /\ (c[2] = 3 /\ r.out = "ok") => SameRat(r, ParseRational(unsigned))
                            /\ (c[5] = 1 /\ r.out = "ok") =>
                                   SameRat(ParseRational(s \o <<101, 50>>), Okv(RatMul(r.v, RatFromInt(IntFromInt(100)))))
                            /\ (c[5] = 4 /\ r.out = "ok") =>
                                   SameRat(Okv(RatMul(r.v, RatFromInt(IntFromInt(100)))), ParseRational(noexp))]
      [] sec = "json" ->
           LET val == JsonCases(part)[c]
               t == Render(val, FTab)
               j == JsonParse(t)
               l == LitParse(t)
           IN [kind |-> sec, v |-> val, text |-> t,
               law |-> j.ok /\ Match(j.v, val) /\ Match(val, j.v) /\ l.ok /\ Match(l.v, val) /\ Match(val, l.v)]

VARIABLES vsec, vpart, vcase
vars == <<vsec, vpart, vcase>>
NoCase == [kind |-> "none", law |-> TRUE]

Init == vsec = "init" /\ vpart = 0 /\ vcase = NoCase
Pick == /\ vsec = "init"
        /\ \E sec \in Sections : \E p \in Parts(sec) : vsec' = sec /\ vpart' = p
        /\ UNCHANGED vcase
Do == /\ vsec # "init" /\ vcase.kind = "none"
      /\ \E c \in Cases(vsec, vpart) :
            LET r == Eval(vsec, vpart, c)
            IN vcase' = r /\ PrintT("REPLAY " \o ToJson(r))
      /\ UNCHANGED <<vsec, vpart>>
Next == Pick \/ Do
Spec == Init /\ [][Next]_vars

\* every inverse-pair law holds on every case
Laws == vcase.law
=============================================================================
