---------------------------- MODULE Trace_SeqLib ----------------------------
(***************************************************************************)
(* Trace validation for C13.  One event per evaluated library call:        *)
(*   kind, xs   the input sequence (kind and elements)                     *)
(*   fn, par    the function and its parameter (named function f, number   *)
(*              n, value v, second operand o, separator s)                 *)
(*   out, r     outcome class and canonical result in the interpreter      *)
(* The specification recomputes the acceptable results (SeqLib!Alts: one,  *)
(* or one per key order for a dictionary input) from the logged arguments  *)
(* and accepts the event iff the observed result is among them (results    *)
(* whose order the documentation leaves open compare as multisets).        *)
(***************************************************************************)
EXTENDS SeqLib, Json, IOUtils

Rec == ndJsonDeserialize(IOEnv.TRACE)

VARIABLE l
vars == <<l>>

Same(fn, e, o) ==
    CASE fn = "group_all" -> /\ o.t = "l" /\ Len(o.xs) = Len(e.xs)
                             /\ \A g \in 1..Len(e.xs) : \E h \in 1..Len(o.xs) : o.xs[h] = e.xs[g]
      [] fn = "frequencies" -> o.t = "d" /\ ToSet(o.es) = ToSet(e.es) /\ o.df = e.df
      [] OTHER -> e = o
Accepts(a, ev) ==
    \/ a.out = "unspec"
    \/ a.out = "throw" /\ ev.out = "throw"
    \/ a.out = "ok" /\ ev.out = "ok" /\ Same(ev.fn, a.r, ev.r)
Step(ev) ==
    LET alts == Alts(ev.fn, ev.kind, ev.xs, ev.par)
    IN IF \E j \in 1..Len(alts) : Accepts(alts[j], ev) THEN TRUE
       ELSE PrintT("MISMATCH " \o ToJson([l |-> l, id |-> ev.id, exp |-> [alts |-> SubSeq(alts, 1, IF Len(alts) < 3 THEN Len(alts) ELSE 3)]]))

Init == l = 1
Next == /\ l <= Len(Rec)
        /\ Step(Rec[l])
        /\ l' = l + 1
Done == l = Len(Rec) + 1 => PrintT("TRACE-END " \o ToString(Len(Rec)))
=============================================================================
