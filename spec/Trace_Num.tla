------------------------------ MODULE Trace_Num ------------------------------
(***************************************************************************)
(* Trace validation for the numeric properties C06, C07, C08.             *)
(*                                                                         *)
(* The trace (ndjson, path in env TRACE) is a sequence of events recorded  *)
(* by the harness from the real interpreter, one per evaluated expression: *)
(*   ev = "bin"   op, a, b          result of  a op b                      *)
(*   ev = "un"    op, a             result of  op(a)                       *)
(*   ev = "fact"  a, fs             factorize(a) = list of [p, e]          *)
(*   ev = "mixed" op, a, b, aux     a op b at float level and, from the    *)
(*                                  same session, float(a) op float(b)     *)
(*   ev = "sort"  xs, perm          the permutation sort produced          *)
(* with  out  the outcome class and  r  the reported number.  The spec     *)
(* re-computes the expected result from the logged operands alone and      *)
(* compares.  A mismatch does not block the run: it is printed and the     *)
(* validator moves on, so one defect does not hide the rest of the trace.  *)
(***************************************************************************)
EXTENDS NumTower, Json, IOUtils, Sequences

Rec == ndJsonDeserialize(IOEnv.TRACE)

VARIABLE l
vars == <<l>>

(* ----------------------- extended reals and order ---------------------- *)
IsReal(x) == x.k \in {"int", "rat", "float"}
IsNaN(x) == x.k = "float" /\ x.f.c = "nan"
\* -1 / 0 / 1, or 2 when incomparable (a NaN is involved)
ExtCmp(x, y) ==
    IF IsNaN(x) \/ IsNaN(y) THEN 2
    ELSE LET xi == x.k = "float" /\ x.f.c = "inf"
             yi == y.k = "float" /\ y.f.c = "inf"
             sx == IF x.f.sg = 1 THEN -1 ELSE 1
             sy == IF y.f.sg = 1 THEN -1 ELSE 1
         IN IF xi /\ yi THEN (IF sx = sy THEN 0 ELSE IF sx < sy THEN -1 ELSE 1)
            ELSE IF xi THEN sx
            ELSE IF yi THEN -sy
            ELSE RatCmp(IF x.k = "float" THEN FltToRat(x.f) ELSE AsRat(x),
                        IF y.k = "float" THEN FltToRat(y.f) ELSE AsRat(y))
FZero == [k |-> "float", f |-> [c |-> "zero", sg |-> 0, m |-> <<>>, e |-> 0]]
Re(x) == IF x.k = "complex" THEN [k |-> "float", f |-> x.re] ELSE x
Im(x) == IF x.k = "complex" THEN [k |-> "float", f |-> x.im] ELSE FZero
\* complex numbers compare as (re, im) pairs
NumCmp(x, y) == LET c == ExtCmp(Re(x), Re(y)) IN IF c # 0 THEN c ELSE ExtCmp(Im(x), Im(y))
NumEq(x, y) == ExtCmp(Re(x), Re(y)) = 0 /\ ExtCmp(Im(x), Im(y)) = 0

CmpOps == {"==", "!=", "<", "<=", ">", ">=", "<=>", ">=<", "min", "max"}
CmpBin(op, x, y) ==
    LET c == NumCmp(x, y)
    IN CASE op = "==" -> Ok(Bool(NumEq(x, y)))
         [] op = "!=" -> Ok(Bool(~NumEq(x, y)))
         [] c = 2 -> Throw
         [] op = "<" -> Ok(Bool(c < 0))
         [] op = "<=" -> Ok(Bool(c <= 0))
         [] op = ">" -> Ok(Bool(c > 0))
         [] op = ">=" -> Ok(Bool(c >= 0))
         [] op = "<=>" -> Ok(MkInt(IntFromInt(c)))
         [] op = ">=<" -> Ok(MkInt(IntFromInt(-c)))
         [] op = "min" -> Ok(IF NumCmp(y, x) < 0 THEN y ELSE x)
         [] op = "max" -> Ok(IF NumCmp(y, x) > 0 THEN y ELSE x)

(* ----------------------------- dispatch ------------------------------- *)
Exact(x) == x.k \in {"int", "rat"}
NumBin(op, x, y) ==
    IF op \in CmpOps THEN CmpBin(op, x, y)
    ELSE IF x.k = "int" /\ y.k = "int" THEN IntBin(op, x.i, y.i)
    ELSE IF Exact(x) /\ Exact(y) THEN
         (IF op = "^" THEN (IF y.k = "int" THEN RatPowInt(AsRat(x), y.i) ELSE Unspec)
          ELSE RatBin(op, AsRat(x), AsRat(y)))
    ELSE Unspec

NumUn(op, x) ==
    CASE x.k = "int" /\ op \in {"neg", "~", "abs", "signum", "even", "odd", "is_prime"} -> IntUn(op, x.i)
      [] x.k = "int" /\ op \in {"floor", "ceil", "round", "int", "numerator"} -> Ok(x)
      [] x.k = "int" /\ op = "denominator" -> Ok(MkInt(IntOne))
      [] x.k = "int" /\ op = "rational" -> Ok(MkRat(RatFromInt(x.i)))
      [] x.k = "rat" /\ op = "neg" -> Ok(MkRat(RatNeg(AsRat(x))))
      [] x.k = "rat" /\ op = "abs" -> Ok(MkRat(RatAbs(AsRat(x))))
      [] x.k = "rat" /\ op = "signum" -> Ok(MkInt(IntFromInt(x.n.s)))
      [] x.k = "rat" /\ op = "floor" -> Ok(MkInt(RatFloor(AsRat(x))))
      [] x.k = "rat" /\ op = "ceil" -> Ok(MkInt(RatCeil(AsRat(x))))
      [] x.k = "rat" /\ op = "round" -> Ok(MkInt(RatRound(AsRat(x))))
      [] x.k = "rat" /\ op = "int" -> Ok(MkInt(RatTrunc(AsRat(x))))
      [] x.k = "rat" /\ op = "numerator" -> Ok(MkInt(RatMk(x.n, x.d).n))
      [] x.k = "rat" /\ op = "denominator" -> Ok(MkInt(IntMk(1, RatMk(x.n, x.d).d)))
      [] x.k = "rat" /\ op = "rational" -> Ok(x)
      [] x.k = "float" /\ FltIsFinite(x.f) /\ op = "floor" -> Ok(MkInt(RatFloor(FltToRat(x.f))))
      [] x.k = "float" /\ FltIsFinite(x.f) /\ op = "ceil" -> Ok(MkInt(RatCeil(FltToRat(x.f))))
      [] x.k = "float" /\ FltIsFinite(x.f) /\ op = "round" -> Ok(MkInt(RatRound(FltToRat(x.f))))
      [] x.k = "float" /\ FltIsFinite(x.f) /\ op = "int" -> Ok(MkInt(RatTrunc(FltToRat(x.f))))
      [] x.k = "float" /\ FltIsFinite(x.f) /\ op = "rational" -> Ok(MkRat(FltToRat(x.f)))
      [] x.k = "float" /\ op = "float" -> Ok(x)
      [] OTHER -> Unspec

(* ----------------------------- comparison ------------------------------ *)
SameNum(e, o) ==
    /\ e.k = o.k
    /\ CASE e.k = "int" -> IntEq(e.i, o.i)
         [] e.k = "rat" -> RatOk(o) /\ RatCmp(AsRat(e), AsRat(o)) = 0
         [] e.k = "float" -> e.f = o.f
         [] e.k = "complex" -> e.re = o.re /\ e.im = o.im

Agrees(exp, ev) ==
    CASE exp.out = "unspec" -> TRUE
      [] exp.out = "throw" -> ev.out = "throw"
      [] exp.out = "ok" -> ev.out = "ok" /\ ev.r.k # "none" /\ SameNum(exp.r, ev.r)

Report(ev, exp) == PrintT("MISMATCH " \o ToJson([l |-> l, id |-> ev.id, exp |-> exp]))

(* float(x) for an exact x must be the correctly rounded double *)
FloatConvOk(ev) ==
    ev.out = "ok" /\ ev.r.k = "float" /\ CorrectlyRounded(ev.r.f, AsRat(ev.a))

(* a op b with one operand at float level and the other below: the result  *)
(* is a float, bit-identical to float(a) op float(b) evaluated in the same *)
(* session (logged as aux) -- "the operation carried out at that level on  *)
(* the converted operands"                                                 *)
MixedOk(ev) ==
    \/ ev.out # "ok" /\ ev.auxout = ev.out
    \/ /\ ev.out = "ok" /\ ev.auxout = "ok"
       /\ ev.r.k = "float" /\ ev.aux.k = "float"
       /\ ev.r.f = ev.aux.f

(* float plus, minus, times float on finite operands: correctly rounded exact result *)
FBinOk(ev) ==
    LET x == FltToRat(ev.a.f)  y == FltToRat(ev.b.f)
        exact == CASE ev.op = "+" -> RatAdd(x, y) [] ev.op = "-" -> RatSub(x, y) [] ev.op = "*" -> RatMul(x, y)
    IN ev.out = "ok" /\ ev.r.k = "float" /\
       (IF exact.n.s = 0 THEN ev.r.f.c = "zero" ELSE CorrectlyRounded(ev.r.f, exact))

(* sort: perm is the permutation (1-based positions into xs) that the      *)
(* implementation produced; it must be THE stable sorting permutation:     *)
(* consecutive elements ordered, equal elements in original order.         *)
SortOk(ev) ==
    LET xs == ev.xs  p == ev.perm  n == Len(xs)
    IN IF \E i \in 1..n, j \in 1..n : NumCmp(xs[i], xs[j]) = 2 THEN ev.out = "throw"
       ELSE /\ ev.out = "ok" /\ Len(p) = n
            /\ \A i \in 1..n : \E j \in 1..n : p[j] = i
            /\ \A j \in 1..(n - 1) :
                 LET c == NumCmp(xs[p[j]], xs[p[j + 1]])
                 IN c < 0 \/ (c = 0 /\ p[j] < p[j + 1])

(* min / max of a list: the first minimal / maximal element (position logged) *)
ExtremumOk(ev) ==
    LET xs == ev.xs  n == Len(xs)
    IN IF n = 0 \/ \E i \in 1..n, j \in 1..n : NumCmp(xs[i], xs[j]) = 2 THEN ev.out = "throw" \/ n = 1
       ELSE /\ ev.out = "ok"
            /\ LET want == CHOOSE i \in 1..n :
                              /\ \A j \in 1..n : IF ev.op = "min" THEN NumCmp(xs[j], xs[i]) >= 0
                                                                  ELSE NumCmp(xs[j], xs[i]) <= 0
                              /\ \A j \in 1..(i - 1) : NumCmp(xs[j], xs[i]) # 0
               IN SameNum(xs[want], ev.r)

\* (IF, not a disjunction: in an action TLC explores every disjunct, so `ok \/ Report` would
\* print the report even when ok holds)
Chk(ok, ev, exp) == IF ok THEN TRUE ELSE Report(ev, exp)
Step(ev) ==
    CASE ev.ev = "bin" -> LET exp == NumBin(ev.op, ev.a, ev.b) IN Chk(Agrees(exp, ev), ev, exp)
      [] ev.ev = "un" -> LET exp == NumUn(ev.op, ev.a) IN Chk(Agrees(exp, ev), ev, exp)
      [] ev.ev = "fact" -> Chk(ev.out = "ok" /\ FactorizeOk(ev.a.i, ev.fs), ev, [out |-> "factorize"])
      [] ev.ev = "tofloat" -> Chk(FloatConvOk(ev), ev, [out |-> "correctly-rounded"])
      [] ev.ev = "mixed" -> Chk(MixedOk(ev), ev, [out |-> "mixed=float-op-on-converted"])
      [] ev.ev = "fbin" -> Chk(FBinOk(ev), ev, [out |-> "correctly-rounded"])
      [] ev.ev = "sort" -> Chk(SortOk(ev), ev, [out |-> "stable-sorted-permutation"])
      [] ev.ev = "extremum" -> Chk(ExtremumOk(ev), ev, [out |-> "first-extremal"])

Init == l = 1
Next == /\ l <= Len(Rec)
        /\ Step(Rec[l])
        /\ l' = l + 1
Done == l = Len(Rec) + 1 => PrintT("TRACE-END " \o ToString(Len(Rec)))
=============================================================================
